#!/usr/bin/env python3
"""Generates /verif/selftest/cNN.json from the table below. Each variant is a small rewrite of
the CURRENT /repo tree: kind=break must be reported by the property's check (naming expect_key),
kind=benign must leave it silent. Run scripts/check_variants.py afterwards."""
import json, os, collections

V = collections.defaultdict(list)

def v(prop, vid, kind, file, find, replace, expect="", why="", file2=None, find2=None, replace2=None):
    d = {"id": f"{prop}-{vid}", "property": prop, "kind": kind, "file": file, "find": find, "replace": replace}
    if expect: d["expect_key"] = expect
    if why: d["why"] = why
    if file2: d.update({"file2": file2, "find2": find2, "replace2": replace2})
    V[prop].append(d)

# ---------------------------------------------------------------- C01
v("C01", "b1-literal-fallback-bucket-key", "break", "ctx.go",
  "int(c.detectionPath[1])<<8 |", "int(c.detectionPath[1])<<9 |",
  "bucket-key:positions+shifts", "reader and writer of the 3-byte key disagree")
v("C01", "b2-drop-optional-slash-test", "break", "router.go",
  " &&\n\t\t\t\t!(route.routeParser.segs[0].HasOptionalSlash && len(route.routeParser.segs[0].Const) == maxDetectionPaths) {", " {",
  "key-without-optional-slash-test", "reverts the F4 fix")
v("C01", "b3-no-merge-of-global-bucket", "break", "router.go",
  "tsMap[treePart] = uniqueRouteStack(append(tsMap[treePart], tsMap[0]...))", "tsMap[treePart] = uniqueRouteStack(tsMap[treePart])",
  "merge-global-bucket", "global middleware hidden from bucketed paths")
v("C01", "b4-sort-descending", "break", "router.go",
  "return slc[i].pos < slc[j].pos", "return slc[i].pos > slc[j].pos", "sort-comparator", "handlers run in reverse order")
v("C01", "b5-nextCustom-no-mount-skip", "break", "router.go",
  "\t\t// skip for mounted apps\n\t\tif route.mount {\n\t\t\tcontinue\n\t\t}\n\n\t\t// Check if it matches the request path\n\t\tmatch := route.match(c.getDetectionPath(), c.Path(), c.getValues())",
  "\t\t// Check if it matches the request path\n\t\tmatch := route.match(c.getDetectionPath(), c.Path(), c.getValues())",
  "nextCustom:missing:branch:Route.mount", "reverts part of the F6 fix")
v("C01", "b6-405-for-use-routes", "break", "helpers.go",
  "\t\t\t// Skip use routes\n\t\t\tif route.use {\n\t\t\t\tcontinue\n\t\t\t}\n\t\t\t// Check if it matches the request path\n\t\t\tmatch := route.match(c.getDetectionPath(), c.Path(), c.getValues())\n\t\t\t// No match, next route\n\t\t\tif match {\n\t\t\t\t// We matched\n\t\t\t\texists = true\n\t\t\t\t// Add method to Allow header\n\t\t\t\tc.Append(HeaderAllow, methods[i])\n\t\t\t\t// Break stack loop\n\t\t\t\tbreak\n\t\t\t}\n\t\t}\n\t}\n\treturn exists\n}\n\n// Scan stack if other methods match the request\nfunc (app *App) methodExistCustom",
  "\t\t\t// Check if it matches the request path\n\t\t\tmatch := route.match(c.getDetectionPath(), c.Path(), c.getValues())\n\t\t\t// No match, next route\n\t\t\tif match {\n\t\t\t\t// We matched\n\t\t\t\texists = true\n\t\t\t\t// Add method to Allow header\n\t\t\t\tc.Append(HeaderAllow, methods[i])\n\t\t\t\t// Break stack loop\n\t\t\t\tbreak\n\t\t\t}\n\t\t}\n\t}\n\treturn exists\n}\n\n// Scan stack if other methods match the request\nfunc (app *App) methodExistCustom",
  "methodExist", "a Use prefix turns 404 into 405 (default ctx only)")
v("C01", "b7-merge-ignores-use", "break", "router.go",
  "app.stack[m][l-1].Path == route.Path && route.use == app.stack[m][l-1].use && !route.mount", "app.stack[m][l-1].Path == route.Path && !route.mount",
  "merge-needs-equal-use", "a Use and a Get of the same path are merged")
v("C01", "b8-path-override-no-rebase", "break", "ctx.go",
  "\t\tc.rebaseIndexRoute()\n", "", "Path:DefaultCtx.treePathHash", "reverts the F5 fix")
v("C01", "n1-rename-local", "benign", "router.go",
  "lenTree := len(tree) - 1\n\n\t// Loop over the route stack starting from previous index\n\tfor c.indexRoute < lenTree {",
  "last := len(tree) - 1\n\n\t// Loop over the route stack starting from previous index\n\tfor c.indexRoute < last {", why="rename")
v("C01", "n2-key-helper-reorder", "benign", "ctx.go",
  "\t\tc.treePathHash = int(c.detectionPath[0])<<16 |\n\t\t\tint(c.detectionPath[1])<<8 |\n\t\t\tint(c.detectionPath[2])",
  "\t\tc.treePathHash = int(c.detectionPath[2]) |\n\t\t\tint(c.detectionPath[1])<<8 |\n\t\t\tint(c.detectionPath[0])<<16", why="commuted OR operands")

# ---------------------------------------------------------------- C02
v("C02", "b1-literal-fallback", "break", "router.go",
  "\t\treturn r.routeParser.getMatch(detectionPath, path, params, r.use)\n", "\t\tif r.routeParser.getMatch(detectionPath, path, params, r.use) {\n\t\t\treturn true\n\t\t}\n",
  "(*Route).match", "reverts the F1 fix")
v("C02", "b2-constraint-result-ignored", "break", "path.go",
  "\t\t\t\t\tif matched := c.CheckConstraint(params[paramsIterator]); !matched {\n\t\t\t\t\t\treturn false\n\t\t\t\t\t}",
  "\t\t\t\t\tif matched := c.CheckConstraint(params[paramsIterator]); !matched && len(segment.Constraints) > 3 {\n\t\t\t\t\t\treturn false\n\t\t\t\t\t}",
  "CheckConstraint", "failed constraint continues")
v("C02", "b3-skip-constraints-when-last", "break", "path.go",
  "\t\t\tif !(segment.IsOptional && i == 0) {\n\t\t\t\t// check constraint", "\t\t\tif !(segment.IsOptional && i == 0) && !segment.IsGreedy {\n\t\t\t\t// check constraint",
  "params-store", "greedy parameters skip their constraints")
v("C02", "b4-int-constraint-always-true", "break", "path.go",
  "\tcase intConstraint:\n\t\t_, err = strconv.Atoi(param)", "\tcase intConstraint:\n\t\t_, _ = strconv.Atoi(param)",
  "case-2", "int constraint can never reject")
v("C02", "b5-range-needs-one", "break", "path.go",
  "needTwoData := []TypeConstraint{betweenLenConstraint, rangeConstraint}", "needTwoData := []TypeConstraint{betweenLenConstraint}",
  "case-14", "range<> without data indexes Data[1]")
v("C02", "b6-required-empty", "break", "path.go",
  "\t\t\tif !segment.IsOptional && i == 0 {\n\t\t\t\treturn false\n\t\t\t}\n", "", "required-empty", "required parameter may be empty")
v("C02", "b7-last-param-spans-slash", "break", "path.go",
  "\tif !seg.IsGreedy {\n\t\tif i := strings.IndexByte(s, slashDelimiter); i != -1 {\n\t\t\treturn i\n\t\t}\n\t}\n\n\treturn len(s)",
  "\tif !seg.IsGreedy && !seg.IsOptional {\n\t\tif i := strings.IndexByte(s, slashDelimiter); i != -1 {\n\t\t\treturn i\n\t\t}\n\t}\n\n\treturn len(s)",
  "non-greedy-stops-at-slash", "optional named parameter spans '/'")
v("C02", "n1-switch-to-if", "benign", "path.go",
  "\t\t\tif !segment.IsOptional && i == 0 {\n\t\t\t\treturn false\n\t\t\t}\n", "\t\t\tif i == 0 && !segment.IsOptional {\n\t\t\t\treturn false\n\t\t\t}\n", why="commuted condition")
v("C02", "n2-named-result", "benign", "router.go",
  "\t\treturn r.routeParser.getMatch(detectionPath, path, params, r.use)\n", "\t\tok := r.routeParser.getMatch(detectionPath, path, params, r.use)\n\t\treturn ok\n", why="temp variable")

# ---------------------------------------------------------------- C03
v("C03", "b1-rpm-no-trim", "break", "path.go",
  "\tif !config.StrictRouting && len(path) > 1 && path[len(path)-1] == '/' {\n\t\tpath = utils.TrimRight(path, '/')\n\t}\n", "",
  "RoutePatternMatch≡configDependentPaths:path", "reverts the F2 fix")
v("C03", "b2-mount-no-lowercase", "break", "router.go",
  "\tprettyPath := prefixedPath\n\t// Case-sensitive routing, all to lowercase\n\tif !app.config.CaseSensitive {\n\t\tprettyPath = utils.ToLower(prettyPath)\n\t}",
  "\tprettyPath := prefixedPath", "addPrefixToRoute≡register:pattern", "mounted routes keep case")
v("C03", "b3-request-trim-under-wrong-flag", "break", "ctx.go",
  "if !c.app.config.StrictRouting && len(c.detectionPath) > 1 && c.detectionPath[len(c.detectionPath)-1] == '/' {",
  "if !c.app.config.CaseSensitive && len(c.detectionPath) > 1 && c.detectionPath[len(c.detectionPath)-1] == '/' {",
  "configDependentPaths:path:trim@!StrictRouting", "trailing slash trimmed under the wrong flag")
v("C03", "b4-dot-not-delimiter", "break", "path.go",
  "routeDelimiter = []byte{slashDelimiter, '-', '.'}", "routeDelimiter = []byte{slashDelimiter, '-'}", "routeDelimiter", "'.' no longer delimits parameters")
v("C03", "b5-partcount-never-written", "break", "path.go",
  "\t\t\t\t\tsegs[i].PartCount += strings.Count(segs[j].Const, segs[i].ComparePart)", "\t\t\t\t\t_ = strings.Count(segs[j].Const, segs[i].ComparePart)",
  "routeSegment.PartCount", "greedy search metadata missing")
v("C03", "b6-reset-keeps-params", "break", "path.go",
  "\tparser.params = parser.params[:0]\n", "", "routeParser.reset:routeParser.params", "pooled parser keeps params")
v("C03", "n1-lowercase-helper-bytes", "benign", "router.go",
  "\tif !app.config.StrictRouting && len(pathPretty) > 1 {\n\t\tpathPretty = utils.TrimRight(pathPretty, '/')\n\t}",
  "\tif len(pathPretty) > 1 && !app.config.StrictRouting {\n\t\tpathPretty = utils.TrimRight(pathPretty, '/')\n\t}", why="commuted guard")

# ---------------------------------------------------------------- C04
v("C04", "b1-copyroute-forgets-name", "break", "router.go", "\t\tName:     route.Name,\n", "", "copyRoute:Route.Name", "mounted routes lose their name")
v("C04", "b2-prefix-no-params", "break", "router.go",
  "\troute.Params = parseRoute(prefixedPath, constraints...).params\n", "", "addPrefixToRoute:Route.Params", "reverts the F3 fix")
v("C04", "b3-group-second-joiner", "break", "group.go",
  "grp.app.register(methods, getGroupPath(grp.Prefix, path), grp, append([]Handler{handler}, handlers...)...)",
  "grp.app.register(methods, grp.Prefix+path, grp, append([]Handler{handler}, handlers...)...)", "(*Group).Add:register", "second, diverging joiner")
v("C04", "b4-splice-order", "break", "mount.go",
  "\t\t\tcopy(newStack[i:i+len(subRoutes)], subRoutes)\n\t\t\tcopy(newStack[i+len(subRoutes):], app.stack[m][i+1:])",
  "\t\t\tcopy(newStack[i+len(subRoutes):], app.stack[m][i+1:])\n\t\t\tcopy(newStack[i:i+len(subRoutes)], subRoutes)", "splice:sources-and-order", "copy order changed")
v("C04", "b5-no-renumber", "break", "mount.go", "\t\t\t\troute.pos = routePos\n", "\t\t\t\t_ = routePos\n", "renumber-positions", "stale positions after splice")
v("C04", "b6-prefix-mutates-subapp", "break", "mount.go",
  "\t\t\t\tsubAppRouteClone := app.copyRoute(subAppRoute)\n", "\t\t\t\tsubAppRouteClone := subAppRoute\n", "clone-then-prefix", "sub-app's own routes are mutated")
v("C04", "n1-copy-field-order", "benign", "router.go", "\t\tpos: route.pos,\n\n\t\t// Public data\n\t\tPath:     route.Path,\n", "\t\t// Public data\n\t\tPath:     route.Path,\n\t\tpos:      route.pos,\n", why="field order")

# ---------------------------------------------------------------- C05
v("C05", "b1-reset-keeps-baseuri", "break", "ctx.go", "\t// reset base uri\n\tc.baseURI = \"\"\n", "", "pool-reset:DefaultCtx.baseURI", "next request sees previous host")
v("C05", "b2-release-keeps-bind", "break", "ctx.go", "\tc.bind = nil\n\tc.flashMessages", "\tc.flashMessages", "pool-reset:DefaultCtx.bind", "bind object leaks")
v("C05", "b3-matched-not-reset", "break", "ctx.go", "\t// Reset matched flag\n\tc.matched = false\n", "", "pool-reset:DefaultCtx.matched", "404 becomes 405")
v("C05", "b4-redirect-keeps-status", "break", "redirect.go", "\tr.status = 302\n\tr.messages = r.messages[:0]", "\tr.messages = r.messages[:0]", "pool-reset:Redirect.status", "redirect status leaks")
v("C05", "b5-flash-decode-into-reused-slice", "break", "redirect.go",
  "\t\tr.c.flashMessages = append(r.c.flashMessages, msg)\n\t}\n", "\t\tr.c.flashMessages = append(r.c.flashMessages, msg)\n\t}\n\tif cap(r.c.flashMessages) > int(size) {\n\t\tr.c.flashMessages = r.c.flashMessages[:size+1]\n\t}\n",
  "stale-elements:DefaultCtx.flashMessages", "re-extends the truncated slice over stale elements")
v("C05", "b6-releasectx-put-before-release", "break", "ctx_interface.go", "\tc.release()\n\tapp.pool.Put(c)", "\tapp.pool.Put(c)\n\tc.release()", "ReleaseCtx:reset-before-put", "object in pool while being reset")
v("C05", "b7-header-binder-no-reset", "break", "bind.go",
  "\tdefer func() {\n\t\tbind.Reset()\n\t\tbinder.PutToThePool(&binder.HeaderBinderPool, bind)\n\t}()", "\tdefer func() {\n\t\tbinder.PutToThePool(&binder.HeaderBinderPool, bind)\n\t}()", "Bind.Header:reset-before-put", "binder returned dirty")
v("C05", "n1-reset-order", "benign", "ctx.go", "\tc.indexRoute = -1\n\tc.indexHandler = 0\n", "\tc.indexHandler = 0\n\tc.indexRoute = -1\n", why="reordered independent stores")

# ---------------------------------------------------------------- C06
v("C06", "b1-params-unsafe", "break", "ctx.go", "return c.app.getString(utils.UnsafeBytes(c.values[i]))", "return c.values[i]", "accessor:(*DefaultCtx).Params", "reverts the F8 fix")
v("C06", "b2-host-unsafe", "break", "ctx.go", "\treturn c.app.getString(c.fasthttp.Request.URI().Host())\n}", "\treturn utils.UnsafeString(c.fasthttp.Request.URI().Host())\n}", "accessor:(*DefaultCtx).Host", "Host skips the copying conversion")
v("C06", "b3-getreqheaders-unsafe-value", "break", "ctx.go", "\t\tkey := c.app.getString(k)\n\t\theaders[key] = append(headers[key], c.app.getString(v))\n\t})\n\treturn headers\n}\n\n// Host", "\t\tkey := c.app.getString(k)\n\t\theaders[key] = append(headers[key], utils.UnsafeString(v))\n\t})\n\treturn headers\n}\n\n// Host", "accessor:(*DefaultCtx).GetReqHeaders", "map values alias the header buffer")
v("C06", "b4-body-immutable-skipped", "break", "ctx.go", "\tif c.app.config.Immutable {\n\t\treturn utils.CopyBytes(body)\n\t}\n\treturn body", "\treturn body", "accessor:(*DefaultCtx).Body", "decoded body not copied")
v("C06", "n1-copy-explicit", "benign", "ctx.go", "\treturn c.app.getString(c.fasthttp.Request.Header.Protocol())", "\treturn string(c.fasthttp.Request.Header.Protocol())", why="explicit copy instead of getString")

# ---------------------------------------------------------------- C07
v("C07", "b1-custom-guard-via-method", "break", "router.go", "\tif ctx.getMethodInt() == -1 {", "\tif app.methodInt(ctx.Method()) == -1 {", "customRequestHandler:method-guard", "reverts the F6 guard fix")
v("C07", "b2-setcanonical-raw", "break", "ctx.go", "utils.UnsafeBytes(sanitizeHeaderValue(val)))", "utils.UnsafeBytes(val))", "setCanonical:SetCanonical", "reverts part of the F9 fix")
v("C07", "b3-cookie-domain-raw", "break", "ctx.go", "fcookie.SetDomain(sanitizeHeaderValue(cookie.Domain))", "fcookie.SetDomain(cookie.Domain)", "Cookie:SetCookie", "one cookie field left unsanitised")
v("C07", "b4-sanitizer-only-lf", "break", "helpers.go", "\tif strings.IndexByte(val, '\\r') == -1 && strings.IndexByte(val, '\\n') == -1 {\n\t\treturn val\n\t}", "\tif strings.IndexByte(val, '\\n') == -1 {\n\t\treturn val\n\t}", "SetC", "sanitiser no longer excludes CR")
v("C07", "b5-method-sentinel", "break", "ctx.go", "\tif c.methodInt == -1 {\n\t\treturn c.app.getString(c.fasthttp.Request.Header.Method())\n\t}\n", "", "App.method-call", "reverts the F6b fix")
v("C07", "b6-flash-unbounded", "break", "redirect.go", "\tif err != nil || int64(size) > int64(len(rest)) {\n\t\treturn\n\t}\n\n\tfor i := uint32(0); i < size; i++ {", "\tif err != nil {\n\t\treturn\n\t}\n\tr.c.flashMessages = make(redirectionMsgs, 0, size)\n\n\tfor i := uint32(0); i < size; i++ {", "parseAndClearFlashMessages", "allocation sized by the announced count")
v("C07", "b7-error-mapping-default-500", "break", "app.go", "\t\terr = NewError(StatusBadRequest, err.Error())\n\t}\n\n\tif catch := app.ErrorHandler(c, err); catch != nil {\n\t\tlog.Errorf", "\t\terr = NewError(StatusInternalServerError, err.Error())\n\t}\n\n\tif catch := app.ErrorHandler(c, err); catch != nil {\n\t\tlog.Errorf", "serverErrorHandler:mapping", "malformed requests answered with 500")
v("C07", "b8-new-helper-raw-header", "break", "ctx.go", "func (c *DefaultCtx) Location(path string) {\n\tc.setCanonical(HeaderLocation, path)\n}", "func (c *DefaultCtx) Location(path string) {\n\tc.fasthttp.Response.Header.SetBytesV(HeaderLocation, utils.UnsafeBytes(path))\n}", "Location:SetBytesV", "a helper switches to another non-sanitising setter")
v("C07", "n1-sanitizer-bytes-form", "benign", "helpers.go", "\tif strings.IndexByte(val, '\\r') == -1 && strings.IndexByte(val, '\\n') == -1 {\n\t\treturn val\n\t}", "\tif strings.IndexByte(val, '\\n') == -1 && strings.IndexByte(val, '\\r') == -1 {\n\t\treturn val\n\t}", why="commuted tests")
v("C07", "n2-set-instead-of-setcanonical", "benign", "ctx.go", "func (c *DefaultCtx) Location(path string) {\n\tc.setCanonical(HeaderLocation, path)\n}", "func (c *DefaultCtx) Location(path string) {\n\tc.Set(HeaderLocation, path)\n}", why="sanitising setter used instead")
v("C07", "b9-slice-ahead-of-hasprefix", "break", "helpers.go", "\t\t\tqIndex := i + 3\n\t\t\tif bytes.HasPrefix(accept[i:], []byte(\";q=\")) && bytes.IndexByte(accept[qIndex:], ';') == -1 {", "\t\t\tqIndex := i + 3\n\t\t\trest := accept[qIndex:]\n\t\t\tif bytes.HasPrefix(accept[i:], []byte(\";q=\")) && bytes.IndexByte(rest, ';') == -1 {", "offset-access-behind-its-guard", "accept[i+3:] evaluated before HasPrefix proved three more bytes: `Accept: a;` panics")
v("C07", "b10-index-ahead-of-len-guard", "break", "binder/mapping.go", "if i+1 < len(kbytes) && kbytes[i+1] != ']' {", "if kbytes[i+1] != ']' && i+1 < len(kbytes) {", "offset-access-behind-its-guard", "conjuncts swapped: a query key ending in `[` indexes past the end")
v("C07", "n3-len-guard-instead-of-hasprefix", "benign", "helpers.go", "\t\t\tif bytes.HasPrefix(accept[i:], []byte(\";q=\")) && bytes.IndexByte(accept[qIndex:], ';') == -1 {", "\t\t\tif len(accept) >= qIndex && string(accept[i:qIndex]) == \";q=\" && bytes.IndexByte(accept[qIndex:], ';') == -1 {", why="a len comparison bounds the same offset")

# ---------------------------------------------------------------- C08
v("C08", "b1-non-strict-compare", "break", "app.go", "if len(prefix) > mountedPrefixLen || (len(prefix) == mountedPrefixLen && mountPoint < mountedPrefix) {", "if len(prefix) >= mountedPrefixLen || (len(prefix) == mountedPrefixLen && mountPoint < mountedPrefix) {", "strict-injective-key", "non-strict comparison")
v("C08", "b2-no-boundary", "break", "app.go", "\t\tif len(path) > len(prefix) && prefix[len(prefix)-1] != '/' && path[len(prefix)] != '/' {\n\t\t\tcontinue\n\t\t}\n", "", "segment-boundary", "bare HasPrefix")
v("C08", "b3-key-updated-separately", "break", "app.go", "\t\tif subApp.configured.ErrorHandler == nil {\n\t\t\tcontinue\n\t\t}\n\t\tif len(prefix) > mountedPrefixLen || (len(prefix) == mountedPrefixLen && mountPoint < mountedPrefix) {\n\t\t\tmountedErrHandler = subApp.config.ErrorHandler\n",
  "\t\tif len(prefix) > mountedPrefixLen || (len(prefix) == mountedPrefixLen && mountPoint < mountedPrefix) {\n\t\t\tif subApp.configured.ErrorHandler != nil {\n\t\t\t\tmountedErrHandler = subApp.config.ErrorHandler\n\t\t\t}\n", "selection-updated-together", "deeper unconfigured app shadows")
v("C08", "b4-handler-error-swallowed", "break", "router.go", "\t_, err := app.next(ctx)\n\tif err != nil {\n\t\tif catch := ctx.App().ErrorHandler(ctx, err); catch != nil {", "\t_, err := app.next(ctx)\n\tif err != nil && ctx.matched {\n\t\tif catch := ctx.App().ErrorHandler(ctx, err); catch != nil {", "defaultRequestHandler:at-least-once", "404/405 errors never reach a handler")
v("C08", "b5-default-status-200", "break", "app.go", "\tcode := StatusInternalServerError\n\tvar e *Error", "\tcode := StatusOK\n\tvar e *Error", "DefaultErrorHandler:status-source", "plain errors answered 200")
v("C08", "b6-unconfigured-subapp-selected", "break", "app.go", "\t\tif subApp.configured.ErrorHandler == nil {\n\t\t\tcontinue\n\t\t}\n\t\tif len(prefix) > mountedPrefixLen", "\t\tif len(prefix) > mountedPrefixLen", "only-configured-subapps", "sub-app default handler shadows parent's custom one")
v("C08", "n1-path-inside-loop", "benign", "app.go", "\t\tif prefix == \"\" || !strings.HasPrefix(path, prefix) {", "\t\tif len(prefix) == 0 || !strings.HasPrefix(path, prefix) {", why="equivalent emptiness test")

# ---------------------------------------------------------------- C09
v("C09", "b1-specificity-ascending", "break", "helpers.go", "(at[i].quality == at[mid].quality && at[i].specificity < at[mid].specificity) ||", "(at[i].quality == at[mid].quality && at[i].specificity > at[mid].specificity) ||", "insertion-condition", "less specific ranges preferred")
v("C09", "b2-order-ties-reversed", "break", "helpers.go", "len(at[i].params) == len(at[mid].params) && at[i].order > at[mid].order) {", "len(at[i].params) == len(at[mid].params) && at[i].order >= at[mid].order) {", "insertion-condition", "equal elements not stable")
v("C09", "b3-q0-still-candidate", "break", "helpers.go", "\t\t\tif quality == 0.0 {\n\t\t\t\treturn\n\t\t\t}\n", "\t\t\tif quality < 0.0 {\n\t\t\t\treturn\n\t\t\t}\n", "quality", "q=0 selects")
v("C09", "b4-empty-header-returns-empty", "break", "helpers.go", "\tif len(header) == 0 {\n\t\treturn offers[0]\n\t}", "\tif len(header) == 0 {\n\t\treturn \"\"\n\t}", "empty-header", "absent header selects nothing")
v("C09", "b5-pooled-map-not-cleared", "break", "helpers.go", "\t\t\t\tfor k := range params {\n\t\t\t\t\tdelete(params, k)\n\t\t\t\t}\n", "", "pooled-map-cleared", "stale parameters take part in matching")
v("C09", "b6-return-spec-not-offer", "break", "helpers.go", "\t\t\t\tif acceptedType.params != nil {\n\t\t\t\t\theaderParamPool.Put(acceptedType.params)\n\t\t\t\t}\n\t\t\t\treturn offer", "\t\t\t\tif acceptedType.params != nil {\n\t\t\t\t\theaderParamPool.Put(acceptedType.params)\n\t\t\t\t}\n\t\t\t\treturn acceptedType.spec", "getOffer:return", "returns the range text instead of the offer")
v("C09", "n1-reordered-disjuncts", "benign", "helpers.go", "\t\t\tif at[i].quality < at[mid].quality ||\n\t\t\t\t(at[i].quality == at[mid].quality && at[i].specificity < at[mid].specificity) ||", "\t\t\tif (at[i].quality == at[mid].quality && at[i].specificity < at[mid].specificity) ||\n\t\t\t\tat[i].quality < at[mid].quality ||", why="disjuncts reordered: same relation")
v("C09", "n2-clear-builtin", "benign", "helpers.go", "\t\t\t\tfor k := range params {\n\t\t\t\t\tdelete(params, k)\n\t\t\t\t}\n", "\t\t\t\tclear(params)\n", why="the clear builtin empties the pooled map just as the delete loop does")
v("C05", "n2-clear-builtin", "benign", "helpers.go", "\t\t\t\tfor k := range params {\n\t\t\t\t\tdelete(params, k)\n\t\t\t\t}\n", "\t\t\t\tclear(params)\n", why="the clear builtin empties the pooled map just as the delete loop does")

# ---------------------------------------------------------------- C10
v("C10", "b1-host-ungated", "break", "ctx.go", "\tif c.IsProxyTrusted() {\n\t\tif host := c.Get(HeaderXForwardedHost); len(host) > 0 {", "\tif c.IsProxyTrusted() || c.app.config.ProxyHeader != \"\" {\n\t\tif host := c.Get(HeaderXForwardedHost); len(host) > 0 {", "Host:X-Forwarded-Host", "forwarded host read without trust")
v("C10", "b2-scheme-gate-inverted", "break", "ctx.go", "\tif !c.IsProxyTrusted() {\n\t\treturn schemeHTTP\n\t}", "\tif c.IsProxyTrusted() && !c.app.config.TrustProxy {\n\t\treturn schemeHTTP\n\t}", "Scheme:", "scheme headers read for untrusted peers")
v("C10", "b3-private-flag-loopback-pred", "break", "ctx.go", "(c.app.config.TrustProxyConfig.Private && ip.IsPrivate())", "(c.app.config.TrustProxyConfig.Private && ip.IsLoopback())", "Private↔IsPrivate", "flag paired with the wrong predicate")
v("C10", "b4-trust-from-header", "break", "ctx.go", "\tip := c.fasthttp.RemoteIP()\n\n\tif (c.app.config.TrustProxyConfig.Loopback", "\tip := c.fasthttp.RemoteIP()\n\tif c.Get(HeaderXForwardedFor) == \"\" {\n\t\treturn true\n\t}\n\n\tif (c.app.config.TrustProxyConfig.Loopback", "IsProxyTrusted", "trust decision reads a request header")
v("C10", "b5-ipv4-validation-skipped", "break", "ctx.go", "\t\t\tif c.app.config.EnableIPValidation {\n\t\t\t\tif (!v6 && !v4) || (v6 && !utils.IsIPv6(s)) || (v4 && !utils.IsIPv4(s)) {\n\t\t\t\t\tcontinue iploop", "\t\t\tif c.app.config.EnableIPValidation {\n\t\t\t\tif (!v6 && !v4) || (v6 && !utils.IsIPv6(s)) || (v4 && v6 && !utils.IsIPv4(s)) {\n\t\t\t\t\tcontinue iploop", "validated-or-connection", "dotted garbage returned as IP")
v("C10", "b6-secure-from-protocol", "break", "ctx.go", "\treturn c.Scheme() == schemeHTTPS", "\treturn c.Protocol() == schemeHTTPS", "Secure", "reverts the F11 fix")
v("C10", "n1-early-return-form", "benign", "ctx.go", "\tif c.IsProxyTrusted() && len(c.app.config.ProxyHeader) > 0 {\n\t\treturn c.extractIPFromHeader(c.app.config.ProxyHeader)\n\t}\n\n\treturn c.fasthttp.RemoteIP().String()", "\tif !c.IsProxyTrusted() || len(c.app.config.ProxyHeader) == 0 {\n\t\treturn c.fasthttp.RemoteIP().String()\n\t}\n\n\treturn c.extractIPFromHeader(c.app.config.ProxyHeader)", why="inverted early return")

# ---------------------------------------------------------------- C11
v("C11", "b1-tag-renamed", "break", "binder/query.go", "\treturn \"query\"\n", "\treturn \"querystring\"\n", "QueryBinding:parse-tag", "no decoder pool for the tag")
v("C11", "b2-cbor-not-dispatched", "break", "bind.go", "\tcase MIMEApplicationCBOR:\n\t\treturn b.CBOR(out)\n", "", "mime-dispatch", "CBOR bodies answered 422")
v("C11", "b3-error-not-funnelled", "break", "bind.go", "\tif err := b.returnErr(bind.Bind(b.ctx.Request(), out)); err != nil {\n\t\treturn err\n\t}", "\tif err := bind.Bind(b.ctx.Request(), out); err != nil {\n\t\treturn err\n\t}", "Bind.Header:error-through-returnErr", "no 400 with auto handling")
v("C11", "b4-400-in-manual-mode", "break", "bind.go", "\tif err == nil || b.dontHandleErrs {\n\t\treturn err\n\t}", "\tif err == nil {\n\t\treturn err\n\t}", "returnErr", "manual mode changes the status")
v("C11", "b5-bool-kind-dropped", "break", "client/request.go", "\t\tcase reflect.Bool:\n\t\t\tif val.Bool() {\n\t\t\t\tp.Add(name, \"true\")\n\t\t\t} else {\n\t\t\t\tp.Add(name, \"false\")\n\t\t\t}\n", "", "SetValWithStruct:kinds", "bool fields not sent")
v("C11", "b6-latch-removed", "break", "binder/cookie.go", "\t\tif err != nil {\n\t\t\treturn\n\t\t}\n", "", "CookieBinding:visitor-latch", "first error overwritten")
v("C11", "n1-switch-order", "benign", "bind.go", "\tcase MIMEApplicationJSON:\n\t\treturn b.JSON(out)\n\tcase MIMETextXML, MIMEApplicationXML:\n\t\treturn b.XML(out)\n", "\tcase MIMETextXML, MIMEApplicationXML:\n\t\treturn b.XML(out)\n\tcase MIMEApplicationJSON:\n\t\treturn b.JSON(out)\n", why="case order")

# ---------------------------------------------------------------- C12
v("C12", "b1-no-expiry", "break", "redirect.go", "\tr.c.Cookie(&Cookie{\n\t\tName:    FlashCookieName,\n\t\tPath:    \"/\",\n\t\tExpires: fasthttp.CookieExpireDelete,\n\t})\n}", "\t_ = fasthttp.CookieExpireDelete\n}", "expires-cookie", "reverts F7c: the cookie is never expired")
v("C12", "b9-expiry-without-path", "break", "redirect.go", "\tr.c.Cookie(&Cookie{\n\t\tName:    FlashCookieName,\n\t\tPath:    \"/\",\n\t\tExpires: fasthttp.CookieExpireDelete,\n\t})\n}", "\t_ = fasthttp.CookieExpireDelete\n\tr.c.ClearCookie(FlashCookieName)\n}", "expires-cookie", "reverts F26: expiry without the Path the cookie was issued for")
v("C12", "b2-partial-on-error", "break", "redirect.go", "\t\tif rest, err = msg.UnmarshalMsg(rest); err != nil {\n\t\t\tr.c.flashMessages = r.c.flashMessages[:0]\n\t\t\treturn\n\t\t}", "\t\tif rest, err = msg.UnmarshalMsg(rest); err != nil {\n\t\t\treturn\n\t\t}", "error⇒empty", "partial result kept")
v("C12", "b3-unbounded", "break", "redirect.go", "\tif err != nil || int64(size) > int64(len(rest)) {\n\t\treturn\n\t}\n\n\tfor i := uint32(0); i < size; i++ {", "\tif err != nil {\n\t\treturn\n\t}\n\tr.c.flashMessages = make(redirectionMsgs, 0, size)\n\n\tfor i := uint32(0); i < size; i++ {", "parseAndClearFlashMessages", "unbounded allocation")
v("C12", "b4-generated-slice-decoder", "break", "redirect.go", "\tfor i := uint32(0); i < size; i++ {", "\tif size > 1 {\n\t\t_, _ = r.c.flashMessages.UnmarshalMsg(cookieValue)\n\t}\n\tfor i := uint32(0); i < size; i++ {", "stale-elements", "generated decoder on the reused slice again")
v("C12", "b5-prefilter-dropped", "break", "router.go", "\trawHeaders := ctx.Request().Header.RawHeaders()\n\tif len(rawHeaders) > 0 && bytes.Contains(rawHeaders, []byte(FlashCookieName)) {\n\t\tctx.Redirect().parseAndClearFlashMessages()\n\t}\n\n\t// Attempt to match a route and execute the chain\n\t_, err := app.next(ctx)", "\tctx.Redirect().parseAndClearFlashMessages()\n\n\t// Attempt to match a route and execute the chain\n\t_, err := app.next(ctx)", "flash-prefilter", "every request decodes")
v("C12", "b6-release-keeps-messages", "break", "ctx.go", "\tc.flashMessages = c.flashMessages[:0]\n\tc.viewBindMap", "\tc.viewBindMap", "release:empties-flashMessages", "messages survive release")
v("C12", "n1-expiry-maxage-form", "benign", "redirect.go", "\t\tName:    FlashCookieName,\n\t\tPath:    \"/\",\n\t\tExpires: fasthttp.CookieExpireDelete,\n\t})\n}", "\t\tName:    FlashCookieName,\n\t\tPath:    \"/\",\n\t\tMaxAge:  -1,\n\t\tExpires: fasthttp.CookieExpireDelete,\n\t})\n}", why="expiry also states a negative Max-Age")

# ---------------------------------------------------------------- C13
v("C13", "b1-get-before-lock", "break", "middleware/limiter/limiter_fixed.go", "\t\t// Lock entry\n\t\tmux.Lock()\n\n\t\t// Get entry from pool and release when finished\n\t\te := manager.get(key)\n", "\t\t// Get entry from pool and release when finished\n\t\te := manager.get(key)\n\n\t\t// Lock entry\n\t\tmux.Lock()\n", "FixedWindow:", "lost update")
v("C13", "b2-sliding-static-max", "break", "middleware/limiter/limiter_sliding.go", "remaining := maxRequests - rate", "remaining := cfg.Max - rate", "SlidingWindow:reject-compares-MaxFunc", "reverts F12")
v("C13", "b3-unlock-missing-on-reject", "break", "middleware/limiter/limiter_sliding.go", "\t\t// Unlock entry\n\t\tmux.Unlock()\n\n\t\t// Check if hits exceed the cfg.Max\n\t\tif remaining < 0 {", "\t\t// Check if hits exceed the cfg.Max\n\t\tif remaining < 0 {\n\t\t\tmux.Unlock()", "SlidingWindow:", "handler runs under the lock on the admit path")
v("C13", "b4-skip-decrement-other-key", "break", "middleware/limiter/limiter_fixed.go", "\t\t\te = manager.get(key)\n\t\t\te.currHits--\n\t\t\tremaining++\n\t\t\tmanager.set(key, e, cfg.Expiration)", "\t\t\te = manager.get(key)\n\t\t\te.currHits--\n\t\t\tremaining++\n\t\t\tmanager.set(c.IP(), e, cfg.Expiration)", "FixedWindow:", "decrement stored under another key")
v("C13", "b5-no-increment-when-expired", "break", "middleware/limiter/limiter_fixed.go", "\t\t// Increment hits\n\t\te.currHits++\n", "\t\t// Increment hits\n\t\tif ts < e.exp {\n\t\t\te.currHits++\n\t\t}\n", "hit-counted", "first hit of a window not counted")
v("C13", "b6-retry-after-from-config", "break", "middleware/limiter/limiter_fixed.go", "c.Set(fiber.HeaderRetryAfter, strconv.FormatUint(resetInSec, 10))", "c.Set(fiber.HeaderRetryAfter, strconv.FormatUint(expiration, 10))", "Retry-After", "Retry-After is the window length")
v("C13", "n1-defer-free-unlock-order", "benign", "middleware/limiter/limiter_fixed.go", "\t\t// Calculate when it resets in seconds\n\t\tresetInSec := e.exp - ts\n\n\t\t// Set how many hits we have left\n\t\tremaining := maxRequests - e.currHits\n", "\t\t// Set how many hits we have left\n\t\tremaining := maxRequests - e.currHits\n\n\t\t// Calculate when it resets in seconds\n\t\tresetInSec := e.exp - ts\n", why="independent statements swapped")

# ---------------------------------------------------------------- C14
v("C14", "b1-get-before-lock", "break", "middleware/cache/cache.go", "\t\t// Lock entry\n\t\tmux.Lock()\n\n\t\t// Get entry from pool, under the lock: the entry and the expiration heap have to be seen in one consistent state\n\t\te := manager.get(key)\n", "\t\te := manager.get(key)\n\n\t\t// Lock entry\n\t\tmux.Lock()\n", "manager).get", "reverts F13")
v("C14", "b2-store-nocache-status", "break", "middleware/cache/cache.go", "\t\tif !cacheableStatusCodes[c.Response().StatusCode()] {\n\t\t\tc.Set(cfg.CacheHeader, cacheUnreachable)\n\t\t\treturn nil\n\t\t}\n", "\t\tif !cacheableStatusCodes[c.Response().StatusCode()] {\n\t\t\tc.Set(cfg.CacheHeader, cacheUnreachable)\n\t\t}\n", "cacheable-status", "500s are cached")
v("C14", "b3-serve-expired", "break", "middleware/cache/cache.go", "\t\t\tif e.exp != 0 && ts >= e.exp {\n\t\t\t\tdeleteKey(key)", "\t\t\tif e.exp != 0 && ts >= e.exp && cfg.MaxBytes > 0 {\n\t\t\t\tdeleteKey(key)", "not-expired", "expired entries served when MaxBytes is off")
v("C14", "b4-nocache-ignored", "break", "middleware/cache/cache.go", "} else if e.exp != 0 && !hasRequestDirective(c, noCache) {", "} else if e.exp != 0 {", "not-no-cache", "no-cache answered from cache")
v("C14", "b5-accounting-drift", "break", "middleware/cache/cache.go", "\t\t\t\t\t_, size := heap.remove(e.heapidx)\n\t\t\t\t\tstoredBytes -= size", "\t\t\t\t\t_, _ = heap.remove(e.heapidx)", "accounting", "bytes never released")
v("C14", "b6-ctype-not-replayed", "break", "middleware/cache/cache.go", "\t\t\t\tc.Response().Header.SetContentTypeBytes(e.ctype)\n", "", "cache.item.ctype", "content type lost on hit")
v("C14", "b7-next-under-lock", "break", "middleware/cache/cache.go", "\t\t// make sure we're not blocking concurrent requests - do unlock\n\t\tmux.Unlock()\n\n\t\t// Continue stack, return err to Fiber if exist\n\t\tif err := c.Next(); err != nil {\n\t\t\treturn err\n\t\t}", "\t\t// Continue stack, return err to Fiber if exist\n\t\tif err := c.Next(); err != nil {\n\t\t\tmux.Unlock()\n\t\t\treturn err\n\t\t}\n\t\tmux.Unlock()", "Next", "origin handler under the cache lock")
v("C14", "n1-hit-headers-order", "benign", "middleware/cache/cache.go", "\t\t\t\tc.Response().SetBodyRaw(e.body)\n\t\t\t\tc.Response().SetStatusCode(e.status)\n", "\t\t\t\tc.Response().SetStatusCode(e.status)\n\t\t\t\tc.Response().SetBodyRaw(e.body)\n", why="independent setters swapped")
v("C14", "b8-pop-zeroes-slot", "break", "middleware/cache/heap.go", "\th.entries = h.entries[0 : n-1]\n\treturn h.entries[0:n][n-1]", "\tx := h.entries[n-1]\n\th.entries[n-1] = heapEntry{}\n\th.entries = h.entries[0 : n-1]\n\treturn x", "entries-slot-store", "the vacated slot loses the handle that put recycles")
v("C14", "b9-put-handle-from-len", "break", "middleware/cache/heap.go", "\t\tidx = h.entries[:n+1][n].idx", "\t\tidx = n", "put:handle-source", "recycled handle replaced by the slice length: collides with a live handle")
v("C14", "n2-swap-through-temp", "benign", "middleware/cache/heap.go", "\th.entries[i], h.entries[j] = h.entries[j], h.entries[i]", "\ttmp := h.entries[i]\n\th.entries[i] = h.entries[j]\n\th.entries[j] = tmp", why="same permutation written with a temporary")

# ---------------------------------------------------------------- C16
v("C16", "b1-referer-full-url", "break", "middleware/csrf/csrf.go", "referer = refererURL.Scheme + \"://\" + refererURL.Host", "referer = refererURL.String()", "refererMatchesHost", "reverts F14")
v("C16", "b2-put-is-safe", "break", "middleware/csrf/csrf.go", "case fiber.MethodGet, fiber.MethodHead, fiber.MethodOptions, fiber.MethodTrace:", "case fiber.MethodGet, fiber.MethodHead, fiber.MethodOptions, fiber.MethodTrace, fiber.MethodPut:", "method-switch", "PUT bypasses the token")
v("C16", "b3-missing-token-in-store-ok-for-https", "break", "middleware/csrf/csrf.go", "\t\t\tif raw == nil {\n\t\t\t\t// If token is not in storage, expire the cookie", "\t\t\tif raw == nil && c.Scheme() != \"https\" {\n\t\t\t\t// If token is not in storage, expire the cookie", "token-in-store", "forged token passes on https")
v("C16", "b4-cookie-compare-dropped", "break", "middleware/csrf/csrf.go", "if !isFromCookie(cfg.Extractor) && !compareStrings(extractedToken, c.Cookies(cfg.CookieName)) {", "if !isFromCookie(cfg.Extractor) && extractedToken == \"\" {", "cookie-matches", "double submit comparison gone")
v("C16", "b5-single-use-not-consumed", "break", "middleware/csrf/csrf.go", "\t\t\t\tif err := deleteTokenFromStorage(c, extractedToken, cfg, sessionManager, storageManager); err != nil {\n\t\t\t\t\treturn cfg.ErrorHandler(c, err)\n\t\t\t\t}\n\t\t\t} else {", "\t\t\t\ttoken = \"\"\n\t\t\t} else {", "single-use", "single-use token replayable")
v("C16", "b10-consume-error-ignored", "break", "middleware/csrf/csrf.go", "\t\t\t\tif err := deleteTokenFromStorage(c, extractedToken, cfg, sessionManager, storageManager); err != nil {\n\t\t\t\t\treturn cfg.ErrorHandler(c, err)\n\t\t\t\t}\n", "\t\t\t\t_ = deleteTokenFromStorage(c, extractedToken, cfg, sessionManager, storageManager)\n", "failure-rejects", "reverts F36: a token that could not be consumed admits the request")
v("C16", "b6-safe-adopts-unknown-cookie", "break", "middleware/csrf/csrf.go", "\t\t\t\tif raw != nil {\n\t\t\t\t\ttoken = cookieToken // Token is valid, safe to set it\n\t\t\t\t}", "\t\t\t\t_ = raw\n\t\t\t\ttoken = cookieToken // Token is valid, safe to set it", "token-provenance", "client-chosen token gets issued")
v("C16", "b7-origin-error-ignored-when-referer", "break", "middleware/csrf/csrf.go", "\t\t\tif err != nil {\n\t\t\t\treturn cfg.ErrorHandler(c, err)\n\t\t\t}\n\n\t\t\t// Extract token", "\t\t\tif err != nil && !errors.Is(err, ErrRefererNotFound) {\n\t\t\t\treturn cfg.ErrorHandler(c, err)\n\t\t\t}\n\n\t\t\t// Extract token", "origin-or-referer-ok", "https request without referer passes")
v("C16", "n1-if-chain", "benign", "middleware/csrf/csrf.go", "\t\t\tif extractedToken == \"\" {\n\t\t\t\treturn cfg.ErrorHandler(c, ErrTokenNotFound)\n\t\t\t}", "\t\t\tif len(extractedToken) == 0 {\n\t\t\t\treturn cfg.ErrorHandler(c, ErrTokenNotFound)\n\t\t\t}", why="len()==0 instead of == \"\"")

# ---------------------------------------------------------------- C17
v("C17", "b1-no-recheck", "break", "middleware/idempotency/idempotency.go", "\t\t} else if ok {\n\t\t\treturn nil\n\t\t}\n\n\t\t// Execute the request handler", "\t\t} else if ok && false {\n\t\t\treturn nil\n\t\t}\n\n\t\t// Execute the request handler", "recheck-not-cached", "duplicate executes again")
v("C17", "b2-lock-error-ignored", "break", "middleware/idempotency/idempotency.go", "\t\tif err := cfg.Lock.Lock(key); err != nil {\n\t\t\treturn fmt.Errorf(\"failed to lock: %w\", err)\n\t\t}", "\t\tif err := cfg.Lock.Lock(key); err != nil {\n\t\t\tlog.Errorf(\"failed to lock: %v\", err)\n\t\t}", "lock-acquired", "handler runs without the lock")
v("C17", "b3-store-on-error", "break", "middleware/idempotency/idempotency.go", "\t\tif err := c.Next(); err != nil {\n\t\t\t// If the request handler returned an error, return it and skip idempotency\n\t\t\treturn err\n\t\t}", "\t\tif err := c.Next(); err != nil && c.Response().StatusCode() >= 500 {\n\t\t\t// If the request handler returned an error, return it and skip idempotency\n\t\t\treturn err\n\t\t}", "record:only-after-success", "failed execution recorded")
v("C17", "b4-memlock-delete-early", "break", "middleware/idempotency/locker.go", "\tif lock.locked <= 0 {", "\tif lock.locked <= 1 {", "delete-only-when-unused", "entry deleted while a waiter exists")
v("C17", "b5-memlock-block-under-map-mutex", "break", "middleware/idempotency/locker.go", "\tlock.locked++\n\tl.mu.Unlock()\n\n\tlock.mu.Lock()\n", "\tlock.locked++\n\tlock.mu.Lock()\n\tl.mu.Unlock()\n", "key-mutex-not-under-map-mutex", "one busy key blocks all keys")
v("C17", "b6-body-not-copied", "break", "middleware/idempotency/idempotency.go", "\t\t\tBody: utils.CopyBytes(c.Response().Body()),", "\t\t\tBody: c.Response().Body(),", "body-copied", "recorded body aliases the buffer")
v("C17", "b7-headers-set-not-add", "break", "middleware/idempotency/idempotency.go", "c.RequestCtx().Response.Header.Add(header, val)", "c.RequestCtx().Response.Header.Set(header, val)", "headers-additive", "multi-valued headers collapse")
v("C17", "n1-named-unlock", "benign", "middleware/idempotency/locker.go", "\tlock, ok := l.keys[key]\n\tif !ok {\n\t\tlock = new(countedLock)\n\t\tl.keys[key] = lock\n\t}\n\tlock.locked++", "\tlock, found := l.keys[key]\n\tif !found {\n\t\tlock = new(countedLock)\n\t\tl.keys[key] = lock\n\t}\n\tlock.locked++", why="rename")

# ---------------------------------------------------------------- C18
v("C18", "b1-purge-not-stored", "break", "client/cookiejar.go", "\t\t\tcj.hostCookies[utils.CopyString(host)] = cookies\n", "", "getCookiesByHost:store-back", "reverts F15b")
v("C18", "b2-reappend-found", "break", "client/cookiejar.go", "\t\t\tif created {\n\t\t\t\tcookies = append(cookies, c)\n\t\t\t}", "\t\t\tcookies = append(cookies, c)", "found-element-not-reappended", "reverts F15c")
v("C18", "b3-writer-keeps-port", "break", "client/cookiejar.go", "func (cj *CookieJar) SetByHost(host []byte, cookies ...*fasthttp.Cookie) {\n\thost = hostWithoutPort(host)\n", "func (cj *CookieJar) SetByHost(host []byte, cookies ...*fasthttp.Cookie) {\n", "hostCookies-key:SetByHost", "reverts part of F15d")
v("C18", "b4-release-on-cancel-unconditional", "break", "client/core.go", "\t\tif !atomic.CompareAndSwapInt32(&done, 0, 1) {\n\t\t\t// The request already completed and its goroutine owns resp and errCh\n\t\t\t// until it has sent the result: wait for it before releasing them.\n\t\t\t<-errCh\n\t\t}\n", "\t\tatomic.SwapInt32(&done, 1)\n", "release-needs-receive-or-flag", "reverts F15e")
v("C18", "b5-reset-keeps-client", "break", "client/request.go", "\tr.url = \"\"\n\tr.client = nil\n", "\tr.url = \"\"\n", "pool-reset:client.Request.client", "reverts F15f")
v("C18", "b6-client-ua-wins", "break", "client/hooks.go", "\tif c.userAgent != \"\" {\n\t\treq.RawRequest.Header.SetUserAgent(c.userAgent)\n\t}\n\tif req.userAgent != \"\" {\n\t\treq.RawRequest.Header.SetUserAgent(req.userAgent)\n\t}", "\tif req.userAgent != \"\" {\n\t\treq.RawRequest.Header.SetUserAgent(req.userAgent)\n\t}\n\tif c.userAgent != \"\" {\n\t\treq.RawRequest.Header.SetUserAgent(c.userAgent)\n\t}", "SetUserAgent:client-before-request", "client-level user agent overrides")
v("C18", "b7-jar-after-request-cookies", "break", "client/hooks.go", "\t// Set cookies from the cookie jar if available.\n\tif c.cookieJar != nil {\n\t\tc.cookieJar.dumpCookiesToReq(req.RawRequest)\n\t}\n\n\t// Set cookies from the client.\n\tc.cookies.VisitAll(func(key, val string) {\n\t\treq.RawRequest.Header.SetCookie(key, val)\n\t})\n\n\t// Set cookies from the request.\n\treq.cookies.VisitAll(func(key, val string) {\n\t\treq.RawRequest.Header.SetCookie(key, val)\n\t})\n", "\t// Set cookies from the client.\n\tc.cookies.VisitAll(func(key, val string) {\n\t\treq.RawRequest.Header.SetCookie(key, val)\n\t})\n\n\t// Set cookies from the request.\n\treq.cookies.VisitAll(func(key, val string) {\n\t\treq.RawRequest.Header.SetCookie(key, val)\n\t})\n\n\t// Set cookies from the cookie jar if available.\n\tif c.cookieJar != nil {\n\t\tc.cookieJar.dumpCookiesToReq(req.RawRequest)\n\t}\n", "cookies:jar", "jar overrides explicit cookies")
v("C18", "b8-headers-replace", "break", "client/hooks.go", "\t// Merge headers from the request.\n\treq.header.VisitAll(func(key, value []byte) {\n\t\treq.RawRequest.Header.AddBytesKV(key, value)\n\t})", "\t// Merge headers from the request.\n\treq.header.VisitAll(func(key, value []byte) {\n\t\treq.RawRequest.Header.SetBytesKV(key, value)\n\t})", "headers:additive-setter:request", "request headers replace client headers")
v("C18", "b9-jar-unlocked-read", "break", "client/cookiejar.go", "func (cj *CookieJar) getCookiesByHost(host string) []*fasthttp.Cookie {\n\tcj.mu.Lock()\n\tdefer cj.mu.Unlock()\n", "func (cj *CookieJar) getCookiesByHost(host string) []*fasthttp.Cookie {\n", "getCookiesByHost:hostCookies", "map read without the mutex")
v("C18", "n1-timeout-switch", "benign", "client/core.go", "\tif c.req.timeout > 0 {\n\t\tc.ctx, cancel = context.WithTimeout(c.ctx, c.req.timeout)\n\t} else if c.client.timeout > 0 {\n\t\tc.ctx, cancel = context.WithTimeout(c.ctx, c.client.timeout)\n\t}", "\tswitch {\n\tcase c.req.timeout > 0:\n\t\tc.ctx, cancel = context.WithTimeout(c.ctx, c.req.timeout)\n\tcase c.client.timeout > 0:\n\t\tc.ctx, cancel = context.WithTimeout(c.ctx, c.client.timeout)\n\t}", why="if → switch")

# ---------------------------------------------------------------- C19
v("C19", "b1-origin-echoed-without-match", "break", "middleware/cors/cors.go", "\t\tif allowOrigin == \"\" && cfg.AllowOriginsFunc != nil && cfg.AllowOriginsFunc(originHeader) {\n\t\t\tallowOrigin = originHeader\n\t\t}", "\t\tif allowOrigin == \"\" && cfg.AllowOriginsFunc != nil {\n\t\t\tallowOrigin = originHeader\n\t\t}", "allowOrigin-provenance", "any origin echoed when a func is configured")
v("C19", "b2-star-with-credentials", "break", "middleware/cors/cors.go", "\t\tif allowOrigin == \"*\" {\n\t\t\tc.Set(fiber.HeaderAccessControlAllowOrigin, allowOrigin)\n\t\t\tlog.Warn", "\t\tif allowOrigin == \"*\" {\n\t\t\tc.Set(fiber.HeaderAccessControlAllowOrigin, allowOrigin)\n\t\t\tc.Set(fiber.HeaderAccessControlAllowCredentials, \"true\")\n\t\t\tlog.Warn", "star↛credentials", "'*' with credentials")
v("C19", "b3-no-vary-on-simple", "break", "middleware/cors/cors.go", "\t\t\tif !allowAllOrigins {\n\t\t\t\t// See https://fetch.spec.whatwg.org/#cors-protocol-and-http-caches\n\t\t\t\tc.Vary(fiber.HeaderOrigin)\n\t\t\t}\n\t\t\tsetSimpleHeaders", "\t\t\tsetSimpleHeaders", "Vary-Origin", "cache poisoning")
v("C19", "b4-preflight-falls-through", "break", "middleware/cors/cors.go", "\t\t// Send 204 No Content\n\t\treturn c.SendStatus(fiber.StatusNoContent)", "\t\t// Send 204 No Content\n\t\tif allowOrigin == \"\" {\n\t\t\treturn c.Next()\n\t\t}\n\t\treturn c.SendStatus(fiber.StatusNoContent)", "preflight", "preflight reaches the handler")
v("C19", "b5-construction-allows-combo", "break", "middleware/cors/cors.go", "\tif cfg.AllowCredentials && allowAllOrigins {\n\t\tpanic(", "\tif cfg.AllowCredentials && allowAllOrigins && cfg.MaxAge < 0 {\n\t\tpanic(", "refuses-credentials-with-all-origins", "credentials with all origins accepted")
v("C19", "n1-loop-to-slices-contains", "benign", "middleware/cors/cors.go", "\t\t\tfor _, origin := range allowOrigins {\n\t\t\t\tif origin == originHeader {\n\t\t\t\t\tallowOrigin = originHeader\n\t\t\t\t\tbreak\n\t\t\t\t}\n\t\t\t}", "\t\t\tfor idx := range allowOrigins {\n\t\t\t\tif allowOrigins[idx] == originHeader {\n\t\t\t\t\tallowOrigin = originHeader\n\t\t\t\t\tbreak\n\t\t\t\t}\n\t\t\t}", why="index loop")
v("C19", "b6-suffix-drops-dot", "break", "middleware/cors/cors.go", "origin[:i+3] + origin[i+4:]", "origin[:i+3] + origin[i+5:]", "wildcard-split-offsets", "the stored suffix loses its leading dot: evilexample.com matches *.example.com")
v("C19", "b7-suffix-offset-on-normalised", "break", "middleware/cors/cors.go", "suffix: normalizedOrigin[i+3:]}", "suffix: normalizedOrigin[i+4:]}", "wildcard-split-offsets", "suffix starts after the dot")
v("C19", "b8-match-contains", "break", "middleware/cors/utils.go", "strings.HasSuffix(o, s.suffix)", "strings.Contains(o, s.suffix)", "match:requires-HasSuffix", "x.example.com.evil.net matches")
v("C19", "n4-match-no-length-guard", "benign", "middleware/cors/utils.go", "len(o) >= len(s.prefix)+len(s.suffix) && ", "", why="a prefix ending in :// and a suffix starting with . cannot overlap: the length test is implied")
v("C19", "n2-match-strictly-longer", "benign", "middleware/cors/utils.go", "len(o) >= len(s.prefix)+len(s.suffix)", "len(o) > len(s.prefix)+len(s.suffix)", why="requiring at least one character for the wildcard allows fewer origins")
v("C19", "n3-literal-as-constant", "benign", "middleware/cors/cors.go", "if i := strings.Index(origin, \"://*.\"); i != -1 {", "const wildcardMark = \"://*.\"\n\t\tif i := strings.Index(origin, wildcardMark); i != -1 {", why="the literal moved into a named constant")

# ---------------------------------------------------------------- C20
v("C20", "b1-rewrite-inside-visitor", "break", "middleware/encryptcookie/encryptcookie.go", "\t\t\tif !isDisabled(keyString, cfg.Except) && !isDisabled(keyString, names) {\n\t\t\t\tnames = append(names, keyString)\n\t\t\t}", "\t\t\tif !isDisabled(keyString, cfg.Except) && !isDisabled(keyString, names) {\n\t\t\t\tnames = append(names, keyString)\n\t\t\t} else if !isDisabled(keyString, cfg.Except) {\n\t\t\t\tc.Request().Header.SetCookie(keyString, \"\")\n\t\t\t}", "VisitAllCookie-closure", "by-name rewrite inside the visitor again")
v("C20", "b2-decrypt-error-keeps-value", "break", "middleware/encryptcookie/encryptcookie.go", "\t\t\tif err != nil {\n\t\t\t\tc.Request().Header.SetCookie(name, \"\")\n\t\t\t} else {", "\t\t\tif err != nil {\n\t\t\t\tc.Request().Header.SetCookie(name, value)\n\t\t\t} else {", "request-rewrite", "tampered cookie passed through")
v("C20", "b3-encrypt-error-logged", "break", "middleware/encryptcookie/encryptcookie.go", "\t\t\t\t\tif err != nil {\n\t\t\t\t\t\tpanic(err)\n\t\t\t\t\t}", "\t\t\t\t\tif err != nil {\n\t\t\t\t\t\treturn\n\t\t\t\t\t}", "encryptor-error", "plaintext cookie sent when encryption fails")
v("C20", "b4-nonce-not-random", "break", "middleware/encryptcookie/utils.go", "\tif _, err = io.ReadFull(rand.Reader, nonce); err != nil {\n\t\treturn \"\", fmt.Errorf(\"failed to read nonce: %w\", err)\n\t}\n", "\t_, _ = io.ReadFull(rand.Reader, nonce)\n", "EncryptCookie:nonce", "unchecked randomness")
v("C20", "b5-open-error-returns-raw", "break", "middleware/encryptcookie/utils.go", "\tif err != nil {\n\t\treturn \"\", fmt.Errorf(\"failed to decrypt ciphertext: %w\", err)\n\t}", "\tif err != nil {\n\t\treturn value, fmt.Errorf(\"failed to decrypt ciphertext: %w\", err)\n\t}", "plaintext-only-from-Open", "unauthenticated text returned")
v("C20", "b6-handler-before-decrypt", "break", "middleware/encryptcookie/encryptcookie.go", "\t\tvar names []string\n", "\t\tif c.Method() == fiber.MethodOptions {\n\t\t\treturn c.Next()\n\t\t}\n\t\tvar names []string\n", "response-visitor-after-Next", "OPTIONS skips both directions")
v("C20", "n1-names-prealloc", "benign", "middleware/encryptcookie/encryptcookie.go", "\t\tvar names []string\n", "\t\tnames := make([]string, 0, 4)\n", why="preallocated slice")


# ---------------------------------------------------------------- rules added after the seeded changes
v("C01", "b9-append-in-place", "break", "router.go",
  "preRoute.Handlers = append(preRoute.Handlers[:len(preRoute.Handlers):len(preRoute.Handlers)], route.Handlers...)", "preRoute.Handlers = append(preRoute.Handlers, route.Handlers...)",
  "append-to-Route.Handlers", "reverts the F17 fix")
v("C02", "b8-constraint-on-folded-copy", "break", "path.go",
  "if matched := c.CheckConstraint(params[paramsIterator]); !matched {", "if matched := c.CheckConstraint(detectionPath[:i]); !matched {",
  "argument-is-captured-value", "constraints judged on the case-folded copy")
v("C03", "b7-fold-before-unescape", "break", "path.go",
  "\t// Decode the path like the request path is decoded\n\tif config.UnescapePath {\n\t\tpath = string(fasthttp.AppendUnquotedArg(nil, []byte(path)))\n\t}\n\t// Case-sensitive routing, all to lowercase\n\tif !config.CaseSensitive {\n\t\tpatternPretty = utils.ToLowerBytes(patternPretty)\n\t\tpath = utils.ToLower(path)\n\t}\n",
  "\t// Case-sensitive routing, all to lowercase\n\tif !config.CaseSensitive {\n\t\tpatternPretty = utils.ToLowerBytes(patternPretty)\n\t\tpath = utils.ToLower(path)\n\t}\n\t// Decode the path like the request path is decoded\n\tif config.UnescapePath {\n\t\tpath = string(fasthttp.AppendUnquotedArg(nil, []byte(path)))\n\t}\n",
  "path-order", "lower-casing before percent-decoding")
v("C04", "b7-join-normalised-path", "break", "router.go",
  "prefixedPath := getGroupPath(prefix, route.Path)", "prefixedPath := getGroupPath(prefix, route.path)", "joins-raw-pattern", "sub-app normalisation baked into the mounted route")
v("C05", "b8-pooled-accept-map-dirty", "break", "helpers.go",
  "\t\t\t\tfor k := range params {\n\t\t\t\t\tdelete(params, k)\n\t\t\t\t}\n", "", "pooled-map-cleared", "Accept parameters leak between requests")
v("C10", "b7-validator-on-tail", "break", "ctx.go",
  "\t\t\tif c.app.config.EnableIPValidation {\n\t\t\t\tif (!v6 && !v4) || (v6 && !utils.IsIPv6(s)) || (v4 && !utils.IsIPv4(s)) {\n\t\t\t\t\tcontinue iploop",
  "\t\t\tif c.app.config.EnableIPValidation {\n\t\t\t\tif (!v6 && !v4) || (v6 && !v4 && !utils.IsIPv6(s)) || (v4 && !utils.IsIPv4(s[strings.LastIndexByte(s, ':')+1:])) {\n\t\t\t\t\tcontinue iploop",
  "judges-returned-value", "validator applied to the tail only")
v("C10", "n2-trust-helper-extraction", "benign", "ctx.go",
  "\tip := c.fasthttp.RemoteIP()\n\n\tif (c.app.config.TrustProxyConfig.Loopback && ip.IsLoopback()) ||\n\t\t(c.app.config.TrustProxyConfig.Private && ip.IsPrivate()) ||\n\t\t(c.app.config.TrustProxyConfig.LinkLocal && ip.IsLinkLocalUnicast()) {\n\t\treturn true\n\t}\n",
  "\tip := c.fasthttp.RemoteIP()\n\n\tif c.app.peerInTrustedClass(ip) {\n\t\treturn true\n\t}\n",
  why="class test moved into a helper",
  file2="helpers.go", find2="// defaultString returns the value or a default value if it is set\n",
  replace2="func (app *App) peerInTrustedClass(ip net.IP) bool {\n\tif app.config.TrustProxyConfig.Loopback && ip.IsLoopback() {\n\t\treturn true\n\t}\n\tif app.config.TrustProxyConfig.Private && ip.IsPrivate() {\n\t\treturn true\n\t}\n\tif app.config.TrustProxyConfig.LinkLocal && ip.IsLinkLocalUnicast() {\n\t\treturn true\n\t}\n\treturn false\n}\n\n// defaultString returns the value or a default value if it is set\n")
v("C11", "b7-uint-through-formatint", "break", "client/request.go",
  "p.Add(name, strconv.FormatUint(val.Uint(), 10))", "p.Add(name, strconv.FormatInt(int64(val.Uint()), 10))", "formatter", "uint64 above MaxInt64 sent negative")
v("C12", "b7-with-overwrites-old-input", "break", "redirect.go",
  "\tfor i, msg := range r.messages {\n\t\tif msg.key == key && !msg.isOldInput {", "\tfor i, msg := range r.messages {\n\t\tif msg.key == key {", "overrides-only-flash-entries", "flash message overwrites old input")
v("C16", "b8-session-key-not-compared", "break", "middleware/csrf/session_manager.go",
  "key != token.Key || !compareTokens(raw, token.Raw)", "key != token.Key && !compareTokens(raw, token.Raw)", "sessionManager.getRaw:key-equal", "forged token passes with a live session")
v("C18", "b10-release-found-cookie", "break", "client/cookiejar.go",
  "\t\t} else if created {\n\t\t\tfasthttp.ReleaseCookie(c)\n\t\t}", "\t\t} else {\n\t\t\tfasthttp.ReleaseCookie(c)\n\t\t}", "found-element-not-released", "referenced cookie released to the pool")
v("C18", "b11-store-under-unsafe-key", "break", "client/cookiejar.go",
  "\thostCookies := cj.hostCookies[hostStr]\n\thostStr = string(host)\n", "\thostCookies := cj.hostCookies[hostStr]\n", "hostCookies-store-key:SetByHost", "stored key aliases the caller's buffer")

# ---------------------------------------------------------------- second strengthening round (rules for the six value-level misses)
v("C03", "b8-greedy-first-byte", "break", "path.go", "constPosition := strings.LastIndex(s, segment.ComparePart)", "constPosition := strings.LastIndexByte(s, segment.ComparePart[0])", "byte-search-needs-one-byte-constant", "greedy value cut at any occurrence of the first byte")
v("C03", "b9-one-byte-guard-dropped", "break", "path.go", "\tif len(segment.ComparePart) == 1 {\n\t\tif constPosition := strings.IndexByte(s, segment.ComparePart[0]); constPosition != -1 {", "\tif len(segment.ComparePart) >= 1 {\n\t\tif constPosition := strings.IndexByte(s, segment.ComparePart[0]); constPosition != -1 {", "byte-search-needs-one-byte-constant", "first-byte fast path taken for longer constants")
v("C03", "n2-one-byte-guard-negated", "benign", "path.go", "\tif len(segment.ComparePart) == 1 {\n\t\tif constPosition := strings.IndexByte(s, segment.ComparePart[0]); constPosition != -1 {", "\tif !(len(segment.ComparePart) != 1) {\n\t\tif constPosition := strings.IndexByte(s, segment.ComparePart[0]); constPosition != -1 {", why="same guard written as a negated inequality")


v("C09", "b7-q-fast-path-unguarded", "break", "helpers.go", "if bytes.HasPrefix(accept[i:], []byte(\";q=\")) && bytes.IndexByte(accept[qIndex:], ';') == -1 {", "if bytes.HasPrefix(accept[i:], []byte(\";q=\")) {", "q-value-delimited", "`;q=0;level=1` keeps q=1")
v("C09", "n3-q-rest-named", "benign", "helpers.go", "\t\t\t\tif q, err := fasthttp.ParseUfloat(accept[qIndex:]); err == nil {", "\t\t\t\trest := accept[qIndex:]\n\t\t\t\tif q, err := fasthttp.ParseUfloat(rest); err == nil {", why="the guarded slice gets a name")

v("C11", "b8-items-trimmed", "break", "binder/mapping.go", "\t\t\tdata[key] = append(data[key], values[i])", "\t\t\tdata[key] = append(data[key], strings.TrimSpace(values[i]))", "verbatim", "elements lose leading/trailing blanks")
v("C11", "b9-value-lowercased", "break", "binder/mapping.go", "\t\tdata[key] = append(data[key], value)\n\t}\n}", "\t\tdata[key] = append(data[key], strings.ToLower(value))\n\t}\n}", "verbatim", "values are case-folded")
v("C11", "n2-split-range-loop", "benign", "binder/mapping.go", "\t\tfor i := 0; i < len(values); i++ {\n\t\t\tdata[key] = append(data[key], values[i])\n\t\t}", "\t\tfor _, item := range values {\n\t\t\tdata[key] = append(data[key], item)\n\t\t}", why="range loop instead of index loop")
v("C11", "n3-guard-dropped", "benign", "binder/mapping.go", "if enableSplitting && strings.Contains(value, \",\") && equalFieldType(out, reflect.Slice, key) {", "if enableSplitting && equalFieldType(out, reflect.Slice, key) {", why="Split of a comma-free value returns the value itself")

# ---------------------------------------------------------------- larger behaviour-preserving refactors (false-alarm probes)
v("C13", "n2-critical-section-in-closure", "benign", "middleware/limiter/limiter_fixed.go",
  "\t\t// Lock entry\n\t\tmux.Lock()\n\n\t\t// Get entry from pool and release when finished\n\t\te := manager.get(key)\n",
  "\t\tvar e *item\n\t\tvar resetInSec uint64\n\t\tvar remaining int\n\t\tfunc() {\n\t\tmux.Lock()\n\t\tdefer mux.Unlock()\n\t\te = manager.get(key)\n",
  why="critical section moved into an immediately invoked closure with a deferred unlock",
  file2="middleware/limiter/limiter_fixed.go",
  find2="\t\t// Calculate when it resets in seconds\n\t\tresetInSec := e.exp - ts\n\n\t\t// Set how many hits we have left\n\t\tremaining := maxRequests - e.currHits\n\n\t\t// Update storage\n\t\tmanager.set(key, e, cfg.Expiration)\n\n\t\t// Unlock entry\n\t\tmux.Unlock()\n\n\t\t// Check if hits exceed the max",
  replace2="\t\tresetInSec = e.exp - ts\n\t\tremaining = maxRequests - e.currHits\n\t\tmanager.set(key, e, cfg.Expiration)\n\t\t}()\n\n\t\t// Check if hits exceed the max")

# ---------------------------------------------------------------- rules added after the second round of seeded changes
v("C14", "b10-scratch-buffer-to-storage", "break", "middleware/cache/manager.go",
  "\tpool    sync.Pool\n\tmemory  *memory.Storage\n\tstorage fiber.Storage\n}", "\tpool    sync.Pool\n\tmemory  *memory.Storage\n\tstorage fiber.Storage\n\tbuf     []byte\n}",
  "fresh-bytes", "one scratch buffer is handed to every Storage.Set",
  file2="middleware/cache/manager.go", find2="\t\tif raw, err := it.MarshalMsg(nil); err == nil {\n", replace2="\t\tif raw, err := it.MarshalMsg(m.buf[:0]); err == nil {\n\t\t\tm.buf = raw\n")
v("C14", "n3-marshal-into-named-local", "benign", "middleware/cache/manager.go", "\t\tif raw, err := it.MarshalMsg(nil); err == nil {\n\t\t\t_ = m.storage.Set(key, raw, exp)", "\t\tencoded, err := it.MarshalMsg(nil)\n\t\tif err == nil {\n\t\t\t_ = m.storage.Set(key, encoded, exp)", why="same fresh allocation, different local name and statement form")
v("C15", "b8-id-view-of-header", "break", "middleware/session/store.go", "\t\tid = string(c.Request().Header.Peek(s.sessionName))", "\t\tid = c.Get(s.sessionName)", "private-copy", "the id aliases the request header buffer")
v("C15", "n3-id-explicit-copy", "benign", "middleware/session/store.go", "\t\tid = string(c.Request().Header.Peek(s.sessionName))", "\t\tid = utils.CopyString(c.Get(s.sessionName))", why="explicit copy instead of the conversion")
v("C16", "b9-store-session-delete-not-saved", "break", "middleware/csrf/session_manager.go", "\tstoreSess.Delete(sessionKey)\n\tif err := storeSess.Save(); err != nil {\n\t\tlog.Warn(\"csrf: failed to save session: \", err)\n\t\treturn err //nolint:wrapcheck // the store's error is the caller's error\n\t}\n\treturn nil\n}", "\tstoreSess.Delete(sessionKey)\n\treturn nil\n}", "Delete-then-Save", "a deleted token stays in the store")
v("C16", "n2-save-error-named", "benign", "middleware/csrf/session_manager.go", "\tstoreSess.Delete(sessionKey)\n\tif err := storeSess.Save(); err != nil {\n\t\tlog.Warn(\"csrf: failed to save session: \", err)\n\t\treturn err //nolint:wrapcheck // the store's error is the caller's error\n\t}\n\treturn nil\n}", "\tstoreSess.Delete(sessionKey)\n\tsaveErr := storeSess.Save()\n\tif saveErr != nil {\n\t\tlog.Warn(\"csrf: failed to save session: \", saveErr)\n\t}\n\treturn saveErr\n}", why="same call, error in a named local")
v("C17", "b8-default-next-idempotent-methods", "break", "middleware/idempotency/config.go", "return fiber.IsMethodSafe(c.Method())", "return fiber.IsMethodIdempotent(c.Method())", "safe-methods-only", "PUT/DELETE bypass the middleware")
v("C17", "n2-default-next-if-form", "benign", "middleware/idempotency/config.go", "\t\treturn fiber.IsMethodSafe(c.Method())", "\t\tif fiber.IsMethodSafe(c.Method()) {\n\t\t\treturn true\n\t\t}\n\t\treturn false", why="same predicate written with an if")
v("C19", "b10-normalize-drops-port", "break", "middleware/cors/utils.go", "return true, strings.ToLower(parsedOrigin.Scheme + \"://\" + parsedOrigin.Host)", "return true, strings.ToLower(parsedOrigin.Scheme + \"://\" + strings.TrimSuffix(parsedOrigin.Host, \":443\"))", "scheme-and-host-verbatim", "the port is cut off whatever the scheme")
v("C19", "n5-normalize-host-local", "benign", "middleware/cors/utils.go", "\treturn true, strings.ToLower(parsedOrigin.Scheme + \"://\" + parsedOrigin.Host)", "\thost := parsedOrigin.Host\n\treturn true, strings.ToLower(parsedOrigin.Scheme + \"://\" + host)", why="host in a local variable")
v("C20", "b7-names-case-folded", "break", "middleware/encryptcookie/utils.go", "\t\tif key == k {", "\t\tif strings.EqualFold(key, k) {", "exact-name-match", "names differing in case are treated as one", 
  file2="middleware/encryptcookie/utils.go", find2="import (\n", replace2="import (\n\t\"strings\"\n")
v("C20", "n2-names-slices-contains", "benign", "middleware/encryptcookie/utils.go", "\tfor _, k := range except {\n\t\tif key == k {\n\t\t\treturn true\n\t\t}\n\t}\n\n\treturn false", "\treturn slices.Contains(except, key)", why="slices.Contains performs the same ordered == comparison",
  file2="middleware/encryptcookie/utils.go", find2="import (\n", replace2="import (\n\t\"slices\"\n")

v("C20", "b8-visitor-not-deferred", "break", "middleware/encryptcookie/encryptcookie.go", "\t\tdefer c.Response().Header.VisitAllCookie(func(key, _ []byte) {", "\tc.Response().Header.VisitAllCookie(func(key, _ []byte) {", "response-visitor", "the pass runs before the chain: nothing the handlers set is encrypted")
v("C20", "n3-deferred-block", "benign", "middleware/encryptcookie/encryptcookie.go", "\t\tdefer c.Response().Header.VisitAllCookie(func(key, _ []byte) {", "\t\tdefer func() {\n\t\tc.Response().Header.VisitAllCookie(func(key, _ []byte) {", why="the pass is wrapped in a deferred function literal", file2="middleware/encryptcookie/encryptcookie.go", find2="\t\t})\n\n\t\t// Continue stack\n\t\treturn c.Next()", replace2="\t\t})\n\t\t}()\n\n\t\t// Continue stack\n\t\treturn c.Next()")

v("C04", "b9-mount-reparse-parent-constraints-only", "break", "router.go", "\tif own := constraintsOf(route); len(own) > 0 {\n\t\tconstraints = append(append(make([]CustomConstraint, 0, len(constraints)+len(own)), constraints...), own...)\n\t}\n", "\t_ = constraintsOf\n", "route-constraints", "reverts F37: sub-app constraints dropped on mount")
v("C02", "b9-star-decided-after-unescape", "break", "router.go", "\t\tisStar := pathPretty == \"/*\"", "\t\tisStar := pathClean == \"/*\"", "decided-on-escaped-pattern", "reverts F38")
v("C08", "b8-error-handler-exact-prefix", "break", "app.go", "\tif !app.config.CaseSensitive {\n\t\tpath = utils.ToLower(path)\n\t}\n", "", "case-folding-like-routing", "reverts half of F39: the path is not folded")

v("C15", "b9-reset-without-new-deadline", "break", "middleware/session/session.go", "\tif s.config.AbsoluteTimeout > 0 {\n\t\ts.setAbsExpiration(time.Now().Add(s.config.AbsoluteTimeout))\n\t}\n\n\treturn nil\n}\n\n// refresh generates", "\treturn nil\n}\n\n// refresh generates", "wipe-then-new-deadline", "reverts F33")
v("C13", "b9-sliding-skip-ttl", "break", "middleware/limiter/limiter_sliding.go", "\t\t\tmanager.set(key, e, time.Duration(resetInSec+expiration)*time.Second) //nolint:gosec // Not a concern\n\t\t\t// Unlock entry", "\t\t\tmanager.set(key, e, cfg.Expiration)\n\t\t\t// Unlock entry", "lifetime-covers-next-window", "reverts F23")
v("C13", "b10-default-config-as-is", "break", "middleware/limiter/config.go", "\tcfg := ConfigDefault\n\n\t// Override default config\n\tif len(config) > 0 {\n\t\tcfg = config[0]\n\t}\n", "\tif len(config) < 1 {\n\t\treturn ConfigDefault\n\t}\n\tcfg := config[0]\n", "config-function:MaxFunc", "reverts F22")
v("C10", "b8-proxy-keyed-as-written", "break", "app.go", "app.config.TrustProxyConfig.ips[ip.String()] = struct{}{}", "app.config.TrustProxyConfig.ips[ipAddress] = struct{}{}", "key-agreement", "reverts F24")
v("C07", "b11-clearcookie-raw-name", "break", "ctx.go", "c.fasthttp.Response.Header.DelClientCookie(sanitizeHeaderValue(key[i]))", "c.fasthttp.Response.Header.DelClientCookie(key[i])", "DelClientCookie", "reverts half of F27")
v("C07", "b12-too-many-params-accepted", "break", "router.go", "\tcheckParamCount(pathRaw, parsedPretty.params)\n", "", "parameter-count-checked", "reverts F21 at registration")
v("C09", "b8-range-not-right-trimmed", "break", "helpers.go", "\t\tfunctor(mediaRange)\n", "\t\tfunctor(header[:n])\n", "right-trimmed", "reverts F28")
v("C18", "b13-path-params-in-map-order", "break", "client/request.go", "\tfor _, k := range keys {\n\t\tf(k, p[k])\n\t}\n}", "\tfor _, k := range keys {\n\t\t_ = k\n\t}\n\tfor k, v := range p {\n\t\tf(k, v)\n\t}\n}", "VisitAll:ordered", "reverts F30")
v("C14", "b11-store-adds-instead-of-replacing", "break", "middleware/cache/cache.go", "\t\t\tif old := manager.get(key); old != nil && old.exp != 0 {\n\t\t\t\t_, size := heap.remove(old.heapidx)\n\t\t\t\tstoredBytes -= size\n\t\t\t}\n", "", "replaces-existing-entry", "reverts F34")
v("C06", "b5-accept-header-folded-in-place", "break", "helpers.go", "lowerKey := utils.ToLower(utils.UnsafeString(key))", "lowerKey := utils.UnsafeString(utils.ToLowerBytes(key))", "private-buffer", "reverts F18")


# ---------------------------------------------------------------- round 3: reverts of F40–F46 and variants of the rules added with them
v("C10", "b9-ranges-not-reset", "break", "app.go", "\tapp.config.TrustProxyConfig.ranges = nil\n", "", "fresh-ranges", "reverts F40")
v("C10", "n6-ranges-fresh-slice", "benign", "app.go", "\tapp.config.TrustProxyConfig.ranges = nil\n", "\tapp.config.TrustProxyConfig.ranges = make([]*net.IPNet, 0, len(app.config.TrustProxyConfig.Proxies))\n", why="a fresh slice instead of nil")
v("C07", "b13-fs-compared-with-neq", "break", "ctx.go", "\tif !sameFS(sf.config.FS, cfg.FS) {", "\tif sf.config.FS != cfg.FS {", "interface-comparison-may-panic", "reverts F44")
v("C01", "b10-root-use-needs-leading-slash", "break", "router.go", "\t\t\t// If r.root is '/', it matches everything: a detection path starts at '/' or is empty\n\t\t\t// (a path of slashes only, all of them trimmed as trailing slashes)\n\t\t\treturn true\n\t\t}\n", "\t\t\tif len(detectionPath) > 0 && detectionPath[0] == '/' {\n\t\t\t\treturn true\n\t\t\t}\n\t\t}\n", "matches-everything", "reverts F43")
v("C14", "b12-invalidator-on-absent-entry", "break", "middleware/cache/cache.go", "if cfg.CacheInvalidator != nil && e.exp != 0 && cfg.CacheInvalidator(c) {", "if cfg.CacheInvalidator != nil && cfg.CacheInvalidator(c) {", "exp-written-only-for-present-entry", "reverts F41")
v("C14", "n7-invalidator-nested-presence-test", "benign", "middleware/cache/cache.go", "\t\t\tif cfg.CacheInvalidator != nil && e.exp != 0 && cfg.CacheInvalidator(c) {\n\t\t\t\te.exp = ts - 1\n\t\t\t}\n", "\t\t\tif e.exp != 0 {\n\t\t\t\tif cfg.CacheInvalidator != nil && cfg.CacheInvalidator(c) {\n\t\t\t\t\te.exp = ts - 1\n\t\t\t\t}\n\t\t\t}\n", why="the presence test encloses the invalidator")
v("C14", "b13-directive-case-sensitive", "break", "middleware/cache/cache.go", "strings.Contains(utils.ToLower(c.Get(fiber.HeaderCacheControl)), directive)", "strings.Contains(c.Get(fiber.HeaderCacheControl), directive)", "case-folded", "reverts F42")
v("C14", "n8-directive-strings-tolower", "benign", "middleware/cache/cache.go", "strings.Contains(utils.ToLower(c.Get(fiber.HeaderCacheControl)), directive)", "strings.Contains(strings.ToLower(c.Get(fiber.HeaderCacheControl)), directive)", why="the standard library's fold")
v("C05", "b10-adaptor-keeps-user-values", "break", "middleware/adaptor/adaptor.go", "\t\tfctx.ResetUserValues() // c.Locals of the request that used this context before\n", "", "resets-user", "reverts F45")
v("C05", "n7-adaptor-resets-reordered", "benign", "middleware/adaptor/adaptor.go", "\t\tfctx.Response.Reset()\n\t\tfctx.Request.Reset()\n\t\tfctx.ResetUserValues() // c.Locals of the request that used this context before\n", "\t\tfctx.ResetUserValues()\n\t\tfctx.Request.Reset()\n\t\tfctx.Response.Reset()\n", why="the three resets in another order")
v("C15", "b10-locals-key-shared-by-stores", "break", "middleware/session/store.go", "\tid, ok := c.Locals(sessionIDKey{store: s}).(string)", "\tid, ok := c.Locals(sessionIDKey{}).(string)", "per-store", "reverts F46 on the reading side", file2="middleware/session/store.go", find2="\t\tc.Locals(sessionIDKey{store: s}, id)", replace2="\t\tc.Locals(sessionIDKey{}, id)")
v("C19", "n6-split-with-cut-keeps-separator", "benign", "middleware/cors/cors.go", "\t\t\tsd := subdomain{prefix: normalizedOrigin[:i+3], suffix: normalizedOrigin[i+3:]}\n", "\t\t\tscheme, host, _ := strings.Cut(normalizedOrigin, \"://\")\n\t\t\tsd := subdomain{prefix: scheme + \"://\", suffix: host}\n", why="the split written with strings.Cut, the separator put back")
v("C19", "n7-preflight-headers-empty-test-first", "benign", "middleware/cors/cors.go", "\t\tif len(cfg.AllowHeaders) > 0 {\n\t\t\tc.Set(fiber.HeaderAccessControlAllowHeaders, strings.Join(cfg.AllowHeaders, \", \"))\n\t\t} else {\n\t\t\th := c.Get(fiber.HeaderAccessControlRequestHeaders)\n\t\t\tif h != \"\" {\n\t\t\t\tc.Set(fiber.HeaderAccessControlAllowHeaders, h)\n\t\t\t}\n\t\t}\n", "\t\tif len(cfg.AllowHeaders) == 0 {\n\t\t\tif h := c.Get(fiber.HeaderAccessControlRequestHeaders); h != \"\" {\n\t\t\t\tc.Set(fiber.HeaderAccessControlAllowHeaders, h)\n\t\t\t}\n\t\t} else {\n\t\t\tc.Set(fiber.HeaderAccessControlAllowHeaders, strings.Join(cfg.AllowHeaders, \", \"))\n\t\t}\n", why="the branches swapped")
v("C20", "n4-names-start-as-copy-of-except", "benign", "middleware/encryptcookie/encryptcookie.go", "\t\tvar names []string\n\t\tc.Request().Header.VisitAllCookie(func(key, _ []byte) {\n\t\t\tkeyString := string(key)\n\t\t\tif !isDisabled(keyString, cfg.Except) && !isDisabled(keyString, names) {\n\t\t\t\tnames = append(names, keyString)\n\t\t\t}\n\t\t})\n\t\tfor _, name := range names {", "\t\tnames := append([]string(nil), cfg.Except...)\n\t\tc.Request().Header.VisitAllCookie(func(key, _ []byte) {\n\t\t\tkeyString := string(key)\n\t\t\tif !isDisabled(keyString, names) {\n\t\t\t\tnames = append(names, keyString)\n\t\t\t}\n\t\t})\n\t\tfor _, name := range names[len(cfg.Except):] {", why="the name list starts as a private copy of the excepted names")
v("C08", "n5-known-prefix-else-branch", "benign", "mount.go", "\t\tif _, ok := app.mountFields.appList[prefix]; !ok {\n\t\t\tapp.mountFields.appList[prefix] = subApp\n\t\t}\n", "\t\tif _, known := app.mountFields.appList[prefix]; known {\n\t\t\t_ = known // registered at mount time\n\t\t} else {\n\t\t\tapp.mountFields.appList[prefix] = subApp\n\t\t}\n", why="the test turned around, the descent still follows")
v("C09", "n6-params-match-in-local", "benign", "helpers.go", "\tif spec == \"*/*\" {\n\t\treturn paramsMatch(specParams, offerParams)\n\t}\n", "\tif spec == \"*/*\" {\n\t\tok := paramsMatch(specParams, offerParams)\n\t\treturn ok\n\t}\n", why="the result in a local variable")
v("C16", "n6-same-origin-helper", "benign", "middleware/csrf/csrf.go", "\tif refererURL.Scheme == c.Scheme() && refererURL.Host == c.Host() {\n\t\treturn nil\n\t}\n", "\tif sameOriginAs(refererURL, c) {\n\t\treturn nil\n\t}\n", why="the same-origin comparison in a helper", file2="middleware/csrf/csrf.go", find2="// refererMatchesHost checks that the referer header matches the host header\n", replace2="func sameOriginAs(u *url.URL, c fiber.Ctx) bool {\n\treturn u.Scheme == c.Scheme() && u.Host == c.Host()\n}\n\n// refererMatchesHost checks that the referer header matches the host header\n")
v("C16", "b10-origin-prefix-of-base-url", "break", "middleware/csrf/csrf.go", "\tif originURL.Scheme == c.Scheme() && originURL.Host == c.Host() {\n\t\treturn nil\n\t}\n", "\tif strings.HasPrefix(origin, originURL.Scheme+\"://\"+c.Host()) {\n\t\treturn nil\n\t}\n", "accepts-only-by-comparison", "prefix test on the Origin side")
v("C06", "n5-path-original-by-conversion", "benign", "ctx.go", "\tc.pathOriginal = c.app.getString(fctx.URI().PathOriginal())", "\tc.pathOriginal = string(fctx.URI().PathOriginal())", why="a conversion copies")
v("C03", "n6-star-value-in-local", "benign", "router.go", "\t\tif len(path) > 1 {\n\t\t\tparams[0] = path[1:]\n\t\t} else {", "\t\tif len(path) > 1 {\n\t\t\trest := path[1:]\n\t\t\tparams[0] = rest\n\t\t} else {", why="the value in a local variable")
v("C04", "n7-group-path-trim-in-local", "benign", "helpers.go", "\treturn utils.TrimRight(prefix, '/') + path\n}", "\ttrimmed := utils.TrimRight(prefix, '/')\n\treturn trimmed + path\n}", why="the trimmed prefix in a local variable")
v("C11", "n6-float-bits-from-type", "benign", "client/request.go", "strconv.FormatFloat(val.Float(), 'f', -1, 64)", "strconv.FormatFloat(val.Float(), 'f', -1, val.Type().Bits())", why="the bit size of the value's own type")
v("C12", "n5-flash-prefilter-neq", "benign", "router.go", "\trawHeaders := ctx.Request().Header.RawHeaders()\n\tif len(rawHeaders) > 0 && bytes.Contains(rawHeaders, []byte(FlashCookieName)) {\n\t\tctx.Redirect().parseAndClearFlashMessages()\n\t}\n\n\t// Attempt to match a route and execute the chain\n\t_, err := app.next(ctx)", "\trawHeaders := ctx.Request().Header.RawHeaders()\n\tif len(rawHeaders) != 0 {\n\t\tif bytes.Contains(rawHeaders, []byte(FlashCookieName)) {\n\t\t\tctx.Redirect().parseAndClearFlashMessages()\n\t\t}\n\t}\n\n\t// Attempt to match a route and execute the chain\n\t_, err := app.next(ctx)", why="the two tests nested")
v("C18", "n8-host-cut-bracket-aware", "benign", "client/cookiejar.go", "\tif h, _, err := net.SplitHostPort(utils.UnsafeString(host)); err == nil {\n\t\treturn utils.UnsafeBytes(h)\n\t}\n\treturn host\n}", "\tif i := bytes.LastIndexByte(host, ':'); i >= 0 && bytes.IndexByte(host[i:], ']') < 0 {\n\t\th := host[:i]\n\t\tif len(h) > 1 && h[0] == '[' {\n\t\t\th = h[1 : len(h)-1]\n\t\t}\n\t\treturn h\n\t}\n\tif len(host) > 1 && host[0] == '[' && host[len(host)-1] == ']' {\n\t\treturn host[1 : len(host)-1]\n\t}\n\treturn host\n}", why="a hand-written split that looks at the closing bracket (same results as net.SplitHostPort for host, host:port, [v6], [v6]:port)")
v("C07", "n9-static-prefix-test-neq", "benign", "middleware/static/static.go", "\t\t\t\tif len(path) > 0 && path[0] != '/' {", "\t\t\t\tif len(path) != 0 && path[0] != '/' {", why="the length test written with !=")

v("C08", "b9-no-tie-break-among-case-duplicates", "break", "app.go", "if len(prefix) > mountedPrefixLen || (len(prefix) == mountedPrefixLen && mountPoint < mountedPrefix) {", "if len(prefix) > mountedPrefixLen {", "folded-keys-need-a-tie-break", "reverts F47", file2="app.go", find2="\t\t\tmountedPrefix = mountPoint\n", replace2="\t\t\tmountedPrefix = mountPoint\n\t\t\t_ = mountedPrefix\n")
v("C08", "b10-tie-break-without-length-equality", "break", "app.go", "if len(prefix) > mountedPrefixLen || (len(prefix) == mountedPrefixLen && mountPoint < mountedPrefix) {", "if len(prefix) > mountedPrefixLen || mountPoint < mountedPrefix {", "strict-injective-key", "the key comparison alone is no order on (length, key)")
v("C08", "n6-tie-break-nested-ifs", "benign", "app.go", "\t\tif len(prefix) > mountedPrefixLen || (len(prefix) == mountedPrefixLen && mountPoint < mountedPrefix) {\n\t\t\tmountedErrHandler = subApp.config.ErrorHandler\n\t\t\tmountedPrefixLen = len(prefix)\n\t\t\tmountedPrefix = mountPoint\n\t\t}\n", "\t\tif len(prefix) < mountedPrefixLen {\n\t\t\tcontinue\n\t\t}\n\t\tif len(prefix) == mountedPrefixLen {\n\t\t\tif mountPoint >= mountedPrefix {\n\t\t\t\tcontinue\n\t\t\t}\n\t\t}\n\t\tmountedErrHandler = subApp.config.ErrorHandler\n\t\tmountedPrefixLen = len(prefix)\n\t\tmountedPrefix = mountPoint\n", why="the same order written as early continues")


# ---------------------------------------------------------------- round 4: reverts of F48–F52 and variants of the rules added with them
v("C09", "b9-weight-name-lower-case-only", "break", "helpers.go", "if len(key) == 1 && (key[0] == 'q' || key[0] == 'Q') {", "if len(key) == 1 && key[0] == 'q' {", "weight-name-any-case", "reverts F48")
v("C09", "n7-weight-name-folded", "benign", "helpers.go", "if len(key) == 1 && (key[0] == 'q' || key[0] == 'Q') {", "if len(key) == 1 && key[0]|0x20 == 'q' {", why="the name's byte folded with |0x20")
v("C18", "b14-url-split-at-every-question-mark", "break", "client/hooks.go", "splitURL := strings.SplitN(req.url, \"?\", 2)", "splitURL := strings.Split(req.url, \"?\")", "first-only", "reverts F49")
v("C18", "n9-url-cut", "benign", "client/hooks.go", "\tsplitURL := strings.SplitN(req.url, \"?\", 2)\n\t// Ensure splitURL has at least two elements.\n\tsplitURL = append(splitURL, \"\")\n", "\tbeforeQuery, afterQuery, _ := strings.Cut(req.url, \"?\")\n\tsplitURL := []string{beforeQuery, afterQuery}\n", why="strings.Cut instead of SplitN")
v("C18", "b15-path-params-two-passes", "break", "client/hooks.go", "\tparams := make(PathParam, len(*c.path)+len(*req.path))\n\tfor key, val := range *c.path {\n\t\tparams[key] = val\n\t}\n\tfor key, val := range *req.path {\n\t\tparams[key] = val\n\t}\n\tparams.VisitAll(func(key, val string) {\n\t\turi = strings.ReplaceAll(uri, \":\"+key, val)\n\t})\n", "\treq.path.VisitAll(func(key, val string) {\n\t\turi = strings.ReplaceAll(uri, \":\"+key, val)\n\t})\n\tc.path.VisitAll(func(key, val string) {\n\t\turi = strings.ReplaceAll(uri, \":\"+key, val)\n\t})\n", "one-ordered-pass", "reverts F50")
v("C18", "b16-merged-params-client-wins", "break", "client/hooks.go", "\tfor key, val := range *c.path {\n\t\tparams[key] = val\n\t}\n\tfor key, val := range *req.path {\n\t\tparams[key] = val\n\t}\n", "\tfor key, val := range *req.path {\n\t\tparams[key] = val\n\t}\n\tfor key, val := range *c.path {\n\t\tparams[key] = val\n\t}\n", "request-before-client", "the client level written last overrides the request level")
v("C07", "b14-error-classified-by-message", "break", "app.go", "\tcase errors.Is(err, fasthttp.ErrGetOnly):\n\t\terr = ErrMethodNotAllowed\n\tdefault:", "\tcase errors.Is(err, fasthttp.ErrGetOnly):\n\t\terr = ErrMethodNotAllowed\n\tcase strings.Contains(err.Error(), \"timeout\"):\n\t\terr = ErrRequestTimeout\n\tdefault:", "no-message-test", "reverts F51")
v("C04", "b10-mount-first-listed-prefix-only", "break", "app.go", "\t\tif subApp != nil {\n\t\t\tapp.mount(prefix, subApp)\n\t\t\tcontinue\n\t\t}\n", "\t\tif subApp != nil {\n\t\t\tapp.mount(prefix, subApp)\n\t\t\treturn app\n\t\t}\n", "every-listed-prefix", "reverts F52 for App.Use")
v("C04", "b11-group-use-registers-outer-prefix", "break", "group.go", "\tfor _, prefix := range prefixes {\n\t\tif subApp != nil {\n\t\t\tgrp.mount(prefix, subApp)\n\t\t\tcontinue\n\t\t}\n", "\tfor _, p := range prefixes {\n\t\tif subApp != nil {\n\t\t\tgrp.mount(p, subApp)\n\t\t\tcontinue\n\t\t}\n", "registers-the-list-element", "loop variable renamed, register keeps the outer prefix")
v("C04", "b12-constraints-appended-in-place", "break", "router.go", "\t\tconstraints = append(append(make([]CustomConstraint, 0, len(constraints)+len(own)), constraints...), own...)\n", "\t\tconstraints = append(constraints, own...)\n", "constraint-list-of-its-own", "in-place append into the parent's slice")
v("C04", "n8-constraints-slices-concat", "benign", "router.go", "\t\tconstraints = append(append(make([]CustomConstraint, 0, len(constraints)+len(own)), constraints...), own...)\n", "\t\tconstraints = slices.Concat(constraints, own)\n", why="slices.Concat allocates a new slice", file2="router.go", find2="import (\n", replace2="import (\n\t\"slices\"\n")
v("C02", "b10-min-constraint-error-shadowed", "break", "path.go", "\t\tdata, _ := strconv.Atoi(c.Data[0])\n\t\tnum, err = strconv.Atoi(param)\n\n\t\tif err != nil || num < data {\n\t\t\treturn false\n\t\t}\n\tcase maxConstraint:", "\t\tdata, err := strconv.Atoi(c.Data[0])\n\t\tif err != nil {\n\t\t\treturn false\n\t\t}\n\t\tnum, err = strconv.Atoi(param)\n\t\tif num < data {\n\t\t\treturn false\n\t\t}\n\tcase maxConstraint:", "error-consumed", "the value's parse error lands in a shadowed variable")
v("C06", "b6-original-body-kept-as-view", "break", "ctx.go", "\t\t\t\ttempBody := c.fasthttp.Request.Body()\n\t\t\t\t*originalBody = make([]byte, len(tempBody))\n\t\t\t\tcopy(*originalBody, tempBody)\n", "\t\t\t\t*originalBody = c.fasthttp.Request.Body()\n", "holds-a-copy", "the body as sent kept as a view")
v("C06", "n6-original-body-append-copy", "benign", "ctx.go", "\t\t\t\ttempBody := c.fasthttp.Request.Body()\n\t\t\t\t*originalBody = make([]byte, len(tempBody))\n\t\t\t\tcopy(*originalBody, tempBody)\n", "\t\t\t\t*originalBody = utils.CopyBytes(c.fasthttp.Request.Body())\n", why="copied with utils.CopyBytes")
v("C08", "b11-group-mount-stores-outer-app", "break", "mount.go", "\t\tsubApp.mountFields.mountPath = path\n\t\tgrp.app.mountFields.appList[path] = subApp\n\t}", "\t\tsubApp.mountFields.mountPath = path\n\t\tgrp.app.mountFields.appList[path] = grp.app\n\t}", "entry-keeps-its-app", "every copied prefix maps to one app")
v("C08", "b12-error-handler-by-original-url", "break", "app.go", "\tpath := ctx.Path()\n\tif !app.config.CaseSensitive {\n\t\tpath = utils.ToLower(path)\n\t}\n\tfor mountPoint", "\tpath := ctx.OriginalURL()\n\tif !app.config.CaseSensitive {\n\t\tpath = utils.ToLower(path)\n\t}\n\tfor mountPoint", "selects-by-request-path", "the query string takes part in the selection")
v("C10", "b10-scheme-trust-before-tls", "break", "ctx.go", "\tif c.fasthttp.IsTLS() {\n\t\treturn schemeHTTPS\n\t}\n\tif !c.IsProxyTrusted() {\n\t\treturn schemeHTTP\n\t}\n", "\tif !c.IsProxyTrusted() {\n\t\treturn schemeHTTP\n\t}\n\tif c.fasthttp.IsTLS() {\n\t\treturn schemeHTTPS\n\t}\n", "tls-decides-first", "untrusted peers on TLS reported as http")
v("C12", "b8-prefilter-line-prefix", "break", "router.go", "\tif len(rawHeaders) > 0 && bytes.Contains(rawHeaders, []byte(FlashCookieName)) {\n\t\tctx.Redirect().parseAndClearFlashMessages()\n\t}\n\n\t// Attempt to match a route and execute the chain\n\t_, err := app.next(ctx)", "\tif len(rawHeaders) > 0 && bytes.Contains(rawHeaders, []byte(\"Cookie: \"+FlashCookieName)) {\n\t\tctx.Redirect().parseAndClearFlashMessages()\n\t}\n\n\t// Attempt to match a route and execute the chain\n\t_, err := app.next(ctx)", "not-narrower-than-the-parser", "the pre-filter wants the cookie first on its line")
v("C12", "n6-prefilter-name-with-equals", "benign", "router.go", "\tif len(rawHeaders) > 0 && bytes.Contains(rawHeaders, []byte(FlashCookieName)) {\n\t\tctx.Redirect().parseAndClearFlashMessages()\n\t}\n\n\t// Attempt to match a route and execute the chain\n\t_, err := app.next(ctx)", "\tif len(rawHeaders) > 0 && bytes.Contains(rawHeaders, []byte(FlashCookieName+\"=\")) {\n\t\tctx.Redirect().parseAndClearFlashMessages()\n\t}\n\n\t// Attempt to match a route and execute the chain\n\t_, err := app.next(ctx)", why="`name=` occurs wherever the cookie does")
v("C12", "b9-decode-loop-stops-on-empty-rest", "break", "redirect.go", "\tfor i := uint32(0); i < size; i++ {", "\tfor i := uint32(0); i < size && len(rest) > 0; i++ {", "all-announced-messages-or-none", "a cut cookie delivers its first messages")
v("C13", "b11-scratch-buffer-to-storage", "break", "middleware/limiter/manager.go", "\t\tif raw, err := it.MarshalMsg(nil); err == nil {\n", "\t\tif raw, err := it.MarshalMsg(m.scratch[:0]); err == nil {\n\t\t\tm.scratch = raw\n", "fresh-bytes", "one buffer for every key", file2="middleware/limiter/manager.go", find2="\tstorage fiber.Storage\n}", replace2="\tstorage fiber.Storage\n\tscratch []byte\n}")
v("C13", "b12-default-on-raw-duration", "break", "middleware/limiter/config.go", "\tif int(cfg.Expiration.Seconds()) <= 0 {", "\tif cfg.Expiration <= 0 {", "on-whole-seconds", "sub-second windows truncate to zero")
v("C13", "n7-default-on-seconds-local", "benign", "middleware/limiter/config.go", "\tif int(cfg.Expiration.Seconds()) <= 0 {", "\tif secs := int(cfg.Expiration.Seconds()); secs <= 0 {", why="the seconds in a local variable")
v("C14", "b14-header-names-as-views", "break", "middleware/cache/cache.go", "\t\t\t\t\tkeyS := string(key)\n", "\t\t\t\t\tkeyS := utils.UnsafeString(key)\n", "copied", "stored header names alias the response buffer")
v("C16", "b11-failed-delete-reported-as-success", "break", "middleware/csrf/storage_manager.go", "\t\treturn m.storage.Delete(key) //nolint:wrapcheck // the storage's error is the caller's error\n", "\t\tif err := m.storage.Delete(key); err != nil {\n\t\t\tif m.getRaw(key) == nil {\n\t\t\t\treturn nil\n\t\t\t}\n\t\t\treturn err //nolint:wrapcheck // the storage's error is the caller's error\n\t\t}\n\t\treturn nil\n", "failure-is-final", "a second look (errors discarded) turns the failure into success")
v("C18", "b17-swap-removal-without-step-back", "break", "client/cookiejar.go", "\t\t\tcookies = append(cookies[:i], cookies[i+1:]...)\n\t\t\tfasthttp.ReleaseCookie(c)\n\t\t\ti--\n", "\t\t\tcookies[i] = cookies[len(cookies)-1]\n\t\t\tcookies = cookies[:len(cookies)-1]\n\t\t\tfasthttp.ReleaseCookie(c)\n", "steps-back", "the cookie moved into the slot is not examined")
v("C18", "n10-swap-removal-with-step-back", "benign", "client/cookiejar.go", "\t\t\tcookies = append(cookies[:i], cookies[i+1:]...)\n\t\t\tfasthttp.ReleaseCookie(c)\n\t\t\ti--\n", "\t\t\tcookies[i] = cookies[len(cookies)-1]\n\t\t\tcookies = cookies[:len(cookies)-1]\n\t\t\tfasthttp.ReleaseCookie(c)\n\t\t\ti--\n", why="swap with the last element, the index stepped back")
v("C18", "b18-path-params-sorted-by-length-only", "break", "client/request.go", "\t\tif len(keys[i]) != len(keys[j]) {\n\t\t\treturn len(keys[i]) > len(keys[j])\n\t\t}\n\t\treturn keys[i] < keys[j]\n", "\t\treturn len(keys[i]) > len(keys[j])\n", "total-order", "ties keep map order")
v("C20", "b9-expired-cookies-left-in-clear", "break", "middleware/encryptcookie/encryptcookie.go", "\t\t\t\tif c.Response().Header.Cookie(&cookieValue) {\n", "\t\t\t\tif c.Response().Header.Cookie(&cookieValue) {\n\t\t\t\t\tif cookieValue.Expire().Before(time.Now()) && !cookieValue.Expire().Equal(fasthttp.CookieExpireUnlimited) {\n\t\t\t\t\t\treturn\n\t\t\t\t\t}\n", "every-other-cookie-is-rewritten", "expired cookies skipped", file2="middleware/encryptcookie/encryptcookie.go", find2="import (\n", replace2="import (\n\t\"time\"\n")

os.makedirs('/verif/selftest', exist_ok=True)
for prop, vs in V.items():
    p = f'/verif/selftest/{prop.lower()}.json'
    if prop == 'C15':
        # c15.json is partly hand-maintained: add / replace the generated entries, keep the others
        old = json.load(open(p))
        gen = {x['id'] for x in vs}
        vs = [x for x in old if x['id'] not in gen] + vs
    json.dump(vs, open(p, 'w'), indent=1, ensure_ascii=False)
print({k: len(x) for k, x in V.items()})
