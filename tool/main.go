package main

import (
	"flag"
	"fmt"
	"os"
	"sort"
	"strconv"
	"strings"
	"time"

	"golang.org/x/tools/go/ssa"
)

// property registry: id -> rule set
type propDef struct {
	ID      string
	Explain string
	Assume  []string
	Run     func(r *Run)
}

var props = map[string]*propDef{}

func register(p *propDef) { props[p.ID] = p }

func main() {
	repo := flag.String("repo", "/repo", "repository under analysis")
	out := flag.String("out", "/verif/evidence", "evidence directory")
	known := flag.String("known", "/verif/known_findings.json", "known findings file (read only)")
	tier := flag.String("tier", "quick", "quick|thorough")
	dump := flag.String("dump", "", "debug: dump SSA of pkg:func")
	list := flag.Bool("list", false, "print every obligation")
	flag.Parse()
	start := time.Now()

	ids := flag.Args()
	if len(ids) == 1 && ids[0] == "all" {
		ids = nil
		for id := range props {
			ids = append(ids, id)
		}
		sort.Strings(ids)
	}
	if *dump == "" && len(ids) == 0 {
		fmt.Println("usage: fibercheck [-repo dir] [-tier quick|thorough] Cxx...|all")
		os.Exit(2)
	}
	seed := 0
	if s := os.Getenv("VERIF_SEED"); s != "" {
		if n, err := strconv.Atoi(s); err == nil {
			seed = n
		}
	}

	P, err := Load(*repo)
	if err != nil {
		// fail closed: a tree that does not load decides nothing
		fmt.Printf("load error: %v\n", err)
		for _, id := range ids {
			fmt.Printf("VIOLATION property=%s replay=%s\n", id, "load-error")
		}
		os.Exit(1)
	}
	if *dump != "" {
		parts := strings.SplitN(*dump, ":", 2)
		f := P.Func(parts[0], parts[1])
		if f == nil {
			fmt.Println("not found")
			os.Exit(2)
		}
		dumpFn(f)
		return
	}
	findings, err := loadFindings(*known)
	if err != nil {
		fmt.Printf("known findings unreadable: %v\n", err)
		os.Exit(2)
	}
	loadS := time.Since(start).Seconds()
	code := 0
	for _, id := range ids {
		def := props[id]
		if def == nil {
			fmt.Printf("unknown property %s\n", id)
			code = 2
			continue
		}
		t0 := time.Now()
		r := &Run{P: P, Prop: id, Tier: *tier, Counters: map[string]int{}, RuleDocs: map[string]string{},
			nontriv: map[string]bool{}, Explain: def.Explain, Assume: def.Assume, Extra: map[string]any{}}
		def.Run(r)
		if *list {
			for _, o := range r.Obs {
				fmt.Printf("  %-10s %-11s %s  %s — %s\n", o.Rule, o.Status, o.Pos, strings.TrimPrefix(o.Key, o.Rule+"|"), o.Detail)
			}
		}
		var st map[string]any
		if *tier == "thorough" {
			st = runSelftest(r, *repo, findings)
		}
		c := r.finish(*out, findings, seed, loadS+time.Since(t0).Seconds(), st)
		if st != nil {
			if broken, _ := st["failed"].(int); broken > 0 {
				fmt.Printf("CHECKER-BROKEN property=%s: %d self-test variant(s) not classified as expected\n", id, broken)
				if c == 0 {
					c = 3
				}
			}
		}
		if c > code {
			code = c
		}
	}
	os.Exit(code)
}

func dumpFn(f *ssa.Function) {
	f.WriteTo(os.Stdout)
	for _, a := range f.AnonFuncs {
		dumpFn(a)
	}
}
