package main

import (
	"fmt"
	"go/token"
	"go/types"
	"sort"
	"strings"

	"golang.org/x/tools/go/ssa"
)

func init() {
	register(&propDef{
		ID: "C02",
		Explain: "Decided clauses (structural necessary conditions, all paths of the CFG): R1 no acceptance after the parameter matcher refused " +
			"(Route.match, RoutePatternMatch); R2 in getMatch no path from a failed CheckConstraint to acceptance or to the next segment, and nothing " +
			"jumps over the constraint loop except the optional-empty edge; R3 every constraint id the parser can produce has a rejecting case in " +
			"CheckConstraint and the Data-arity pre-checks cover the indices each case reads; R4 required parameters are non-empty and the last " +
			"non-greedy parameter stops at '/'. Not decided: that substituting captured values reproduces the path (matcher arithmetic), custom " +
			"constraint and regexp semantics.",
		Assume: []string{"go/ssa control-flow graph of the functions is faithful", "custom constraints and regexp are opaque"},
		Run:    runC02,
	})
}

const fnGetMatch = "(*" + fiberMod + ".routeParser).getMatch"

func runC02(r *Run) {
	// R1 ------------------------------------------------------------------------------
	r.rule("R1", "from the false edge of getMatch no return that may be true is reachable (E1, G=∅)", func() {
		n := 0
		for _, spec := range []struct{ pkg, fn string }{{"", "(*Route).match"}, {"", "RoutePatternMatch"}} {
			f := r.Fn(spec.pkg, spec.fn)
			calls := callsMatching(f, false, nameIs(fnGetMatch))
			r.need(len(calls) > 0, spec.fn+" calls getMatch")
			for _, c := range calls {
				n++
				key := spec.fn + "→getMatch"
				v := c.Value()
				brs := ifsOnValue(f, v)
				// direct return of the matcher's verdict is fine
				direct := returnedDirectly(f, v, 0)
				if len(brs) == 0 && direct {
					r.ok(key, r.pos(c.Instr), "matcher verdict is returned as is")
					continue
				}
				if len(brs) == 0 {
					r.undecided(key, r.pos(c.Instr), "getMatch result is neither branched on nor returned")
					continue
				}
				for _, br := range brs {
					slot, ok := br.truthSlot(false)
					if !ok {
						r.undecided(key, r.pos(br.If), "cannot classify branch on getMatch result")
						continue
					}
					path, hit := reachEdge(edge{br.If.Block(), slot}, mayReturnTrue, nil, nil)
					r.check(hit == nil, key, r.pos(c.Instr),
						"after getMatch refused every reachable return is the constant false",
						fmt.Sprintf("a return that may be true is reachable after getMatch refused (constraint failure falls back to a literal/prefix comparison): %s → %s",
							pathString(r.P, path), posOf(r, hit)))
				}
			}
		}
		r.atLeast("getMatch call sites", n, 2)
	})

	gm := r.P.Func("", "(*routeParser).getMatch")

	// R2 ------------------------------------------------------------------------------
	r.rule("R2", "getMatch: failed CheckConstraint never reaches acceptance or the next segment; nothing skips the constraint loop but the optional-empty edge (E1)", func() {
		f := r.Fn("", "(*routeParser).getMatch")
		outer := rangeLoopsOverField(f, "routeParser.segs")
		r.need(len(outer) == 1, "getMatch ranges over routeParser.segs once")
		header := outer[0].Block()
		accept := orPred(mayReturnTrue, inBlock(header))
		cc := callsMatching(f, false, nameHasSuffix(".Constraint).CheckConstraint"))
		r.need(len(cc) >= 1, "getMatch calls CheckConstraint")
		for i, c := range cc {
			key := fmt.Sprintf("getMatch:CheckConstraint#%d:false-edge", i)
			brs := ifsOnValue(f, c.Value())
			if len(brs) == 0 {
				r.bad(key, r.pos(c.Instr), "result of CheckConstraint is not branched on (constraint verdict ignored)")
				continue
			}
			for _, br := range brs {
				slot, ok := br.truthSlot(false)
				if !ok {
					r.undecided(key, r.pos(br.If), "cannot classify branch")
					continue
				}
				path, hit := reachEdge(edge{br.If.Block(), slot}, accept, nil, nil)
				r.check(hit == nil, key, r.pos(c.Instr), "only `return false` is reachable after a constraint refused",
					"acceptance or the next segment is reachable after a constraint refused: "+pathString(r.P, path))
			}
		}
		// the value handed to CheckConstraint is the captured value that Params will report (a load of params[k] or a
		// slice of the `path` argument) — not the case-folded detection copy
		for i, c := range cc {
			arg := c.Common.Args[1]
			fromParams := dependsOn(arg, func(v ssa.Value) bool {
				if ia, ok := v.(*ssa.IndexAddr); ok {
					p, isP := ia.X.(*ssa.Parameter)
					return isP && p.Name() == "params"
				}
				pp, isP := v.(*ssa.Parameter)
				return isP && pp.Name() == "path"
			}) != nil
			// (content only: a slice of `path` whose bounds were measured on the detection path is still text of `path`)
			fromDetect := false
			for _, prm := range f.Params {
				if prm.Name() == "detectionPath" && contentFrom(arg, prm) {
					fromDetect = true
				}
			}
			r.check(fromParams && !fromDetect, fmt.Sprintf("getMatch:CheckConstraint#%d:argument-is-captured-value", i), r.pos(c.Instr), "constraints are evaluated on the value stored in params (the one Params reports)",
				"constraints are evaluated on a value derived from the normalised detection path, not on the captured value Params reports: with CaseSensitive=false /flag/:v<bool> accepts tRuE although the reported value violates the constraint")
		}
		// (ii) from the store of the captured value the next segment is reached only through
		// the constraint loop's exit edge or the paramLen==0 edge.
		stores := storesIntoParamIndex(f, "params")
		r.need(len(stores) >= 1, "getMatch stores into params[...]")
		loops := rangeLoopsOverField(f, "routeSegment.Constraints")
		r.need(len(loops) >= 1, "getMatch ranges over routeSegment.Constraints")
		cut := map[edge]bool{}
		for _, l := range loops {
			cut[edge{l.Block(), 1}] = true // loop exit: all constraints passed
		}
		plen := callsMatching(f, false, nameIs(fiberMod+".findParamLen"))
		r.need(len(plen) == 1, "getMatch calls findParamLen once")
		for _, br := range ifsOnValue(f, plen[0].Value()) {
			if slot, ok := br.eqIntSlot(0, true); ok {
				cut[edge{br.If.Block(), slot}] = true // empty capture: optional parameter absent, or rejected
			}
		}
		// the same test kept in a flag (`omitted := segment.IsOptional && i == 0`): where the flag is true the capture is empty
		for _, br := range branchesIn(f) {
			ph, ok := stripValue(br.Info.Root).(*ssa.Phi)
			if !ok || br.Info.Op != token.ILLEGAL {
				continue
			}
			onlyEmpty, any := true, false
			for _, e := range ph.Edges {
				if b, isB := constBool(asConst(e)); isB && !b {
					continue
				}
				ci := decompose(e)
				k, isK := constInt(ci.Const)
				if stripValue(ci.Root) == plen[0].Value() && isK && k == 0 && ((ci.Op == token.EQL && !ci.Neg) || (ci.Op == token.NEQ && ci.Neg)) {
					any = true
					continue
				}
				onlyEmpty = false
			}
			if onlyEmpty && any {
				if slot, ok := br.truthSlot(true); ok {
					cut[edge{br.If.Block(), slot}] = true
				}
			}
		}
		for i, st := range stores {
			key := fmt.Sprintf("getMatch:params-store#%d→next-segment", i)
			path, hit := reach(pointAfter(st), accept, cut, nil)
			r.check(hit == nil, key, r.pos(st),
				"with the constraint-loop exit edge and the empty-capture edge removed the next segment is unreachable from the capture",
				"a path from the capture to the next segment/acceptance bypasses the constraint loop: "+pathString(r.P, path))
		}
		// every iteration of the constraint loop calls CheckConstraint on the captured value
		for _, l := range loops {
			body := l.Block().Succs[0]
			_, hit := reach(point{body, 0}, orPred(inBlock(l.Block()), accept), nil, func(in ssa.Instruction) bool {
				return isCallTo(in, nameHasSuffix(".Constraint).CheckConstraint"))
			})
			r.check(hit == nil, "getMatch:constraint-loop-body", r.pos(l), "each iteration passes through CheckConstraint",
				"an iteration of the constraint loop can complete without calling CheckConstraint")
		}
	})

	// R3 ------------------------------------------------------------------------------
	r.rule("R3", "every TypeConstraint produced by getParamConstraintType has a case in CheckConstraint that can reject; Data arity pre-checks cover the indices read (E8)", func() {
		gp := r.Fn("", "getParamConstraintType")
		ids := map[int64]bool{}
		for _, in := range instrsWhere(gp, isReturn) {
			ret := in.(*ssa.Return)
			c, ok := retOperand(ret, 0).(*ssa.Const)
			if !ok {
				r.undecided("getParamConstraintType:return", r.pos(in), "non-constant constraint id")
				continue
			}
			n, _ := constInt(c)
			ids[n] = true
		}
		r.atLeast("constraint ids", len(ids), 15)
		ck := r.Fn("", "(*Constraint).CheckConstraint")
		// arity tables: array literals of TypeConstraint with the length each guarantees
		guarantee := map[int64]int64{}
		for _, b := range ck.Blocks {
			for _, in := range b.Instrs {
				al, ok := in.(*ssa.Alloc)
				if !ok || !strings.Contains(al.Type().String(), "TypeConstraint") {
					continue
				}
				var members []int64
				var slices []ssa.Value
				for _, ref := range *al.Referrers() {
					switch x := ref.(type) {
					case *ssa.IndexAddr:
						for _, rr := range *x.Referrers() {
							if st, ok := rr.(*ssa.Store); ok {
								if n, ok := constInt(asConst(st.Val)); ok {
									members = append(members, n)
								}
							}
						}
					case *ssa.Slice:
						slices = append(slices, x)
					}
				}
				// loop body: IndexAddr on the slice → load → compared with c.ID → true edge → len(c.Data) test
				min := int64(0)
				for _, sl := range slices {
					for _, ref := range *sl.Referrers() {
						ia, ok := ref.(*ssa.IndexAddr)
						if !ok {
							continue
						}
						for _, br := range branchesIn(ck) {
							if br.Info.Op != token.EQL || br.Info.Other == nil {
								continue
							}
							if !(isLoadOf(br.Info.Other, ia) || isLoadOf(br.Info.Root, ia)) {
								continue
							}
							tslot := br.slotWhenRel(true)
							nb := br.If.Block().Succs[tslot]
							for _, b2 := range branchesIn(ck) {
								if b2.If.Block() != nb || !lenOfField(b2.Info.Root, "Constraint.Data") {
									continue
								}
								k, ok := constInt(b2.Info.Const)
								if !ok {
									continue
								}
								// which slot rejects?  the one leading to `return false`
								for s := 0; s < 2; s++ {
									tb := b2.If.Block().Succs[s]
									if len(tb.Instrs) > 0 {
										if isRet, isC, v := retConstBool(tb.Instrs[len(tb.Instrs)-1]); isRet && isC && !v {
											// rejecting slot s: relation holds on that slot?
											relTrue := b2.slotWhenRel(true) == s
											op := b2.Info.Op
											if !relTrue {
												op = negOp(op)
											}
											switch op {
											case token.EQL: // len == k rejected (k==0 → at least 1)
												if k == 0 {
													min = 1
												}
											case token.LSS:
												min = k
											case token.LEQ:
												min = k + 1
											}
										}
									}
								}
							}
						}
					}
				}
				for _, m := range members {
					if min > guarantee[m] {
						guarantee[m] = min
					}
				}
			}
		}
		idLoad := func(v ssa.Value) bool { return loadOfField(v, "Constraint.ID") }
		// the same arity table written as a helper: `if len(c.Data) < c.requiredLen() { return false }`,
		// the helper being a switch on c.ID that returns a constant per id
		for _, br := range branchesInOne(ck) {
			if !lenOfField(br.Info.Root, "Constraint.Data") || br.Info.Other == nil {
				continue
			}
			call, ok := stripValue(br.Info.Other).(*ssa.Call)
			if !ok {
				continue
			}
			g := transparentCallee(ck, call)
			if g == nil {
				continue
			}
			// the rejecting slot: len(Data) < need
			var rejSlot = -1
			switch br.Info.Op {
			case token.LSS:
				rejSlot = br.slotWhenRel(true)
			case token.GEQ:
				rejSlot = br.slotWhenRel(false)
			}
			if rejSlot < 0 {
				continue
			}
			tb := br.If.Block().Succs[rejSlot]
			if len(tb.Instrs) == 0 {
				continue
			}
			if isRet, isC, v := retConstBool(tb.Instrs[len(tb.Instrs)-1]); !isRet || !isC || v {
				continue
			}
			// the id may also arrive as an argument: requiredData(c.ID)
			idParam := map[ssa.Value]bool{}
			for i, a := range call.Call.Args {
				if idLoad(stripValue(a)) && i < len(g.Params) {
					idParam[g.Params[i]] = true
				}
			}
			for id := range ids {
				cut := map[edge]bool{}
				for _, gb := range branchesInOne(g) {
					if gb.Info.Op != token.EQL || gb.Info.Const == nil || !(idLoad(gb.Info.Root) || idParam[stripValue(gb.Info.Root)]) {
						continue
					}
					k, ok := constInt(gb.Info.Const)
					if !ok {
						continue
					}
					if k == id {
						cut[edge{gb.If.Block(), gb.slotWhenRel(false)}] = true
					} else {
						cut[edge{gb.If.Block(), gb.slotWhenRel(true)}] = true
					}
				}
				need, decided := int64(-1), true
				for b := range blocksReachable(g.Blocks[0], cut, nil) {
					if ret, isRet := b.Instrs[len(b.Instrs)-1].(*ssa.Return); isRet {
						n, ok := constInt(asConst(retOperand(ret, 0)))
						if !ok || (need >= 0 && need != n) {
							decided = false
						}
						need = n
					}
				}
				if decided && need > guarantee[id] {
					guarantee[id] = need
				}
			}
		}
		// the same table as a boolean helper: `if !c.hasRequiredData() { return false }`, the helper being a switch on the
		// id whose arms answer `len(c.Data) > k` / `>= k` (or true)
		for _, br := range branchesInOne(ck) {
			call, ok := stripValue(br.Info.Root).(*ssa.Call)
			if !ok || br.Info.Op != token.ILLEGAL {
				continue
			}
			g := transparentCallee(ck, call)
			if g == nil || g.Signature.Results().Len() != 1 {
				continue
			}
			if bt, ok := g.Signature.Results().At(0).Type().Underlying().(*types.Basic); !ok || bt.Kind() != types.Bool {
				continue
			}
			rejSlot, ok := br.truthSlot(false)
			if !ok {
				continue
			}
			tb := br.If.Block().Succs[rejSlot]
			if len(tb.Instrs) == 0 {
				continue
			}
			if isRet, isC, v := retConstBool(tb.Instrs[len(tb.Instrs)-1]); !isRet || !isC || v {
				continue
			}
			idParam := map[ssa.Value]bool{}
			for i, a := range call.Call.Args {
				if idLoad(stripValue(a)) && i < len(g.Params) {
					idParam[g.Params[i]] = true
				}
			}
			for id := range ids {
				cut := map[edge]bool{}
				for _, gb := range branchesInOne(g) {
					if gb.Info.Op != token.EQL || gb.Info.Const == nil || !(idLoad(gb.Info.Root) || idParam[stripValue(gb.Info.Root)]) {
						continue
					}
					k, ok := constInt(gb.Info.Const)
					if !ok {
						continue
					}
					if k == id {
						cut[edge{gb.If.Block(), gb.slotWhenRel(false)}] = true
					} else {
						cut[edge{gb.If.Block(), gb.slotWhenRel(true)}] = true
					}
				}
				need, decided, any := int64(1<<30), true, false
				for b := range blocksReachable(g.Blocks[0], cut, nil) {
					ret, isRet := b.Instrs[len(b.Instrs)-1].(*ssa.Return)
					if !isRet {
						continue
					}
					any = true
					v := retOperand(ret, 0)
					n := int64(-1)
					if cb, isB := constBool(asConst(v)); isB {
						if cb {
							n = 0
						} else {
							continue // answers false for this id: rejected whatever the data
						}
					} else {
						ci := decompose(v)
						k, isK := constInt(ci.Const)
						if isK && lenOfField(ci.Root, "Constraint.Data") && !ci.Neg {
							switch ci.Op {
							case token.GTR:
								n = k + 1
							case token.GEQ:
								n = k
							case token.NEQ:
								if k == 0 {
									n = 1
								}
							}
						}
					}
					if n < 0 {
						decided = false
					} else if n < need {
						need = n
					}
				}
				if any && decided && need < 1<<30 && need > guarantee[id] {
					guarantee[id] = need
				}
			}
		}
		// cases: where the id is tested more than once (a pre-check switch ahead of the evaluating one) the later test is the case
		cases := map[int64]branch{}
		for _, br := range branchesInOne(ck) {
			if br.Info.Op == token.EQL && br.Info.Const != nil && idLoad(br.Info.Root) {
				if n, ok := constInt(br.Info.Const); ok {
					if old, dup := cases[n]; !dup || br.If.Block().Index > old.If.Block().Index {
						cases[n] = br
					}
				}
			}
		}
		// the same arity table as guards inside CheckConstraint itself, ahead of the cases (`switch c.ID { case …: if len(c.Data) == 0 { return false } }`):
		// a guard counts for an id when, with the id's own comparisons decided, the case is out of reach once the guard's passing edge is removed
		type dataGuard struct {
			pass edge
			min  int64
		}
		var dguards []dataGuard
		for _, b2 := range branchesInOne(ck) {
			if !lenOfField(b2.Info.Root, "Constraint.Data") {
				continue
			}
			k, ok := constInt(b2.Info.Const)
			if !ok {
				continue
			}
			for sl := 0; sl < 2; sl++ {
				tb := b2.If.Block().Succs[sl]
				if len(tb.Instrs) == 0 {
					continue
				}
				if isRet, isC, v := retConstBool(tb.Instrs[len(tb.Instrs)-1]); isRet && isC && !v {
					op := b2.Info.Op
					if b2.slotWhenRel(true) != sl {
						op = negOp(op)
					}
					min := int64(0)
					switch op {
					case token.EQL:
						if k == 0 {
							min = 1
						}
					case token.LSS:
						min = k
					case token.LEQ:
						min = k + 1
					}
					if min > 0 {
						dguards = append(dguards, dataGuard{edge{b2.If.Block(), 1 - sl}, min})
					}
				}
			}
		}
		for id := range ids {
			cbr, ok := cases[id]
			if !ok || len(dguards) == 0 {
				continue
			}
			idCuts := map[edge]bool{}
			for _, gb := range branchesInOne(ck) {
				if gb.Info.Op != token.EQL || gb.Info.Const == nil || !idLoad(gb.Info.Root) {
					continue
				}
				k, ok := constInt(gb.Info.Const)
				if !ok {
					continue
				}
				if k == id {
					idCuts[edge{gb.If.Block(), gb.slotWhenRel(false)}] = true
				} else {
					idCuts[edge{gb.If.Block(), gb.slotWhenRel(true)}] = true
				}
			}
			target := cbr.If.Block()
			if !blocksReachable(ck.Blocks[0], idCuts, nil)[target] {
				continue
			}
			for _, g := range dguards {
				if g.pass.From == target || dom(target, g.pass.From) {
					continue // a test inside the case itself is the case's own business (armFacts)
				}
				cuts := map[edge]bool{g.pass: true}
				for e := range idCuts {
					cuts[e] = true
				}
				if !blocksReachable(ck.Blocks[0], cuts, nil)[target] && g.min > guarantee[id] {
					guarantee[id] = g.min
				}
			}
		}
		var sorted []int64
		for id := range ids {
			sorted = append(sorted, id)
		}
		sort.Slice(sorted, func(i, j int) bool { return sorted[i] < sorted[j] })
		for _, id := range sorted {
			key := fmt.Sprintf("CheckConstraint:case-%d", id)
			br, ok := cases[id]
			if !ok {
				r.bad(key, r.fpos(ck), fmt.Sprintf("constraint id %d can be produced by the parser but has no case in CheckConstraint", id))
				continue
			}
			arm := edge{br.If.Block(), br.slotWhenRel(true)}
			canReject, maxIdx := armFacts(ck, arm)
			if id == 1 { // noConstraint: accepts by definition
				r.ok(key, r.pos(br.If), "noConstraint accepts everything by definition")
				continue
			}
			if !canReject {
				r.bad(key, r.pos(br.If), fmt.Sprintf("case for constraint id %d can never reject (no `return false` and the error it leaves is always nil)", id))
				continue
			}
			if maxIdx+1 > guarantee[id] {
				r.bad(key, r.pos(br.If), fmt.Sprintf("case for constraint id %d reads Data[%d] but the arity pre-check only guarantees len(Data) >= %d (index panic on a pattern without data)", id, maxIdx, guarantee[id]))
				continue
			}
			r.ok(key, r.pos(br.If), fmt.Sprintf("case can reject; reads Data up to index %d, guaranteed length %d", maxIdx, guarantee[id]))
		}
	})

	r.rule("R3b", "a custom constraint is found whatever the letter case of its name: the pattern (and the name in it) is case-folded unless CaseSensitive, so the lookup compares case-insensitively (E5)", func() {
		ck := r.Fn("", "(*Constraint).CheckConstraint")
		var exec []callSite
		for _, c := range callsIn(ck, false) {
			if c.Common.IsInvoke() && c.Common.Method.Name() == "Execute" {
				exec = append(exec, c)
			}
		}
		r.need(len(exec) >= 1, "CheckConstraint executes custom constraints")
		// does registration fold the pattern at all?
		folds := false
		withinFunction(r.Fn("", "(*App).register"), func() {
			for _, c := range callsMatching(r.Fn("", "(*App).register"), false, func(n string) bool { return strings.HasPrefix(n, "github.com/gofiber/utils/v2.ToLower") }) {
				_ = c
				folds = true
			}
		})
		if !folds {
			r.ok("CheckConstraint:custom-name-lookup", r.fpos(ck), "patterns are not case-folded at registration")
			return
		}
		isNameCmp := func(v ssa.Value) (fold bool, ok bool) {
			usesName := func(x ssa.Value) bool {
				return dependsOn(x, func(y ssa.Value) bool {
					if loadOfField(y, "Constraint.Name") {
						return true
					}
					c, isC := y.(*ssa.Call)
					return isC && c.Call.IsInvoke() && c.Call.Method.Name() == "Name"
				}) != nil
			}
			switch x := v.(type) {
			case *ssa.Call:
				if strings.HasSuffix(calleeName(&x.Call), "EqualFold") && len(x.Call.Args) == 2 && usesName(x.Call.Args[0]) && usesName(x.Call.Args[1]) {
					return true, true
				}
			case *ssa.BinOp:
				if x.Op == token.EQL && usesName(x.X) && usesName(x.Y) {
					// plain equality is fine only when both sides are folded first
					f1 := dependsOn(x.X, func(y ssa.Value) bool {
						c, ok := y.(*ssa.Call)
						return ok && strings.Contains(calleeName(&c.Call), "ToLower")
					}) != nil
					f2 := dependsOn(x.Y, func(y ssa.Value) bool {
						c, ok := y.(*ssa.Call)
						return ok && strings.Contains(calleeName(&c.Call), "ToLower")
					}) != nil
					return f1 && f2, true
				}
			}
			return false, false
		}
		okAll, found := true, false
		for _, br := range branchesInOne(ck) {
			fold, isCmp := isNameCmp(stripValue(br.If.Cond))
			if !isCmp {
				continue
			}
			for _, e := range exec {
				if dom(br.If.Block().Succs[0], e.Block()) {
					found = true
					if !fold {
						okAll = false
					}
				}
			}
		}
		r.check(found && okAll, "CheckConstraint:custom-name-lookup", r.pos(exec[0].Instr), "the custom constraint is selected by a case-insensitive comparison of names",
			"custom constraints are looked up by exact name although the pattern — and the constraint name in it — is lower-cased at registration unless CaseSensitive is set: a constraint registered as \"isAdmin\" is never found, the parameter falls back to `no constraint` and every value is accepted")
	})

	r.rule("R3d", "a value that does not parse is rejected: in CheckConstraint the error of every parse of the parameter value is consumed (it reaches a branch or the result) — an error assigned to a shadowed variable is lost (E1, error discipline)", func() {
		f := r.Fn("", "(*Constraint).CheckConstraint")
		var param ssa.Value
		for _, p := range f.Params {
			if p.Name() == "param" {
				param = p
			}
		}
		r.need(param != nil, "CheckConstraint(param string)")
		n := 0
		for _, c := range callsIn(f, false) {
			if c.Value() == nil {
				continue
			}
			tup, ok := c.Value().Type().(*types.Tuple)
			if !ok || tup.Len() < 2 || tup.At(tup.Len()-1).Type().String() != "error" {
				continue
			}
			takesParam := false
			for _, a := range c.Common.Args {
				if flowsUnchanged(a, param) {
					takesParam = true
				}
			}
			if !takesParam {
				continue
			}
			n++
			used := false
			for _, ref := range *c.Value().Referrers() {
				if ex, ok := ref.(*ssa.Extract); ok && ex.Index == tup.Len()-1 && len(*ex.Referrers()) > 0 {
					used = true
				}
			}
			r.check(used, fmt.Sprintf("CheckConstraint:%s#%d:error-consumed", short(c.Name), n), r.pos(c.Instr), "the parse error is read",
				"the error of "+short(c.Name)+"(param) is never read (assigned to a shadowed or dead variable): a value that is no number counts as 0 (or as the overflow bound) and passes the constraint")
		}
		r.atLeast("parses of the parameter value", n, 5)
	})

	r.rule("R3c", "the catch-all shortcuts are decided on the pattern as written: Route.star / Route.root do not depend on the pattern with its escape characters removed (E3)", func() {
		reg := r.Fn("", "(*App).register")
		n := 0
		withinFunction(reg, func() {
			for _, fr := range fieldRefs(reg) {
				if !fr.Write || (fr.Name != "Route.star" && fr.Name != "Route.root") || fr.Val == nil {
					continue
				}
				n++
				unescaped := dependsOn(fr.Val, func(v ssa.Value) bool {
					c, ok := v.(*ssa.Call)
					return ok && strings.HasSuffix(calleeName(&c.Call), ".RemoveEscapeChar")
				}) != nil
				r.check(!unescaped, "register:"+fr.Name+":decided-on-escaped-pattern", r.pos(fr.Instr), fr.Name+" is decided before escape characters are removed",
					fr.Name+" is decided on the pattern after its escape characters were removed: the pattern `/\\*` — a literal asterisk — becomes the catch-all route and its handler runs for every path")
			}
		})
		r.atLeast("shortcut flags set at registration", n, 2)
	})

	// R4 ------------------------------------------------------------------------------
	r.rule("R6", "a route keeps the constraints it was registered with: every parsed Constraint holds the slice header of App.customConstraints as it was at registration (analyseParameterPart stores the variadic slice as is), so that list may only grow by append — no element is assigned, no copy() or slices.Insert shifts it in place; a shift moves the constraints out of the view of the routes registered before, whose custom constraint is then no longer found and lets every value pass (E8 ownership of shared storage)", func() {
		sharedSliceIsAppendOnlyRule(r, "", "customConstraints", "the application's list of custom constraints",
			"routes registered earlier share this backing array through the slice header stored in their Constraint; after an in-place shift their view ends before (or at another) constraint, the lookup by name fails and `/n/:n<even>` serves /n/3 and /n/abc")
	})

	r.rule("R5", "a parameter is optional by its own marker only: what analyseParameterPart stores as routeSegment.IsOptional is (apart from the wildcard case) the comparison of the pattern byte at the parameter's end position with '?' — not the outcome of a search through text that includes the constraint data, where a `?` is a regex quantifier (an optional parameter that is empty skips every constraint) (E8)", func() {
		f := r.Fn("", "(*routeParser).analyseParameterPart")
		n := 0
		for _, fr := range fieldRefs(f) {
			if !fr.Write || fr.Name != "routeSegment.IsOptional" || fr.Val == nil {
				continue
			}
			n++
			var leaves []ssa.Value
			seen := map[ssa.Value]bool{}
			var walk func(v ssa.Value)
			walk = func(v ssa.Value) {
				if v == nil || seen[v] {
					return
				}
				seen[v] = true
				if ph, ok := v.(*ssa.Phi); ok {
					for _, e := range ph.Edges {
						walk(e)
					}
					return
				}
				if _, ok := v.(*ssa.Const); ok {
					return
				}
				leaves = append(leaves, v)
			}
			walk(fr.Val)
			ok, why := len(leaves) > 0, ""
			for _, lf := range leaves {
				ci := decompose(lf)
				_, isC := constInt(ci.Const)
				// (a comparison of another pattern byte with a fixed character — the wildcard marker `pattern[0] == '*'` —
				// is of the same kind)
				_, isElem := stripValue(ci.Root).(*ssa.Index)
				if ld, isLd := stripValue(ci.Root).(*ssa.UnOp); isLd && ld.Op == token.MUL {
					_, isElem = ld.X.(*ssa.IndexAddr)
				}
				if !(isC && (ci.Op == token.EQL || ci.Op == token.NEQ) && isElem) {
					ok, why = false, r.pos(fr.Instr)
				}
			}
			r.check(ok, fmt.Sprintf("analyseParameterPart:IsOptional#%d:by-the-marker-at-the-end", n), r.pos(fr.Instr), "IsOptional is the wildcard test or `pattern[end] == '?'`",
				"IsOptional is decided by something else than the byte at the parameter's end ("+why+"): a `?` inside constraint data — /item/:code<regex(^ab?c$)> — makes the parameter optional, and an empty optional value skips its constraints: /item and /item/ are answered by a handler whose pattern demands a code")
		}
		r.atLeast("stores of routeSegment.IsOptional in analyseParameterPart", n, 1)
	})

	r.rule("R4", "required parameters are non-empty; last non-greedy parameter stops at '/'; non-greedy multi-byte search refuses a '/' before the delimiter (E1)", func() {
		withoutHelpers(func() { // attribution rule: each construct belongs to the one function that contains it
			f := gm
			r.need(f != nil, "getMatch")
			plen := callsMatching(f, false, nameIs(fiberMod+".findParamLen"))
			r.need(len(plen) == 1, "getMatch calls findParamLen once")
			cut := map[edge]bool{}
			for _, br := range branchesIn(f) {
				if loadOfField(br.Info.Root, "routeSegment.IsOptional") {
					if s, ok := br.truthSlot(true); ok {
						cut[edge{br.If.Block(), s}] = true
					}
				}
			}
			for _, br := range ifsOnValue(f, plen[0].Value()) {
				if s, ok := br.eqIntSlot(0, false); ok {
					cut[edge{br.If.Block(), s}] = true
				}
			}
			r.need(len(cut) >= 2, "getMatch branches on IsOptional and on the parameter length")
			outer := rangeLoopsOverField(f, "routeParser.segs")
			r.need(len(outer) == 1, "outer loop")
			stores := storesIntoParamIndex(f, "params")
			isStore := func(in ssa.Instruction) bool {
				for _, s := range stores {
					if s == in {
						return true
					}
				}
				return false
			}
			path, hit := reach(pointAfter(plen[0].Instr), orPred(mayReturnTrue, inBlock(outer[0].Block()), isStore), cut, nil)
			r.check(hit == nil, "getMatch:required-empty", r.pos(plen[0].Instr),
				"with IsOptional=false and length=0 neither the capture, nor acceptance, nor the next segment is reachable",
				"a required parameter of length 0 can be accepted: "+pathString(r.P, path))

			// last segment
			ls := r.Fn("", "findParamLenForLastSegment")
			idx := byteSearchesIn(ls, '/')
			if len(idx) != 1 {
				r.bad("findParamLenForLastSegment:slash-search", r.fpos(ls), "no single search for '/' in the rest of the path")
			} else {
				cut := map[edge]bool{}
				for _, br := range branchesIn(ls) {
					if loadOfField(br.Info.Root, "routeSegment.IsGreedy") {
						if s, ok := br.truthSlot(true); ok {
							cut[edge{br.If.Block(), s}] = true
						}
					}
				}
				nGreedy := len(cut)
				for _, e := range idx[0].notFound {
					cut[e] = true
				}
				// strings.Cut needs no `found` test: without a slash `before` is the whole rest, its length the right answer
				needCuts := 2
				if strings.HasSuffix(idx[0].call.Name, ".Cut") && len(idx[0].notFound) == 0 && nGreedy >= 1 {
					needCuts = 1
				}
				bad := ""
				seen := 0
				for b := range blocksReachable(ls.Blocks[0], cut, nil) {
					if ret, ok := b.Instrs[len(b.Instrs)-1].(*ssa.Return); ok {
						seen++
						if !idx[0].isPos(retOperand(ret, 0)) {
							bad = r.pos(ret)
						}
					}
				}
				r.check(bad == "" && seen > 0 && len(cut) >= needCuts, "findParamLenForLastSegment:non-greedy-stops-at-slash", r.fpos(ls),
					"non-greedy with a '/' present returns exactly the position of the first '/'",
					"non-greedy last parameter may return something other than the position of the first '/' ("+bad+")")
			}
			// multi-byte compare part: findParamLen itself, and a helper of the package it hands the found position to
			// (`return paramLenUpTo(s, pos, segment.IsGreedy)`) — not the other functions it calls
			func() {
				fp := r.Fn("", "findParamLen")
				scope := []*ssa.Function{fp}
				for _, d := range callsIn(fp, false) {
					g := d.Common.StaticCallee()
					if g == nil || g.Pkg != fp.Pkg || len(g.Blocks) == 0 || d.Instr.Parent() != fp {
						continue
					}
					for _, a := range d.Common.Args {
						if dependsOn(a, func(v ssa.Value) bool {
							c, ok := v.(*ssa.Call)
							if !ok || len(c.Call.Args) != 2 {
								return false
							}
							n := calleeName(&c.Call)
							return (n == "strings.Index" || n == "strings.IndexByte") && dependsOn(c.Call.Args[1], func(x ssa.Value) bool { return loadOfField(x, "routeSegment.ComparePart") }) != nil
						}) != nil {
							scope = append(scope, g)
							break
						}
					}
				}
				var slashIdx []byteSearch
				for _, g := range scope {
					slashIdx = append(slashIdx, byteSearchesIn(g, '/')...)
				}
				if len(slashIdx) == 0 {
					r.bad("findParamLen:slash-in-non-greedy", r.fpos(fp), "no search for '/' inside the candidate capture of a non-greedy parameter")
				}
				for _, c := range slashIdx {
					// the search in a boolean helper (`paramSpansSlash(s[:pos])` answering IndexByte(…) != -1): judged at the
					// caller's test of the answer — with the slash found and the parameter not greedy only 0 is returned
					if g := c.call.Fn; g != fp && len(c.notFound) == 0 && g.Signature.Results().Len() == 1 {
						if bt, ok := g.Signature.Results().At(0).Type().Underlying().(*types.Basic); ok && bt.Kind() == types.Bool {
							okHelper, seenCall := true, false
							var own []callSite
							withoutHelpers(func() { own = callsIn(fp, false) })
							for _, hc := range own {
								if hc.Common.StaticCallee() != g || hc.Value() == nil {
									continue
								}
								for _, br := range ifsOnValue(fp, hc.Value()) {
									sl, ok := br.truthSlot(true)
									if !ok {
										continue
									}
									seenCall = true
									cut := map[edge]bool{}
									for _, gb := range branchesInOne(fp) {
										if valueIsField(gb.Info.Root, "routeSegment.IsGreedy") {
											if s2, ok := gb.truthSlot(true); ok {
												cut[edge{gb.If.Block(), s2}] = true
											}
										}
									}
									// the helper's answer and the greedy test may sit in one condition (`!greedy && spans(…)`): start at the edge
									var hit ssa.Instruction
									withoutHelpers(func() {
										_, hit = reachEdge(edge{br.If.Block(), sl}, func(in ssa.Instruction) bool {
											ret, ok := in.(*ssa.Return)
											if !ok {
												return false
											}
											n, isC := constInt(asConst(retOperand(ret, 0)))
											return !(isC && n == 0)
										}, cut, nil)
									})
									if hit != nil {
										okHelper = false
									}
								}
							}
							// the helper answers true exactly when the byte is found
							answersFound := false
							for _, ri := range instrsWhereOne(g, isReturn) {
								ci := decompose(retOperand(ri.(*ssa.Return), 0))
								if k, ok := constInt(ci.Const); ok && stripValue(ci.Root) == c.call.Value() && !ci.Neg && ((ci.Op == token.NEQ && k == -1) || (ci.Op == token.GEQ && k == 0) || (ci.Op == token.GTR && k == -1)) {
									answersFound = true
								}
							}
							r.check(okHelper && seenCall && answersFound, "findParamLen:slash-in-non-greedy", r.pos(c.call.Instr),
								"with the slash found by the helper and the parameter not greedy only 0 is returned", "a non-greedy capture containing '/' can yield a non-zero length")
							continue
						}
					}
					cut := map[edge]bool{}
					for _, br := range branchesIn(c.call.Fn) {
						if valueIsField(br.Info.Root, "routeSegment.IsGreedy") {
							if s, ok := br.truthSlot(true); ok {
								cut[edge{br.If.Block(), s}] = true
							}
						}
					}
					for _, e := range c.notFound {
						cut[e] = true
					}
					_, hit := reach(pointAfter(c.call.Instr), func(in ssa.Instruction) bool {
						ret, ok := in.(*ssa.Return)
						if !ok {
							return false
						}
						n, isC := constInt(asConst(retOperand(ret, 0)))
						return !(isC && n == 0)
					}, cut, nil)
					r.check(hit == nil && len(c.notFound) > 0, "findParamLen:slash-in-non-greedy", r.pos(c.call.Instr),
						"non-greedy capture containing '/' yields length 0 (no match)", "a non-greedy capture containing '/' can yield a non-zero length")
				}
				// every search for the delimiter that ends a parameter — whatever its length — is followed by that slash search
				// before its position is returned as the length of a non-greedy capture
				nd := 0
				for _, d := range callsIn(fp, false) {
					isDelim := false
					switch {
					case d.Name == "strings.Index" || d.Name == "strings.IndexByte":
						needle := d.Common.Args[1]
						isDelim = loadOfField(needle, "routeSegment.ComparePart")
						if ix, ok := stripValue(needle).(*ssa.Index); ok && loadOfField(ix.X, "routeSegment.ComparePart") {
							isDelim = true
						}
					case d.Common.StaticCallee() != nil && d.Common.StaticCallee().Pkg == fp.Pkg && d.Common.StaticCallee().Object() != nil && !d.Common.StaticCallee().Object().Exported() && d.Value() != nil:
						// the search moved into a helper that is handed the delimiter and answers a position
						if b, ok := d.Value().Type().Underlying().(*types.Basic); ok && b.Kind() == types.Int {
							for _, a := range d.Common.Args {
								if loadOfField(a, "routeSegment.ComparePart") {
									isDelim = true
								}
							}
						}
					}
					if !isDelim {
						continue
					}
					nd++
					if g := d.Common.StaticCallee(); g != nil && g.Pkg == fp.Pkg {
						// searches gathered in the helper count as the searches they replace
						inner := 0
						for _, ic := range callsMatching(g, false, nameIs("strings.Index", "strings.IndexByte")) {
							n := ic.Common.Args[1]
							if ix, ok := stripValue(n).(*ssa.Index); ok {
								n = ix.X
							}
							if valueIsField(n, "routeSegment.ComparePart") {
								inner++
							}
						}
						if inner > 1 {
							nd += inner - 1
						}
					}
					cutG := map[edge]bool{}
					for _, br := range branchesIn(fp) {
						if valueIsField(br.Info.Root, "routeSegment.IsGreedy") {
							if sl, ok := br.truthSlot(true); ok {
								cutG[edge{br.If.Block(), sl}] = true
							}
						}
					}
					dv := d.Value()
					_, hit := reach(pointAfter(d.Instr), func(in ssa.Instruction) bool {
						ret, ok := in.(*ssa.Return)
						return ok && retOperand(ret, 0) == dv
					}, cutG, func(in ssa.Instruction) bool {
						for _, sc := range slashIdx {
							if in == sc.call.Instr {
								return true
							}
						}
						return false
					})
					r.check(hit == nil, fmt.Sprintf("findParamLen:delimiter-search#%d:slash-checked", nd), r.pos(d.Instr),
						"for a non-greedy parameter the found position is returned only after the capture was searched for '/'",
						"the position of the delimiter is returned as the length of a non-greedy capture without looking for a '/' inside it: /:a-:b accepts /x/y-z with a = \"x/y\" — a named parameter spans a path segment boundary")
				}
				r.atLeast("delimiter searches in findParamLen", nd, 2)
			}()
		})
	})
}

func posOf(r *Run, in ssa.Instruction) string {
	if in == nil {
		return "-"
	}
	return r.pos(in)
}

func asConst(v ssa.Value) *ssa.Const {
	c, _ := v.(*ssa.Const)
	return c
}

func isConstInt(v ssa.Value, k int64) bool {
	n, ok := constInt(asConst(v))
	return ok && n == k
}

func isLoadOf(v ssa.Value, addr ssa.Value) bool {
	u, ok := v.(*ssa.UnOp)
	return ok && u.Op == token.MUL && u.X == addr
}

// armFacts: for the switch arm entered through `arm`, can it reject, and what is the
// largest constant index it reads from Constraint.Data (-1 if none)?
func armFacts(f *ssa.Function, arm edge) (canReject bool, maxIdx int64) {
	maxIdx = -1
	// tail = blocks ending in a non-constant return
	tails := map[*ssa.BasicBlock]bool{}
	for _, b := range f.Blocks {
		if isRet, isC, _ := retConstBool(b.Instrs[len(b.Instrs)-1]); isRet && !isC {
			tails[b] = true
		}
	}
	region := blocksReachable(arm.To(), nil, tails)
	for b := range region {
		last := b.Instrs[len(b.Instrs)-1]
		if isRet, isC, v := retConstBool(last); isRet && isC && !v && !tails[b] {
			canReject = true
		}
		if tails[b] {
			// `return phi == nil`: the arm can reject iff it may deliver a non-nil value
			ret := last.(*ssa.Return)
			ci := decompose(retOperand(ret, 0))
			if phi, ok := ci.Root.(*ssa.Phi); ok && phi.Block() == b {
				for i, pred := range b.Preds {
					if region[pred] || pred == arm.From {
						if c, isC := phi.Edges[i].(*ssa.Const); !isC || !constIsNil(c) {
							canReject = true
						}
					}
				}
			} else {
				canReject = true // some other computed verdict: not classified, assume it can reject
			}
			continue
		}
		for _, in := range b.Instrs {
			ia, ok := in.(*ssa.IndexAddr)
			if !ok || !loadOfField(ia.X, "Constraint.Data") {
				continue
			}
			if n, ok := constInt(asConst(ia.Index)); ok && n > maxIdx {
				maxIdx = n
			}
		}
	}
	return
}

// byteSearch: one search for a single byte in a string, however it is written — strings.IndexByte / Index with the
// result compared to -1 (or tested for its sign), strings.Contains / ContainsRune / ContainsAny (a boolean), or
// strings.Cut (found flag, position = len(before)).
type byteSearch struct {
	call     callSite
	notFound []edge                 // edges taken when the byte is absent
	isPos    func(v ssa.Value) bool // v is the position of the first occurrence
}

func byteSearchesIn(f *ssa.Function, ch byte) []byteSearch {
	var out []byteSearch
	isNeedle := func(v ssa.Value) bool {
		if isConstInt(v, int64(ch)) {
			return true
		}
		if str, ok := constString(asConst(v)); ok && str == string(ch) {
			return true
		}
		return literalIs(v, string(ch)) // []byte(";")
	}
	for _, c := range callsIn(f, false) {
		if len(c.Common.Args) != 2 || !isNeedle(c.Common.Args[1]) {
			continue
		}
		c := c
		bs := byteSearch{call: c}
		switch c.Name {
		case "strings.IndexByte", "strings.Index", "strings.IndexRune", "bytes.IndexByte", "bytes.Index", "bytes.IndexRune":
			for _, br := range ifsOnValue(f, c.Value()) {
				if sl, ok := br.eqIntSlot(-1, true); ok {
					bs.notFound = append(bs.notFound, edge{br.If.Block(), sl})
					continue
				}
				n, isC := constInt(br.Info.Const)
				if !isC {
					continue
				}
				switch {
				case n == 0 && br.Info.Op == token.LSS, n == -1 && br.Info.Op == token.LEQ:
					bs.notFound = append(bs.notFound, edge{br.If.Block(), br.slotWhenRel(true)})
				case n == 0 && br.Info.Op == token.GEQ, n == -1 && br.Info.Op == token.GTR:
					bs.notFound = append(bs.notFound, edge{br.If.Block(), br.slotWhenRel(false)})
				}
			}
			bs.isPos = func(v ssa.Value) bool { return v == c.Value() }
		case "strings.Contains", "strings.ContainsRune", "strings.ContainsAny", "bytes.Contains", "bytes.ContainsRune", "bytes.ContainsAny":
			for _, br := range ifsOnValue(f, c.Value()) {
				if sl, ok := br.truthSlot(false); ok {
					bs.notFound = append(bs.notFound, edge{br.If.Block(), sl})
				}
			}
			bs.isPos = func(ssa.Value) bool { return false }
		case "strings.Cut", "bytes.Cut":
			var before ssa.Value
			if c.Value() != nil && c.Value().Referrers() != nil {
				for _, ref := range *c.Value().Referrers() {
					ex, ok := ref.(*ssa.Extract)
					if !ok {
						continue
					}
					switch ex.Index {
					case 0:
						before = ex
					case 2:
						for _, br := range ifsOnValue(f, ex) {
							if sl, ok := br.truthSlot(false); ok {
								bs.notFound = append(bs.notFound, edge{br.If.Block(), sl})
							}
						}
					}
				}
			}
			bs.isPos = func(v ssa.Value) bool { return before != nil && isLenOf(v, before) }
		default:
			continue
		}
		out = append(out, bs)
	}
	return out
}
