package main

import (
	"fmt"
	"go/token"
	"go/types"
	"strings"

	"golang.org/x/tools/go/ssa"
)

func init() {
	register(&propDef{
		ID: "C19",
		Explain: "Decided clauses: R1 every non-empty value reaching Access-Control-Allow-Origin is either \"*\" defined under allowAllOrigins or the lower-cased request Origin defined under an exact-list match, " +
			"a subdomain.match success or AllowOriginsFunc success; the header is set nowhere else; R2 Allow-Credentials is unreachable from the allowOrigin == \"*\" edge and construction refuses AllowCredentials with all origins; " +
			"R3 past the Next skip every return is preceded by Vary: Origin unless all origins are allowed; R4 from the preflight edge c.Next() is unreachable and the reply is SendStatus(204) after the simple headers. " +
			"R5 the offsets that split a `scheme://*.domain` entry agree with the positions of `*` and `.` in the literal that located them, so the stored suffix starts with the label separator. Not decided: string semantics of subdomain.match beyond that (prefix/suffix comparison itself), url.Parse.",
		Assume: []string{"c.Set writes exactly the given header"},
		Run:    runC19,
	})
}

const corsPkg = "middleware/cors"

func runC19(r *Run) {
	handler := func() *ssa.Function {
		f := r.Fn(corsPkg, "New")
		hs := handlerClosures(f)
		r.need(len(hs) == 1, "cors.New returns one handler closure")
		return hs[0]
	}
	isNextCall := func(in ssa.Instruction) bool {
		return isCallTo(in, func(s string) bool { return s == "("+fiberMod+".Ctx).Next" })
	}
	allEdges := func(f *ssa.Function, want bool) []edge {
		var out []edge
		for _, br := range branchesIn(f) {
			if cellName(br.Info.Root) == "allowAllOrigins" {
				if s, ok := br.truthSlot(want); ok {
					out = append(out, edge{br.If.Block(), s})
				}
			}
		}
		return out
	}
	dominatedByAny := func(b *ssa.BasicBlock, es []edge) bool {
		for _, e := range es {
			if len(e.To().Preds) == 1 && dom(e.To(), b) {
				return true
			}
		}
		return false
	}

	r.rule("R1", "guarded assignment of the allowed origin (E3 backwards + E1)", func() {
		h := handler()
		ssh := callsMatching(h, false, nameHasSuffix("cors.setSimpleHeaders"))
		r.atLeast("setSimpleHeaders call sites", len(ssh), 2)
		// originHeader = strings.ToLower(c.Get("Origin"))
		var originHeader ssa.Value
		for _, c := range callsMatching(h, false, nameIs("strings.ToLower")) {
			if inner, ok := c.Common.Args[0].(*ssa.Call); ok && strings.HasSuffix(calleeName(&inner.Call), ".Ctx).Get") {
				if s, ok := constString(asConst(inner.Call.Args[0])); ok && s == "Origin" {
					originHeader = c.Value()
				}
			}
		}
		r.need(originHeader != nil, "originHeader = strings.ToLower(c.Get(\"Origin\"))")
		// permission edges for the request origin (also inside boolean helpers the handler asks)
		permit := corsPermitEdges(h, originHeader, func(v ssa.Value) bool {
			return dependsOn(v, func(x ssa.Value) bool { return cellName(x) == "allowOrigins" }) != nil
		}, 0)
		r.atLeast("permission edges (list, subdomain, func — or helpers answering for them)", len(permit), 2)
		allTrue := allEdges(h, true)
		for i, c := range ssh {
			v := c.Common.Args[1]
			okAll := true
			why := ""
			seen := map[ssa.Value]bool{}
			var walk func(v ssa.Value, origin *ssa.BasicBlock, d int)
			walk = func(v ssa.Value, origin *ssa.BasicBlock, d int) {
				if p, ok := v.(*ssa.Phi); ok && d < 12 {
					if seen[p] {
						return
					}
					seen[p] = true
					for j, e := range p.Edges {
						walk(e, p.Block().Preds[j], d+1)
					}
					return
				}
				if s, ok := constString(asConst(v)); ok {
					switch s {
					case "":
						return
					case "*":
						if origin != nil && dominatedByAny(origin, allTrue) {
							return
						}
						okAll, why = false, "\"*\" is assigned outside the allowAllOrigins edge"
						return
					}
					okAll, why = false, "constant origin "+s
					return
				}
				if v == originHeader {
					if origin != nil && dominatedByAny(origin, permit) {
						return
					}
					okAll, why = false, "the request origin is assigned on a path that passed none of: exact list match, subdomain match, AllowOriginsFunc"
					return
				}
				okAll, why = false, "value "+v.Name()+" is neither \"*\", \"\" nor the lower-cased request origin"
			}
			walk(v, nil, 0)
			r.check(okAll, "handler:setSimpleHeaders#"+string(rune('0'+i))+":allowOrigin-provenance", r.pos(c.Instr), "allowOrigin ∈ {\"\", \"*\" under allowAllOrigins, request origin under a permission edge}",
				"Access-Control-Allow-Origin can be emitted for an origin the configuration does not permit: "+why)
		}
		// header set only from setSimpleHeaders with its parameter
		n := 0
		r.P.AllFuncs(corsPkg, func(f *ssa.Function) {
			for _, c := range callsMatching(f, false, nameHasSuffix(".Ctx).Set")) {
				if s, ok := constString(asConst(c.Common.Args[0])); ok && s == "Access-Control-Allow-Origin" {
					n++
					p, isParam := c.Common.Args[1].(*ssa.Parameter)
					r.check(f.Name() == "setSimpleHeaders" && isParam && p.Name() == "allowOrigin", "who-sets-Allow-Origin:"+f.Name(), r.pos(c.Instr), "set from setSimpleHeaders' allowOrigin parameter", "Access-Control-Allow-Origin is set outside the guarded path")
				}
			}
		})
		r.atLeast("Allow-Origin setters", n, 1)
	})

	r.rule("R2", "never `*` together with credentials (E1)", func() {
		f := r.Fn(corsPkg, "setSimpleHeaders")
		isCred := func(in ssa.Instruction) bool {
			ci, ok := in.(ssa.CallInstruction)
			if !ok || !strings.HasSuffix(calleeName(ci.Common()), ".Ctx).Set") {
				return false
			}
			s, ok := constString(asConst(ci.Common().Args[0]))
			return ok && s == "Access-Control-Allow-Credentials"
		}
		r.need(len(instrsWhere(f, isCred)) >= 1, "setSimpleHeaders sets Allow-Credentials")
		n := 0
		for _, br := range branchesIn(f) {
			if s, ok := constString(br.Info.Const); ok && s == "*" {
				if p, ok := br.Info.Root.(*ssa.Parameter); ok && p.Name() == "allowOrigin" {
					n++
					sl, _ := br.slotFor(token.EQL)
					_, hit := reachEdge(edge{br.If.Block(), sl}, isCred, nil, nil)
					r.check(hit == nil, "setSimpleHeaders:star↛credentials", r.pos(br.If), "Allow-Credentials unreachable from the allowOrigin == \"*\" edge", "Access-Control-Allow-Credentials: true can be sent together with Access-Control-Allow-Origin: *")
				}
			}
		}
		// with credentials configured the header must sit behind a test against "*"
		cut := map[edge]bool{}
		for _, br := range branchesIn(f) {
			if s, ok := constString(br.Info.Const); ok && s == "*" {
				if sl, ok := br.slotFor(token.NEQ); ok {
					cut[edge{br.If.Block(), sl}] = true
				}
			}
		}
		_, hit := reach(entryOf(f), isCred, cut, nil)
		r.check(n > 0 && hit == nil, "setSimpleHeaders:credentials-need-non-star", r.fpos(f), "Allow-Credentials is only reachable through an allowOrigin != \"*\" edge", "Allow-Credentials is reachable without testing allowOrigin against \"*\"")
		// construction refuses the combination
		nf := r.Fn(corsPkg, "New")
		okPanic := false
		for _, br := range branchesIn(nf) {
			if cellName(br.Info.Root) != "allowAllOrigins" {
				continue
			}
			sl, ok := br.truthSlot(true)
			if !ok {
				continue
			}
			// this is the validation if the block is reached via AllowCredentials == true
			underCreds := false
			for _, b2 := range branchesIn(nf) {
				if loadOfField(b2.Info.Root, "cors.Config.AllowCredentials") {
					if s2, ok := b2.truthSlot(true); ok && dom(b2.If.Block().Succs[s2], br.If.Block()) {
						underCreds = true
					}
				}
			}
			if !underCreds {
				continue
			}
			_, hit := reachEdge(edge{br.If.Block(), sl}, isReturn, nil, nil)
			okPanic = hit == nil
		}
		r.check(okPanic, "New:refuses-credentials-with-all-origins", r.fpos(nf), "AllowCredentials && allowAllOrigins never returns a handler (panics)", "a handler can be constructed with AllowCredentials and all origins allowed")
	})

	r.rule("R3", "Vary: Origin precedes every return unless all origins are allowed (E1)", func() {
		h := handler()
		cut := map[edge]bool{}
		for _, e := range allEdges(h, true) {
			cut[e] = true
		}
		for _, c := range callsMatching(h, false, nameIs("field:cors.Config.Next")) {
			for _, br := range ifsOnValue(h, c.Value()) {
				if s, ok := br.truthSlot(true); ok {
					cut[edge{br.If.Block(), s}] = true
				}
			}
		}
		isVaryOrigin := func(in ssa.Instruction) bool {
			ci, ok := in.(ssa.CallInstruction)
			if !ok || !strings.HasSuffix(calleeName(ci.Common()), ".Ctx).Vary") {
				return false
			}
			// variadic: args[0] is a slice built from a one-element array holding "Origin"
			found := false
			for _, a := range ci.Common().Args {
				if sl, ok := a.(*ssa.Slice); ok {
					if al, ok := sl.X.(*ssa.Alloc); ok {
						for _, st := range storesInto(al) {
							if s, ok := constString(asConst(st.Val)); ok && s == "Origin" {
								found = true
							}
						}
					}
				}
			}
			return found
		}
		r.need(len(instrsWhere(h, isVaryOrigin)) >= 3, "handler calls Vary(\"Origin\")")
		path, hit := reach(entryOf(h), isReturn, cut, isVaryOrigin)
		r.check(hit == nil, "handler:Vary-Origin-before-return", r.fpos(h), "with the allowAllOrigins and Next-skip edges removed every return is preceded by Vary: Origin",
			"a response that depends on the request origin can be returned without Vary: Origin (cache poisoning): "+pathString(r.P, path))
	})

	r.rule("R4", "preflight never reaches the handler (E1)", func() {
		h := handler()
		var mbrs []branch
		for _, br := range branchesIn(h) {
			if s, ok := constString(br.Info.Const); ok && s == "OPTIONS" {
				if c, ok := stripValue(br.Info.Root).(*ssa.Call); ok && strings.HasSuffix(calleeName(&c.Call), ".Ctx).Method") {
					mbrs = append(mbrs, br)
				}
			}
		}
		r.need(len(mbrs) == 2, "two tests of c.Method() against OPTIONS")
		pre := mbrs[0]
		if dom(mbrs[0].If.Block(), mbrs[1].If.Block()) {
			pre = mbrs[1]
		}
		sl, _ := pre.slotFor(token.EQL)
		start := pointOfEdge(edge{pre.If.Block(), sl})
		_, hit := reach(start, isNextCall, nil, nil)
		r.check(hit == nil, "handler:preflight↛Next", r.pos(pre.If), "c.Next() unreachable from the preflight edge", "a preflight request reaches the application handler")
		okRet := true
		cnt := 0
		for b := range blocksReachable(start.Block, nil, nil) {
			if ret, ok := b.Instrs[len(b.Instrs)-1].(*ssa.Return); ok {
				cnt++
				c, _ := producerCall(retOperand(ret, 0))
				if c == nil || !strings.HasSuffix(calleeName(&c.Call), ".Ctx).SendStatus") || !isConstInt(c.Call.Args[len(c.Call.Args)-1], 204) {
					okRet = false
				}
			}
		}
		r.check(okRet && cnt > 0, "handler:preflight→204", r.pos(pre.If), "every preflight return is SendStatus(204)", "a preflight reply is not 204")
		_, hit = reach(start, isReturn, nil, func(in ssa.Instruction) bool { return isCallTo(in, nameHasSuffix("cors.setSimpleHeaders")) })
		r.check(hit == nil, "handler:preflight-sets-simple-headers", r.pos(pre.If), "the simple headers are set on every preflight path", "a preflight reply can lack the Allow-Origin decision")
		// configured methods/headers
		for _, hdr := range []string{"Access-Control-Allow-Methods", "Access-Control-Allow-Headers"} {
			found := false
			var scan func(in ssa.Instruction, depth int)
			scan = func(in ssa.Instruction, depth int) {
				ci, ok := in.(ssa.CallInstruction)
				if !ok {
					return
				}
				if strings.HasSuffix(calleeName(ci.Common()), ".Ctx).Set") {
					if s, ok := constString(asConst(ci.Common().Args[0])); ok && s == hdr {
						found = true
					}
					return
				}
				// a helper of the package called from the preflight region (`setPreflightHeaders(c, cfg)`)
				if g := ci.Common().StaticCallee(); g != nil && depth < 2 && isTransparent(g, pkgOfFn(h)) {
					for _, gb := range g.Blocks {
						for _, gi := range gb.Instrs {
							scan(gi, depth+1)
						}
					}
				}
			}
			for b := range blocksReachable(start.Block, nil, nil) {
				for _, in := range b.Instrs {
					scan(in, 0)
				}
			}
			r.check(found, "handler:preflight-sets-"+hdr, r.pos(pre.If), hdr+" is set in the preflight region", hdr+" is never set for preflight requests")
		}
		// configured headers win: what the request asks for is echoed only when no list is configured
		var emptyEdges []edge
		for _, br := range branchesIn(h) {
			k, isInt := constInt(br.Info.Const)
			c, isCall := stripValue(br.Info.Root).(*ssa.Call)
			if !isInt || k != 0 || !isCall || calleeName(&c.Call) != "builtin:len" || len(c.Call.Args) != 1 {
				continue
			}
			if fv := fieldOfValue(stripValue(c.Call.Args[0])); fv == nil || fv.Name() != "AllowHeaders" {
				continue
			}
			switch br.Info.Op {
			case token.GTR, token.NEQ:
				emptyEdges = append(emptyEdges, edge{br.If.Block(), br.slotWhenRel(false)})
			case token.EQL, token.LEQ:
				emptyEdges = append(emptyEdges, edge{br.If.Block(), br.slotWhenRel(true)})
			}
		}
		isEcho := func(in ssa.Instruction) bool {
			ci, ok := in.(ssa.CallInstruction)
			if !ok || !strings.HasSuffix(calleeName(ci.Common()), ".Ctx).Set") {
				return false
			}
			if s, ok := constString(asConst(ci.Common().Args[0])); !ok || s != "Access-Control-Allow-Headers" {
				return false
			}
			return dependsOn(ci.Common().Args[1], func(x ssa.Value) bool {
				c, ok := x.(*ssa.Call)
				return ok && strings.HasSuffix(calleeName(&c.Call), ".Ctx).Get")
			}) != nil
		}
		cutE := map[edge]bool{}
		for _, e := range emptyEdges {
			cutE[e] = true
		}
		_, hit = reach(start, isEcho, cutE, nil)
		r.check(hit == nil, "handler:preflight-configured-headers-win", r.pos(pre.If), fmt.Sprintf("the requested headers are echoed only behind `no AllowHeaders configured` (%d such tests)", len(emptyEdges)),
			"Access-Control-Allow-Headers can carry the request's Access-Control-Request-Headers although a list is configured: every header the caller asks for is allowed")
	})

	r.rule("R5", "the wildcard split keeps the label boundary: the offsets applied to a `scheme://*.domain` entry agree with the positions of `*` and `.` in the literal that located them (E5)", func() {
		f := r.Fn(corsPkg, "New")
		var idx *ssa.Call
		lit := ""
		for _, c := range callsMatching(f, false, nameIs("strings.Index")) {
			if s, ok := constString(asConst(c.Common.Args[1])); ok && strings.Contains(s, "*") {
				idx, _ = c.Instr.(*ssa.Call)
				lit = s
			}
		}
		if idx == nil {
			// the same split written with strings.Cut(entry, "://*."): before = the scheme, after = the host behind the `.`;
			// the position of the wildcard is len(before) + (offset of '*' in the literal)
			var cut *ssa.Call
			for _, c := range callsMatching(f, false, nameIs("strings.Cut")) {
				if s, ok := constString(asConst(c.Common.Args[1])); ok && strings.Contains(s, "*") {
					cut, _ = c.Instr.(*ssa.Call)
					lit = s
				}
			}
			if cut != nil {
				g := cut.Parent()
				star := strings.IndexByte(lit, '*')
				noStar := lit[:star] + lit[star+1:]
				if !(star+1 < len(lit) && lit[star+1] == '.') {
					r.bad("New:wildcard-marker-includes-the-label-separator", r.pos(cut), fmt.Sprintf("a wildcard entry is recognised by %q, which does not include the `.` that follows the `*`: `https://*example.com` is accepted as an entry and its suffix `example.com` allows https://evilexample.com", lit))
					return
				}
				r.ok("New:wildcard-marker-includes-the-label-separator", r.pos(cut), fmt.Sprintf("wildcard entries are recognised by %q: the wildcard stands for whole labels", lit))
				var before ssa.Value
				for _, u := range *cut.Referrers() {
					if e, ok := u.(*ssa.Extract); ok && e.Index == 0 {
						before = e
					}
				}
				// offset of a bound relative to len(before)
				offsetOf := func(v ssa.Value) (int64, bool) {
					isLenBefore := func(x ssa.Value) bool {
						c, ok := stripValue(x).(*ssa.Call)
						if !ok {
							return false
						}
						bi, ok := c.Call.Value.(*ssa.Builtin)
						return ok && bi.Name() == "len" && before != nil && c.Call.Args[0] == before
					}
					v = stripValue(v)
					if isLenBefore(v) {
						return 0, true
					}
					if bo, ok := v.(*ssa.BinOp); ok && bo.Op == token.ADD {
						if k, ok := constInt(asConst(bo.Y)); ok && isLenBefore(bo.X) {
							return k, true
						}
						if k, ok := constInt(asConst(bo.X)); ok && isLenBefore(bo.Y) {
							return k, true
						}
					}
					return 0, false
				}
				n := 0
				var bad []string
				for _, fr := range fieldRefs(g) {
					if !fr.Write || !strings.HasSuffix(fr.Name, "subdomain.prefix") && !strings.HasSuffix(fr.Name, "subdomain.suffix") {
						continue
					}
					sl, ok := stripValue(fr.Val).(*ssa.Slice)
					if !ok {
						bad = append(bad, r.pos(fr.Instr)+": the stored part is not a cut of the normalised entry")
						continue
					}
					bound, which := sl.High, "prefix"
					if strings.HasSuffix(fr.Name, ".suffix") {
						bound, which = sl.Low, "suffix"
					}
					n++
					c, ok := offsetOf(bound)
					switch {
					case bound == nil || !ok:
						bad = append(bad, fmt.Sprintf("%s: the stored %s is cut at a position that is not derived from where the wildcard was found", r.pos(sl), which))
					case int(c) != star:
						bad = append(bad, fmt.Sprintf("%s: the stored %s is cut at len(before)+%d, the wildcard stood at len(before)+%d: the prefix no longer ends with the scheme separator / the suffix no longer starts at the `.`", r.pos(sl), which, c, star))
					}
				}
				// the entry is put together again without the `*` and nothing else missing
				okJoin := false
				for _, b := range g.Blocks {
					for _, in := range b.Instrs {
						if bo, ok := in.(*ssa.BinOp); ok && bo.Op == token.ADD {
							if str, ok := constString(asConst(bo.Y)); ok && str == noStar && stripValue(bo.X) == before {
								okJoin = true
							}
						}
					}
				}
				if !okJoin {
					bad = append(bad, "the entry is not reassembled as before + "+fmt.Sprintf("%q", noStar)+" + after")
				}
				r.check(len(bad) == 0, "New:wildcard-split-offsets", r.pos(cut), "prefix and suffix are cut at the wildcard's position in the reassembled entry",
					"the stored prefix / suffix of a wildcard entry do not meet at the wildcard's position: `https://*.example.com` then also allows look-alike hosts or another scheme ("+strings.Join(bad, "; ")+")")
				r.atLeast("wildcard split offsets", n, 2)
				return
			}
		}
		r.need(idx != nil, "New locates the wildcard with strings.Index(entry, literal containing '*') or strings.Cut")
		f = idx.Parent() // New itself, or the helper the parse loop was moved into
		star := strings.IndexByte(lit, '*')
		noStar := lit[:star] + lit[star+1:]
		if !(star+1 < len(lit) && lit[star+1] == '.') {
			r.bad("New:wildcard-marker-includes-the-label-separator", r.pos(idx), fmt.Sprintf("a wildcard entry is recognised by %q, which does not include the `.` that follows the `*`: `https://*example.com` is accepted as an entry and its suffix `example.com` allows https://evilexample.com (with credentials, when configured)", lit))
			return
		}
		r.ok("New:wildcard-marker-includes-the-label-separator", r.pos(idx), fmt.Sprintf("wildcard entries are recognised by %q: the wildcard stands for whole labels", lit))
		raw := idx.Call.Args[0]
		n := 0
		var bad []string
		for _, b := range f.Blocks {
			for _, in := range b.Instrs {
				sl, ok := in.(*ssa.Slice)
				if !ok {
					continue
				}
				ref := noStar // a string from which the `*` was cut out
				what := "normalised"
				if sl.X == raw {
					ref, what = lit, "raw"
				}
				if sl.High != nil {
					if v, c := splitOffset(sl.High); v == ssa.Value(idx) {
						n++
						// the prefix ends right where the wildcard begins
						if int(c) != star {
							bad = append(bad, fmt.Sprintf("%s: %s[:i+%d] does not end at the wildcard (offset %d)", r.pos(in), what, c, star))
						}
					}
				}
				if sl.Low != nil {
					if v, c := splitOffset(sl.Low); v == ssa.Value(idx) {
						n++
						// the suffix starts at the dot that follows the wildcard
						if int(c) >= len(ref) || ref[c] != '.' || (what == "raw" && int(c) != star+1) || (what == "normalised" && int(c) != star) {
							bad = append(bad, fmt.Sprintf("%s: %s[i+%d:] does not start at the '.' that follows the wildcard", r.pos(in), what, c))
						}
					}
				}
			}
		}
		// what is stored as prefix / suffix is cut at the wildcard's position, not at some other integer in scope
		for _, fr := range fieldRefs(f) {
			if !fr.Write || !strings.HasSuffix(fr.Name, "subdomain.prefix") && !strings.HasSuffix(fr.Name, "subdomain.suffix") {
				continue
			}
			sl, ok := stripValue(fr.Val).(*ssa.Slice)
			if !ok {
				continue
			}
			bound, which := sl.High, "prefix"
			if strings.HasSuffix(fr.Name, ".suffix") {
				bound, which = sl.Low, "suffix"
			}
			if bound == nil {
				continue
			}
			if v, _ := splitOffset(bound); v != ssa.Value(idx) {
				bad = append(bad, fmt.Sprintf("%s: the stored %s is cut at a position that is not derived from where the wildcard was found (another integer in scope, e.g. the entry's index in the list): what an entry matches then depends on its place in AllowOrigins — `https://*.example.com` as first entry gets the prefix `htt` and allows http://app.example.com", r.pos(sl), which))
			}
		}
		// the split written with strings.Cut: the part before the separator does not contain it, so a prefix taken
		// from it must get the separator back; the part after "://" starts at the '.' the wildcard left behind
		var cutBad []string
		for _, fr := range fieldRefs(f) {
			if !fr.Write || !strings.HasSuffix(fr.Name, "subdomain.prefix") && !strings.HasSuffix(fr.Name, "subdomain.suffix") {
				continue
			}
			isPrefix := strings.HasSuffix(fr.Name, ".prefix")
			v := stripValue(fr.Val)
			tail := ""
			if bo, ok := v.(*ssa.BinOp); ok && bo.Op == token.ADD {
				if s, ok := constString(asConst(bo.Y)); ok {
					tail, v = s, stripValue(bo.X)
				}
			}
			c, k := producerCall(v)
			if c == nil || calleeName(&c.Call) != "strings.Cut" || k < 0 || k > 1 {
				continue
			}
			sep, ok := constString(asConst(c.Call.Args[1]))
			if !ok {
				continue
			}
			n++
			ref, sufAt := noStar, star
			if c.Call.Args[0] == raw {
				ref, sufAt = lit, star+1
			}
			at := strings.Index(ref, sep)
			switch {
			case at < 0 || sep == "":
				cutBad = append(cutBad, fmt.Sprintf("%s: strings.Cut separator %q is not part of %q", r.pos(fr.Instr), sep, ref))
			case isPrefix && (k != 0 || ref[:at]+tail != ref[:star]):
				cutBad = append(cutBad, fmt.Sprintf("%s: the stored prefix is the text before %q plus %q: it does not end at the wildcard (with the scheme separator)", r.pos(fr.Instr), sep, tail))
			case !isPrefix && (k != 1 || tail != "" || at+len(sep) != sufAt):
				cutBad = append(cutBad, fmt.Sprintf("%s: the stored suffix is not the text that follows the wildcard position", r.pos(fr.Instr)))
			}
		}
		r.check(len(cutBad) == 0, "New:wildcard-split-by-cut", r.pos(idx), "a split written with strings.Cut keeps the scheme separator in the prefix and starts the suffix at the label separator",
			"a wildcard entry's prefix no longer ends with `://` (or its suffix no longer starts at the `.`): `http://*.example.com` then also allows `https://x.example.com` / look-alike hosts ("+strings.Join(cutBad, "; ")+")")
		r.atLeast("wildcard split offsets", n, 4)
		wildcardOffsetsOnTheirString(r, f, "New:wildcard-position-on-the-same-string")
		r.check(len(bad) == 0, "New:wildcard-split-offsets", r.pos(idx), fmt.Sprintf("%d offsets relative to Index(entry, %q): prefixes end at the `*`, suffixes start at the following `.`", n, lit),
			"the stored suffix of a wildcard entry no longer begins with the label separator: `https://*.example.com` then also allows `https://evilexample.com` ("+strings.Join(bad, "; ")+")")

		// the matcher itself: true only for prefix ∧ suffix (the length test is implied: a prefix ending in "://" and a
		// suffix starting with "." cannot overlap, so it is not demanded)
		m := firstFn(r, corsPkg, "(subdomain).match", "(*subdomain).match")
		type need struct {
			name string
			is   func(v ssa.Value) bool
		}
		callOn := func(fn, field string) func(v ssa.Value) bool {
			onField := func(x ssa.Value) bool {
				return dependsOn(x, func(y ssa.Value) bool {
					fv := fieldOfValue(y)
					return fv != nil && fv.Name() == field
				}) != nil
			}
			// the same test written as a comparison of a slice of the origin: `o[:len(prefix)] == prefix`,
			// `o[len(o)-len(suffix):] == suffix` (what bounds the slice is C07's question, not this rule's)
			sliced := func(v ssa.Value) bool {
				bo, ok := v.(*ssa.BinOp)
				if !ok || bo.Op != token.EQL {
					return false
				}
				for _, pair := range [][2]ssa.Value{{bo.X, bo.Y}, {bo.Y, bo.X}} {
					sl, ok := stripValue(pair[0]).(*ssa.Slice)
					if !ok || !onField(pair[1]) {
						continue
					}
					if _, isParam := stripValue(sl.X).(*ssa.Parameter); !isParam {
						continue
					}
					lenOfPart := func(x ssa.Value) bool {
						c, ok := x.(*ssa.Call)
						if !ok || len(c.Call.Args) != 1 {
							return false
						}
						bi, ok := c.Call.Value.(*ssa.Builtin)
						return ok && bi.Name() == "len" && onField(c.Call.Args[0])
					}
					if fn == "strings.HasPrefix" && sl.Low == nil && sl.High != nil && lenOfPart(sl.High) {
						return true
					}
					if fn == "strings.HasSuffix" && sl.High == nil && sl.Low != nil {
						if sub, ok := sl.Low.(*ssa.BinOp); ok && sub.Op == token.SUB && isLenOf(sub.X, sl.X) && lenOfPart(sub.Y) {
							return true
						}
					}
				}
				return false
			}
			return func(v ssa.Value) bool {
				if sliced(v) {
					return true
				}
				c, ok := v.(*ssa.Call)
				if !ok || calleeName(&c.Call) != fn || len(c.Call.Args) != 2 {
					return false
				}
				_, isParam := stripValue(c.Call.Args[0]).(*ssa.Parameter)
				return isParam && dependsOn(c.Call.Args[1], func(x ssa.Value) bool {
					fv := fieldOfValue(x)
					return fv != nil && fv.Name() == field
				}) != nil
			}
		}
		needs := []need{
			{"HasPrefix(origin, prefix)", callOn("strings.HasPrefix", "prefix")},
			{"HasSuffix(origin, suffix)", callOn("strings.HasSuffix", "suffix")},
		}
		type leaf struct {
			v    ssa.Value
			from *ssa.BasicBlock
		}
		var leaves []leaf
		nret := 0
		for _, in := range instrsWhereOne(m, isReturn) {
			ret := in.(*ssa.Return)
			nret++
			rv := retOperand(ret, 0)
			if ph, ok := rv.(*ssa.Phi); ok {
				for k, e := range ph.Edges {
					leaves = append(leaves, leaf{e, ph.Block().Preds[k]})
				}
			} else {
				leaves = append(leaves, leaf{rv, ret.Block()})
			}
		}
		r.need(nret >= 1, "match returns")
		for _, nd := range needs {
			var pv ssa.Value
			for _, b := range m.Blocks {
				for _, in := range b.Instrs {
					if v, ok := in.(ssa.Value); ok && nd.is(v) {
						pv = v
					}
				}
			}
			okN := pv != nil
			if okN {
				cut := map[edge]bool{}
				for _, e := range trueEdgesOf(m, pv) {
					cut[e] = true
				}
				live := blocksReachable(m.Blocks[0], cut, nil)
				for _, lf := range leaves {
					if b, ok := constBool(asConst(lf.v)); ok && !b {
						continue
					}
					if lf.v == pv {
						continue
					}
					if live[lf.from] {
						okN = false
					}
				}
			}
			r.check(okN, "match:requires-"+nd.name, r.fpos(m), "match can only answer true when "+nd.name+" holds", "subdomain.match can answer true without "+nd.name+": an origin that merely contains the allowed domain, or is too short to hold both parts, is allowed")
		}
	})

	r.rule("R8", "the method the middleware sees is the method that was sent: c.Method() names the request's method through (*App).method, the inverse of methodInt — what it returns is an element of the configured table app.config.RequestMethods at the given position on every path; an element of the built-in DefaultMethods is the same name only while no table was configured (behind the test methodInt itself uses, len(configured.RequestMethods) == 0) — with RequestMethods {GET, POST, OPTIONS} a preflight OPTIONS would otherwise be reported as POST, CORS treats it as an actual request and sends no Allow-* headers (E8 inverse tables)", func() {
		f := r.Fn("", "(*App).method")
		n := 0
		okAll := true
		why := ""
		for _, b := range f.Blocks {
			for _, in := range b.Instrs {
				ret, ok := in.(*ssa.Return)
				if !ok || len(ret.Results) != 1 {
					continue
				}
				n++
				var leaves []ssa.Value
				seen := map[ssa.Value]bool{}
				var walk func(v ssa.Value)
				walk = func(v ssa.Value) {
					v = stripValue(v)
					if seen[v] {
						return
					}
					seen[v] = true
					if ph, ok := v.(*ssa.Phi); ok {
						for _, e := range ph.Edges {
							walk(e)
						}
						return
					}
					leaves = append(leaves, v)
				}
				walk(ret.Results[0])
				for _, lf := range leaves {
					fromConfig := dependsOn(lf, func(v ssa.Value) bool {
						if fa, ok := v.(*ssa.FieldAddr); ok {
							if fv := fieldOfValue(fa); fv != nil && fv.Name() == "RequestMethods" {
								return true
							}
						}
						return false
					}) != nil
					fromDefault := dependsOn(lf, func(v ssa.Value) bool {
						g, ok := v.(*ssa.Global)
						return ok && g.Name() == "DefaultMethods"
					}) != nil
					if fromDefault {
						guarded := false
						if lfi, ok := lf.(ssa.Instruction); ok {
							for _, br := range branchesInOne(f) {
								if lenOfField(br.Info.Root, "RequestMethods") && br.Info.Const != nil && isConstInt(br.Info.Const, 0) {
									if sl, ok := br.slotFor(token.EQL); ok && dom(br.If.Block().Succs[sl], lfi.Block()) {
										guarded = true
									}
								}
							}
						}
						if !guarded {
							okAll = false
							why = "a name of the built-in DefaultMethods table is returned without the test that no table was configured"
						}
					} else if !fromConfig {
						okAll = false
						why = "the returned name is not taken from app.config.RequestMethods"
					}
				}
			}
		}
		r.need(n >= 1, "(*App).method returns a name")
		r.check(okAll, "(*App).method:names-from-the-configured-table", r.fpos(f), "the name is the configured table's element at the position", why+": with a custom RequestMethods order or subset c.Method() reports another method than the one sent — OPTIONS becomes POST, the CORS middleware lets the preflight through to the handler and answers without Access-Control-Allow-Methods / -Headers")
	})

	r.rule("R7", "where all origins are allowed the answer does not depend on the origin: with the `allowAllOrigins` = false edges removed, no assignment of the request's origin to the allowed origin is reachable — the simple-request path skips `Vary: Origin` exactly when allowAllOrigins holds, an origin echoed on that path is cached for every origin (E1)", func() {
		h := handler()
		var originHeader ssa.Value
		for _, c := range callsMatching(h, false, nameIs("strings.ToLower")) {
			if inner, ok := c.Common.Args[0].(*ssa.Call); ok && strings.HasSuffix(calleeName(&inner.Call), ".Ctx).Get") {
				if s, ok := constString(asConst(inner.Call.Args[0])); ok && s == "Origin" {
					originHeader = c.Value()
				}
			}
		}
		r.need(originHeader != nil, "originHeader = strings.ToLower(c.Get(\"Origin\"))")
		cut := map[edge]bool{}
		for _, e := range allEdges(h, false) {
			cut[e] = true
		}
		r.need(len(cut) >= 2, "the handler tests allowAllOrigins for the decision and for Vary")
		// the places where the origin becomes the answer: edges into a phi that carry the origin, stores of it into a cell
		n := 0
		for _, b := range h.Blocks {
			for _, in := range b.Instrs {
				var from []*ssa.BasicBlock
				switch x := in.(type) {
				case *ssa.Phi:
					for k, ev := range x.Edges {
						if stripValue(ev) == originHeader {
							from = append(from, b.Preds[k])
						}
					}
				case *ssa.Store:
					if stripValue(x.Val) == originHeader {
						if _, isAlloc := x.Addr.(*ssa.Alloc); isAlloc {
							from = append(from, b)
						}
					}
				}
				for _, pb := range from {
					n++
					tgt := pb.Instrs[len(pb.Instrs)-1]
					path, hit := reach(entryOf(h), func(y ssa.Instruction) bool { return y == tgt }, cut, nil)
					r.check(hit == nil, fmt.Sprintf("handler:echo#%d:not-when-all-origins-are-allowed", n), r.pos(tgt), "the origin is echoed only on paths on which allowAllOrigins is false",
						"the request's origin can become the allowed origin although all origins are allowed (`*` configured together with an allow function): the answer then varies by origin, but `Vary: Origin` is set only when allowAllOrigins is false — a shared cache serves one origin's answer to another: "+pathString(r.P, path))
				}
			}
		}
		r.atLeast("places where the origin becomes the allowed origin", n, 2)
	})

	r.rule("R6", "normalizeOrigin keeps scheme and host as parsed: the normalised origin is lower(Scheme + \"://\" + Host) with nothing cut out of the host (E3 backwards)", func() {
		f := r.Fn(corsPkg, "normalizeOrigin")
		n := 0
		for _, in := range instrsWhereOne(f, isReturn) {
			ret := in.(*ssa.Return)
			if len(ret.Results) != 2 {
				continue
			}
			v := retOperand(ret, 1)
			if s, ok := constString(asConst(v)); ok && s == "" {
				continue
			}
			n++
			okShape, why := true, ""
			hasScheme, hasHost := false, false
			var leaves func(x ssa.Value)
			leaves = func(x ssa.Value) {
				x = stripValue(x)
				if c, ok := x.(*ssa.Call); ok && calleeName(&c.Call) == "strings.ToLower" {
					leaves(c.Call.Args[0])
					return
				}
				if b, ok := x.(*ssa.BinOp); ok && b.Op == token.ADD {
					leaves(b.X)
					leaves(b.Y)
					return
				}
				if ph, ok := x.(*ssa.Phi); ok {
					for _, e := range ph.Edges {
						leaves(e)
					}
					return
				}
				switch {
				case loadOfField(x, "url.URL.Scheme"):
					hasScheme = true
				case loadOfField(x, "url.URL.Host"):
					hasHost = true
				case asConst(x) != nil:
					if s, _ := constString(asConst(x)); s != "://" {
						okShape, why = false, "constant "+s
					}
				default:
					if u, isLoad := x.(*ssa.UnOp); isLoad && u.Op == token.MUL {
						if al := rootAlloc(u.X); al != nil {
							for _, st := range storesInto(al) {
								leaves(st.Val)
							}
							return
						}
					}
					okShape, why = false, "a value that is not the parsed scheme or host ("+x.Name()+")"
				}
			}
			leaves(v)
			r.check(okShape && hasScheme && hasHost, fmt.Sprintf("normalizeOrigin:return#%d:scheme-and-host-verbatim", n), r.pos(in), "the normalised origin is built from the parsed Scheme, \"://\" and the parsed Host only",
				"the normalised origin is built from "+why+": a configured origin is stored as a different origin than written (e.g. with its port dropped), so requests from that other origin are allowed")
		}
		r.atLeast("non-empty returns of normalizeOrigin", n, 1)
	})

}

// corsPermitEdges lists the CFG edges of f on which `origin` is known to be permitted: equality
// with an element of the exact list, subdomain.match / AllowOriginsFunc / slices.Contains success,
// or the true result of a boolean helper that answers true only behind such an edge.
func corsPermitEdges(f *ssa.Function, origin ssa.Value, isList func(ssa.Value) bool, depth int) []edge {
	var permit []edge
	for _, br := range branchesIn(f) {
		if br.Info.Op == token.EQL && br.Info.Other != nil {
			a, b := br.Info.Root, br.Info.Other
			if a == origin {
				a, b = b, a
			}
			if b == origin && isList(a) {
				permit = append(permit, edge{br.If.Block(), br.slotWhenRel(true)})
			}
		}
	}
	isPermitCall := func(c callSite) bool {
		if c.Value() == nil || len(c.Common.Args) == 0 {
			return false
		}
		if c.Common.Args[len(c.Common.Args)-1] != origin {
			return false
		}
		if strings.HasSuffix(c.Name, "cors.subdomain).match") || c.Name == "field:cors.Config.AllowOriginsFunc" {
			return true
		}
		if strings.HasPrefix(c.Name, "slices.Contains") && isList(c.Common.Args[0]) {
			return true
		}
		return false
	}
	for _, c := range callsIn(f, false) {
		if isPermitCall(c) {
			for _, br := range ifsOnValue(f, c.Value()) {
				if s, ok := br.truthSlot(true); ok {
					permit = append(permit, edge{br.If.Block(), s})
				}
			}
			continue
		}
		// a boolean helper asked about the origin
		if depth >= 2 || c.Value() == nil {
			continue
		}
		g := transparentCallee(c.Fn, c.Instr)
		if g == nil || g.Signature.Results().Len() != 1 {
			continue
		}
		if b, ok := g.Signature.Results().At(0).Type().Underlying().(*types.Basic); !ok || b.Kind() != types.Bool {
			continue
		}
		k := -1
		for i, a := range c.Common.Args {
			if a == origin {
				k = i
			}
		}
		if k < 0 || k >= len(g.Params) {
			continue
		}
		po := g.Params[k]
		var inner []edge
		withoutHelpers(func() {
			inner = corsPermitEdges(g, po, func(v ssa.Value) bool {
				return dependsOn(v, func(x ssa.Value) bool { _, isP := x.(*ssa.Parameter); return isP && x != ssa.Value(po) }) != nil
			}, depth+1)
		})
		cut := map[edge]bool{}
		for _, e := range inner {
			cut[e] = true
		}
		okHelper := true
		for _, in := range instrsWhereOne(g, isReturn) {
			ret := in.(*ssa.Return)
			op := retOperand(ret, 0)
			if b, isC := constBool(asConst(op)); isC && !b {
				continue
			}
			// a direct `return slices.Contains(list, origin)` / `return sd.match(origin)`
			if call, isCall := stripValue(op).(*ssa.Call); isCall {
				n := calleeName(&call.Call)
				if len(call.Call.Args) > 0 && call.Call.Args[len(call.Call.Args)-1] == ssa.Value(po) &&
					(strings.HasSuffix(n, "cors.subdomain).match") || strings.HasPrefix(n, "slices.Contains")) {
					continue
				}
			}
			// any other answer that may be true must sit behind a permission edge
			if _, hit := reach(entryOf(g), func(x ssa.Instruction) bool { return x == in }, cut, nil); hit != nil {
				okHelper = false
			}
		}
		if !okHelper {
			continue
		}
		for _, br := range ifsOnValue(f, c.Value()) {
			if s, ok := br.truthSlot(true); ok {
				permit = append(permit, edge{br.If.Block(), s})
			}
		}
	}
	return permit
}

// wildcardOffsetsOnTheirString: the offsets derived from strings.Index(entry, "://*.") are applied to
// that very string (or to strings built from its pieces): nothing that can shift positions — a Trim —
// is applied to a value sliced with those offsets.
func wildcardOffsetsOnTheirString(r *Run, f *ssa.Function, key string) {
	var idx *ssa.Call
	for _, c := range callsMatching(f, false, nameIs("strings.Index")) {
		if s, ok := constString(asConst(c.Common.Args[1])); ok && strings.Contains(s, "*") {
			idx, _ = c.Instr.(*ssa.Call)
		}
	}
	r.need(idx != nil, "the wildcard is located with strings.Index")
	fromIdx := func(v ssa.Value) bool {
		return dependsOn(v, func(x ssa.Value) bool {
			sl, ok := x.(*ssa.Slice)
			if !ok {
				return false
			}
			for _, b := range []ssa.Value{sl.Low, sl.High} {
				if b != nil {
					if base, _ := splitOffset(b); base == ssa.Value(idx) {
						return true
					}
				}
			}
			return false
		}) != nil
	}
	bad := ""
	withoutHelpers(func() {
		for _, c := range callsIn(f, false) {
			if !strings.Contains(c.Name, "utils/v2.Trim") && !strings.HasPrefix(c.Name, "strings.Trim") {
				continue
			}
			if len(c.Common.Args) > 0 && fromIdx(c.Common.Args[0]) {
				bad = r.pos(c.Instr)
			}
		}
	})
	r.check(bad == "", key, r.pos(idx), "no trimming happens between locating the wildcard and applying its position",
		"the entry is trimmed ("+bad+") after the wildcard was located in the untrimmed text: for an entry with a leading blank the split lands one byte late, the stored suffix loses its leading dot and origins outside the domain are matched while the legitimate subdomains are not")
}
