package main

import (
	"fmt"
	"go/token"
	"go/types"
	"os"
	"sort"
	"strings"

	"golang.org/x/tools/go/ssa"
)

// taintCfg parameterises the provenance engine (E3). Everything is resolved: callees by
// calleeName, fields by Owner.Field.
type taintCfg struct {
	// callSource: the result of this call is tainted regardless of its arguments
	callSource func(c *ssa.CallCommon, name string) bool
	// fieldSource: loads of this field are tainted
	fieldSource func(field string) bool
	// cleaner: the result of this call is clean whatever goes in
	cleaner func(c *ssa.CallCommon, name string) bool
	// convertCleans: string(b) / []byte(s) conversions produce a fresh copy (true for aliasing rules, false for content rules)
	convertCleans bool
	// concatCleans: s1 + s2 allocates (true for aliasing rules)
	concatCleans bool
	// sink: argument idx of this call must not be tainted
	sink func(c *ssa.CallCommon, name string, argIdx int) bool
	// visitorSource: closures handed to this callee receive tainted parameters (fasthttp Visit* callbacks)
	visitorSource func(name string) bool
	// opaque external callees that neither propagate nor store (e.g. logging)
	ignoreCall func(name string) bool
	// pruneEdge: configuration assumption — edges that are infeasible under it (block, slot)
	pruneField string // bool config field assumed true (branches on it are pruned)
	// fieldTaintOK: restrict field-based propagation to these owners ("" = all module structs)
	trackField func(field string) bool
}

type sinkHit struct {
	Fn    *ssa.Function
	Instr ssa.Instruction
	Sink  string
	Via   string // chain of functions from the source
}

type taintEngine struct {
	P       *Prog
	cfg     taintCfg
	fields  map[string]bool       // globally tainted fields (field-based, flow-insensitive)
	memo    map[string]*fnSummary // fn + tainted param mask
	active  map[string]bool
	hits    map[ssa.Instruction]sinkHit
	changed bool
}

type fnSummary struct {
	ret     bool
	recv    bool   // taints the object behind pointer param 0 (receiver mutation)
	mut     []bool // reference-typed parameters whose object got tainted inside
	freeMut []bool // captured variables whose object got tainted inside (closures)
	hits    []sinkHit
}

func newTaint(p *Prog, cfg taintCfg) *taintEngine {
	return &taintEngine{P: p, cfg: cfg, fields: map[string]bool{}, memo: map[string]*fnSummary{}, active: map[string]bool{}, hits: map[ssa.Instruction]sinkHit{}}
}

func inModule(f *ssa.Function) bool {
	if f == nil || len(f.Blocks) == 0 {
		return false
	}
	pk := f.Pkg
	if pk == nil && f.Origin() != nil {
		pk = f.Origin().Pkg // instantiated generic
	}
	return pk != nil && strings.HasPrefix(pk.Pkg.Path(), fiberMod)
}

func maskKey(f *ssa.Function, mask []bool, free []bool) string {
	var sb strings.Builder
	sb.WriteString(f.String())
	sb.WriteByte('|')
	for _, m := range mask {
		if m {
			sb.WriteByte('1')
		} else {
			sb.WriteByte('0')
		}
	}
	sb.WriteByte('|')
	for _, m := range free {
		if m {
			sb.WriteByte('1')
		} else {
			sb.WriteByte('0')
		}
	}
	return sb.String()
}

// analyze runs the intra-procedural propagation of f with the given tainted parameters
// (and tainted free variables for closures) and returns its summary.
func (t *taintEngine) analyze(f *ssa.Function, params []bool, free []bool, via string) *fnSummary {
	key := maskKey(f, params, free)
	if s, ok := t.memo[key]; ok {
		return s
	}
	if t.active[key] {
		return &fnSummary{}
	}
	t.active[key] = true
	defer delete(t.active, key)
	sum := &fnSummary{}
	tainted := map[ssa.Value]bool{}
	for i, p := range f.Params {
		if i < len(params) && params[i] {
			tainted[p] = true
		}
	}
	for i, fv := range f.FreeVars {
		if i < len(free) && free[i] {
			tainted[fv] = true
		}
	}
	chain := via + "→" + f.Name()
	// infeasible blocks under the configuration assumption
	dead := map[*ssa.BasicBlock]bool{}
	if t.cfg.pruneField != "" {
		cut := map[edge]bool{}
		for _, br := range branchesIn(f) {
			if loadOfField(br.Info.Root, t.cfg.pruneField) {
				if s, ok := br.truthSlot(false); ok {
					cut[edge{br.If.Block(), s}] = true
				}
			}
		}
		if len(cut) > 0 {
			live := blocksReachable(f.Blocks[0], cut, nil)
			for _, b := range f.Blocks {
				if !live[b] {
					dead[b] = true
				}
			}
		}
	}
	isT := func(v ssa.Value) bool {
		if v == nil {
			return false
		}
		return tainted[v]
	}
	mark := func(v ssa.Value) bool {
		if v == nil || tainted[v] {
			return false
		}
		if !carriesText(v.Type(), 0) {
			return false // numbers, booleans, times cannot carry attacker bytes
		}
		tainted[v] = true
		if u, ok := v.(*ssa.UnOp); ok && u.Op == token.MUL {
			if fv, ok := u.X.(*ssa.FreeVar); ok {
				tainted[fv] = true
			}
		}
		return true
	}
	// root object behind an address/pointer value (for stores and receiver mutation)
	var root func(v ssa.Value, d int) ssa.Value
	root = func(v ssa.Value, d int) ssa.Value {
		if d > 6 {
			return v
		}
		switch x := v.(type) {
		case *ssa.FieldAddr:
			return root(x.X, d+1)
		case *ssa.IndexAddr:
			return root(x.X, d+1)
		case *ssa.Slice:
			return root(x.X, d+1)
		case *ssa.ChangeType:
			return root(x.X, d+1)
		}
		return v
	}
	// per-function field sensitivity: (base value, field index) pairs that hold tainted data
	type fkey struct {
		base ssa.Value
		idx  int
	}
	ftaint := map[fkey]bool{}
	markObj := func(addr ssa.Value) bool {
		// the object an address designates: a field of some base, or the base itself
		if fa, ok := addr.(*ssa.FieldAddr); ok {
			k := fkey{fa.X, fa.Field}
			if !ftaint[k] {
				ftaint[k] = true
				tainted[fa] = true
				return true
			}
			return false
		}
		r := root(addr, 0)
		if _, isParam := r.(*ssa.Parameter); isParam {
			if _, viaField := addr.(*ssa.IndexAddr); !viaField && addr != r {
				return false
			}
		}
		return mark(r)
	}
	for iter := 0; iter < 50; iter++ {
		changed := false
		for _, b := range f.Blocks {
			if dead[b] {
				continue
			}
			for _, in := range b.Instrs {
				switch x := in.(type) {
				case *ssa.Phi:
					for i, e := range x.Edges {
						if dead[b.Preds[i]] {
							continue
						}
						if isT(e) {
							changed = mark(x) || changed
						}
					}
				case *ssa.BinOp:
					if x.Op == token.ADD && (isT(x.X) || isT(x.Y)) {
						if _, isStr := x.Type().Underlying().(*types.Basic); isStr && !t.cfg.concatCleans {
							changed = mark(x) || changed
						}
					}
				case *ssa.Convert:
					if isT(x.X) {
						_, fromSlice := x.X.Type().Underlying().(*types.Slice)
						_, toSlice := x.Type().Underlying().(*types.Slice)
						copies := fromSlice != toSlice // string<->[]byte conversions copy
						if !(copies && t.cfg.convertCleans) {
							changed = mark(x) || changed
						}
					}
				case *ssa.ChangeType:
					if isT(x.X) {
						changed = mark(x) || changed
					}
				case *ssa.ChangeInterface:
					if isT(x.X) {
						changed = mark(x) || changed
					}
				case *ssa.MakeInterface:
					if isT(x.X) {
						changed = mark(x) || changed
					}
				case *ssa.TypeAssert:
					if isT(x.X) {
						changed = mark(x) || changed
					}
				case *ssa.Extract:
					if isT(x.Tuple) {
						changed = mark(x) || changed
					}
				case *ssa.Slice:
					if isT(x.X) {
						changed = mark(x) || changed
					}
				case *ssa.Index:
					if isT(x.X) {
						changed = mark(x) || changed
					}
				case *ssa.IndexAddr:
					if isT(x.X) {
						changed = mark(x) || changed
					}
				case *ssa.Lookup:
					if isT(x.X) {
						changed = mark(x) || changed
					}
				case *ssa.Field:
					if isT(x.X) {
						changed = mark(x) || changed
					}
				case *ssa.FieldAddr:
					if isT(x.X) || ftaint[fkey{x.X, x.Field}] {
						changed = mark(x) || changed
					}
					if fv := fieldVar(x.X.Type(), x.Field); fv != nil {
						name := fieldOwner(fv) + "." + fv.Name()
						if t.fields[name] || (t.cfg.fieldSource != nil && t.cfg.fieldSource(name)) {
							changed = mark(x) || changed
						}
					}
				case *ssa.Range:
					if isT(x.X) {
						changed = mark(x) || changed
					}
				case *ssa.Next:
					if isT(x.Iter) {
						changed = mark(x) || changed
					}
				case *ssa.UnOp:
					if x.Op == token.MUL {
						if isT(x.X) {
							changed = mark(x) || changed
						}
						if fv := fieldOfValue(x); fv != nil {
							name := fieldOwner(fv) + "." + fv.Name()
							if t.fields[name] || (t.cfg.fieldSource != nil && t.cfg.fieldSource(name)) {
								changed = mark(x) || changed
							}
						}
					}
				case *ssa.Store:
					if isT(x.Val) {
						// the stored-to object becomes tainted
						changed = markObj(x.Addr) || changed
						changed = mark(x.Addr) || changed
						if fa, ok := x.Addr.(*ssa.FieldAddr); ok {
							if fv := fieldVar(fa.X.Type(), fa.Field); fv != nil {
								name := fieldOwner(fv) + "." + fv.Name()
								if (t.cfg.trackField == nil || t.cfg.trackField(name)) && !t.fields[name] {
									t.fields[name] = true
									t.changed = true
								}
							}
						}
						// element store into a slice/array that lives in a field: s.f[i] = v
						if ia, ok := x.Addr.(*ssa.IndexAddr); ok {
							if fv := fieldOfValue(ia.X); fv != nil {
								name := fieldOwner(fv) + "." + fv.Name()
								if (t.cfg.trackField == nil || t.cfg.trackField(name)) && !t.fields[name] {
									t.fields[name] = true
									t.changed = true
								}
							}
						}
					}
				case *ssa.MapUpdate:
					if isT(x.Value) || isT(x.Key) {
						// the map object, also when it is reached through interface conversions of the same reference
						for v := ssa.Value(x.Map); v != nil; {
							changed = mark(v) || changed
							switch y := v.(type) {
							case *ssa.TypeAssert:
								v = y.X
							case *ssa.MakeInterface:
								v = y.X
							case *ssa.ChangeInterface:
								v = y.X
							case *ssa.ChangeType:
								v = y.X
							case *ssa.Extract:
								v = y.Tuple
							default:
								v = nil
							}
						}
					}
				case *ssa.MakeClosure:
					// closure sees tainted free variables
					for _, bnd := range x.Bindings {
						if isT(bnd) || isT(root(bnd, 0)) {
							changed = mark(x) || changed
						}
					}
				case ssa.CallInstruction:
					cc := x.Common()
					name := calleeName(cc)
					var res ssa.Value
					if v, ok := in.(*ssa.Call); ok {
						res = v
					}
					args := cc.Args
					if cc.IsInvoke() {
						args = append([]ssa.Value{cc.Value}, cc.Args...)
					}
					anyT := false
					for _, a := range args {
						if isT(a) || isT(root(a, 0)) {
							anyT = true
						}
					}
					// sinks
					if t.cfg.sink != nil {
						for i, a := range args {
							if (isT(a) || isT(root(a, 0))) && t.cfg.sink(cc, name, i) {
								if _, dup := t.hits[in]; !dup {
									h := sinkHit{f, in, name, chain}
									t.hits[in] = h
								}
								found := false
								for _, h := range sum.hits {
									if h.Instr == in {
										found = true
									}
								}
								if !found {
									sum.hits = append(sum.hits, sinkHit{f, in, name, chain})
								}
							}
						}
					}
					if t.cfg.callSource != nil && res != nil && t.cfg.callSource(cc, name) {
						changed = mark(res) || changed
					}
					if t.cfg.cleaner != nil && t.cfg.cleaner(cc, name) {
						continue
					}
					if t.cfg.ignoreCall != nil && t.cfg.ignoreCall(name) {
						continue
					}
					if !anyT && !moduleCallOrClosureArg(cc) {
						continue
					}
					if strings.HasPrefix(name, "builtin:") {
						if !anyT {
							continue
						}
						switch name {
						case "builtin:append", "builtin:copy":
							if res != nil {
								changed = mark(res) || changed
							}
							if name == "builtin:copy" {
								changed = mark(root(args[0], 0)) || changed
							}
						}
						continue
					}
					callee := cc.StaticCallee()
					var closure *ssa.MakeClosure
					if mc, ok := cc.Value.(*ssa.MakeClosure); ok {
						closure = mc
						callee = mc.Fn.(*ssa.Function)
					}
					if inModule(callee) {
						mask := make([]bool, len(callee.Params))
						for i, a := range args {
							if i < len(mask) && (isT(a) || isT(root(a, 0))) {
								mask[i] = true
							}
						}
						var fmask []bool
						if closure != nil {
							fmask = make([]bool, len(callee.FreeVars))
							for i, bnd := range closure.Bindings {
								fmask[i] = isT(bnd) || isT(root(bnd, 0))
							}
						}
						s := t.analyze(callee, mask, fmask, chain)
						if s.ret && res != nil {
							changed = mark(res) || changed
						}
						if s.recv && len(args) > 0 {
							changed = markObj(args[0]) || changed
							changed = mark(args[0]) || changed
						}
						for i, m := range s.mut {
							if m && i < len(args) {
								changed = mark(args[i]) || changed
								changed = markObj(args[i]) || changed
							}
						}
						if closure != nil {
							for i, m := range s.freeMut {
								if m && i < len(closure.Bindings) {
									changed = mark(closure.Bindings[i]) || changed
								}
							}
						}
						for _, h := range s.hits {
							dup := false
							for _, h2 := range sum.hits {
								if h2.Instr == h.Instr {
									dup = true
								}
							}
							if !dup {
								sum.hits = append(sum.hits, h)
							}
						}
						continue
					}
					// external / dynamic callee with a tainted argument: result is tainted; a pointer receiver is mutated
					if res != nil && anyT {
						changed = mark(res) || changed
					}
					if len(args) > 0 && anyT {
						if _, isPtr := args[0].Type().Underlying().(*types.Pointer); isPtr && (cc.IsInvoke() || (callee != nil && callee.Signature.Recv() != nil)) {
							tArg := false
							for _, a := range args[1:] {
								if isT(a) || isT(root(a, 0)) {
									tArg = true
								}
							}
							if tArg {
								changed = mark(args[0]) || changed
								changed = markObj(args[0]) || changed
							}
						}
					}
					// closure arguments: analyse the closure body with tainted bindings (visitor callbacks)
					for _, a := range args {
						if mc, ok := a.(*ssa.MakeClosure); ok {
							cf := mc.Fn.(*ssa.Function)
							fm := make([]bool, len(cf.FreeVars))
							for i, bnd := range mc.Bindings {
								fm[i] = isT(bnd) || isT(root(bnd, 0))
							}
							pm := make([]bool, len(cf.Params))
							// a visitor over a tainted collection hands tainted elements to the callback
							if isT(args[0]) || isT(root(args[0], 0)) || (t.cfg.visitorSource != nil && t.cfg.visitorSource(name)) {
								for i := range pm {
									pm[i] = true
								}
							}
							s := t.analyze(cf, pm, fm, chain)
							for _, h := range s.hits {
								sum.hits = append(sum.hits, h)
							}
							for i, m := range s.freeMut {
								if m && i < len(mc.Bindings) {
									changed = mark(mc.Bindings[i]) || changed
								}
							}
						}
					}
				case *ssa.Return:
					for _, rv := range x.Results {
						if isT(rv) || isT(root(rv, 0)) {
							sum.ret = true
						}
					}
				}
			}
		}
		if !changed {
			break
		}
	}
	if os.Getenv("TAINT_DEBUG") == f.Name() {
		var names []string
		for v := range tainted {
			names = append(names, v.Name()+"="+v.String())
		}
		sort.Strings(names)
		fmt.Println("TAINT", f.Name(), key, "ret", sum.ret, strings.Join(names, " | "))
	}
	sum.mut = make([]bool, len(f.Params))
	for i, p := range f.Params {
		if (i >= len(params) || !params[i]) && tainted[p] {
			switch p.Type().Underlying().(type) {
			case *types.Pointer, *types.Map, *types.Slice:
				sum.mut[i] = true
			}
		}
	}
	sum.freeMut = make([]bool, len(f.FreeVars))
	for i, fv := range f.FreeVars {
		if (i >= len(free) || !free[i]) && tainted[fv] {
			sum.freeMut[i] = true
		}
	}
	// receiver mutation: the object behind param 0 got tainted
	if len(f.Params) > 0 {
		if _, isPtr := f.Params[0].Type().Underlying().(*types.Pointer); isPtr && f.Signature.Recv() != nil {
			// params[0] itself tainted at entry does not count
			if !(len(params) > 0 && params[0]) && tainted[f.Params[0]] {
				sum.recv = true
			}
		}
	}
	t.memo[key] = sum
	return sum
}

// run analyses each (function, parameter) source to a global fixpoint over field taint.
type paramSource struct {
	Fn  *ssa.Function
	Idx int
}

func (t *taintEngine) run(sources []paramSource) map[paramSource][]sinkHit {
	out := map[paramSource][]sinkHit{}
	for round := 0; round < 8; round++ {
		t.changed = false
		t.memo = map[string]*fnSummary{}
		for _, s := range sources {
			mask := make([]bool, len(s.Fn.Params))
			mask[s.Idx] = true
			sum := t.analyze(s.Fn, mask, nil, "")
			out[s] = sum.hits
		}
		if !t.changed {
			break
		}
	}
	return out
}

func (t *taintEngine) fieldList() string {
	var ks []string
	for k := range t.fields {
		ks = append(ks, k)
	}
	sort.Strings(ks)
	return strings.Join(ks, " ")
}

func hitString(p *Prog, h sinkHit) string {
	return fmt.Sprintf("%s at %s (%s)", short(h.Sink), p.InstrPos(h.Instr), strings.TrimPrefix(h.Via, "→"))
}

// moduleCallOrClosureArg: the call targets a module function or passes a closure — both are
// analysed even without tainted arguments because they may read globally tainted fields.
func moduleCallOrClosureArg(cc *ssa.CallCommon) bool {
	if inModule(cc.StaticCallee()) {
		return true
	}
	if _, ok := cc.Value.(*ssa.MakeClosure); ok {
		return true
	}
	for _, a := range cc.Args {
		if _, ok := a.(*ssa.MakeClosure); ok {
			return true
		}
	}
	return false
}

// carriesText: can a value of this type hold (or point to) byte content chosen by the source?
func carriesText(t types.Type, depth int) bool {
	if depth > 4 {
		return true
	}
	if n, ok := t.(*types.Named); ok && n.Obj().Pkg() != nil && n.Obj().Pkg().Path() == "time" {
		return false
	}
	switch u := t.Underlying().(type) {
	case *types.Basic:
		return u.Info()&types.IsString != 0 || u.Kind() == types.UnsafePointer || u.Kind() == types.UntypedNil
	case *types.Slice:
		if b, ok := u.Elem().Underlying().(*types.Basic); ok && (b.Kind() == types.Byte || b.Kind() == types.Uint8) {
			return true
		}
		return carriesText(u.Elem(), depth+1)
	case *types.Array:
		if b, ok := u.Elem().Underlying().(*types.Basic); ok && (b.Kind() == types.Byte || b.Kind() == types.Uint8) {
			return true
		}
		return carriesText(u.Elem(), depth+1)
	case *types.Pointer:
		return carriesText(u.Elem(), depth+1)
	case *types.Map:
		return carriesText(u.Key(), depth+1) || carriesText(u.Elem(), depth+1)
	case *types.Struct:
		for i := 0; i < u.NumFields(); i++ {
			if carriesText(u.Field(i).Type(), depth+1) {
				return true
			}
		}
		return false
	case *types.Tuple:
		for i := 0; i < u.Len(); i++ {
			if carriesText(u.At(i).Type(), depth+1) {
				return true
			}
		}
		return false
	case *types.Signature:
		return false
	case *types.Chan:
		return carriesText(u.Elem(), depth+1)
	}
	return true // interfaces, type parameters
}
