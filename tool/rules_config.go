package main

import (
	"fmt"
	"go/token"
	"go/types"
	"sort"
	"strings"

	"golang.org/x/tools/go/ssa"
)

// configFuncFieldsRule: a middleware calls function-valued fields of its Config. Every such field
// that is called without a nil test in front of it must be non-nil on every path out of the
// package's configDefault — including the path that hands back ConfigDefault itself.
// (A nil function field called by the handler is a nil dereference in the request goroutine.)
func configFuncFieldsRule(r *Run, pkg, owner string) {
	cd := r.P.Func(pkg, "configDefault")
	r.need(cd != nil, pkg+".configDefault")
	// 1. fields called unconditionally somewhere in the package
	called := map[string]string{}
	r.P.AllFuncs(pkg, func(f *ssa.Function) {
		for _, c := range callsIn(f, false) {
			if !strings.HasPrefix(c.Name, "field:"+owner+".Config.") {
				continue
			}
			field := strings.TrimPrefix(c.Name, "field:")
			// nil test in front of the call?
			guarded := false
			for _, br := range branchesInOne(f) {
				if !constIsNil(br.Info.Const) || !loadOfField(br.Info.Root, field) {
					continue
				}
				if sl, ok := br.nilSlot(false); ok {
					tgt := br.If.Block().Succs[sl]
					if dom(tgt, c.Block()) {
						guarded = true
					}
					// `cfg.Next != nil && cfg.Next(c)`: the call sits in the block the non-nil edge leads to
					if tgt == c.Block() {
						guarded = true
					}
				}
			}
			if !guarded {
				if _, ok := called[field]; !ok {
					called[field] = r.pos(c.Instr)
				}
			}
		}
	})
	if len(called) == 0 {
		r.ok(pkg+":config-functions", r.fpos(cd), "no function-valued Config field is called without a nil test")
		return
	}
	// 2. what the package-level default provides
	inDefault := map[string]bool{}
	if ini := r.P.Func(pkg, "init"); ini != nil {
		for _, fr := range fieldRefsOne(ini) {
			if fr.Write && fr.Val != nil && !constIsNil(asConst(fr.Val)) {
				if fa := fr.Addr; fa != nil {
					if g, ok := fa.X.(*ssa.Global); ok && g.Name() == "ConfigDefault" {
						inDefault[fr.Name] = true
					}
				}
			}
		}
	}
	// 3. every return of configDefault
	var fields []string
	for f := range called {
		fields = append(fields, f)
	}
	sort.Strings(fields)
	for _, field := range fields {
		// retOK: is the field non-nil in the value v that fn hands on at instruction in (a return, or a call that passes
		// it through)?  fnOK: on every return of fn.  A helper of the package that the value goes through is either
		// sufficient by itself (all its returns carry a non-nil field whatever it was handed) or hands its argument back,
		// in which case the question moves to the argument at the call.
		var retOK func(fn *ssa.Function, in ssa.Instruction, v ssa.Value, depth int) (bool, string)
		fnOK := func(fn *ssa.Function, depth int) (bool, string) {
			for _, in := range instrsWhereOne(fn, isReturn) {
				if ok, why := retOK(fn, in, retOperand(in.(*ssa.Return), 0), depth); !ok {
					return false, why
				}
			}
			return true, ""
		}
		retOK = func(fn *ssa.Function, in ssa.Instruction, v ssa.Value, depth int) (bool, string) {
			if call, ok := v.(*ssa.Call); ok {
				g := call.Call.StaticCallee()
				if depth < 3 && g != nil && g.Pkg == cd.Pkg && len(g.Blocks) > 0 && g != fn {
					if ok, _ := fnOK(g, depth+1); ok {
						return true, ""
					}
					if arg := passedThrough(call, cd.Pkg, field); arg != nil {
						return retOK(fn, call, arg, depth+1)
					}
				}
				return false, fn.Name() + " returns a value the rule cannot follow"
			}
			ld, isLoad := v.(*ssa.UnOp)
			if !isLoad || ld.Op != token.MUL {
				return false, fn.Name() + " returns a value the rule cannot follow"
			}
			switch src := ld.X.(type) {
			case *ssa.Global:
				if !inDefault[field] {
					return false, "the path that returns " + src.Name() + " itself (" + r.pos(in) + ") — the package default leaves it nil"
				}
			case *ssa.Alloc:
				// From every point where the field's value becomes unknown (function entry, a whole-struct assignment from
				// anything but the package default) each path to this return must pass something that makes it non-nil:
				// a store of a non-nil value into cfg.<field>, a whole-struct copy of a default that provides it, or the
				// non-nil edge of a test of it.
				fromDefault := func(v ssa.Value) (isDefault bool, fieldName string) {
					ld, ok := v.(*ssa.UnOp)
					if !ok || ld.Op != token.MUL {
						return false, ""
					}
					if g, ok := ld.X.(*ssa.Global); ok && g.Name() == "ConfigDefault" {
						return true, ""
					}
					if fa, ok := ld.X.(*ssa.FieldAddr); ok {
						if g, ok := fa.X.(*ssa.Global); ok && g.Name() == "ConfigDefault" {
							if fv := fieldVar(fa.X.Type(), fa.Field); fv != nil {
								return true, fieldOwner(fv) + "." + fv.Name()
							}
						}
					}
					return false, ""
				}
				// a helper that is handed &cfg and stores a non-nil value into the field on each of its paths
				setsViaHelper := func(x ssa.Instruction) bool {
					call, ok := x.(*ssa.Call)
					if !ok {
						return false
					}
					g := call.Call.StaticCallee()
					if g == nil || g.Pkg != cd.Pkg || len(g.Blocks) == 0 {
						return false
					}
					for i, a := range call.Call.Args {
						if a != ssa.Value(src) || i >= len(g.Params) {
							continue
						}
						p := g.Params[i]
						stores := func(y ssa.Instruction) bool {
							st, ok := y.(*ssa.Store)
							if !ok || constIsNil(asConst(st.Val)) {
								return false
							}
							fa, ok := st.Addr.(*ssa.FieldAddr)
							if !ok || fa.X != ssa.Value(p) {
								return false
							}
							fv := fieldVar(fa.X.Type(), fa.Field)
							return fv != nil && fieldOwner(fv)+"."+fv.Name() == field
						}
						ownReturn := func(y ssa.Instruction) bool { _, ok := y.(*ssa.Return); return ok && y.Parent() == g }
						if _, hit := reach(entryOf(g), ownReturn, nil, stores); hit == nil {
							return true
						}
					}
					return false
				}
				isSet := func(x ssa.Instruction) bool {
					if setsViaHelper(x) {
						return true
					}
					st, ok := x.(*ssa.Store)
					if !ok {
						return false
					}
					if st.Addr == ssa.Value(src) { // whole struct
						if isDef, _ := fromDefault(st.Val); isDef && inDefault[field] {
							return true
						}
						// the whole configuration handed back by a helper of the package that establishes the field (`cfg = fillDefaults(config[0])`)
						if call, ok := st.Val.(*ssa.Call); ok {
							if g := call.Call.StaticCallee(); g != nil && g.Pkg == cd.Pkg && len(g.Blocks) > 0 && depth < 3 {
								if ok, _ := fnOK(g, depth+1); ok {
									return true
								}
							}
						}
						return false
					}
					if fa, ok := st.Addr.(*ssa.FieldAddr); ok && fa.X == ssa.Value(src) {
						if fv := fieldVar(fa.X.Type(), fa.Field); fv != nil && fieldOwner(fv)+"."+fv.Name() == field {
							if constIsNil(asConst(st.Val)) {
								return false
							}
							if isDef, fn := fromDefault(st.Val); isDef && fn != "" {
								return inDefault[fn]
							}
							return true
						}
					}
					return false
				}
				cut := map[edge]bool{}
				for _, br := range branchesInOne(fn) {
					if constIsNil(br.Info.Const) && loadOfField(br.Info.Root, field) {
						if sl, ok := br.nilSlot(false); ok {
							cut[edge{br.If.Block(), sl}] = true
						}
					}
				}
				starts := []point{entryOf(fn)}
				for _, x := range instrsWhereOne(fn, func(x ssa.Instruction) bool {
					st, ok := x.(*ssa.Store)
					return ok && st.Addr == ssa.Value(src) && !isSet(x)
				}) {
					starts = append(starts, pointAfter(x))
				}
				for _, sp := range starts {
					if _, hit := reach(sp, func(x ssa.Instruction) bool { return x == in }, cut, isSet); hit != nil {
						return false, "a path through " + fn.Name() + " (" + r.pos(in) + ") neither sets it nor finds it non-nil"
					}
				}
			default:
				return false, fn.Name() + " returns a value the rule cannot follow"
			}
			return true, ""
		}
		okAll, why := fnOK(cd, 0)
		short := field[strings.LastIndex(field, ".")+1:]
		r.check(okAll, pkg+":config-function:"+short, called[field], "called without a nil test; non-nil on every path out of configDefault",
			fmt.Sprintf("Config.%s is called by the middleware without a nil test (%s) but can leave configDefault nil: %s — every request through a middleware built that way dereferences a nil function in the request goroutine", short, called[field], why))
	}
	_ = types.Typ
}

// passedThrough: call is a static call of a function of pkg that returns one of its (struct-valued) parameters as it
// was handed in, except for fields it sets — and field, if set at all, is set to something that is not nil.  Answers
// the argument at that position, nil when the callee is anything else.
func passedThrough(call *ssa.Call, pkg *ssa.Package, field string) ssa.Value {
	g := call.Call.StaticCallee()
	if g == nil || g.Pkg != pkg || len(g.Blocks) == 0 || call.Call.IsInvoke() {
		return nil
	}
	idx := -1
	for _, in := range instrsWhereOne(g, isReturn) {
		rv := stripValue(retOperand(in.(*ssa.Return), 0))
		var p ssa.Value
		switch x := rv.(type) {
		case *ssa.Parameter:
			p = x
		case *ssa.UnOp:
			cell, ok := x.X.(*ssa.Alloc)
			if !ok || x.Op != token.MUL {
				return nil
			}
			for _, ref := range *cell.Referrers() {
				switch y := ref.(type) {
				case *ssa.Store:
					if y.Addr != ssa.Value(cell) {
						return nil // the cell's address escapes into memory
					}
					if pp, ok := y.Val.(*ssa.Parameter); ok && (p == nil || p == ssa.Value(pp)) {
						p = pp
					} else {
						return nil
					}
				case *ssa.FieldAddr:
					fv := fieldVar(y.X.Type(), y.Field)
					for _, fr := range *y.Referrers() {
						st, isStore := fr.(*ssa.Store)
						if !isStore || st.Addr != ssa.Value(y) {
							if _, isLoad := fr.(*ssa.UnOp); isLoad {
								continue
							}
							if _, isDbg := fr.(*ssa.DebugRef); isDbg {
								continue
							}
							if fv != nil && fieldOwner(fv)+"."+fv.Name() != field {
								continue // another field handed on by address
							}
							return nil
						}
						if fv != nil && fieldOwner(fv)+"."+fv.Name() == field && constIsNil(asConst(st.Val)) {
							return nil
						}
					}
				case *ssa.UnOp, *ssa.DebugRef:
				default:
					return nil
				}
			}
		default:
			return nil
		}
		if p == nil {
			return nil
		}
		found := -1
		for i, gp := range g.Params {
			if ssa.Value(gp) == p {
				found = i
			}
		}
		if found < 0 || (idx >= 0 && idx != found) {
			return nil
		}
		idx = found
	}
	if idx < 0 || idx >= len(call.Call.Args) {
		return nil
	}
	return call.Call.Args[idx]
}

// sharesBackingWith: may the slice v share its backing array with a value satisfying isRoot?  Follows the
// operations that keep the array: phi, re-slicing, append's first operand (append writes in place while
// capacity lasts), and variables (cells, also when captured by closures).  A copy (append to nil/fresh,
// slices.Clone, make+copy) ends the chain.
func sharesBackingWith(v ssa.Value, isRoot func(ssa.Value) bool) ssa.Value {
	seen := map[ssa.Value]bool{}
	var rec func(v ssa.Value, d int) ssa.Value
	rec = func(v ssa.Value, d int) ssa.Value {
		v = stripValue(v)
		if v == nil || seen[v] || d > 8 {
			return nil
		}
		seen[v] = true
		if isRoot(v) {
			return v
		}
		switch x := v.(type) {
		case *ssa.Phi:
			for _, e := range x.Edges {
				if h := rec(e, d+1); h != nil {
					return h
				}
			}
		case *ssa.Slice:
			return rec(x.X, d+1)
		case *ssa.Call:
			if b, ok := x.Call.Value.(*ssa.Builtin); ok && b.Name() == "append" && len(x.Call.Args) > 0 {
				return rec(x.Call.Args[0], d+1)
			}
		case *ssa.UnOp:
			if x.Op != token.MUL {
				return nil
			}
			var cell *ssa.Alloc
			if a, ok := x.X.(*ssa.Alloc); ok {
				cell = a
			} else if fv, ok := x.X.(*ssa.FreeVar); ok {
				if b, ok := bindingOf(fv).(*ssa.Alloc); ok {
					cell = b
				}
			}
			if cell != nil {
				for _, st := range storesInto(cell) {
					if h := rec(st.Val, d+1); h != nil {
						return h
					}
				}
			}
		}
		return nil
	}
	return rec(v, 0)
}

// configSlicesNotAppendedRule: the per-request code of a middleware (its handler closure and the closures inside
// it) never appends to a slice that may share its backing array with a field of the middleware's Config: the
// configuration is shared by all requests, an in-place append is a write to shared memory (names, lists and
// keys of one request show up in another, and concurrent requests race).
func configSlicesNotAppendedRule(r *Run, pkg, owner string) {
	f := r.Fn(pkg, "New")
	hs := handlerClosures(f)
	r.need(len(hs) >= 1, "New returns a handler closure")
	isCfgField := func(v ssa.Value) bool {
		fv := fieldOfValue(v)
		if fv == nil {
			return false
		}
		if _, isAddr := v.(*ssa.FieldAddr); isAddr {
			return false
		}
		_, isSlice := fv.Type().Underlying().(*types.Slice)
		return isSlice && strings.HasPrefix(fieldOwner(fv), owner+".Config")
	}
	n, nbad := 0, 0
	for _, h := range hs {
		fs := append([]*ssa.Function{h}, anonFuncsDeep(h)...)
		for _, g := range fs {
			for _, b := range g.Blocks {
				for _, in := range b.Instrs {
					c, ok := in.(*ssa.Call)
					if !ok {
						continue
					}
					if bi, ok := c.Call.Value.(*ssa.Builtin); !ok || bi.Name() != "append" || len(c.Call.Args) == 0 {
						continue
					}
					n++
					root := sharesBackingWith(c.Call.Args[0], isCfgField)
					if root != nil {
						nbad++
						fv := fieldOfValue(root)
						r.bad(fmt.Sprintf("handler:append-into-%s.%s", fieldOwner(fv), fv.Name()), r.pos(in), "the request handler appends to a slice that can share its backing array with "+fieldOwner(fv)+"."+fv.Name()+
							": with spare capacity the append writes into the configuration's array, which every request (also concurrent ones) reads")
					}
				}
			}
		}
	}
	r.count("append calls in per-request code", n)
	if nbad == 0 {
		r.ok("handler:no-append-into-config", r.fpos(hs[0]), fmt.Sprintf("%d append calls in per-request code, none on a slice that can alias a Config field", n))
	}
}

// storageSetFreshBytesRule: what a middleware hands to an external Storage is not memory it reuses. A storage may keep
// the slice (the bundled memory storage does), so bytes marshalled into a caller-supplied buffer, or a slice that is a
// field of one of the package's own structs, would be rewritten under the storage when the next entry is stored.
func storageSetFreshBytesRule(r *Run, pkg, owner string, minSites int) {
	n := 0
	r.P.AllFuncs(pkg, func(f *ssa.Function) {
		for _, c := range callsIn(f, false) {
			if !c.Common.IsInvoke() || c.Common.Method.Name() != "Set" || !strings.HasSuffix(c.Common.Value.Type().String(), "fiber/v3.Storage") {
				continue
			}
			n++
			val := c.Common.Args[1]
			okBuf, why := true, ""
			// produced by the generated codec: its destination buffer must be nil (fresh allocation)
			if d := dependsOn(val, func(v ssa.Value) bool {
				cc, ok := v.(*ssa.Call)
				return ok && strings.HasSuffix(calleeName(&cc.Call), ").MarshalMsg")
			}); d != nil {
				mc := d.(*ssa.Call)
				buf := mc.Call.Args[len(mc.Call.Args)-1]
				if !constIsNil(asConst(buf)) {
					okBuf, why = false, "MarshalMsg appends to a caller-supplied buffer"
				}
			}
			// never memory that the package's own long-lived objects keep between calls
			if d := dependsOn(val, func(v ssa.Value) bool {
				fv := fieldOfValue(v)
				if fv == nil || !strings.HasPrefix(fieldOwner(fv), owner+".") || strings.HasSuffix(fieldOwner(fv), ".item") || strings.HasSuffix(fieldOwner(fv), ".Config") {
					return false
				}
				_, isSlice := fv.Type().Underlying().(*types.Slice)
				return isSlice
			}); d != nil {
				okBuf, why = false, "the value is (a slice of) a field of "+fieldOwner(fieldOfValue(d))
			}
			r.check(okBuf, fmt.Sprintf("%s:Storage.Set#%d:fresh-bytes", short(f.String()), n), r.pos(c.Instr), "the stored bytes are freshly allocated or the caller's own value",
				"the bytes handed to Storage.Set are reused by the middleware ("+why+"): a storage that keeps the slice (the bundled memory storage does) sees entry A's record overwritten when entry B is stored — A is then judged by B's counters / served with B's metadata")
		}
	})
	r.atLeast("Storage.Set call sites", n, minSites)
}

// bindMapByValueRule: where the package hands a map to one of (*Bind)'s source binders, it hands the map itself, not
// a pointer to it. The binder decides by reflection whether a key's values may be split at commas
// (EnableSplittingOnParsers): for a `map[string]string` / `map[string][]string` it looks at the element kind, for a
// pointer to the map its kind test answers as for a slice field — every value is split and only a piece is kept.
// A type-level statement about the call: the dynamic type of the argument is not pointer-to-map.
func bindMapByValueRule(r *Run, pkg string, min int) {
	n, bad := 0, 0
	r.P.AllFuncs(pkg, func(f *ssa.Function) {
		for _, c := range callsIn(f, false) {
			if c.Instr.Parent() != f || !strings.Contains(c.Name, "fiber/v3.Bind).") || len(c.Common.Args) < 2 {
				continue
			}
			mi, ok := c.Common.Args[len(c.Common.Args)-1].(*ssa.MakeInterface)
			if !ok {
				continue
			}
			t := mi.X.Type()
			isMap := func(t types.Type) bool { _, ok := t.Underlying().(*types.Map); return ok }
			pt, isPtr := t.Underlying().(*types.Pointer)
			if !isMap(t) && !(isPtr && isMap(pt.Elem())) {
				continue
			}
			n++
			ptrToMap := isPtr && isMap(pt.Elem())
			if ptrToMap {
				bad++
			}
			r.check(!ptrToMap, fmt.Sprintf("%s:%s#%d:map-handed-over-by-value", short(f.String()), short(c.Name), n), r.pos(c.Instr), "the binder is given the map itself",
				"the binder is given a pointer to the map: its reflective kind test then answers as for a slice, and with EnableSplittingOnParsers every value is split at commas and only the last piece is kept (\"go,web,fiber\" arrives as \"fiber\")")
		}
	})
	r.atLeast("maps handed to a source binder in "+pkg, n, min)
	_ = bad
}

// defaultsOnlyForUnsetRule: in configDefault, on the copy of the configuration the caller handed in, a field is
// assigned only behind a test of that same field (`if cfg.Lock == nil { cfg.Lock = … }`): an assignment behind a test
// of another field replaces what the caller configured.
func defaultsOnlyForUnsetRule(r *Run, pkg, owner string, min int) {
	f := r.Fn(pkg, "configDefault")
	// the cells that hold a caller's configuration: whole-struct stores whose value is loaded from the variadic parameter
	explicit := map[*ssa.Alloc]bool{}
	for _, b := range f.Blocks {
		for _, in := range b.Instrs {
			st, ok := in.(*ssa.Store)
			if !ok {
				continue
			}
			cell, ok := st.Addr.(*ssa.Alloc)
			if !ok {
				continue
			}
			if dependsOn(st.Val, func(v ssa.Value) bool { _, isP := v.(*ssa.Parameter); return isP }) != nil {
				explicit[cell] = true
			}
		}
	}
	r.need(len(explicit) >= 1, pkg+".configDefault copies the caller's configuration into a local")
	n := 0
	for _, b := range f.Blocks {
		for _, in := range b.Instrs {
			st, ok := in.(*ssa.Store)
			if !ok {
				continue
			}
			fa, ok := st.Addr.(*ssa.FieldAddr)
			if !ok {
				continue
			}
			cell, ok := fa.X.(*ssa.Alloc)
			if !ok || !explicit[cell] {
				continue
			}
			fv := fieldVar(fa.X.Type(), fa.Field)
			if fv == nil {
				continue
			}
			name := fieldOwner(fv) + "." + fv.Name()
			n++
			guarded := false
			for _, br := range branchesInOne(f) {
				tests := dependsOn(br.Info.Root, func(v ssa.Value) bool {
					ld, ok := v.(*ssa.UnOp)
					if !ok || ld.Op != token.MUL {
						return false
					}
					fa2, ok := ld.X.(*ssa.FieldAddr)
					return ok && fa2.X == ssa.Value(cell) && fa2.Field == fa.Field
				}) != nil
				if !tests {
					continue
				}
				for sl := 0; sl < 2; sl++ {
					if t := br.If.Block().Succs[sl]; len(t.Preds) == 1 && dom(t, b) {
						guarded = true
					}
				}
			}
			r.check(guarded, fmt.Sprintf("configDefault:%s:assigned-only-behind-a-test-of-itself", name), r.pos(in), "the field is assigned behind a test of its own value",
				name+" of the caller's configuration is assigned without a test of that field (behind a test of another one): a value the caller configured — a shared Lock, a custom Storage — is silently replaced by a fresh default")
		}
	}
	r.atLeast("defaults assigned on the caller's configuration in "+pkg+".configDefault", n, min)
	_ = owner
}
