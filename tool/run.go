package main

import (
	"crypto/sha1"
	"encoding/hex"
	"encoding/json"
	"fmt"
	"os"
	"path/filepath"
	"runtime/debug"
	"sort"
	"strings"

	"golang.org/x/tools/go/ssa"
)

// Ob is one obligation: a rule instance on a named construct.
type Ob struct {
	Property string `json:"property"`
	Rule     string `json:"rule"`
	Key      string `json:"key"` // rule|construct — never a line number
	Pos      string `json:"pos"`
	Status   string `json:"status"` // discharged | violated | undecided
	Detail   string `json:"detail"`
}

type anchorErr struct{ what string }

// Run collects the obligations of one property.
type Run struct {
	P        *Prog
	Prop     string
	Tier     string
	Obs      []Ob
	curRule  string
	Counters map[string]int
	Assume   []string
	Explain  string
	RuleDocs map[string]string
	nontriv  map[string]bool
	Extra    map[string]any
}

func (r *Run) rule(id, doc string, body func()) {
	prev := r.curRule
	r.curRule = id
	r.RuleDocs[id] = doc
	before := len(r.Obs)
	defer func() {
		if e := recover(); e != nil {
			if ae, ok := e.(anchorErr); ok {
				r.add(id, "anchor:"+ae.what, "?", "violated", "anchor-unresolved: "+ae.what+" (a renamed or removed anchor fails closed; update the rule table after confirming the role)")
			} else {
				r.add(id, "panic", "?", "violated", fmt.Sprintf("analysis panic: %v\n%s", e, trimStack(debug.Stack())))
			}
		}
		if len(r.Obs) == before {
			r.add(id, "vacuous", "?", "violated", "rule produced no obligations (vacuous)")
		}
		r.curRule = prev
	}()
	body()
}

func trimStack(b []byte) string {
	s := string(b)
	if len(s) > 1500 {
		s = s[:1500]
	}
	return s
}

func (r *Run) add(rule, construct, pos, status, detail string) {
	r.Obs = append(r.Obs, Ob{r.Prop, rule, rule + "|" + construct, pos, status, detail})
	if status != "violated" || !strings.HasPrefix(construct, "anchor:") {
		r.nontriv[rule+"|"+construct] = true
	}
}

// ok / bad / check record obligations under the current rule.
func (r *Run) ok(construct, pos, detail string) {
	r.add(r.curRule, construct, pos, "discharged", detail)
}
func (r *Run) bad(construct, pos, detail string) {
	r.add(r.curRule, construct, pos, "violated", detail)
}
func (r *Run) undecided(construct, pos, detail string) {
	r.add(r.curRule, construct, pos, "undecided", detail)
}
func (r *Run) check(cond bool, construct, pos, okDetail, badDetail string) bool {
	if cond {
		r.ok(construct, pos, okDetail)
	} else {
		r.bad(construct, pos, badDetail)
	}
	return cond
}

// atLeast guards against vacuous passes: fewer instances than confirmed by hand is a failure.
func (r *Run) atLeast(what string, got, want int) {
	r.Counters[r.curRule+"."+what] = got
	if got < want {
		r.bad("count:"+what, "?", fmt.Sprintf("vacuous: found %d %s, hand-confirmed minimum is %d", got, what, want))
	}
}

func (r *Run) count(what string, n int) { r.Counters[r.curRule+"."+what] += n }

// Fn resolves an anchor function or aborts the rule (fail closed).
func (r *Run) Fn(pkg, name string) *ssa.Function {
	f := r.P.Func(pkg, name)
	if f == nil || len(f.Blocks) == 0 {
		panic(anchorErr{pkg + ":" + name})
	}
	r.Counters["functions_analysed"]++
	return f
}

// FnOpt resolves an optional anchor (nil when absent).
func (r *Run) FnOpt(pkg, name string) *ssa.Function {
	f := r.P.Func(pkg, name)
	if f == nil || len(f.Blocks) == 0 {
		return nil
	}
	return f
}

func (r *Run) need(cond bool, what string) {
	if !cond {
		panic(anchorErr{what})
	}
}

func (r *Run) pos(in ssa.Instruction) string { return r.P.InstrPos(in) }
func (r *Run) fpos(f *ssa.Function) string   { return r.P.Pos(f.Pos()) }

// ---------- known findings ---------------------------------------------------------------

type Finding struct {
	Property string `json:"property"`
	Key      string `json:"key"`
	Status   string `json:"status"` // open | fixed
	What     string `json:"what"`
	Witness  string `json:"witness,omitempty"`
	Commit   string `json:"commit,omitempty"`
}

func loadFindings(path string) ([]Finding, error) {
	b, err := os.ReadFile(path)
	if err != nil {
		if os.IsNotExist(err) {
			return nil, nil
		}
		return nil, err
	}
	var doc struct {
		Findings []Finding `json:"findings"`
	}
	if err := json.Unmarshal(b, &doc); err != nil {
		return nil, err
	}
	return doc.Findings, nil
}

// ---------- evidence ------------------------------------------------------------------------

type evidence struct {
	PropertyID  string         `json:"property_id"`
	Tier        string         `json:"tier"`
	Seed        int            `json:"seed"`
	Level       string         `json:"level"`
	Coverage    map[string]any `json:"coverage"`
	Assumptions []string       `json:"assumptions"`
	WallS       float64        `json:"wall_s"`
	Violations  int            `json:"violations"`
}

func keyHash(k string) string {
	h := sha1.Sum([]byte(k))
	return hex.EncodeToString(h[:])[:10]
}

// finish prints the verdict, writes evidence and returns the exit code.
func (r *Run) finish(outDir string, findings []Finding, seed int, wall float64, selftest map[string]any) int {
	known := map[string]Finding{}
	for _, f := range findings {
		if f.Property == r.Prop && f.Status == "open" {
			known[f.Key] = f
		}
	}
	sort.SliceStable(r.Obs, func(i, j int) bool {
		if r.Obs[i].Rule != r.Obs[j].Rule {
			return r.Obs[i].Rule < r.Obs[j].Rule
		}
		return r.Obs[i].Key < r.Obs[j].Key
	})
	var discharged, violated, knownHit int
	var samples []Ob
	var viol []Ob
	perRule := map[string][2]int{}
	seenKnown := map[string]bool{}
	for _, o := range r.Obs {
		pr := perRule[o.Rule]
		pr[0]++
		if o.Status == "discharged" {
			discharged++
			pr[1]++
		} else {
			if kf, ok := known[o.Key]; ok {
				knownHit++
				if !seenKnown[o.Key] {
					fmt.Printf("KNOWN-FINDING: property=%s %s [%s] %s\n", r.Prop, kf.What, o.Key, o.Pos)
					seenKnown[o.Key] = true
				}
			} else {
				violated++
				viol = append(viol, o)
			}
		}
		perRule[o.Rule] = pr
	}
	// samples: up to 3 per rule, discharged and not
	cnt := map[string]int{}
	for _, o := range r.Obs {
		if cnt[o.Rule] < 3 {
			samples = append(samples, o)
			cnt[o.Rule]++
		}
	}
	replayDir := filepath.Join(outDir, "replay")
	_ = os.MkdirAll(replayDir, 0o755)
	// remove stale replay files of this property
	if ents, err := os.ReadDir(replayDir); err == nil {
		for _, e := range ents {
			if strings.HasPrefix(e.Name(), r.Prop+"-") {
				_ = os.Remove(filepath.Join(replayDir, e.Name()))
			}
		}
	}
	for _, o := range viol {
		rp := filepath.Join(replayDir, r.Prop+"-"+keyHash(o.Key)+".json")
		b, _ := json.MarshalIndent(o, "", " ")
		_ = os.WriteFile(rp, b, 0o644)
		fmt.Printf("%s: [%s %s] %s: %s\n", o.Pos, r.Prop, o.Rule, strings.TrimPrefix(o.Key, o.Rule+"|"), o.Detail)
		fmt.Printf("VIOLATION property=%s replay=%s\n", r.Prop, rp)
	}
	rules := map[string]any{}
	for id, doc := range r.RuleDocs {
		pr := perRule[id]
		rules[id] = map[string]any{"doc": doc, "obligations": pr[0], "discharged": pr[1]}
	}
	cov := map[string]any{
		"obligations":         len(r.Obs),
		"discharged":          discharged,
		"known_findings_hit":  knownHit,
		"evaluations":         len(r.Obs),
		"distinct_nontrivial": len(r.nontriv),
		"rule": "one obligation per (rule, construct) resolved in the type-checked go/ssa program of /repo; distinct = distinct rule|construct keys; " +
			"non-trivial = the rule inspected at least one CFG path, dataflow chain, field set or call site for it (anchor-resolution failures are excluded)",
		"explanation":         r.Explain + " — Rules evaluated in this run: " + ruleIndex(r.RuleDocs) + ".",
		"samples":             samples,
		"rules":               rules,
		"counters":            r.Counters,
		"packages":            len(r.P.Pkgs),
		"functions_in_module": r.P.NFuncs,
		"checker_cmd":         "/verif/check " + r.Prop + " " + r.Tier,
		"trusted_base":        []string{"go/types", "golang.org/x/tools/go/ssa v0.29.0", "go/packages loader", "rule tables in /verif/tool (anchors confirmed by reading)"},
	}
	for k, v := range r.Extra {
		cov[k] = v
	}
	if selftest != nil {
		cov["selftest"] = selftest
	}
	ev := evidence{r.Prop, r.Tier, seed, "other", cov, r.Assume, wall, violated}
	b, _ := json.MarshalIndent(ev, "", " ")
	_ = os.MkdirAll(outDir, 0o755)
	if err := os.WriteFile(filepath.Join(outDir, r.Prop+".json"), b, 0o644); err != nil {
		fmt.Printf("cannot write evidence: %v\n", err)
		return 2
	}
	fmt.Printf("%s %s: %d obligations, %d discharged, %d known findings, %d violations (%d rules, %d functions resolved)\n",
		r.Prop, r.Tier, len(r.Obs), discharged, knownHit, violated, len(r.RuleDocs), r.Counters["functions_analysed"])
	if violated > 0 {
		return 1
	}
	return 0
}

// ruleIndex lists the rules of a run ("R1 doc; R2 doc; …") in rule order; the hand-written
// explanation of a property names the clauses, this index is always complete.
func ruleIndex(docs map[string]string) string {
	ids := make([]string, 0, len(docs))
	for id := range docs {
		ids = append(ids, id)
	}
	sort.Slice(ids, func(i, j int) bool {
		ni, nj := 0, 0
		fmt.Sscanf(strings.TrimPrefix(ids[i], "R"), "%d", &ni)
		fmt.Sscanf(strings.TrimPrefix(ids[j], "R"), "%d", &nj)
		if ni != nj {
			return ni < nj
		}
		return ids[i] < ids[j]
	})
	var parts []string
	for _, id := range ids {
		parts = append(parts, id+" "+docs[id])
	}
	return strings.Join(parts, "; ")
}
