package main

import (
	"fmt"
	"go/token"
	"go/types"
	"os"
	"sort"
	"strings"

	"golang.org/x/tools/go/packages"
	"golang.org/x/tools/go/ssa"
	"golang.org/x/tools/go/ssa/ssautil"
)

const fiberMod = "github.com/gofiber/fiber/v3"

// Prog is the loaded, type-checked and SSA-built module under analysis.
type Prog struct {
	Repo   string
	Fset   *token.FileSet
	Pkgs   []*packages.Package // module packages only, sorted by path
	All    map[string]*packages.Package
	SSA    *ssa.Program
	byPath map[string]*ssa.Package
	NFuncs int
}

func offlineEnv() []string {
	env := []string{}
	for _, kv := range os.Environ() {
		k := kv
		if i := strings.IndexByte(kv, '='); i >= 0 {
			k = kv[:i]
		}
		switch k {
		case "GOFLAGS", "GOPROXY", "GOSUMDB", "GOTOOLCHAIN", "GOWORK":
			continue
		}
		env = append(env, kv)
	}
	return append(env, "GOFLAGS=-mod=mod", "GOPROXY=off", "GOSUMDB=off", "GOTOOLCHAIN=local", "GOWORK=off")
}

// Load type-checks every package of the fiber module found under repo and builds go/ssa
// for the whole dependency closure (bodies of dependencies are needed for the fasthttp
// setter table and for VTA).
func Load(repo string) (*Prog, error) {
	cfg := &packages.Config{
		Mode: packages.NeedName | packages.NeedFiles | packages.NeedCompiledGoFiles | packages.NeedSyntax |
			packages.NeedTypes | packages.NeedTypesSizes | packages.NeedTypesInfo | packages.NeedImports |
			packages.NeedDeps | packages.NeedModule,
		Dir:   repo,
		Env:   offlineEnv(),
		Tests: false,
	}
	initial, err := packages.Load(cfg, "./...")
	if err != nil {
		return nil, fmt.Errorf("packages.Load: %w", err)
	}
	if len(initial) == 0 {
		return nil, fmt.Errorf("no packages loaded from %s", repo)
	}
	p := &Prog{Repo: repo, All: map[string]*packages.Package{}, byPath: map[string]*ssa.Package{}}
	var errs []string
	packages.Visit(initial, nil, func(pk *packages.Package) {
		p.All[pk.PkgPath] = pk
		if strings.HasPrefix(pk.PkgPath, fiberMod) {
			for _, e := range pk.Errors {
				errs = append(errs, e.Error())
			}
		}
	})
	if len(errs) > 0 {
		sort.Strings(errs)
		return nil, fmt.Errorf("type errors in module: %s", strings.Join(errs, "; "))
	}
	for _, pk := range initial {
		if !strings.HasPrefix(pk.PkgPath, fiberMod) {
			return nil, fmt.Errorf("unexpected package %s (module path changed?)", pk.PkgPath)
		}
		p.Pkgs = append(p.Pkgs, pk)
	}
	sort.Slice(p.Pkgs, func(i, j int) bool { return p.Pkgs[i].PkgPath < p.Pkgs[j].PkgPath })
	if len(p.Pkgs) < 30 {
		return nil, fmt.Errorf("only %d module packages loaded (expected >= 30)", len(p.Pkgs))
	}
	p.Fset = initial[0].Fset

	// one build configuration: fail closed when constrained non-test files appear
	prog, _ := ssautil.AllPackages(initial, ssa.InstantiateGenerics)
	prog.Build()
	p.SSA = prog
	for _, sp := range prog.AllPackages() {
		p.byPath[sp.Pkg.Path()] = sp
	}
	for _, pk := range p.Pkgs {
		sp := p.byPath[pk.PkgPath]
		if sp == nil {
			return nil, fmt.Errorf("no SSA package for %s", pk.PkgPath)
		}
		for _, m := range sp.Members {
			if f, ok := m.(*ssa.Function); ok {
				p.NFuncs += countFns(f)
			}
		}
	}
	return p, nil
}

func countFns(f *ssa.Function) int {
	n := 1
	for _, a := range f.AnonFuncs {
		n += countFns(a)
	}
	return n
}

// pkgPath resolves a short package name ("" = root, "middleware/csrf") to a full path.
func pkgPath(short string) string {
	if short == "" || short == "fiber" {
		return fiberMod
	}
	if strings.Contains(short, ".") {
		return short
	}
	return fiberMod + "/" + short
}

// Pkg returns the SSA package or nil.
func (p *Prog) Pkg(short string) *ssa.Package { return p.byPath[pkgPath(short)] }

// Func resolves "name" (package-level function) or "(*T).name" / "(T).name" (method) in
// package short. Returns nil when it does not resolve; callers go through Ctx.Fn which
// turns nil into an anchor-unresolved failure.
func (p *Prog) Func(short, name string) *ssa.Function {
	sp := p.Pkg(short)
	if sp == nil {
		return nil
	}
	if strings.HasPrefix(name, "(") {
		end := strings.Index(name, ").")
		if end < 0 {
			return nil
		}
		recv, meth := name[1:end], name[end+2:]
		ptr := strings.HasPrefix(recv, "*")
		recv = strings.TrimPrefix(recv, "*")
		tm, ok := sp.Members[recv].(*ssa.Type)
		if !ok {
			return nil
		}
		var t types.Type = tm.Type()
		if ptr {
			t = types.NewPointer(t)
		}
		sel := p.SSA.MethodSets.MethodSet(t).Lookup(sp.Pkg, meth)
		if sel == nil {
			return nil
		}
		return p.SSA.MethodValue(sel)
	}
	f, _ := sp.Members[name].(*ssa.Function)
	return f
}

// Struct returns the named struct type T of package short.
func (p *Prog) Struct(short, name string) (*types.Named, *types.Struct) {
	sp := p.Pkg(short)
	if sp == nil {
		return nil, nil
	}
	tm, ok := sp.Members[name].(*ssa.Type)
	if !ok {
		return nil, nil
	}
	n, ok := tm.Type().(*types.Named)
	if !ok {
		return nil, nil
	}
	st, ok := n.Underlying().(*types.Struct)
	if !ok {
		return nil, nil
	}
	return n, st
}

// Pos renders a position relative to the repo root.
func (p *Prog) Pos(pos token.Pos) string {
	if !pos.IsValid() {
		return "?"
	}
	ps := p.Fset.Position(pos)
	f := strings.TrimPrefix(ps.Filename, p.Repo+"/")
	return fmt.Sprintf("%s:%d", f, ps.Line)
}

// fnPos gives a usable position for an instruction (falls back to enclosing function).
func (p *Prog) InstrPos(in ssa.Instruction) string {
	if in == nil {
		return "?"
	}
	if in.Pos().IsValid() {
		return p.Pos(in.Pos())
	}
	// look for the nearest positioned instruction in the same block
	b := in.Block()
	for _, o := range b.Instrs {
		if o.Pos().IsValid() {
			return p.Pos(o.Pos()) + "~"
		}
	}
	return p.Pos(in.Parent().Pos()) + "~"
}

// AllFuncs walks all functions (including closures and methods) of module packages.
func (p *Prog) AllFuncs(short string, visit func(*ssa.Function)) {
	var paths []string
	if short == "*" {
		for _, pk := range p.Pkgs {
			paths = append(paths, pk.PkgPath)
		}
	} else {
		paths = []string{pkgPath(short)}
	}
	seen := map[*ssa.Function]bool{}
	var rec func(f *ssa.Function)
	rec = func(f *ssa.Function) {
		if f == nil || seen[f] {
			return
		}
		seen[f] = true
		withoutHelpers(func() { visit(f) })
		for _, a := range f.AnonFuncs {
			rec(a)
		}
	}
	for _, path := range paths {
		sp := p.byPath[path]
		if sp == nil {
			continue
		}
		names := make([]string, 0, len(sp.Members))
		for n := range sp.Members {
			names = append(names, n)
		}
		sort.Strings(names)
		for _, n := range names {
			switch m := sp.Members[n].(type) {
			case *ssa.Function:
				rec(m)
			case *ssa.Type:
				for _, t := range []types.Type{m.Type(), types.NewPointer(m.Type())} {
					ms := p.SSA.MethodSets.MethodSet(t)
					for i := 0; i < ms.Len(); i++ {
						f := p.SSA.MethodValue(ms.At(i))
						if f != nil && f.Pkg == sp && f.Synthetic == "" {
							rec(f)
						}
					}
				}
			}
		}
	}
}
