package main

import (
	"fmt"
	"go/token"
	"strings"

	"golang.org/x/tools/go/ssa"
)

func init() {
	register(&propDef{
		ID: "C12",
		Explain: "Decided clauses: R1 after a successful flash decode every path to return expires the flash cookie on the response; R2 from every decode-error edge the decoded messages are emptied before return " +
			"(a malformed cookie yields no messages); R3 decoding allocates nothing sized by an unbounded decoded length (shared with C07-R3); R4 the reused message slice never exposes stale elements (shared with C05-R3); " +
			"R5 the cookie value is produced by a cookie-safe encoder; R6 both request entry points decode only when the raw headers mention the cookie name, and release empties the messages. " +
			"Not decided: the round trip for all strings over a real exchange, msgp codec correctness.",
		Assume: []string{"ClearCookie emits an expired Set-Cookie for the given name"},
		Run:    runC12,
	})
}

func runC12(r *Run) {
	f0 := func() *ssa.Function { return r.Fn("", "(*Redirect).parseAndClearFlashMessages") }
	isErrEdgeOf := func(f *ssa.Function) []edge {
		var out []edge
		for _, br := range branchesIn(f) {
			root := stripValue(br.Info.Root)
			if !constIsNil(br.Info.Const) {
				continue
			}
			if root.Type().String() != "error" {
				continue
			}
			if s, ok := br.nilSlot(false); ok {
				out = append(out, edge{br.If.Block(), s})
			}
		}
		return out
	}
	isEmptying := func(in ssa.Instruction) bool {
		st, ok := in.(*ssa.Store)
		if !ok {
			return false
		}
		fa, ok := st.Addr.(*ssa.FieldAddr)
		if !ok {
			return false
		}
		fv := fieldVar(fa.X.Type(), fa.Field)
		if fv == nil || fv.Name() != "flashMessages" {
			return false
		}
		if sl, ok := st.Val.(*ssa.Slice); ok && sl.High != nil && isConstInt(sl.High, 0) {
			return true
		}
		return constIsNil(asConst(st.Val))
	}
	isDirtying := func(in ssa.Instruction) bool {
		// a store of a non-empty value, or handing the field's address to a decoder
		if st, ok := in.(*ssa.Store); ok {
			if fa, ok := st.Addr.(*ssa.FieldAddr); ok {
				if fv := fieldVar(fa.X.Type(), fa.Field); fv != nil && fv.Name() == "flashMessages" {
					return !isEmptying(in)
				}
			}
		}
		if ci, ok := in.(ssa.CallInstruction); ok {
			for _, a := range ci.Common().Args {
				if fa, ok := a.(*ssa.FieldAddr); ok {
					if fv := fieldVar(fa.X.Type(), fa.Field); fv != nil && fv.Name() == "flashMessages" {
						return true
					}
				}
			}
		}
		return false
	}

	r.rule("R1", "the flash cookie is expired after consumption (E1)", func() {
		f := f0()
		cut := map[edge]bool{}
		for _, e := range isErrEdgeOf(f) {
			cut[e] = true
		}
		// bound rejections (announced size larger than the input) are error exits as well
		for _, br := range branchesIn(f) {
			if br.Info.Other == nil {
				continue
			}
			isAnnounced := func(v ssa.Value) bool {
				return dependsOn(v, func(x ssa.Value) bool {
					c, idx := producerCall(x)
					return c != nil && idx == 0 && strings.HasSuffix(calleeName(&c.Call), "msgp.ReadArrayHeaderBytes")
				}) != nil
			}
			isLenCall := func(v ssa.Value) bool {
				return dependsOn(v, func(x ssa.Value) bool {
					c, ok := x.(*ssa.Call)
					return ok && calleeName(&c.Call) == "builtin:len"
				}) != nil
			}
			// announced > len(rest): the rejecting edge
			if isAnnounced(br.Info.Root) && isLenCall(br.Info.Other) {
				switch br.Info.Op.String() {
				case ">", ">=":
					cut[edge{br.If.Block(), br.slotWhenRel(true)}] = true
				case "<", "<=":
					cut[edge{br.If.Block(), br.slotWhenRel(false)}] = true
				}
			} else if isAnnounced(br.Info.Other) && isLenCall(br.Info.Root) {
				switch br.Info.Op.String() {
				case "<", "<=":
					cut[edge{br.If.Block(), br.slotWhenRel(true)}] = true
				case ">", ">=":
					cut[edge{br.If.Block(), br.slotWhenRel(false)}] = true
				}
			}
		}
		// the same bound in a boolean helper (`if !flashCountPlausible(size, rest) { return }`): the rejecting edge is the
		// edge of the caller's test on which the helper's answer means `announced > len(rest)`
		for _, br := range branchesIn(f) {
			if br.Info.Op != token.ILLEGAL {
				continue
			}
			call, ok := stripValue(br.Info.Root).(*ssa.Call)
			if !ok {
				continue
			}
			g := call.Call.StaticCallee()
			if g == nil || g.Pkg != f.Pkg || len(g.Blocks) == 0 || g.Signature.Results().Len() != 1 {
				continue
			}
			var sizeParam *ssa.Parameter
			for i, a := range call.Call.Args {
				if i < len(g.Params) && dependsOn(a, func(x ssa.Value) bool {
					c, idx := producerCall(x)
					return c != nil && idx == 0 && strings.HasSuffix(calleeName(&c.Call), "msgp.ReadArrayHeaderBytes")
				}) != nil {
					sizeParam = g.Params[i]
				}
			}
			if sizeParam == nil {
				continue
			}
			leaves := returnLeaves(g)
			if len(leaves) != 1 {
				continue
			}
			ci := decompose(leaves[0])
			if ci.Other == nil {
				continue
			}
			onSize := func(v ssa.Value) bool { return dependsOn(v, func(x ssa.Value) bool { return x == ssa.Value(sizeParam) }) != nil }
			onLen := func(v ssa.Value) bool {
				return dependsOn(v, func(x ssa.Value) bool {
					c, ok := x.(*ssa.Call)
					return ok && calleeName(&c.Call) == "builtin:len"
				}) != nil
			}
			op := ci.Op
			switch {
			case onSize(ci.Root) && onLen(ci.Other):
			case onLen(ci.Root) && onSize(ci.Other):
				op = flipOp(op)
			default:
				continue
			}
			// op now reads `size OP len`; the helper's value is true when that relation (negated if ci.Neg) holds
			rejectsWhenTrue := op == token.GTR || op == token.GEQ
			plausibleWhenTrue := op == token.LEQ || op == token.LSS
			if ci.Neg {
				rejectsWhenTrue, plausibleWhenTrue = plausibleWhenTrue, rejectsWhenTrue
			}
			if rejectsWhenTrue {
				if sl, ok := br.truthSlot(true); ok {
					cut[edge{br.If.Block(), sl}] = true
				}
			} else if plausibleWhenTrue {
				if sl, ok := br.truthSlot(false); ok {
					cut[edge{br.If.Block(), sl}] = true
				}
			}
		}
		// the cookie literal handed to c.Cookie(&Cookie{…}) at a call site: its constant fields
		cookieLit := func(ci ssa.CallInstruction) (fields map[string]ssa.Value, ok bool) {
			n := calleeName(ci.Common())
			if !(strings.HasSuffix(n, "DefaultCtx).Cookie") || strings.HasSuffix(n, ".Ctx).Cookie")) {
				return nil, false
			}
			al, isAlloc := ci.Common().Args[len(ci.Common().Args)-1].(*ssa.Alloc)
			if !isAlloc {
				return nil, false
			}
			fields = map[string]ssa.Value{}
			for _, ref := range *al.Referrers() {
				if fa, isFA := ref.(*ssa.FieldAddr); isFA {
					if fv := fieldVar(fa.X.Type(), fa.Field); fv != nil {
						for _, r2 := range *fa.Referrers() {
							if st, isSt := r2.(*ssa.Store); isSt && st.Addr == ssa.Value(fa) {
								fields[fv.Name()] = st.Val
							}
						}
					}
				}
			}
			return fields, true
		}
		isFlashName := func(v ssa.Value) bool {
			str, ok := constString(asConst(v))
			return ok && str == "fiber_flash"
		}
		pathOf := func(fields map[string]ssa.Value) string {
			if v, ok := fields["Path"]; ok {
				if str, ok := constString(asConst(v)); ok && str != "" {
					return str
				}
				return "?"
			}
			return "/" // fasthttp writes path=/ when none is given
		}
		// the path the cookie is issued for
		issuePath := "?"
		for _, c := range callsIn(r.Fn("", "(*Redirect).processFlashMessages"), false) {
			if fl, ok := cookieLit(c.Instr); ok && isFlashName(fl["Name"]) {
				issuePath = pathOf(fl)
			}
		}
		r.need(issuePath != "?", "processFlashMessages issues the flash cookie with a constant path")
		expiryPath := "(no expiry)"
		isExpire := func(in ssa.Instruction) bool {
			ci, ok := in.(ssa.CallInstruction)
			if !ok {
				return false
			}
			n := calleeName(ci.Common())
			if strings.HasSuffix(n, "DefaultCtx).ClearCookie") || strings.HasSuffix(n, ".Ctx).ClearCookie") {
				// ClearCookie(name) writes an expiry without a Path attribute
				for _, a := range ci.Common().Args {
					if sl, ok := a.(*ssa.Slice); ok {
						if al, ok := sl.X.(*ssa.Alloc); ok {
							for _, st := range storesInto(al) {
								if isFlashName(st.Val) {
									expiryPath = "(none: ClearCookie writes no Path attribute)"
								}
							}
						}
					}
				}
				return false
			}
			fl, isLit := cookieLit(ci)
			if !isLit || !isFlashName(fl["Name"]) {
				return false
			}
			expired := false
			if v, ok := fl["Expires"]; ok && dependsOn(v, func(x ssa.Value) bool { g, isG := x.(*ssa.Global); return isG && g.Name() == "CookieExpireDelete" }) != nil {
				expired = true
			}
			if v, ok := fl["MaxAge"]; ok {
				if k, isC := constInt(asConst(v)); isC && k < 0 {
					expired = true
				}
			}
			if v, ok := fl["Value"]; ok {
				if str, isC := constString(asConst(v)); !isC || str != "" {
					expired = false
				}
			}
			if !expired {
				return false
			}
			expiryPath = pathOf(fl)
			return expiryPath == issuePath
		}
		// the expiry written by a helper of the package on each of its paths (`r.expireFlashCookie()`)
		isExpireOrHelper := func(in ssa.Instruction) bool {
			if isExpire(in) {
				return true
			}
			ci, ok := in.(ssa.CallInstruction)
			if !ok {
				return false
			}
			g := ci.Common().StaticCallee()
			if g == nil || g.Pkg != f.Pkg || len(g.Blocks) == 0 || g.Object() == nil || g.Object().Exported() {
				return false
			}
			var miss ssa.Instruction
			withoutHelpers(func() {
				_, miss = reach(entryOf(g), func(x ssa.Instruction) bool { return isReturn(x) && x.Parent() == g }, nil, isExpire)
			})
			return miss == nil
		}
		_, hit := reach(entryOf(f), isReturn, cut, isExpireOrHelper)
		r.check(len(cut) > 0 && hit == nil, "parseAndClearFlashMessages:expires-cookie", r.fpos(f), "with the error edges removed every path to return writes an expired fiber_flash cookie with the path it was issued for ("+issuePath+")",
			"after the flash messages were decoded the fiber_flash cookie is not expired on the path it was issued for (issued with path "+issuePath+", expiry path "+expiryPath+"): a conforming client that requested a URL below a directory files the expiry under that directory and keeps the cookie — or, without any expiry, presents it on every later request — so the messages are delivered again and again")
	})

	r.rule("R2", "a malformed cookie yields no messages (E1)", func() {
		f := f0()
		errEdges := isErrEdgeOf(f)
		r.atLeast("decode error edges", len(errEdges), 1)
		bad := ""
		for _, e := range errEdges {
			// can the messages be dirty when this edge is taken?
			dirty := false
			for _, in := range instrsWhere(f, isDirtying) {
				_, hit := reach(pointAfter(in), func(x ssa.Instruction) bool { return x.Block() == e.From && x == e.From.Instrs[len(e.From.Instrs)-1] }, nil, isEmptying)
				if hit != nil {
					dirty = true
				}
			}
			if !dirty {
				continue
			}
			if _, hit := reachEdge(e, isReturn, nil, isEmptying); hit != nil {
				bad = r.pos(e.From.Instrs[len(e.From.Instrs)-1])
			}
		}
		// the other way out of the loop: it ends successfully only when the announced number of messages was decoded —
		// the loop (in this function or a helper it calls) is left either through `i < size` turning false or on the
		// error path of a failed decode, nowhere else
		type loopInfo struct {
			g      *ssa.Function
			header *ssa.BasicBlock
			exit   edge
		}
		var loops []loopInfo
		for _, g := range append([]*ssa.Function{f}, helpersOf(f)...) {
			var size ssa.Value
			for _, c := range callsMatching(g, false, func(n string) bool { return strings.HasSuffix(n, "msgp.ReadArrayHeaderBytes") }) {
				if c.Fn != g {
					continue
				}
				for _, ref := range *c.Value().Referrers() {
					if ex, ok := ref.(*ssa.Extract); ok && ex.Index == 0 {
						size = ex
					}
				}
			}
			if size == nil {
				continue
			}
			for _, br := range branchesInOne(g) {
				if br.Info.Other == nil {
					continue
				}
				switch {
				case br.Info.Op == token.LSS && stripValue(br.Info.Other) == size, br.Info.Op == token.GTR && stripValue(br.Info.Root) == size:
					loops = append(loops, loopInfo{g, br.If.Block(), edge{br.If.Block(), br.slotWhenRel(false)}})
				case br.Info.Op == token.GEQ && stripValue(br.Info.Other) == size, br.Info.Op == token.LEQ && stripValue(br.Info.Root) == size:
					loops = append(loops, loopInfo{g, br.If.Block(), edge{br.If.Block(), br.slotWhenRel(true)}})
				}
			}
			// the same loop counting down: `for remaining := size; remaining > 0; remaining--`
			for _, br := range branchesInOne(g) {
				ph, ok := stripValue(br.Info.Root).(*ssa.Phi)
				if !ok || br.Info.Const == nil || !isConstInt(br.Info.Const, 0) || (br.Info.Op != token.GTR && br.Info.Op != token.NEQ) {
					continue
				}
				fromSize, stepsDown := false, false
				for _, e := range ph.Edges {
					if stripValue(e) == size {
						fromSize = true
					}
					if bo, ok := e.(*ssa.BinOp); ok && bo.Op == token.SUB && bo.X == ssa.Value(ph) && isConstInt(bo.Y, 1) {
						stepsDown = true
					}
				}
				if fromSize && stepsDown && len(ph.Edges) == 2 {
					loops = append(loops, loopInfo{g, br.If.Block(), edge{br.If.Block(), br.slotWhenRel(false)}})
				}
			}
		}
		r.need(len(loops) >= 1, "the decode loop runs while i < size (size from msgp.ReadArrayHeaderBytes)")
		early := ""
		for _, lp := range loops {
			fromH := blocksReachable(lp.header, nil, nil)
			inLoop := map[*ssa.BasicBlock]bool{}
			for b := range fromH {
				for _, su := range b.Succs {
					if blocksReachable(su, nil, nil)[lp.header] {
						inLoop[b] = true
					}
				}
			}
			if !inLoop[lp.header] {
				continue // a comparison with the announced count that is not a loop condition (the size pre-check)
			}
			// error edges of the per-message decode
			var errTargets []*ssa.BasicBlock
			errEdge := map[edge]bool{}
			for _, br := range branchesInOne(lp.g) {
				if !inLoop[br.If.Block()] || !constIsNil(br.Info.Const) || br.Info.Root.Type().String() != "error" {
					continue
				}
				if sl, ok := br.nilSlot(false); ok {
					errEdge[edge{br.If.Block(), sl}] = true
					errTargets = append(errTargets, br.If.Block().Succs[sl])
				}
			}
			for b := range inLoop {
				for sl, su := range b.Succs {
					if inLoop[su] {
						continue
					}
					e := edge{b, sl}
					if e == lp.exit || errEdge[e] {
						continue
					}
					onErr := false
					for _, t := range errTargets {
						if len(t.Preds) == 1 && dom(t, b) {
							onErr = true
						}
					}
					if !onErr {
						early = r.P.Pos(b.Instrs[len(b.Instrs)-1].Pos())
					}
				}
			}
		}
		r.check(early == "", "parseAndClearFlashMessages:all-announced-messages-or-none", r.fpos(f), "the decode loop is left only through `i < size` turning false or on a decode error",
			"the decode loop can end before the announced number of messages was read and keep what it has (exit at "+early+"): a cookie cut at a message boundary (or announcing more than it holds) delivers its first messages and is expired as if it were complete")
		r.check(bad == "", "parseAndClearFlashMessages:error⇒empty", r.fpos(f), "whenever a decode error edge is taken after the messages were touched, they are emptied before return",
			"a decode error returns with the partially decoded messages still in place ("+bad+"): a truncated or hostile cookie yields messages")
	})

	r.rule("R3", "bounded decode (shared with C07-R3, E9)", func() { boundedFlashDecode(r) })
	r.rule("R4", "no stale fields from the reused slice (shared with C05-R3, E4d)", func() { staleElementRule(r) })

	r.rule("R5", "wire-safe encoding of the cookie value (E3 backwards)", func() {
		f := r.Fn("", "(*Redirect).processFlashMessages")
		var val ssa.Value
		for _, fr := range fieldRefs(f) {
			if fr.Write && fr.Name == "Cookie.Value" {
				val = fr.Val
			}
		}
		r.need(val != nil, "processFlashMessages builds a Cookie with a Value")
		safe := dependsOn(val, func(v ssa.Value) bool {
			c, ok := v.(*ssa.Call)
			if !ok {
				return false
			}
			n := calleeName(&c.Call)
			return strings.HasPrefix(n, "encoding/hex.") || strings.Contains(n, "encoding/base64.Encoding).Encode") || n == "net/url.QueryEscape"
		}) != nil
		r.check(safe, "processFlashMessages:cookie-value-encoding", r.fpos(f), "the cookie value passes a cookie-safe encoder",
			"the flash cookie value is the raw MessagePack encoding (NUL, ';', ',', CR/LF and bytes ≥ 0x80 are possible): e.g. With(\"k\",\"v;x, y\") or a message level of 10 produces a Set-Cookie line that standard parsers drop or split, so the messages do not survive a real HTTP exchange")
	})

	r.rule("R8", "old input is kept as submitted: WithInput hands the binders the map it collects the input in, not a pointer to it (a pointer changes the binder's answer to `may this value be split at commas`) (E8, type-level)", func() {
		bindMapByValueRule(r, "", 2)
	})

	r.rule("R9", "the binder's answer for the old-input map stays `do not split`: R8 has WithInput hand the map over by value, and equalFieldType answers `splittable` for a map only after looking at the element of the destination's type (reflect.TypeOf(out).Elem()), which for a map handed by value is the type of its values, never a map — the type whose Kind is compared with reflect.Map is the result of Elem() on every path (an `if pointer then Elem()` form makes the by-value map a map again: under EnableSplittingOnParsers `Doe, John` is delivered as ` John`) (E8, the two halves of one agreement)", func() {
		f := r.Fn("binder", "equalFieldType")
		n := 0
		for _, b := range f.Blocks {
			for _, in := range b.Instrs {
				bo, ok := in.(*ssa.BinOp)
				if !ok || (bo.Op != token.EQL && bo.Op != token.NEQ) {
					continue
				}
				var kindCall *ssa.Call
				for _, side := range [][2]ssa.Value{{bo.X, bo.Y}, {bo.Y, bo.X}} {
					if k, ok := constInt(asConst(side[1])); ok && k == 21 && strings.HasSuffix(side[1].Type().String(), "reflect.Kind") {
						if c, ok := stripValue(side[0]).(*ssa.Call); ok && strings.HasSuffix(calleeName(&c.Call), ".Kind") {
							kindCall = c
						}
					}
				}
				if kindCall == nil {
					continue
				}
				n++
				var recv ssa.Value
				if kindCall.Call.IsInvoke() {
					recv = kindCall.Call.Value
				} else if len(kindCall.Call.Args) > 0 {
					recv = kindCall.Call.Args[0]
				}
				okElem := false
				if recv != nil {
					okElem = allSourcesAre(recv, func(v ssa.Value) bool {
						c, ok := v.(*ssa.Call)
						return ok && strings.HasSuffix(calleeName(&c.Call), ".Elem")
					})
				}
				r.check(okElem, "equalFieldType:map-test-on-the-element-type", r.pos(in), "the Kind compared with reflect.Map is that of TypeOf(out).Elem() on every path",
					"equalFieldType can judge the destination's own type to be a map (not only what a pointer points to): the old-input map WithInput hands over by value is then `splittable` — with EnableSplittingOnParsers a submitted `go,web,fiber` is delivered as `fiber`, `Doe, John` as ` John`")
			}
		}
		r.atLeast("comparisons of a Kind with reflect.Map in equalFieldType", n, 1)
	})

	r.rule("R10", "a message and an old input may share a key (With(\"email\", …).WithInput() is the usual form): the by-key accessors Message and OldInput — or a helper they search through — decide on the kind of an entry while searching; an entry of the other kind under that key does not end the search (E1: between the key comparison and the found-return lies the isOldInput test)", func() {
		n := 0
		for _, fn := range []string{"(*Redirect).Message", "(*Redirect).OldInput"} {
			f := r.Fn("", fn)
			fs := append([]*ssa.Function{f}, helpersOf(f)...)
			found := false
			for _, g := range fs {
				for _, br := range branchesInOne(g) {
					isKey := false
					for _, v := range []ssa.Value{br.Info.Root, br.Info.Other} {
						if v == nil {
							continue
						}
						if fv := fieldOfValue(stripValue(v)); fv != nil && fv.Name() == "key" {
							isKey = true
						}
					}
					sl, ok := br.slotFor(token.EQL)
					if !isKey || !ok {
						continue
					}
					found = true
					n++
					kindTest := func(in ssa.Instruction) bool {
						i, ok := in.(*ssa.If)
						if !ok {
							return false
						}
						return dependsOn(i.Cond, func(v ssa.Value) bool {
							if fa, ok := v.(*ssa.FieldAddr); ok {
								if fv := fieldOfValue(fa); fv != nil && fv.Name() == "isOldInput" {
									return true
								}
							}
							if fl, ok := v.(*ssa.Field); ok {
								if fv := fieldVar(fl.X.Type(), fl.Field); fv != nil && fv.Name() == "isOldInput" {
									return true
								}
							}
							return false
						}) != nil
					}
					path, hit := reachEdge(edge{br.If.Block(), sl}, isReturn, nil, kindTest)
					if hit != nil {
						// the kind may have been tested first: a kind test that dominates the key comparison, inside the same search
						for _, kb := range g.Blocks {
							if len(kb.Instrs) > 0 && kindTest(kb.Instrs[len(kb.Instrs)-1]) && kb != br.If.Block() && dom(kb, br.If.Block()) {
								hit = nil
							}
						}
					}
					r.check(hit == nil, fn+":"+short(g.String())+":kind-tested-while-searching", r.pos(br.If), "an entry with the key ends the search only after its kind was tested",
						"the search by key ends at the first entry stored under the key, whatever its kind ("+pathString(r.P, path)+"): with With(\"email\", …).WithInput() the by-key accessor of the other kind comes back empty although the entry is in the cookie — OldInput(\"email\") is lost")
				}
			}
			if !found {
				r.bad(fn+":kind-tested-while-searching", r.fpos(f), "no comparison of an entry's key found in the accessor or its helpers: not the shape the rule reads")
			}
		}
		r.atLeast("key comparisons in the by-key accessors", n, 2)
	})

	r.rule("R7", "flash messages and old input never overwrite each other (E1)", func() {
		f := r.Fn("", "(*Redirect).With")
		// the in-place override stores into an element of r.messages: reachable only past `!isOldInput`
		var overrides []ssa.Instruction
		for _, b := range f.Blocks {
			for _, in := range b.Instrs {
				st, ok := in.(*ssa.Store)
				if !ok {
					continue
				}
				fa, ok := st.Addr.(*ssa.FieldAddr)
				if !ok {
					continue
				}
				if ia, ok := fa.X.(*ssa.IndexAddr); ok && loadOfField(ia.X, "Redirect.messages") {
					overrides = append(overrides, in)
				}
			}
		}
		// the same override written as one assignment of a whole element: r.messages[i] = redirectionMsg{…}
		var levelVals []ssa.Value
		for _, b := range f.Blocks {
			for _, in := range b.Instrs {
				st, ok := in.(*ssa.Store)
				if !ok {
					continue
				}
				if ia, ok := st.Addr.(*ssa.IndexAddr); ok && loadOfField(ia.X, "Redirect.messages") {
					overrides = append(overrides, in)
					if ld, ok := stripValue(st.Val).(*ssa.UnOp); ok && ld.Op == token.MUL {
						if al, ok := ld.X.(*ssa.Alloc); ok {
							for _, ls := range storesInto(al) {
								if lfa, ok := ls.Addr.(*ssa.FieldAddr); ok {
									if fv := fieldOfValue(lfa); fv != nil && fv.Name() == "level" {
										levelVals = append(levelVals, ls.Val)
									}
								}
							}
						}
					}
				}
				if fa, ok := st.Addr.(*ssa.FieldAddr); ok {
					if ia, ok := fa.X.(*ssa.IndexAddr); ok && loadOfField(ia.X, "Redirect.messages") {
						if fv := fieldOfValue(fa); fv != nil && fv.Name() == "level" {
							levelVals = append(levelVals, st.Val)
						}
					}
				}
			}
		}
		r.need(len(overrides) >= 1, "With overrides an existing message in place")
		// the level delivered is the level of the last With: what the override stores as level comes from this call's argument
		okLevel := len(levelVals) >= 1
		for _, lv := range levelVals {
			fromArg := dependsOn(lv, func(v ssa.Value) bool {
				p, ok := v.(*ssa.Parameter)
				return ok && p.Name() == "level"
			}) != nil
			fromOld := dependsOn(lv, func(v ssa.Value) bool {
				if fa, ok := v.(*ssa.FieldAddr); ok {
					if fv := fieldOfValue(fa); fv != nil && fv.Name() == "level" {
						return true
					}
				}
				if fl, ok := v.(*ssa.Field); ok {
					if fv := fieldVar(fl.X.Type(), fl.Field); fv != nil && fv.Name() == "level" {
						return true
					}
				}
				return false
			}) != nil
			if !fromArg || fromOld {
				okLevel = false
			}
		}
		r.check(okLevel, "With:override-takes-the-call's-level", r.fpos(f), "the overriding entry's level is this call's level argument",
			"With(key, …) on a key that was flashed before stores the old entry's level (or no level) instead of this call's: `With(\"status\", \"saving failed\", 40)` then `With(\"status\", \"saved\", 60)` delivers level 40 — the level of a delivered message is not the one attached last")
		cut := map[edge]bool{}
		for _, br := range branchesIn(f) {
			isOld := false
			if fv := fieldOfValue(stripValue(br.Info.Root)); fv != nil && fv.Name() == "isOldInput" {
				isOld = true
			}
			if isOld {
				if s, ok := br.truthSlot(false); ok {
					cut[edge{br.If.Block(), s}] = true
				}
			}
		}
		isOv := func(in ssa.Instruction) bool {
			for _, o := range overrides {
				if o == in {
					return true
				}
			}
			return false
		}
		_, hit := reach(entryOf(f), isOv, cut, nil)
		r.check(len(cut) > 0 && hit == nil, "With:overrides-only-flash-entries", r.fpos(f), "an existing entry is overwritten only when it is not old input",
			"With(key, …) can overwrite an old-input entry that has the same key: WithInput().With(\"name\", …) loses the flash message and corrupts the old input")
	})

	r.rule("R6", "presence test: decode only when the raw headers mention the cookie; release empties the messages (E1/E4a)", func() {
		for _, en := range []string{"(*App).defaultRequestHandler", "(*App).customRequestHandler"} {
			f := r.Fn("", en)
			calls := callsMatching(f, false, nameHasSuffix("Redirect).parseAndClearFlashMessages"))
			r.need(len(calls) == 1, en+" parses flash messages")
			// the edges on which the raw headers were found to mention the cookie: a branch on bytes.Contains / an index
			// search, in the handler or in a boolean helper it asks (`if mentionsFlashCookie(raw) {`)
			isSearch := nameIs("bytes.Contains", "bytes.Index", "strings.Contains", "strings.Index")
			found := gateItemsIn(f, func(ci condInfo) (bool, bool) {
				c, ok := stripValue(ci.Root).(*ssa.Call)
				if !ok || !isSearch(calleeName(&c.Call)) || len(c.Call.Args) != 2 {
					return false, false
				}
				if dependsOn(c.Call.Args[0], func(v ssa.Value) bool {
					cc, ok := v.(*ssa.Call)
					return ok && strings.HasSuffix(calleeName(&cc.Call), "RequestHeader).RawHeaders")
				}) == nil {
					return false, false
				}
				if strings.HasSuffix(calleeName(&c.Call), ".Contains") {
					return true, ci.Op == token.ILLEGAL
				}
				k, isK := constInt(ci.Const)
				if !isK {
					return false, false
				}
				switch {
				case (ci.Op == token.GEQ && k == 0) || (ci.Op == token.GTR && k == -1) || (ci.Op == token.NEQ && k == -1):
					return true, true
				case (ci.Op == token.LSS && k == 0) || (ci.Op == token.LEQ && k == -1) || (ci.Op == token.EQL && k == -1):
					return false, true
				}
				return false, false
			})
			cut := cutsFor(f, found)
			// what the pre-filter looks for occurs in every header block that carries the cookie: a piece of `name=`,
			// nothing around it (another cookie may precede it on the line, the field name may be spelled cookie:)
			name := ""
			if cm, ok := r.P.Pkg("").Members["FlashCookieName"].(*ssa.NamedConst); ok {
				name, _ = constString(cm.Value)
			}
			r.need(name != "", "FlashCookieName is a string constant")
			isRaw := func(v ssa.Value) bool {
				cc, ok := v.(*ssa.Call)
				return ok && strings.HasSuffix(calleeName(&cc.Call), "RequestHeader).RawHeaders")
			}
			nSearch := 0
			for _, c := range callsMatching(f, false, isSearch) {
				if dependsOn(c.Common.Args[0], isRaw) == nil {
					continue // a search in something else than the raw header block (the routing helpers search paths)
				}
				i := nSearch
				nSearch++
				needle, okN := resolveLiteral(r, c.Common.Args[1], 0)
				r.check(okN && needle != "" && strings.Contains(name+"=", needle), fmt.Sprintf("%s:flash-prefilter#%d:not-narrower-than-the-parser", en, i+1), r.pos(c.Instr), fmt.Sprintf("the pre-filter searches %q, a piece of %q", needle, name+"="),
					fmt.Sprintf("the pre-filter searches for %q (resolved=%v), which is not a piece of %q: a request whose flash cookie follows another cookie on the line, or whose header field is spelled `cookie:`, is not recognised — its messages are never delivered and the cookie is never expired", needle, okN, name+"="))
			}
			_, hit := reach(entryOf(f), func(in ssa.Instruction) bool { return in == calls[0].Instr }, cut, nil)
			r.check(len(cut) > 0 && hit == nil, en+":flash-prefilter", r.pos(calls[0].Instr), "flash parsing only runs when the raw headers contain the cookie name", "flash parsing runs for every request")
			// and the other way round: once the headers mention the cookie nothing else decides whether it is read —
			// every path from that edge to the route dispatch passes the parser (the method, the path, the context
			// kind play no part: a 307/308 redirect is followed with the original method)
			isDispatch := func(in ssa.Instruction) bool {
				return isCallTo(in, func(n string) bool {
					return strings.HasSuffix(n, "App).next") || strings.HasSuffix(n, "App).nextCustom")
				})
			}
			isParse := func(in ssa.Instruction) bool { return in == calls[0].Instr }
			// legitimate ways around the parser: the raw headers are empty / do not mention the cookie
			absent := map[edge]bool{}
			for e := range cut {
				if e.From.Parent() == f { // the other arm of a test that found the name (directly, or through the helper)
					absent[edge{e.From, 1 - e.Slot}] = true
				}
			}
			for _, br := range branchesIn(f) {
				lc, ok := stripValue(br.Info.Root).(*ssa.Call)
				if !ok || calleeName(&lc.Call) != "builtin:len" || len(lc.Call.Args) != 1 {
					continue
				}
				if pc, _ := producerCall(lc.Call.Args[0]); pc == nil || !strings.HasSuffix(calleeName(&pc.Call), "RequestHeader).RawHeaders") {
					continue
				}
				if k, ok := constInt(br.Info.Const); ok && k == 0 {
					switch br.Info.Op {
					case token.GTR, token.NEQ:
						absent[edge{br.If.Block(), br.slotWhenRel(false)}] = true
					case token.EQL, token.LEQ:
						absent[edge{br.If.Block(), br.slotWhenRel(true)}] = true
					}
				}
			}
			_, h := reach(entryOf(f), isDispatch, absent, isParse)
			skipped := h != nil
			r.check(len(cut) > 0 && !skipped, en+":flash-read-whenever-present", r.pos(calls[0].Instr), "with the `headers empty` / `cookie name absent` edges removed every path to the dispatch parses the flash cookie",
				"a request that carries the flash cookie can be dispatched without the cookie being read (e.g. only safe methods are looked at): after a 307/308 redirect the POST follow-up sees no messages, the cookie is not expired and the messages surface on a later, unrelated request")
		}
		rel := r.Fn("", "(*DefaultCtx).release")
		ok := len(instrsWhere(rel, isEmptying)) == 1
		r.check(ok, "release:empties-flashMessages", r.fpos(rel), "release truncates flashMessages: no cookie ⇒ no messages", "flashMessages survive the release of the context: the next request without a cookie sees the previous request's messages")
	})
}

// resolveLiteral: the constant text behind v — a string constant, []byte("…"), a concatenation of such, or a
// package-level variable whose initialiser is one (the store in the package's init function).
func resolveLiteral(r *Run, v ssa.Value, depth int) (string, bool) {
	if depth > 4 {
		return "", false
	}
	v = stripValue(v)
	if s, ok := constString(asConst(v)); ok {
		return s, true
	}
	switch x := v.(type) {
	case *ssa.Slice:
		return resolveLiteral(r, x.X, depth+1)
	case *ssa.BinOp:
		if x.Op == token.ADD {
			a, ok1 := resolveLiteral(r, x.X, depth+1)
			b, ok2 := resolveLiteral(r, x.Y, depth+1)
			return a + b, ok1 && ok2
		}
	case *ssa.UnOp:
		if x.Op != token.MUL {
			return "", false
		}
		g, ok := x.X.(*ssa.Global)
		if !ok || g.Pkg == nil {
			return "", false
		}
		init := g.Pkg.Func("init")
		if init == nil {
			return "", false
		}
		found, val := 0, ""
		okAll := true
		for _, b := range init.Blocks {
			for _, in := range b.Instrs {
				if st, ok := in.(*ssa.Store); ok && st.Addr == ssa.Value(g) {
					found++
					s, ok := resolveLiteral(r, st.Val, depth+1)
					val, okAll = s, okAll && ok
				}
			}
		}
		// a variable written anywhere else is not a constant
		written := false
		for _, m := range g.Pkg.Members {
			fn, ok := m.(*ssa.Function)
			if !ok || fn == init {
				continue
			}
			for _, f := range append([]*ssa.Function{fn}, anonFuncsDeep(fn)...) {
				for _, b := range f.Blocks {
					for _, in := range b.Instrs {
						if st, ok := in.(*ssa.Store); ok && st.Addr == ssa.Value(g) {
							written = true
						}
					}
				}
			}
		}
		return val, found == 1 && okAll && !written
	}
	return "", false
}
