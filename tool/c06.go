package main

import (
	"fmt"
	"go/types"
	"sort"
	"strings"

	"golang.org/x/tools/go/ssa"
)

func init() {
	register(&propDef{
		ID: "C06",
		Explain: "Decided clause (configuration assumption Immutable=true, branches on the flag pruned): R1 no string / byte slice (or element of a returned slice or map) handed out by an exported accessor of DefaultCtx, DefaultReq, DefaultRes, Redirect or by the generic helpers aliases ephemeral memory — " +
			"fasthttp-owned buffers, visitor callback arguments, the context's reused routing buffers — except through a copying step (app.getString/getBytes under the assumption, CopyString/CopyBytes, string<->[]byte conversion, concatenation, strconv/fmt); " +
			"R2 the strings the binders hand to the decoder / to user maps are copies. Escape hatches that return fasthttp objects themselves (Request, Response, RequestCtx, MultipartForm, FormFile) are out of scope by documentation. " +
			"Not decided: nothing behavioural is left for the enumerated accessors under the stated assumptions; accessor kinds other than string/bytes containers are outside the rule.",
		Assume: []string{"Config.Immutable = true", "every []byte returned by a fasthttp method or passed to a fasthttp visitor callback is ephemeral", "app.getString/getBytes copy under Immutable (app.go New wires getStringImmutable/getBytesImmutable)"},
		Run:    runC06,
	})
}

func isBytesOrString(t types.Type) bool {
	switch u := t.Underlying().(type) {
	case *types.Basic:
		return u.Info()&types.IsString != 0
	case *types.Slice:
		if b, ok := u.Elem().Underlying().(*types.Basic); ok && b.Kind() == types.Byte {
			return true
		}
		return isBytesOrString(u.Elem())
	case *types.Map:
		return isBytesOrString(u.Key()) || isBytesOrString(u.Elem())
	}
	return false
}

func immutableCfg() taintCfg {
	return taintCfg{
		callSource: func(c *ssa.CallCommon, name string) bool {
			// any fasthttp function/method returning []byte hands out its own buffer
			if !strings.Contains(name, "github.com/valyala/fasthttp") {
				return false
			}
			if strings.HasSuffix(name, "fasthttp.AppendQuotedArg") || strings.HasSuffix(name, "fasthttp.AppendUnquotedArg") || strings.HasSuffix(name, "fasthttp.AppendHTTPDate") {
				return false // append into the caller's buffer: provenance follows the dst argument
			}
			sig := c.Signature()
			for i := 0; i < sig.Results().Len(); i++ {
				if s, ok := sig.Results().At(i).Type().Underlying().(*types.Slice); ok {
					if b, ok := s.Elem().Underlying().(*types.Basic); ok && b.Kind() == types.Byte {
						return true
					}
				}
			}
			return false
		},
		fieldSource: func(f string) bool {
			return f == "DefaultCtx.path" || f == "DefaultCtx.detectionPath" || f == "DefaultCtx.values"
		},
		cleaner: func(c *ssa.CallCommon, name string) bool {
			switch {
			case name == "field:App.getString", name == "field:App.getBytes",
				name == fiberMod+".getStringImmutable", name == fiberMod+".getBytesImmutable",
				strings.HasSuffix(name, "utils/v2.CopyString"), strings.HasSuffix(name, "utils/v2.CopyBytes"), name == "strings.Clone", name == "bytes.Clone",
				strings.HasPrefix(name, "strconv."), strings.HasPrefix(name, "fmt.Sprint"), strings.HasPrefix(name, "fmt.Errorf"), name == "strings.Join", name == "strings.Repeat",
				name == "strings.ToLower", name == "strings.ToUpper", name == "strings.ReplaceAll", name == "strings.Replace",
				strings.HasPrefix(name, "builtin:len"), strings.HasPrefix(name, "builtin:cap"),
				strings.HasSuffix(name, "App).quoteString"), strings.HasPrefix(name, "net/url."), strings.HasPrefix(name, "(net.IP)."), strings.HasPrefix(name, "(*net/url.URL)."),
				strings.HasPrefix(name, "mime."), strings.HasSuffix(name, "utils/v2.GetMIME"), strings.HasSuffix(name, "utils/v2.StatusMessage"),
				strings.HasPrefix(name, "(*github.com/valyala/bytebufferpool.ByteBuffer).String"), strings.HasPrefix(name, "(*bytes.Buffer).String"), strings.HasPrefix(name, "(*strings.Builder).String"),
				strings.HasPrefix(name, "encoding/"), strings.HasPrefix(name, "(*encoding/"):
				return true
			}
			return false
		},
		visitorSource: func(name string) bool {
			return strings.Contains(name, "github.com/valyala/fasthttp") && (strings.Contains(name, ").VisitAll") || strings.Contains(name, ").Visit"))
		},
		convertCleans: true,
		concatCleans:  true,
		ignoreCall: func(name string) bool {
			return strings.HasPrefix(name, fiberMod+"/log.") || strings.HasPrefix(name, "("+fiberMod+"/log.")
		},
		pruneField: "Config.Immutable",
		trackField: func(string) bool { return false },
	}
}

func runC06(r *Run) {
	escape := map[string]string{
		"Request": "documented escape hatch: hands out the fasthttp object", "Response": "escape hatch", "RequestCtx": "escape hatch", "MultipartForm": "escape hatch (fasthttp form)",
		"FormFile": "escape hatch", "BodyRaw": "documented as raw, unsafe view of the body", "Context": "not string data",
	}
	r.rule("R1", "every string/bytes accessor result is a copy under Immutable (E3, sources: fasthttp buffers, visitor arguments, routing buffers)", func() {
		te := newTaint(r.P, immutableCfg())
		n := 0
		var clean, dirty []string
		check := func(m *ssa.Function, display string) {
			if m == nil || len(m.Blocks) == 0 {
				return
			}
			res := m.Signature.Results()
			relevant := false
			for i := 0; i < res.Len(); i++ {
				if isBytesOrString(res.At(i).Type()) {
					relevant = true
				}
			}
			if !relevant {
				return
			}
			if why, ok := escape[m.Name()]; ok {
				r.ok("accessor:"+display, r.fpos(m), "allow-listed: "+why)
				return
			}
			n++
			sum := te.analyze(m, make([]bool, len(m.Params)), nil, "")
			if sum.ret {
				dirty = append(dirty, display)
				r.bad("accessor:"+display, r.fpos(m), display+" can return memory that aliases a reused buffer even with Immutable: the value a handler kept changes when a later request reuses the context/connection buffers (e.g. keep c.Params(\"v\") from /p/first, serve /p/SECND, the kept string reads SECND)")
			} else {
				clean = append(clean, display)
				r.ok("accessor:"+display, r.fpos(m), "every returned string/bytes value passes a copying step")
			}
		}
		for _, typ := range []string{"DefaultCtx", "DefaultReq", "DefaultRes", "Redirect"} {
			tm, ok := r.P.Pkg("").Members[typ].(*ssa.Type)
			if !ok {
				continue
			}
			ms := r.P.SSA.MethodSets.MethodSet(types.NewPointer(tm.Type()))
			for i := 0; i < ms.Len(); i++ {
				m := r.P.SSA.MethodValue(ms.At(i))
				if m == nil || m.Object() == nil || !m.Object().Exported() || m.Synthetic != "" {
					continue
				}
				check(m, "(*"+typ+")."+m.Name())
			}
		}
		sort.Strings(clean)
		r.Extra["accessors_clean"] = clean
		r.Extra["accessors_violating"] = dirty
		r.atLeast("string/bytes accessors", n, 30)
	})

	r.rule("R2", "strings handed by the binders to the decoder / user maps are copies (E3)", func() {
		cfg := immutableCfg()
		cfg.pruneField = ""
		cfg.sink = func(c *ssa.CallCommon, name string, idx int) bool {
			return strings.HasSuffix(name, "schema.Decoder).Decode") && idx == 2
		}
		te := newTaint(r.P, cfg)
		n := 0
		for _, b := range []string{"HeaderBinding", "RespHeaderBinding", "CookieBinding", "QueryBinding", "FormBinding", "URIBinding"} {
			f := r.P.Func("binder", "(*"+b+").Bind")
			if f == nil {
				continue
			}
			n++
			sum := te.analyze(f, make([]bool, len(f.Params)), nil, "")
			r.check(len(sum.hits) == 0, "binder:"+b+".Bind", r.fpos(f), "keys/values reaching the decoder are copies",
				fmt.Sprintf("binder.%s hands utils.UnsafeString views of the request buffer to the schema decoder: string fields of the bound struct alias request memory and change when the buffers are reused, also with Immutable", b))
		}
		r.atLeast("visitor-based binders", n, 5)
	})
}
