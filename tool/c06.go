package main

import (
	"fmt"
	"go/token"
	"go/types"
	"sort"
	"strings"

	"golang.org/x/tools/go/ssa"
)

func init() {
	register(&propDef{
		ID: "C06",
		Explain: "Decided clause (configuration assumption Immutable=true, branches on the flag pruned): R1 no string / byte slice (or element of a returned slice or map) handed out by an exported accessor of DefaultCtx, DefaultReq, DefaultRes, Redirect or by the generic helpers aliases ephemeral memory — " +
			"fasthttp-owned buffers, visitor callback arguments, the context's reused routing buffers — except through a copying step (app.getString/getBytes under the assumption, CopyString/CopyBytes, string<->[]byte conversion, concatenation, strconv/fmt); " +
			"R2 the strings the binders hand to the decoder / to user maps are copies. Escape hatches that return fasthttp objects themselves (Request, Response, RequestCtx, MultipartForm, FormFile) are out of scope by documentation. " +
			"Not decided: nothing behavioural is left for the enumerated accessors under the stated assumptions; accessor kinds other than string/bytes containers are outside the rule.",
		Assume: []string{"Config.Immutable = true", "every []byte returned by a fasthttp method or passed to a fasthttp visitor callback is ephemeral", "app.getString/getBytes copy under Immutable (app.go New wires getStringImmutable/getBytesImmutable)"},
		Run:    runC06,
	})
}

func isBytesOrString(t types.Type) bool {
	switch u := t.Underlying().(type) {
	case *types.Basic:
		return u.Info()&types.IsString != 0
	case *types.Slice:
		if b, ok := u.Elem().Underlying().(*types.Basic); ok && b.Kind() == types.Byte {
			return true
		}
		return isBytesOrString(u.Elem())
	case *types.Map:
		return isBytesOrString(u.Key()) || isBytesOrString(u.Elem())
	}
	return false
}

func immutableCfg() taintCfg {
	return taintCfg{
		callSource: func(c *ssa.CallCommon, name string) bool {
			// any fasthttp function/method returning []byte hands out its own buffer
			if !strings.Contains(name, "github.com/valyala/fasthttp") {
				return false
			}
			if strings.HasSuffix(name, "fasthttp.AppendQuotedArg") || strings.HasSuffix(name, "fasthttp.AppendUnquotedArg") || strings.HasSuffix(name, "fasthttp.AppendHTTPDate") {
				return false // append into the caller's buffer: provenance follows the dst argument
			}
			sig := c.Signature()
			for i := 0; i < sig.Results().Len(); i++ {
				if s, ok := sig.Results().At(i).Type().Underlying().(*types.Slice); ok {
					if b, ok := s.Elem().Underlying().(*types.Basic); ok && b.Kind() == types.Byte {
						return true
					}
				}
			}
			return false
		},
		fieldSource: func(f string) bool {
			return f == "DefaultCtx.path" || f == "DefaultCtx.detectionPath" || f == "DefaultCtx.values"
		},
		cleaner: func(c *ssa.CallCommon, name string) bool {
			switch {
			case name == "field:App.getString", name == "field:App.getBytes",
				name == fiberMod+".getStringImmutable", name == fiberMod+".getBytesImmutable",
				strings.HasSuffix(name, "utils/v2.CopyString"), strings.HasSuffix(name, "utils/v2.CopyBytes"), name == "strings.Clone", name == "bytes.Clone",
				strings.HasPrefix(name, "strconv."), strings.HasPrefix(name, "fmt.Sprint"), strings.HasPrefix(name, "fmt.Errorf"), name == "strings.Join", name == "strings.Repeat",
				name == "strings.ToLower", name == "strings.ToUpper", name == "strings.ReplaceAll", name == "strings.Replace",
				strings.HasPrefix(name, "builtin:len"), strings.HasPrefix(name, "builtin:cap"),
				strings.HasSuffix(name, "App).quoteString"), strings.HasPrefix(name, "net/url."), strings.HasPrefix(name, "(net.IP)."), strings.HasPrefix(name, "(*net/url.URL)."),
				strings.HasPrefix(name, "mime."), strings.HasSuffix(name, "utils/v2.GetMIME"), strings.HasSuffix(name, "utils/v2.StatusMessage"),
				strings.HasPrefix(name, "(*github.com/valyala/bytebufferpool.ByteBuffer).String"), strings.HasPrefix(name, "(*bytes.Buffer).String"), strings.HasPrefix(name, "(*strings.Builder).String"),
				strings.HasPrefix(name, "encoding/"), strings.HasPrefix(name, "(*encoding/"):
				return true
			}
			return false
		},
		visitorSource: func(name string) bool {
			return strings.Contains(name, "github.com/valyala/fasthttp") && (strings.Contains(name, ").VisitAll") || strings.Contains(name, ").Visit"))
		},
		convertCleans: true,
		concatCleans:  true,
		ignoreCall: func(name string) bool {
			return strings.HasPrefix(name, fiberMod+"/log.") || strings.HasPrefix(name, "("+fiberMod+"/log.")
		},
		pruneField: "Config.Immutable",
		trackField: func(string) bool { return false },
	}
}

func runC06(r *Run) {
	escape := map[string]string{
		"Request": "documented escape hatch: hands out the fasthttp object", "Response": "escape hatch", "RequestCtx": "escape hatch", "MultipartForm": "escape hatch (fasthttp form)",
		"FormFile": "escape hatch", "BodyRaw": "documented as raw, unsafe view of the body", "Context": "not string data",
	}
	r.rule("R1", "every string/bytes accessor result is a copy under Immutable (E3, sources: fasthttp buffers, visitor arguments, routing buffers)", func() {
		te := newTaint(r.P, immutableCfg())
		n := 0
		var clean, dirty []string
		check := func(m *ssa.Function, display string) {
			if m == nil || len(m.Blocks) == 0 {
				return
			}
			res := m.Signature.Results()
			relevant := false
			for i := 0; i < res.Len(); i++ {
				if isBytesOrString(res.At(i).Type()) {
					relevant = true
				}
			}
			if !relevant {
				return
			}
			if why, ok := escape[m.Name()]; ok {
				r.ok("accessor:"+display, r.fpos(m), "allow-listed: "+why)
				return
			}
			n++
			sum := te.analyze(m, make([]bool, len(m.Params)), nil, "")
			if sum.ret {
				dirty = append(dirty, display)
				r.bad("accessor:"+display, r.fpos(m), display+" can return memory that aliases a reused buffer even with Immutable: the value a handler kept changes when a later request reuses the context/connection buffers (e.g. keep c.Params(\"v\") from /p/first, serve /p/SECND, the kept string reads SECND)")
			} else {
				clean = append(clean, display)
				r.ok("accessor:"+display, r.fpos(m), "every returned string/bytes value passes a copying step")
			}
		}
		for _, typ := range []string{"DefaultCtx", "DefaultReq", "DefaultRes", "Redirect"} {
			tm, ok := r.P.Pkg("").Members[typ].(*ssa.Type)
			if !ok {
				continue
			}
			ms := r.P.SSA.MethodSets.MethodSet(types.NewPointer(tm.Type()))
			for i := 0; i < ms.Len(); i++ {
				m := r.P.SSA.MethodValue(ms.At(i))
				if m == nil || m.Object() == nil || !m.Object().Exported() || m.Synthetic != "" {
					continue
				}
				check(m, "(*"+typ+")."+m.Name())
			}
		}
		sort.Strings(clean)
		r.Extra["accessors_clean"] = clean
		r.Extra["accessors_violating"] = dirty
		r.atLeast("string/bytes accessors", n, 30)
	})

	r.rule("R4", "text kept in the context between accessor calls is a copy: a string / byte-slice field of DefaultCtx is only ever assigned a copied value, except the routing buffers declared ephemeral (path, detectionPath, values), whose readers R1 checks (E3, field-based)", func() {
		cfg := immutableCfg()
		declared := cfg.fieldSource
		isText := map[string]bool{}
		typePos := ""
		if tm, ok := r.P.Pkg("").Members["DefaultCtx"].(*ssa.Type); ok {
			typePos = r.P.Pos(tm.Pos())
			if st, ok := tm.Type().Underlying().(*types.Struct); ok {
				for i := 0; i < st.NumFields(); i++ {
					if isBytesOrString(st.Field(i).Type()) {
						isText["DefaultCtx."+st.Field(i).Name()] = true
					}
				}
			}
		}
		r.need(len(isText) >= 3, "DefaultCtx has text fields")
		cfg.trackField = func(name string) bool { return isText[name] && !declared(name) }
		te := newTaint(r.P, cfg)
		var ms []*ssa.Function
		r.P.AllFuncs("", func(f *ssa.Function) {
			if f.Signature.Recv() != nil && strings.HasSuffix(f.Signature.Recv().Type().String(), "fiber/v3.DefaultCtx") {
				ms = append(ms, f)
			}
		})
		r.need(len(ms) >= 50, "methods of DefaultCtx")
		for round := 0; round < 6; round++ {
			te.changed = false
			te.memo = map[string]*fnSummary{}
			for _, m := range ms {
				te.analyze(m, make([]bool, len(m.Params)), nil, "")
			}
			if !te.changed {
				break
			}
		}
		var names []string
		for n := range isText {
			names = append(names, n)
		}
		sort.Strings(names)
		for _, n := range names {
			if declared(n) {
				continue
			}
			r.check(!te.fields[n], "field:"+n, typePos, "only copied (or constant) text is stored", n+" can be assigned a view of request memory even with Immutable: what an accessor hands out from it (for pathOriginal: c.Route().Path of an unmatched request, OriginalURL-derived values) changes when the buffers are reused")
		}
		r.count("methods of DefaultCtx analysed", len(ms))
	})

	r.rule("R5", "what a method of the context leaves behind a pointer parameter is a copy: memory written through a `*[]byte` / `*string` parameter does not alias fasthttp's buffers (the body as sent, kept while the request body is replaced, would be released with it) (E3)", func() {
		cfg := immutableCfg()
		cfg.pruneField = ""
		te := newTaint(r.P, cfg)
		n := 0
		r.P.AllFuncs("", func(f *ssa.Function) {
			if f.Signature.Recv() == nil || !strings.HasSuffix(f.Signature.Recv().Type().String(), "fiber/v3.DefaultCtx") {
				return
			}
			for i, p := range f.Params {
				pt, ok := p.Type().Underlying().(*types.Pointer)
				if !ok || !isBytesOrString(pt.Elem()) {
					continue
				}
				n++
				sum := te.analyze(f, make([]bool, len(f.Params)), nil, "")
				tainted := i < len(sum.mut) && sum.mut[i]
				r.check(!tainted, fmt.Sprintf("%s:*%s:holds-a-copy", short(f.String()), p.Name()), r.fpos(f), "only copied bytes are stored behind the parameter",
					short(f.String())+" stores a view of a fasthttp buffer behind *"+p.Name()+": for the body as sent, SetBodyRaw releases that buffer to the shared pool, another request's body overwrites it, and Body() puts the overwritten bytes back as the raw body")
			}
		})
		r.atLeast("pointer-to-text parameters of context methods", n, 1)
	})

	r.rule("R7", "the request view hands out what the context hands out: Req().Body / BodyRaw / Cookies / FormValue / Get / OriginalURL / Params / Path / Query / Queries / Method delegate to the context accessor of the same name, which is where the Immutable copy is made (sibling agreement)", func() {
		viewDelegatesByNameRule(r, "DefaultReq", []string{"Body", "BodyRaw", "Cookies", "FormValue", "Get", "Method", "OriginalURL", "Params", "Path", "Queries", "Query"}, "the view would hand out another value (or an uncopied one) than the context accessor")
	})

	r.rule("R6", "a helper that points the request at something else for the duration of a call puts it back on every path: after SendFile rewrote the request URI every return is preceded by the restoring SetRequestURI (or it is deferred before the rewrite) — OriginalURL, Query and what was taken from them stay valid until the handler returns (E1 pairing)", func() {
		f := r.Fn("", "(*DefaultCtx).SendFile")
		var sets []ssa.Instruction
		var deferred ssa.Instruction
		for _, b := range f.Blocks {
			for _, in := range b.Instrs {
				ci, ok := in.(ssa.CallInstruction)
				if !ok || !strings.HasSuffix(calleeName(ci.Common()), "fasthttp.Request).SetRequestURI") {
					continue
				}
				if _, isDefer := in.(*ssa.Defer); isDefer {
					deferred = in
				} else {
					sets = append(sets, in)
				}
			}
		}
		r.need(len(sets) >= 1, "SendFile rewrites the request URI")
		n := 0
		for _, s := range sets {
			// a rewrite that is itself the restoring call needs no partner: restoring calls are those reachable only
			// after another rewrite; take the first rewrite(s): not reachable from any other rewrite
			isFirst := true
			for _, o := range sets {
				if o != s {
					if _, hit := reach(pointAfter(o), func(in ssa.Instruction) bool { return in == s }, nil, nil); hit != nil {
						isFirst = false
					}
				}
			}
			if !isFirst {
				continue
			}
			n++
			okPair := false
			if deferred != nil {
				// the defer statement is executed on every path to the rewrite
				_, hit := reach(entryOf(f), func(in ssa.Instruction) bool { return in == s }, nil, func(in ssa.Instruction) bool { return in == deferred })
				okPair = hit == nil
			}
			if !okPair {
				ownReturn := func(in ssa.Instruction) bool { _, ok := in.(*ssa.Return); return ok && in.Parent() == f }
				_, hit := reach(pointAfter(s), ownReturn, nil, func(in ssa.Instruction) bool {
					for _, o := range sets {
						if o != s && in == o {
							return true
						}
					}
					return false
				})
				okPair = hit == nil && len(sets) > 1
			}
			r.check(okPair, fmt.Sprintf("SendFile:request-uri-rewrite#%d:restored-on-every-path", n), r.pos(s), "the original request URI is put back on every path (deferred, or before each return)",
				"SendFile can return with the request URI still pointing at the file (an early return between the rewrite and the restore): for the rest of the chain and in the error handler OriginalURL() and Query() answer for the file name, and a string taken from OriginalURL() earlier is overwritten in place")
		}
		r.atLeast("request-URI rewrites in SendFile", n, 1)
	})

	r.rule("R2", "strings handed by the binders to the decoder / user maps are copies (E3)", func() {
		cfg := immutableCfg()
		cfg.pruneField = ""
		cfg.sink = func(c *ssa.CallCommon, name string, idx int) bool {
			return strings.HasSuffix(name, "schema.Decoder).Decode") && idx == 2
		}
		te := newTaint(r.P, cfg)
		n := 0
		for _, b := range []string{"HeaderBinding", "RespHeaderBinding", "CookieBinding", "QueryBinding", "FormBinding", "URIBinding"} {
			f := r.P.Func("binder", "(*"+b+").Bind")
			if f == nil {
				continue
			}
			n++
			sum := te.analyze(f, make([]bool, len(f.Params)), nil, "")
			r.check(len(sum.hits) == 0, "binder:"+b+".Bind", r.fpos(f), "keys/values reaching the decoder are copies",
				fmt.Sprintf("binder.%s hands utils.UnsafeString views of the request buffer to the schema decoder: string fields of the bound struct alias request memory and change when the buffers are reused, also with Immutable", b))
		}
		r.atLeast("visitor-based binders", n, 5)
	})

	r.rule("R3", "request memory is never rewritten in place (second clause: values are stable until the handler returns): in-place folders are applied to private buffers only (E3, alias flow)", func() {
		mutators := map[string]bool{"github.com/gofiber/utils/v2.ToLowerBytes": true, "github.com/gofiber/utils/v2.ToUpperBytes": true}
		fieldStores := map[string][]ssa.Value{}
		indexed := false
		index := func() {
			if indexed {
				return
			}
			indexed = true
			r.P.AllFuncs("*", func(f *ssa.Function) {
				for _, fr := range fieldRefsOne(f) {
					if fr.Write && fr.Val != nil {
						fieldStores[fr.Name] = append(fieldStores[fr.Name], fr.Val)
					}
				}
			})
		}
		isReqAccessor := func(c *ssa.Call) bool {
			sc := c.Call.StaticCallee()
			if sc == nil || sc.Signature.Recv() == nil {
				return false
			}
			rt := types.TypeString(sc.Signature.Recv().Type(), nil)
			if !(strings.Contains(rt, "fasthttp.RequestHeader") || strings.HasSuffix(rt, "fasthttp.Request") || strings.Contains(rt, "fasthttp.URI") || strings.Contains(rt, "fasthttp.Args") || strings.Contains(rt, "fasthttp.RequestCtx")) {
				return false
			}
			res := sc.Signature.Results()
			return res.Len() >= 1 && isByteSeq(res.At(0).Type()) && !strings.HasPrefix(sc.Name(), "Append")
		}
		visitorParam := func(p *ssa.Parameter) bool {
			fn := p.Parent()
			if fn == nil || fn.Parent() == nil || !isByteSeq(p.Type()) {
				return false
			}
			for _, b := range fn.Parent().Blocks {
				for _, in := range b.Instrs {
					ci, ok := in.(ssa.CallInstruction)
					if !ok || !strings.Contains(calleeName(ci.Common()), "github.com/valyala/fasthttp") {
						continue
					}
					for _, a := range ci.Common().Args {
						if mc, ok := a.(*ssa.MakeClosure); ok && mc.Fn == ssa.Value(fn) {
							return true
						}
					}
				}
			}
			return false
		}
		var aliases func(v ssa.Value, seen map[ssa.Value]bool, depth int) string
		aliases = func(v ssa.Value, seen map[ssa.Value]bool, depth int) string {
			if v == nil || seen[v] || depth > 6 {
				return ""
			}
			seen[v] = true
			switch x := v.(type) {
			case *ssa.Call:
				n := calleeName(&x.Call)
				if isReqAccessor(x) {
					return short(n)
				}
				switch {
				case n == "builtin:append":
					return aliases(x.Call.Args[0], seen, depth)
				case strings.HasSuffix(n, "utils/v2.UnsafeBytes") || strings.HasSuffix(n, "utils/v2.UnsafeString") || mutators[n]:
					return aliases(x.Call.Args[0], seen, depth)
				}
				if g := transparentCallee(x.Parent(), x); g != nil {
					for _, ri := range instrsWhereOne(g, isReturn) {
						if w := aliases(retOperand(ri.(*ssa.Return), 0), seen, depth+1); w != "" {
							return w
						}
					}
				}
				return ""
			case *ssa.Slice:
				return aliases(x.X, seen, depth)
			case *ssa.ChangeType:
				return aliases(x.X, seen, depth)
			case *ssa.Convert:
				// string <-> []byte conversions copy
				_, fromStr := x.X.Type().Underlying().(*types.Basic)
				_, toStr := x.Type().Underlying().(*types.Basic)
				if fromStr != toStr {
					return ""
				}
				return aliases(x.X, seen, depth)
			case *ssa.Phi:
				for _, e := range x.Edges {
					if w := aliases(e, seen, depth); w != "" {
						return w
					}
				}
			case *ssa.Parameter:
				if visitorParam(x) {
					return "a fasthttp visitor's argument"
				}
				if g := x.Parent(); g != nil && g.Parent() == nil && isTransparent(g, pkgOfFn(g)) {
					for i, gp := range g.Params {
						if gp != x {
							continue
						}
						for _, c := range staticCallersOf(g) {
							if i < len(c.Call.Args) {
								if w := aliases(c.Call.Args[i], seen, depth+1); w != "" {
									return w
								}
							}
						}
					}
				}
			case *ssa.UnOp:
				if x.Op != token.MUL {
					return ""
				}
				if a := rootAlloc(x.X); a != nil {
					for _, st := range storesInto(a) {
						if w := aliases(st.Val, seen, depth); w != "" {
							return w
						}
					}
					return ""
				}
				if fv := fieldOfValue(x); fv != nil {
					index()
					for _, sv := range fieldStores[fieldOwner(fv)+"."+fv.Name()] {
						if w := aliases(sv, seen, depth+1); w != "" {
							return w
						}
					}
				}
			}
			return ""
		}
		n := 0
		r.P.AllFuncs("*", func(f *ssa.Function) {
			for _, c := range callsIn(f, false) {
				if !mutators[c.Name] {
					continue
				}
				n++
				w := aliases(c.Common.Args[0], map[ssa.Value]bool{}, 0)
				r.check(w == "", fmt.Sprintf("%s:%s#%d:private-buffer", short(f.String()), short(c.Name), n), r.pos(c.Instr), "the folded buffer is private (a copy or the context's own scratch buffer)",
					"request memory ("+w+") is folded in place: a header value the handler already obtained changes under it, and later readers — also under Immutable — see the rewritten text (e.g. a multipart boundary or parameter name in lower case)")
			}
		})
		r.atLeast("in-place folder call sites", n, 2)
	})
}
