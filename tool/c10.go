package main

import (
	"fmt"
	"go/types"
	"sort"
	"strings"

	"golang.org/x/tools/go/ssa"
)

func init() {
	register(&propDef{
		ID: "C10",
		Explain: "Decided clauses: R1 every read of a forwarding header (X-Forwarded-Host/-For/-Proto/-Protocol/-Ssl, X-Url-Scheme, Config.ProxyHeader) in package fiber is unreachable once the " +
			"IsProxyTrusted()==true edges are removed (helpers: at every call site; closures: at their creation site); allow-list: IPs(); R2 the trust decision touches only the connection (RemoteIP) and configuration, " +
			"each class flag is paired with its predicate, and `return true` needs a membership predicate or TrustProxy off; R3 with IP validation on, a header-derived IP is returned only after IsIPv4/IsIPv6 accepted it; " +
			"R4 Secure derives from Scheme, Hostname/Subdomains from Host, BaseURL from Scheme+Host. Not decided: CIDR arithmetic (net package), header value parsing beyond R3.",
		Assume: []string{"fasthttp RemoteIP() reflects the peer address", "net.IP class predicates are correct"},
		Run:    runC10,
	})
}

var fwdHeaders = map[string]bool{
	"x-forwarded-host": true, "x-forwarded-for": true, "x-forwarded-proto": true, "x-forwarded-protocol": true,
	"x-forwarded-ssl": true, "x-url-scheme": true, "x-forwarded-": true,
}

const fnTrusted = "(*" + fiberMod + ".DefaultCtx).IsProxyTrusted"

// trustCut: the true edges of every branch on an IsProxyTrusted() result in f.
func trustCut(f *ssa.Function) map[edge]bool {
	cut := map[edge]bool{}
	for _, c := range callsIn(f, false) {
		if c.Name != fnTrusted && !strings.HasSuffix(c.Name, ").IsProxyTrusted") {
			continue
		}
		if c.Value() == nil {
			continue
		}
		for _, br := range ifsOnValue(f, c.Value()) {
			if s, ok := br.truthSlot(true); ok {
				cut[edge{br.If.Block(), s}] = true
			}
		}
	}
	return cut
}

// gatedAt: `at` in f is unreachable from entry with the trusted edges removed; if f has no
// trust test, every call site (or closure creation site) of f must be gated (depth-limited).
func gatedAt(g *Graph, f *ssa.Function, at ssa.Instruction, depth int) (bool, string) {
	cut := trustCut(f)
	if len(cut) > 0 {
		_, hit := reach(entryOf(f), func(in ssa.Instruction) bool { return in == at }, cut, nil)
		if hit == nil {
			return true, "gated in " + f.Name()
		}
	}
	if depth == 0 {
		return false, "not gated in " + f.Name()
	}
	// closure: gate at creation site
	if f.Parent() != nil {
		for _, b := range f.Parent().Blocks {
			for _, in := range b.Instrs {
				if mc, ok := in.(*ssa.MakeClosure); ok && mc.Fn == f {
					return gatedAt(g, f.Parent(), mc, depth-1)
				}
			}
		}
		return false, "closure creation site not found"
	}
	callers := g.Callers[f]
	if len(callers) == 0 {
		return false, f.Name() + " reads the header without a trust test and has no gated caller"
	}
	for _, c := range callers {
		if ok, why := gatedAt(g, c.Fn, c.Instr, depth-1); !ok {
			return false, "call from " + c.Fn.Name() + ": " + why
		}
	}
	return true, fmt.Sprintf("gated at all %d call sites", len(callers))
}

func runC10(r *Run) {
	g := r.P.Graph()

	r.rule("R1", "forwarding-header reads are trust-gated (E1 + call graph)", func() {
		allow := map[string]string{
			"(*DefaultCtx).IPs": "documented raw list of X-Forwarded-For; not among the property's outputs",
		}
		n := 0
		var sites []string
		for _, f := range g.Funcs {
			if f.Pkg == nil || f.Pkg.Pkg.Path() != fiberMod {
				continue
			}
			for _, b := range f.Blocks {
				for _, in := range b.Instrs {
					hdr := ""
					for _, op := range in.Operands(nil) {
						if *op == nil {
							continue
						}
						if s, ok := constString(asConst(*op)); ok && fwdHeaders[strings.ToLower(s)] {
							hdr = s
						}
						if loadOfField(*op, "Config.ProxyHeader") {
							if _, isCall := in.(ssa.CallInstruction); isCall {
								hdr = "Config.ProxyHeader"
							}
						}
					}
					if hdr == "" {
						continue
					}
					// len(ProxyHeader) > 0 style tests are not reads of the header
					if c, ok := in.(*ssa.Call); ok && calleeName(&c.Call) == "builtin:len" {
						continue
					}
					n++
					top := f
					for top.Parent() != nil {
						top = top.Parent()
					}
					name := top.RelString(top.Pkg.Pkg)
					key := name + ":" + hdr
					sites = append(sites, key+" "+r.pos(in))
					if why, ok := allow[name]; ok {
						r.ok(key, r.pos(in), "allow-listed: "+why)
						continue
					}
					ok, why := gatedAt(g, f, in, 3)
					r.check(ok, key, r.pos(in), "read only on the trusted edge: "+why,
						"forwarding header "+hdr+" is read without passing IsProxyTrusted()==true: an untrusted peer can influence the result ("+why+")")
				}
			}
		}
		sort.Strings(sites)
		r.Extra["forwarding_header_read_sites"] = sites
		r.atLeast("forwarding-header read sites", n, 7)
	})

	r.rule("R2", "trust decision: connection + configuration only; flag↔predicate pairing; `return true` needs a membership predicate (E3/E8/E1)", func() {
		root := r.Fn("", "(*DefaultCtx).IsProxyTrusted")
		// the decision may be spread over helpers: IsProxyTrusted and its static callees inside package fiber
		var fns []*ssa.Function
		seen := map[*ssa.Function]bool{}
		var walk func(f *ssa.Function)
		walk = func(f *ssa.Function) {
			if f == nil || seen[f] || f.Pkg == nil || f.Pkg.Pkg.Path() != fiberMod || len(f.Blocks) == 0 {
				return
			}
			seen[f] = true
			fns = append(fns, f)
			for _, c := range callsIn(f, true) {
				walk(c.Common.StaticCallee())
			}
		}
		walk(root)
		r.count("trust-decision functions", len(fns))
		isPeer := func(f *ssa.Function) func(v ssa.Value) bool {
			return func(v ssa.Value) bool {
				if c, ok := v.(*ssa.Call); ok && strings.HasSuffix(calleeName(&c.Call), "RequestCtx).RemoteIP") {
					return true
				}
				if p, ok := v.(*ssa.Parameter); ok && types.TypeString(p.Type(), nil) == "net.IP" {
					return true // helper receiving the peer address
				}
				return false
			}
		}
		// inputs: no request data, no per-request state of the pooled context that is not re-initialised
		resetFields, _, _ := poolReset(r, "", "DefaultCtx", []string{"(*DefaultCtx).Reset", "(*DefaultCtx).release", "(*DefaultCtx).configDependentPaths"})
		nRIP := 0
		for _, f := range fns {
			for _, c := range callsIn(f, true) {
				bad := false
				if sc := c.Common.StaticCallee(); sc != nil && sc.Signature.Recv() != nil {
					rt := types.TypeString(sc.Signature.Recv().Type(), nil)
					if strings.Contains(rt, "fasthttp.RequestHeader") || strings.Contains(rt, "fasthttp.Request") && !strings.Contains(rt, "RequestCtx") ||
						strings.Contains(rt, "fasthttp.URI") || strings.Contains(rt, "fasthttp.Args") {
						bad = true
					}
					if strings.Contains(rt, fiberMod+".DefaultCtx") && !seen[sc] {
						bad = true
					}
				}
				if c.Common.IsInvoke() && isCtxIface(c.Common.Value.Type()) {
					bad = true
				}
				if bad {
					r.bad("IsProxyTrusted:input:"+short(c.Name), r.pos(c.Instr), "the trust decision calls "+short(c.Name)+": it must depend on the connection and configuration only, never on request data")
				}
				if strings.HasSuffix(c.Name, "RequestCtx).RemoteIP") {
					nRIP++
				}
			}
			for _, fr := range fieldRefs(f) {
				if !strings.HasPrefix(fr.Name, "DefaultCtx.") || fr.Name == "DefaultCtx.app" || fr.Name == "DefaultCtx.fasthttp" {
					continue
				}
				r.check(resetFields[fr.Name], "IsProxyTrusted:state:"+fr.Name, r.pos(fr.Instr), "per-request field that is re-initialised for every request",
					"the trust decision uses "+fr.Name+", a field of the pooled context that is not re-initialised per request: the verdict computed for one peer is reused for the next peer served by the same context")
			}
		}
		r.check(nRIP >= 1, "IsProxyTrusted:uses-RemoteIP", r.fpos(root), "peer address comes from RequestCtx.RemoteIP()", "peer address is not taken from RequestCtx.RemoteIP()")
		// pairing
		pairs := map[string]string{"Loopback": "IsLoopback", "Private": "IsPrivate", "LinkLocal": "IsLinkLocalUnicast"}
		retTrue := func(in ssa.Instruction) bool { _, c, v := retConstBool(in); return c && v }
		for _, flag := range []string{"Loopback", "Private", "LinkLocal"} {
			pred := pairs[flag]
			found := false
			for _, f := range fns {
				for _, br := range branchesIn(f) {
					if !loadOfField(br.Info.Root, "TrustProxyConfig."+flag) {
						continue
					}
					s, ok := br.truthSlot(true)
					if !ok {
						continue
					}
					tgt := br.If.Block().Succs[s]
					predCalls := callsMatching(f, false, nameIs("(net.IP)."+pred))
					cut := map[edge]bool{}
					for _, pc := range predCalls {
						if dependsOn(pc.Common.Args[0], isPeer(f)) == nil {
							continue
						}
						for _, pb := range ifsOnValue(f, pc.Value()) {
							if ps, ok := pb.truthSlot(true); ok {
								cut[edge{pb.If.Block(), ps}] = true
							}
						}
					}
					for _, of := range []string{"Loopback", "Private", "LinkLocal"} {
						if of == flag {
							continue
						}
						for _, ob := range branchesIn(f) {
							if loadOfField(ob.Info.Root, "TrustProxyConfig."+of) {
								if os, ok := ob.truthSlot(true); ok {
									cut[edge{ob.If.Block(), os}] = true
								}
							}
						}
					}
					for e := range listCuts(f) {
						cut[e] = true
					}
					_, hit := reach(point{tgt, 0}, retTrue, cut, nil)
					found = true
					r.check(len(predCalls) > 0 && hit == nil, "IsProxyTrusted:"+flag+"↔"+pred, r.pos(br.If),
						"with "+flag+" set, acceptance by class needs "+pred+"(peer address)", "class flag "+flag+" is not paired with "+pred+" on the peer address: a peer outside the class can be trusted")
				}
			}
			if !found {
				r.bad("IsProxyTrusted:"+flag+"↔"+pred, r.fpos(root), "flag TrustProxyConfig."+flag+" is never tested")
			}
		}
		// `return true` needs a membership predicate (or TrustProxy off), in whichever function produces it
		okAll := true
		wit := ""
		for _, f := range fns {
			memberCut := map[edge]bool{}
			for _, pred := range pairs {
				for _, pc := range callsMatching(f, false, nameIs("(net.IP)."+pred)) {
					if dependsOn(pc.Common.Args[0], isPeer(f)) == nil {
						continue
					}
					for _, pb := range ifsOnValue(f, pc.Value()) {
						if ps, ok := pb.truthSlot(true); ok {
							memberCut[edge{pb.If.Block(), ps}] = true
						}
					}
				}
			}
			for e := range listCuts(f) {
				memberCut[e] = true
			}
			// a helper of the decision (checked by the same rule in its own body) counts as a membership predicate
			for _, c := range callsIn(f, false) {
				if sc := c.Common.StaticCallee(); sc != nil && seen[sc] && sc != f && c.Value() != nil {
					for _, pb := range ifsOnValue(f, c.Value()) {
						if ps, ok := pb.truthSlot(true); ok {
							memberCut[edge{pb.If.Block(), ps}] = true
						}
					}
				}
			}
			for _, br := range branchesIn(f) {
				if loadOfField(br.Info.Root, "Config.TrustProxy") {
					if s, ok := br.truthSlot(false); ok {
						memberCut[edge{br.If.Block(), s}] = true
					}
				}
			}
			if path, hit := reach(entryOf(f), retTrue, memberCut, nil); hit != nil {
				okAll = false
				wit = f.Name() + ": " + pathString(r.P, path)
			}
		}
		r.check(okAll, "IsProxyTrusted:true-needs-membership", r.fpos(root), "`return true` is unreachable without TrustProxy off or a successful membership predicate",
			"`return true` is reachable without any membership predicate succeeding: "+wit)
	})

	r.rule("R3", "with EnableIPValidation a header-derived IP is returned only after IsIPv4/IsIPv6 accepted it (E1)", func() {
		f := r.Fn("", "(*DefaultCtx).extractIPFromHeader")
		cut := map[edge]bool{}
		nv := 0
		for _, c := range callsMatching(f, false, nameIs("github.com/gofiber/utils/v2.IsIPv4", "github.com/gofiber/utils/v2.IsIPv6")) {
			nv++
			for _, br := range ifsOnValue(f, c.Value()) {
				if s, ok := br.truthSlot(true); ok {
					cut[edge{br.If.Block(), s}] = true
				}
			}
		}
		r.check(nv >= 2, "extractIPFromHeader:validators", r.fpos(f), "IsIPv4 and IsIPv6 are consulted", "IP validators are not consulted")
		// the validators judge the very string that is returned
		var headerRets []ssa.Value
		for _, in := range instrsWhere(f, isReturn) {
			v := retOperand(in.(*ssa.Return), 0)
			if dependsOn(v, func(x ssa.Value) bool {
				c, ok := x.(*ssa.Call)
				return ok && strings.HasSuffix(calleeName(&c.Call), "RequestCtx).RemoteIP")
			}) == nil {
				headerRets = append(headerRets, v)
			}
		}
		for i, c := range callsMatching(f, false, nameIs("github.com/gofiber/utils/v2.IsIPv4", "github.com/gofiber/utils/v2.IsIPv6")) {
			same := false
			for _, hv := range headerRets {
				if c.Common.Args[0] == hv {
					same = true
				}
			}
			r.check(same, fmt.Sprintf("extractIPFromHeader:validator#%d-judges-returned-value", i+1), r.pos(c.Instr), "the validated string is the returned one",
				"a validator is applied to a different string than the one returned (e.g. only the tail after the last ':'): `junk:10.0.0.1` is reported as client IP")
		}
		var starts []point
		for _, br := range branchesIn(f) {
			if loadOfField(br.Info.Root, "Config.EnableIPValidation") {
				if s, ok := br.truthSlot(true); ok && br.If.Block() == f.Blocks[0] {
					starts = append(starts, pointOfEdge(edge{br.If.Block(), s}))
				}
				// configuration assumption EnableIPValidation=true: its false edges are infeasible (the flag is immutable per app)
				if s, ok := br.truthSlot(false); ok {
					cut[edge{br.If.Block(), s}] = true
				}
			}
		}
		r.need(len(starts) == 1, "extractIPFromHeader tests EnableIPValidation at entry")
		isHeaderRet := func(in ssa.Instruction) bool {
			ret, ok := in.(*ssa.Return)
			if !ok {
				return false
			}
			v := retOperand(ret, 0)
			fromConn := dependsOn(v, func(x ssa.Value) bool {
				c, ok := x.(*ssa.Call)
				return ok && strings.HasSuffix(calleeName(&c.Call), "RequestCtx).RemoteIP")
			}) != nil
			return !fromConn
		}
		path, hit := reach(starts[0], isHeaderRet, cut, nil)
		r.check(hit == nil, "extractIPFromHeader:validated-or-connection", r.fpos(f), "with the validator-true edges removed only RemoteIP().String() can be returned",
			"with IP validation on, a header substring can be returned without IsIPv4/IsIPv6 having accepted it: "+pathString(r.P, path))
	})

	r.rule("R4", "derived accessors derive (E3)", func() {
		callTo := func(name string) func(ssa.Value) bool {
			return func(v ssa.Value) bool {
				c, ok := v.(*ssa.Call)
				return ok && (calleeName(&c.Call) == "(*"+fiberMod+".DefaultCtx)."+name)
			}
		}
		for _, spec := range []struct {
			fn   string
			deps []string
			not  []string
		}{
			{"(*DefaultCtx).Secure", []string{"Scheme"}, []string{"Protocol"}},
			{"(*DefaultCtx).Hostname", []string{"Host"}, nil},
			{"(*DefaultCtx).Subdomains", []string{"Host"}, nil},
			{"(*DefaultCtx).BaseURL", []string{"Scheme", "Host"}, nil},
		} {
			f := r.Fn("", spec.fn)
			for _, d := range spec.deps {
				ok := false
				for _, in := range instrsWhere(f, isReturn) {
					ret := in.(*ssa.Return)
					if dependsOn(retOperand(ret, 0), callTo(d)) != nil {
						ok = true
					}
				}
				// BaseURL caches through a field: accept a store to baseURI depending on the call
				for _, fr := range fieldRefs(f) {
					if fr.Write && fr.Val != nil && dependsOn(fr.Val, callTo(d)) != nil {
						ok = true
					}
				}
				r.check(ok, spec.fn+"←"+d, r.fpos(f), "result is data-dependent on "+d+"()",
					spec.fn+" does not derive from "+d+"(): e.g. Secure() compares Protocol() (\"HTTP/1.1\") with \"https\" and is never true, also behind a trusted proxy sending X-Forwarded-Proto: https")
			}
			for _, d := range spec.not {
				for _, in := range instrsWhere(f, isReturn) {
					ret := in.(*ssa.Return)
					if dependsOn(retOperand(ret, 0), callTo(d)) != nil {
						r.bad(spec.fn+"↚"+d, r.pos(in), spec.fn+" derives from "+d+"(), which is the HTTP version, not the scheme")
					}
				}
			}
		}
	})

	r.rule("R12", "under net/http the peer address is the one net/http reports: the address the adaptor hands to fasthttp's RequestCtx.Init — the peer IsProxyTrusted judges — is the result of resolving the request's RemoteAddr, unchanged, and a RemoteAddr that does not resolve never reaches Init (no substitute such as loopback, which a `Loopback: true` trust configuration would count as a trusted proxy) (E2 provenance + must-not-reach)", func() {
		n := 0
		r.P.AllFuncs("middleware/adaptor", func(f *ssa.Function) {
			for _, c := range callsMatching(f, false, nameHasSuffix("fasthttp.RequestCtx).Init")) {
				n++
				args := c.Common.Args
				if len(args) < 3 {
					r.bad(short(f.String())+":Init:peer-address", r.pos(c.Instr), "RequestCtx.Init is not called with (req, addr, logger)")
					continue
				}
				addr := args[2]
				var res *ssa.Call
				isRemoteAddr := func(v ssa.Value) bool {
					if fa, ok := v.(*ssa.FieldAddr); ok {
						if fv := fieldOfValue(fa); fv != nil && fv.Name() == "RemoteAddr" {
							return true
						}
					}
					return false
				}
				resolveIn := func(g *ssa.Function) *ssa.Call {
					var out *ssa.Call
					withoutHelpers(func() {
						for _, rc := range callsMatching(g, false, nameIs("net.ResolveTCPAddr", "net.ResolveIPAddr", "net.ResolveUDPAddr")) {
							if cv, ok := rc.Value().(*ssa.Call); ok {
								out = cv
							}
						}
					})
					return out
				}
				res = resolveIn(f)
				viaHelper := false
				if res == nil {
					// the resolution in a helper of the package that hands back what net.Resolve…Addr answered for the request's RemoteAddr
					var own []callSite
					withoutHelpers(func() { own = callsIn(f, false) })
					for _, hc := range own {
						h := hc.Common.StaticCallee()
						if h == nil || h.Pkg != f.Pkg || len(h.Blocks) == 0 || h.Signature.Results().Len() != 2 {
							continue
						}
						inner := resolveIn(h)
						if inner == nil || dependsOn(inner.Call.Args[len(inner.Call.Args)-1], isRemoteAddr) == nil {
							continue
						}
						var ext0 ssa.Value
						for _, u := range *inner.Referrers() {
							if e, ok := u.(*ssa.Extract); ok && e.Index == 0 {
								ext0 = e
							}
						}
						okRets := ext0 != nil
						for _, in := range instrsWhereOne(h, isReturn) {
							r0 := in.(*ssa.Return).Results[0]
							if c := asConst(r0); c != nil && constIsNil(c) {
								continue
							}
							if ext0 == nil || !flowsUnchanged(r0, ext0) {
								okRets = false
							}
						}
						if okRets {
							if cv, ok := hc.Value().(*ssa.Call); ok {
								res, viaHelper = cv, true
							}
						}
					}
				}
				if res == nil {
					r.bad(short(f.String())+":Init:peer-address", r.pos(c.Instr), "the address handed to RequestCtx.Init is not resolved from the request's RemoteAddr in this function: not the shape the rule reads")
					continue
				}
				fromReq := viaHelper || dependsOn(res.Call.Args[len(res.Call.Args)-1], isRemoteAddr) != nil
				var ext ssa.Value
				var errv ssa.Value
				for _, u := range *res.Referrers() {
					if e, ok := u.(*ssa.Extract); ok {
						if e.Index == 0 {
							ext = e
						} else {
							errv = e
						}
					}
				}
				okFlow := ext != nil && fromReq && flowsUnchanged(addr, ext)
				r.check(okFlow, short(f.String())+":Init:peer-address-is-the-resolved-RemoteAddr", r.pos(c.Instr), "the peer address is the resolved RemoteAddr of the net/http request",
					"the peer address handed to fasthttp is not (only) the resolved RemoteAddr of the net/http request: a substitute address (loopback for an unresolvable RemoteAddr) is judged by IsProxyTrusted in the client's place — with `TrustProxy` and `Loopback: true` a request whose RemoteAddr a RealIP-style middleware overwrote with `unknown,` has its X-Forwarded-* headers believed")
				// the failure edge never reaches Init
				if errv != nil {
					reached := false
					for _, br := range ifsOnValue(f, errv) {
						if sl, ok := br.nilSlot(false); ok {
							if _, hit := reachEdge(edge{br.If.Block(), sl}, func(in ssa.Instruction) bool { return in == c.Instr }, nil, nil); hit != nil {
								reached = true
							}
						}
					}
					r.check(!reached, short(f.String())+":Init:not-after-a-failed-resolution", r.pos(c.Instr), "a RemoteAddr that does not resolve is refused before a context is initialised",
						"a request whose RemoteAddr does not resolve is still served: the peer address is then whatever the variable held")
				} else {
					r.bad(short(f.String())+":Init:not-after-a-failed-resolution", r.pos(c.Instr), "the error of the address resolution is not looked at")
				}
			}
		})
		r.atLeast("RequestCtx.Init calls in the adaptor", n, 1)
	})

	r.rule("R11", "the request view answers like the context: Req().Host / Hostname / IP / IPs / Protocol / Secure / BaseURL / IsProxyTrusted / IsFromLocal / Port / Subdomains each delegate to the context method of the same name — the trust gate sits in the context methods, a view wired to another method would bypass or misapply it (sibling agreement)", func() {
		viewDelegatesByNameRule(r, "DefaultReq", []string{"BaseURL", "Host", "Hostname", "IP", "IPs", "IsFromLocal", "IsProxyTrusted", "Port", "Protocol", "Secure", "Subdomains"}, "the view would report a proxy-derived value the context computes differently")
	})

	r.rule("R10", "the proxy set is the operator's: nothing in the package assigns Config.TrustProxyConfig as a whole or one of its configured members (Proxies, Loopback, Private, LinkLocal) — only the lookup tables derived from them are written; a fallback that replaces the configuration when the address list is empty throws away a set given by classes alone, and ties the app to a mutable package default (E11, who-may-write)", func() {
		derived := map[string]bool{"ips": true, "ranges": true}
		n := 0
		var bad []string
		r.P.AllFuncs("", func(f *ssa.Function) {
			for _, b := range f.Blocks {
				for _, in := range b.Instrs {
					st, ok := in.(*ssa.Store)
					if !ok {
						continue
					}
					fa, ok := st.Addr.(*ssa.FieldAddr)
					if !ok {
						continue
					}
					fv := fieldVar(fa.X.Type(), fa.Field)
					if fv == nil {
						continue
					}
					switch {
					case fieldOwner(fv) == "Config" && fv.Name() == "TrustProxyConfig":
						n++
						bad = append(bad, r.pos(in)+" (the whole configuration)")
					case fieldOwner(fv) == "TrustProxyConfig":
						n++
						if !derived[fv.Name()] {
							bad = append(bad, r.pos(in)+" ("+fv.Name()+")")
						}
					}
				}
			}
		})
		r.atLeast("writes into TrustProxyConfig", n, 2)
		sort.Strings(bad)
		r.check(len(bad) == 0, "TrustProxyConfig:only-derived-tables-are-written", "", "only the ips / ranges tables are assigned",
			"the configured proxy set is overwritten by the package: "+strings.Join(bad, ", ")+" — with `TrustProxyConfig{Loopback: true}` (no address list) the classes the operator enabled are dropped, or replaced by a package-level default another part of the program may have changed; peers inside the configured set lose the forwarded values, peers outside it can gain them")
	})

	r.rule("R9", "the host name is the Host header without its port: where the root package cuts a host at a ':' it does so through net.SplitHostPort or in a function that looks at the bracket of an IPv6 literal — `Host: [2001:db8::1]` carries colons and no port (E1, belief rule shared with C18-R12)", func() {
		hostColonCutRule(r, "", 1, "so Hostname() answers `[2001:db8:` for `Host: [2001:db8::1]`, a value that is neither the host nor derived from the connection")
	})

	r.rule("R8", "the scheme of a connection that fiber terminates with TLS is https whoever the peer is: Scheme answers anything but the constant https only behind `IsTLS() == false` (E1)", func() {
		f := r.Fn("", "(*DefaultCtx).Scheme")
		cut := map[edge]bool{}
		for _, c := range callsMatching(f, false, nameHasSuffix("fasthttp.RequestCtx).IsTLS")) {
			for _, br := range ifsOnValue(f, c.Value()) {
				if s, ok := br.truthSlot(false); ok {
					cut[edge{br.If.Block(), s}] = true
				}
			}
		}
		r.need(len(cut) >= 1, "Scheme tests IsTLS()")
		notHTTPS := func(in ssa.Instruction) bool {
			ret, ok := in.(*ssa.Return)
			if !ok || ret.Parent() != f || len(ret.Results) != 1 {
				return false
			}
			s, isC := constString(asConst(stripValue(ret.Results[0])))
			return !(isC && s == "https")
		}
		path, hit := reach(entryOf(f), notHTTPS, cut, nil)
		r.check(hit == nil, "Scheme:tls-decides-first", r.fpos(f), "with the `IsTLS() == false` edges removed only `return \"https\"` is reachable",
			"Scheme can answer without having looked at the connection: an untrusted peer on a TLS connection is reported as http (Secure() false, BaseURL http://…) — the scheme no longer comes from the connection: "+pathString(r.P, path))
	})

	r.rule("R5", "the trusted set is what the operator wrote: a range is parsed from the configured text itself, a single address is trusted by identity (E3)", func() {
		f := r.Fn("", "(*App).handleTrustedProxy")
		var cfgText *ssa.Parameter
		for _, p := range f.Params {
			if b, ok := p.Type().Underlying().(*types.Basic); ok && b.Info()&types.IsString != 0 {
				cfgText = p
			}
		}
		r.need(cfgText != nil, "handleTrustedProxy(address string)")
		n := 0
		for _, c := range callsMatching(f, false, nameIs("net.ParseCIDR")) {
			n++
			r.check(flowsUnchanged(c.Common.Args[0], cfgText), fmt.Sprintf("handleTrustedProxy:ParseCIDR#%d:configured-text", n), r.pos(c.Instr), "the range is parsed from the configured entry as written",
				"a CIDR is built from the configured entry (e.g. by appending \"/32\") instead of being parsed from it: for an IPv6 proxy address /32 covers 2^96 neighbours, all of which are then trusted with their forwarding headers")
		}
		r.atLeast("ParseCIDR call sites", n, 1)
		// single addresses: the ips set is keyed by something derived from the configured entry
		ipsWrites := 0
		for _, in := range instrsWhere(f, func(in ssa.Instruction) bool { _, ok := in.(*ssa.MapUpdate); return ok }) {
			mu := in.(*ssa.MapUpdate)
			if loadOfField(mu.Map, "TrustProxyConfig.ips") {
				ipsWrites++
			}
		}
		r.check(ipsWrites >= 1, "handleTrustedProxy:single-address-by-identity", r.fpos(f), "single addresses are recorded in the ips set", "single proxy addresses are no longer recorded by identity")
	})

	r.rule("R6", "writer/reader agreement on the key of the single-address set: both sides use the canonical text of a parsed address (E5)", func() {
		producer := func(v ssa.Value) string {
			if c, ok := stripValue(v).(*ssa.Call); ok {
				return calleeName(&c.Call)
			}
			if _, ok := stripValue(v).(*ssa.Parameter); ok {
				return "the configured text as written"
			}
			return "?"
		}
		w := r.Fn("", "(*App).handleTrustedProxy")
		wk := ""
		for _, in := range instrsWhere(w, func(in ssa.Instruction) bool { _, ok := in.(*ssa.MapUpdate); return ok }) {
			mu := in.(*ssa.MapUpdate)
			if loadOfField(mu.Map, "TrustProxyConfig.ips") {
				wk = producer(mu.Key)
			}
		}
		rd := r.Fn("", "(*DefaultCtx).IsProxyTrusted")
		rk := ""
		for _, in := range instrsWhere(rd, func(in ssa.Instruction) bool { _, ok := in.(*ssa.Lookup); return ok }) {
			lk := in.(*ssa.Lookup)
			if loadOfField(lk.X, "TrustProxyConfig.ips") {
				rk = producer(lk.Index)
			}
		}
		r.need(wk != "" && rk != "", "the ips set is written by handleTrustedProxy and read by IsProxyTrusted")
		r.check(wk == rk, "TrustProxyConfig.ips:key-agreement", r.fpos(w), "both sides key the set by "+short(rk),
			"the single-address set is written under "+short(wk)+" and looked up under "+short(rk)+": a proxy written as 2001:DB8::1 or 2001:0db8::1 is never matched by the peer 2001:db8::1, whose forwarded values are then ignored")
	})

	r.rule("R7", "the lookup tables are rebuilt from Proxies alone: New gives every table handleTrustedProxy fills a fresh value on every path, before the first entry is added (a Config obtained from another app carries that app's tables) (E1)", func() {
		w := r.Fn("", "(*App).handleTrustedProxy")
		tables := map[string]bool{}
		for _, in := range instrsWhere(w, func(in ssa.Instruction) bool { _, ok := in.(*ssa.MapUpdate); return ok }) {
			if fv := fieldOfValue(stripValue(in.(*ssa.MapUpdate).Map)); fv != nil && fieldOwner(fv) == "TrustProxyConfig" {
				tables[fv.Name()] = true
			}
		}
		for _, fr := range fieldRefs(w) {
			if fr.Write && strings.HasPrefix(fr.Name, "TrustProxyConfig.") {
				tables[fr.Var.Name()] = true
			}
		}
		r.need(len(tables) >= 2, "handleTrustedProxy fills at least two tables of TrustProxyConfig")
		f := r.Fn("", "New")
		isFill := func(in ssa.Instruction) bool {
			ci, ok := in.(ssa.CallInstruction)
			return ok && ci.Common().StaticCallee() == w
		}
		var names []string
		for n := range tables {
			names = append(names, n)
		}
		sort.Strings(names)
		for _, name := range names {
			isReset := func(in ssa.Instruction) bool {
				st, ok := in.(*ssa.Store)
				if !ok {
					return false
				}
				fa, ok := st.Addr.(*ssa.FieldAddr)
				if !ok {
					return false
				}
				fv := fieldVar(fa.X.Type(), fa.Field)
				if fv == nil || fv.Name() != name || fieldOwner(fv) != "TrustProxyConfig" {
					return false
				}
				switch v := stripValue(st.Val).(type) {
				case *ssa.MakeMap, *ssa.MakeSlice:
					return true
				case *ssa.Const:
					return v.Value == nil
				}
				return false
			}
			_, hitFill := reach(entryOf(f), isFill, nil, isReset)
			_, hitRet := reach(entryOf(f), isReturn, nil, isReset)
			r.check(hitFill == nil && hitRet == nil, "New:fresh-"+name, r.fpos(f), "TrustProxyConfig."+name+" is given a fresh value on every path through New, before any entry is added",
				"New can keep the TrustProxyConfig."+name+" it was handed: an app built from another app's Config() with a different (or empty) Proxies list still trusts the first app's proxies, so a peer outside the configured set has its forwarding headers honoured")
		}
	})
}

// listCuts: true edges of the explicit membership tests (ips map lookup ok, ipNet.Contains).
func listCuts(f *ssa.Function) map[edge]bool {
	cut := map[edge]bool{}
	for _, br := range branchesIn(f) {
		root := stripValue(br.Info.Root)
		if ex, ok := root.(*ssa.Extract); ok {
			if lk, ok := ex.Tuple.(*ssa.Lookup); ok && lk.CommaOk && loadOfField(lk.X, "TrustProxyConfig.ips") {
				if s, ok := br.truthSlot(true); ok {
					cut[edge{br.If.Block(), s}] = true
				}
			}
		}
		if c, ok := root.(*ssa.Call); ok && strings.HasSuffix(calleeName(&c.Call), "net.IPNet).Contains") {
			if s, ok := br.truthSlot(true); ok {
				cut[edge{br.If.Block(), s}] = true
			}
		}
	}
	return cut
}
