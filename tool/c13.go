package main

import (
	"fmt"
	"go/token"
	"go/types"
	"strings"

	"golang.org/x/tools/go/ssa"
)

func init() {
	register(&propDef{
		ID: "C13",
		Explain: "Decided clauses (structural preconditions of 'never over-admits'): R1 every manager.get/set of both limiter handlers runs with the handler's mutex in the must-held set, every Lock is released on all exits, " +
			"c.Next() and LimitReached never run under it; R2 the value whose sign rejects, and the X-RateLimit-Limit header, derive from this request's MaxFunc result and not from Config.Max; " +
			"R3 from the reject edge the handler is unreachable and Retry-After (exp−ts) is set before LimitReached; R4 get and set use the KeyGenerator result as key; " +
			"R5 fixed and sliding handlers agree on the shared alphabet; R6 item's fields all round-trip through MarshalMsg/UnmarshalMsg and are reset on release; " +
			"R7 the hit is counted (+positive constant) between get and set on every path and the rejection reads the counter after the increment. " +
			"Not decided: window arithmetic and weights, expiry edges, external storage semantics, 'not rejected while budget remains', schedules themselves (R1 is their structural precondition).",
		Assume: []string{"sync.RWMutex provides mutual exclusion", "the storage is only reached through manager.get/set"},
		Run:    runC13,
	})
}

const limPkg = "middleware/limiter"

func limiterHandlers(r *Run) map[string]*ssa.Function {
	out := map[string]*ssa.Function{}
	for _, t := range []string{"FixedWindow", "SlidingWindow"} {
		f := r.Fn(limPkg, "("+t+").New")
		hs := handlerClosures(f)
		r.need(len(hs) == 1, t+".New returns one handler closure")
		out[t] = hs[0]
	}
	return out
}

func runC13(r *Run) {
	g := r.P.Graph()
	isGetSet := nameHasSuffix("limiter.manager).get", "limiter.manager).set")
	isNext := func(s string) bool { return s == "("+fiberMod+".Ctx).Next" }
	isLimitReached := nameIs("field:limiter.Config.LimitReached")

	r.rule("R1", "atomic read-modify-write: manager.get/set under the handler mutex; locks paired; no Next/LimitReached under the lock (E2)", func() {
		for name, h := range limiterHandlers(r) {
			ls := locksets(h, lockState{}, nil)
			r.count("lock operations", ls.Ops)
			sites := callsMatching(h, false, isGetSet)
			r.atLeast(name+" guarded sites", len(sites), 4)
			for i, c := range sites {
				st := ls.Before[c.Instr]
				r.check(st.holds("free:mux"), fmt.Sprintf("%s:%s#%d:under-mux", name, short(c.Name), i), r.pos(c.Instr), "mux held "+st.String(),
					"storage access outside the critical section (held: "+st.String()+"): two concurrent requests can read the same counter and both be admitted (lost update)")
			}
			r.check(len(ls.Unpaired) == 0, name+":locks-released-on-all-exits", r.fpos(h), "every exit leaves no lock held", "a return is reachable with the mutex still held (next request deadlocks)")
			for _, c := range callsIn(h, false) {
				if isNext(c.Name) || isLimitReached(c.Name) {
					st := ls.Before[c.Instr]
					r.check(len(st) == 0, fmt.Sprintf("%s:%s:not-under-lock", name, short(c.Name)), r.pos(c.Instr), "called with no lock held", "handler/callback runs under the limiter mutex "+st.String()+" (all requests serialised; re-entrant requests deadlock)")
				}
			}
		}
	})

	rejectBranch := func(h *ssa.Function) (branch, ssa.Instruction) {
		lr := callsMatching(h, false, isLimitReached)
		r.need(len(lr) == 1, h.Name()+" calls cfg.LimitReached once")
		var best *branch
		for _, br := range branchesIn(h) {
			br := br
			if br.If.Parent() != lr[0].Instr.Parent() {
				continue // dominance is a per-function notion: helpers' branches cannot guard this call
			}
			for s := 0; s < 2; s++ {
				tgt := br.If.Block().Succs[s]
				if dom(tgt, lr[0].Block()) && len(tgt.Preds) == 1 {
					if best == nil || dom(best.If.Block(), br.If.Block()) {
						best = &br
					}
				}
			}
		}
		r.need(best != nil, "a branch guards LimitReached")
		return *best, lr[0].Instr
	}
	isMaxFunc := func(v ssa.Value) bool {
		c, ok := v.(*ssa.Call)
		return ok && calleeName(&c.Call) == "field:limiter.Config.MaxFunc"
	}
	isCfgMax := func(v ssa.Value) bool { return loadOfField(v, "limiter.Config.Max") }

	r.rule("R2", "the limit is the one MaxFunc returned for this request (E3 backwards)", func() {
		for name, h := range limiterHandlers(r) {
			br, _ := rejectBranch(h)
			cond := br.If.Cond
			dMF := dependsOn(cond, isMaxFunc) != nil
			dMax := dependsOn(cond, isCfgMax) != nil
			r.check(dMF && !dMax, name+":reject-compares-MaxFunc", r.pos(br.If), "rejection depends on cfg.MaxFunc(c) and not on cfg.Max",
				fmt.Sprintf("rejection depends on MaxFunc=%v, on the static Config.Max=%v: a dynamic limit (Max:100, MaxFunc→2) is ignored and every request is admitted", dMF, dMax))
			// X-RateLimit-Limit
			found := false
			for _, c := range callsMatching(h, false, nameHasSuffix(".Ctx).Set")) {
				if s, ok := constString(asConst(c.Common.Args[0])); ok && s == "X-RateLimit-Limit" {
					found = true
					r.check(dependsOn(c.Common.Args[1], isMaxFunc) != nil && dependsOn(c.Common.Args[1], isCfgMax) == nil, name+":limit-header-from-MaxFunc", r.pos(c.Instr), "X-RateLimit-Limit = MaxFunc result", "X-RateLimit-Limit is not the MaxFunc result")
				}
			}
			if !found {
				r.bad(name+":limit-header-from-MaxFunc", r.fpos(h), "X-RateLimit-Limit is not set")
			}
		}
	})

	r.rule("R3", "rejected requests do not reach the handler; Retry-After = exp − ts is set before LimitReached (E1)", func() {
		for name, h := range limiterHandlers(r) {
			br, lr := rejectBranch(h)
			var rejSlot int
			for s := 0; s < 2; s++ {
				if dom(br.If.Block().Succs[s], lr.Block()) {
					rejSlot = s
				}
			}
			start := pointOfEdge(edge{br.If.Block(), rejSlot})
			_, hit := reach(start, func(in ssa.Instruction) bool { return isCallTo(in, isNext) }, nil, nil)
			r.check(hit == nil, name+":reject↛Next", r.pos(br.If), "c.Next() unreachable from the reject edge", "the protected handler is reachable after the request was rejected")
			var retry ssa.Instruction
			isRetry := func(in ssa.Instruction) bool {
				ci, ok := in.(ssa.CallInstruction)
				if !ok || !strings.HasSuffix(calleeName(ci.Common()), ".Ctx).Set") {
					return false
				}
				s, ok := constString(asConst(ci.Common().Args[0]))
				if ok && s == "Retry-After" {
					retry = in
					return true
				}
				return false
			}
			_, hit = reach(start, func(in ssa.Instruction) bool { return in == lr }, nil, isRetry)
			okVal := false
			if retry != nil {
				v := retry.(ssa.CallInstruction).Common().Args[1]
				sub := dependsOn(v, func(x ssa.Value) bool {
					bo, ok := x.(*ssa.BinOp)
					return ok && bo.Op == token.SUB && loadOfField(bo.X, "limiter.item.exp")
				})
				okVal = sub != nil
			}
			r.check(hit == nil && okVal, name+":Retry-After-before-LimitReached", r.pos(lr), "Retry-After (exp − ts) is set on every path to LimitReached", "Retry-After is missing on a path to LimitReached, or is not exp − ts")
		}
	})

	r.rule("R4", "per-key state: get and set are keyed by the KeyGenerator result (E3)", func() {
		for name, h := range limiterHandlers(r) {
			kg := callsMatching(h, false, nameIs("field:limiter.Config.KeyGenerator"))
			r.need(len(kg) == 1, name+" calls KeyGenerator once")
			for i, c := range callsMatching(h, false, isGetSet) {
				// the key itself, or a private copy of it (the same text)
				key := c.Common.Args[1]
				same := flowsUnchangedOrCopied(key, kg[0].Value())
				r.check(same, fmt.Sprintf("%s:%s#%d:key", name, short(c.Name), i), r.pos(c.Instr), "key = KeyGenerator(c)", "storage is accessed with a key other than the KeyGenerator result (other clients' budgets are affected)")
			}
		}
	})

	r.rule("R5", "sibling agreement fixed vs sliding window on the shared alphabet (E5)", func() {
		hs := limiterHandlers(r)
		alphabet := []string{
			"callfield:limiter.Config.MaxFunc", "callfield:limiter.Config.Next", "callfield:limiter.Config.KeyGenerator", "callfield:limiter.Config.LimitReached",
			"read:limiter.Config.Max", "read:limiter.Config.SkipSuccessfulRequests", "read:limiter.Config.SkipFailedRequests",
			"call:get", "call:set", "call:Next", "call:Set", "call:Lock", "call:Unlock",
			"write:limiter.item.currHits", "write:limiter.item.exp", "read:limiter.item.currHits", "read:limiter.item.exp",
		}
		a := restrict(g.actionSet(hs["FixedWindow"], nil), alphabet)
		b := restrict(g.actionSet(hs["SlidingWindow"], nil), alphabet)
		onlyA, onlyB := actionDiff(a, b)
		for _, x := range onlyA {
			r.bad("SlidingWindow:missing:"+x, r.fpos(hs["SlidingWindow"]), "fixed window performs "+x+" ("+r.pos(a[x])+"), sliding window does not")
		}
		for _, x := range onlyB {
			r.bad("FixedWindow:missing:"+x, r.pos(b[x]), "sliding window performs "+x+", fixed window does not: the two algorithms disagree on where the limit comes from")
		}
		if len(onlyA)+len(onlyB) == 0 {
			r.ok("FixedWindow≡SlidingWindow", r.fpos(hs["FixedWindow"]), "equal action sets: "+actionList(a))
		}
	})

	r.rule("R6", "item fields round-trip through the generated codec and are reset on release (E4)", func() {
		_, st := r.P.Struct(limPkg, "item")
		r.need(st != nil, "limiter.item")
		enc := map[string]bool{}
		dec := map[string]bool{}
		rel := map[string]bool{}
		for _, fr := range fieldRefs(firstFn(r, limPkg, "(item).MarshalMsg", "(*item).MarshalMsg")) {
			if !fr.Write {
				enc[fr.Name] = true
			}
		}
		for _, fr := range fieldRefs(r.Fn(limPkg, "(*item).UnmarshalMsg")) {
			if fr.Write {
				dec[fr.Name] = true
			}
		}
		for _, fr := range fieldRefs(r.Fn(limPkg, "(*manager).release")) {
			if fr.Write {
				rel[fr.Name] = true
			}
		}
		for i := 0; i < st.NumFields(); i++ {
			n := "limiter.item." + st.Field(i).Name()
			r.check(enc[n] && dec[n] && rel[n], "item:"+n, r.fpos(r.Fn(limPkg, "(*manager).release")), "encoded, decoded and reset",
				fmt.Sprintf("%s: encoded=%v decoded=%v reset-on-release=%v (with an external storage the counter would be lost or leak between keys)", n, enc[n], dec[n], rel[n]))
		}
	})

	r.rule("R7", "the hit is counted inside the critical section and the rejection reads the incremented counter (E10/E3)", func() {
		for name, h := range limiterHandlers(r) {
			gets := callsMatching(h, false, nameHasSuffix("limiter.manager).get"))
			sets := callsMatching(h, false, nameHasSuffix("limiter.manager).set"))
			r.need(len(gets) >= 1 && len(sets) >= 1, name+" get/set")
			// the get that opens the admission section: not the one of the skip path that runs after the handler
			var first callSite
			found := false
			for _, c := range gets {
				post := false
				for _, nx := range callsIn(h, false) {
					if !isNext(nx.Name) {
						continue
					}
					if _, hit := reach(pointAfter(nx.Instr), func(in ssa.Instruction) bool { return in == c.Instr }, nil, nil); hit != nil {
						post = true
					}
				}
				if !post && !found {
					first, found = c, true
				}
			}
			r.need(found, name+" has a get before the handler runs")
			var incr ssa.Instruction
			isIncr := func(in ssa.Instruction) bool {
				st, ok := in.(*ssa.Store)
				if !ok {
					return false
				}
				fa, ok := st.Addr.(*ssa.FieldAddr)
				if !ok {
					return false
				}
				fv := fieldVar(fa.X.Type(), fa.Field)
				if fv == nil || fv.Name() != "currHits" {
					return false
				}
				bo, ok := st.Val.(*ssa.BinOp)
				if !ok || bo.Op != token.ADD {
					return false
				}
				k, isC := constInt(asConst(bo.Y))
				if isC && k > 0 && loadOfField(bo.X, "limiter.item.currHits") {
					incr = in
					return true
				}
				return false
			}
			isSet := func(in ssa.Instruction) bool { return isCallTo(in, nameHasSuffix("limiter.manager).set")) }
			_, hit := reach(pointAfter(first.Instr), isSet, nil, isIncr)
			r.check(hit == nil && incr != nil, name+":hit-counted-between-get-and-set", r.pos(first.Instr), "every path from get to set stores currHits = currHits + k (k>0)", "a path from manager.get to manager.set does not count the hit: nothing would ever be rejected")
			if incr != nil {
				br, _ := rejectBranch(h)
				ld := dependsOn(br.If.Cond, func(v ssa.Value) bool { return loadOfField(v, "limiter.item.currHits") })
				okDom := false
				if ld != nil {
					li := ld.(ssa.Instruction)
					if li.Parent() != incr.Parent() {
						// the counter is read in a helper (the rate computed by a function of its own): the read happens at the call
						var own []callSite
						withoutHelpers(func() { own = callsIn(incr.Parent(), false) })
						for _, c := range own {
							if c.Common.StaticCallee() == li.Parent() && c.Value() != nil && dependsOn(br.If.Cond, func(v ssa.Value) bool { return v == c.Value() }) != nil {
								li = c.Instr
							}
						}
					}
					okDom = li.Parent() == incr.Parent() && dom(incr.Block(), li.Block()) && (incr.Block() != li.Block() || idxIn(incr) < idxIn(li))
				}
				r.check(okDom, name+":reject-reads-post-increment", r.pos(br.If), "the counter read for the rejection is dominated by the increment", "the rejection compares a counter value read before the increment (one extra request per window)")
			}
		}
	})

	r.rule("R8", "the memory backend's collector re-reads an entry under the write lock before deleting it (double-checked locking): a counter written between the scan and the delete is not lost (E1)", func() {
		n := 0
		for _, pkg := range []string{"internal/memory", "internal/storage/memory"} {
			f := r.P.Func(pkg, "(*Storage).gc")
			if f == nil {
				continue
			}
			for _, d := range callsMatching(f, false, nameIs("builtin:delete")) {
				n++
				m := d.Common.Args[0]
				isReRead := func(in ssa.Instruction) bool {
					lk, ok := in.(*ssa.Lookup)
					return ok && sameValue(lk.X, m) && sameValue(lk.Index, d.Common.Args[1])
				}
				okD := false
				for _, l := range callsMatching(f, false, nameIs("(*sync.RWMutex).Lock", "(*sync.Mutex).Lock")) {
					if _, reachable := reach(pointAfter(l.Instr), func(in ssa.Instruction) bool { return in == d.Instr }, nil, nil); reachable == nil {
						continue
					}
					_, hit := reach(pointAfter(l.Instr), func(in ssa.Instruction) bool { return in == d.Instr }, nil, isReRead)
					okD = hit == nil
				}
				// … and the delete is decided by that re-read value
				if okD {
					okD = false
					for _, br := range branchesInOne(d.Instr.Parent()) {
						if dependsOn(br.If.Cond, func(v ssa.Value) bool {
							lk, ok := v.(*ssa.Lookup)
							return ok && sameValue(lk.X, m)
						}) != nil {
							for sl := 0; sl < 2; sl++ {
								if dom(br.If.Block().Succs[sl], d.Block()) && len(br.If.Block().Succs[sl].Preds) == 1 {
									okD = true
								}
							}
						}
					}
				}
				r.check(okD, pkg+":gc:delete-after-recheck", r.pos(d.Instr), "between taking the write lock and the delete the entry is looked up again and its expiry decides",
					"the collector deletes the keys it collected under the read lock without looking at them again: an entry replaced in between (a request opening a new window writes a fresh counter) is deleted, the hit is lost and Max+1 requests are admitted in that window")
			}
		}
		r.atLeast("collector deletes", n, 1)
	})

	r.rule("R9", "function-valued Config fields the limiter calls are never nil (E1): set by configDefault on every path, also when no config is passed", func() {
		configFuncFieldsRule(r, limPkg, "limiter")
	})

	r.rule("R11", "what the limiter hands to an external Storage is not its own scratch memory (E3, shared with C14-R7)", func() {
		storageSetFreshBytesRule(r, limPkg, "limiter", 1)
	})

	r.rule("R12", "the window is never zero seconds long: the handlers measure it in whole seconds (uint64(Expiration.Seconds())), so configDefault falls back to the default on the same quantity, not on the raw duration (a sub-second Expiration truncates to 0: the fixed window never fills, the sliding weight is 0/0) (E5, writer/reader agreement)", func() {
		isSeconds := func(v ssa.Value) bool {
			c, ok := v.(*ssa.Call)
			return ok && calleeName(&c.Call) == "(time.Duration).Seconds" && dependsOn(c.Call.Args[0], func(x ssa.Value) bool { return loadOfField(x, "limiter.Config.Expiration") }) != nil
		}
		uses := 0
		for _, t := range []string{"FixedWindow", "SlidingWindow"} {
			f := r.Fn(limPkg, "("+t+").New")
			for _, c := range callsMatching(f, false, nameIs("(time.Duration).Seconds")) {
				if isSeconds(c.Value()) {
					uses++
				}
			}
		}
		r.atLeast("handlers measuring the window in whole seconds", uses, 2)
		cd := r.Fn(limPkg, "configDefault")
		n := 0
		for _, fr := range fieldRefs(cd) {
			if !fr.Write || fr.Name != "limiter.Config.Expiration" || fr.Val == nil {
				continue
			}
			if dependsOn(fr.Val, func(x ssa.Value) bool {
				u, ok := x.(*ssa.UnOp)
				if !ok {
					return false
				}
				g, isG := u.X.(*ssa.FieldAddr)
				if !isG {
					return false
				}
				_, fromGlobal := g.X.(*ssa.Global)
				return fromGlobal
			}) == nil {
				continue
			}
			n++
			guarded := false
			for _, br := range branchesIn(cd) {
				if dependsOn(br.Info.Root, isSeconds) == nil {
					continue
				}
				for sl := 0; sl < 2; sl++ {
					tgt := br.If.Block().Succs[sl]
					if len(tgt.Preds) == 1 && dom(tgt, fr.Instr.Block()) {
						guarded = true
					}
				}
			}
			r.check(guarded, fmt.Sprintf("configDefault:Expiration-default#%d:on-whole-seconds", n), r.pos(fr.Instr), "the default is applied under a test of Expiration.Seconds()",
				"configDefault keeps an Expiration the handlers truncate to 0 seconds (the fallback tests the raw duration): with Expiration: 500ms the fixed window resets on every request and admits everything, the sliding window divides 0 by 0 and rejects everything")
		}
		r.atLeast("default Expiration stores", n, 1)
	})

	r.rule("R13", "the key a request is counted under is a private copy: what the key generator answers may be a view of request memory (c.IP() behind a ProxyHeader, c.Get(…)), and the stores keep the key string they are given — as a map key it would be rewritten by the next request on the connection (E3)", func() {
		n := 0
		for name, h := range limiterHandlers(r) {
			isKeyGen := func(v ssa.Value) bool {
				c, ok := v.(*ssa.Call)
				return ok && calleeName(&c.Call) == "field:limiter.Config.KeyGenerator"
			}
			for _, c := range callsMatching(h, false, nameHasSuffix("limiter.manager).get", "limiter.manager).set")) {
				key := c.Common.Args[1]
				if dependsOn(key, isKeyGen) == nil {
					continue
				}
				n++
				copied := dependsOn(key, func(v ssa.Value) bool {
					cc, ok := v.(*ssa.Call)
					if !ok {
						return false
					}
					nm := calleeName(&cc.Call)
					return strings.HasSuffix(nm, "utils/v2.CopyString") || nm == "strings.Clone"
				}) != nil
				r.check(copied, fmt.Sprintf("%s:%s#%d:key-is-a-copy", name, short(c.Name), n), r.pos(c.Instr), "the key handed to the store went through a copy",
					"the limiter hands the key generator's answer to its store as it is: with ProxyHeader set the default key c.IP() is a view of the request header, the in-memory stores keep that string as their map key, and the next request on the connection rewrites it — a new client is charged to (and rejected for) another client's entry")
			}
		}
		r.atLeast("keyed store accesses in the handlers", n, 4)
	})

	r.rule("R15", "the default MaxFunc answers the limit configDefault settles on: where the default MaxFunc is built from a value of cfg.Max (captured, or handed to a constructor), no later write of cfg.Max follows — a value read ahead of the `Max <= 0` fallback is 0 for an unset Max, and both algorithms treat a limit of 0 as `do not limit` (E10 order)", func() {
		f := r.Fn(limPkg, "configDefault")
		isMaxStore := func(in ssa.Instruction) bool {
			st, ok := in.(*ssa.Store)
			if !ok {
				return false
			}
			fa, ok := st.Addr.(*ssa.FieldAddr)
			if !ok {
				return false
			}
			fv := fieldVar(fa.X.Type(), fa.Field)
			return fv != nil && fieldOwner(fv)+"."+fv.Name() == "limiter.Config.Max"
		}
		n := 0
		for _, fr := range fieldRefs(f) {
			if !fr.Write || fr.Name != "limiter.Config.MaxFunc" || fr.Val == nil || constIsNil(asConst(fr.Val)) {
				continue
			}
			if isDef, _ := func() (bool, string) {
				ld, ok := fr.Val.(*ssa.UnOp)
				if !ok {
					return false, ""
				}
				fa, ok := ld.X.(*ssa.FieldAddr)
				if !ok {
					return false, ""
				}
				_, isG := fa.X.(*ssa.Global)
				return isG, ""
			}(); isDef {
				continue
			}
			n++
			// the values of cfg.Max the function is built from (a captured cell reads Max when it is called: nothing to check)
			var early []string
			var vals []ssa.Value
			if mc, ok := fr.Val.(*ssa.MakeClosure); ok {
				for _, b := range mc.Bindings {
					cell, isCell := b.(*ssa.Alloc)
					if !isCell {
						vals = append(vals, b)
						continue
					}
					// the captured configuration itself is read when the function is called; a captured local of its
					// own (`maxRequests := cfg.Max`) holds what was stored into it
					if pt, ok := cell.Type().Underlying().(*types.Pointer); ok && namedTypeName(pt.Elem()) == "Config" {
						continue
					}
					for _, st := range storesInto(cell) {
						vals = append(vals, st.Val)
					}
				}
			} else {
				vals = append(vals, fr.Val)
			}
			// the reads of cfg.Max whose value goes into the function (through arithmetic, conversions, phis and
			// constructor arguments — not through memory: what was stored into cfg.Max earlier is not "read early")
			seen := map[ssa.Value]bool{}
			var walk func(x ssa.Value, d int)
			walk = func(x ssa.Value, d int) {
				x = stripValue(x)
				if x == nil || seen[x] || d > 8 {
					return
				}
				seen[x] = true
				if loadOfField(x, "limiter.Config.Max") {
					if in, ok := x.(ssa.Instruction); ok && in.Parent() == f {
						if _, hit := reach(pointAfter(in), isMaxStore, nil, nil); hit != nil {
							early = append(early, r.pos(in))
						}
					}
					return
				}
				switch y := x.(type) {
				case *ssa.Phi:
					for _, e := range y.Edges {
						walk(e, d+1)
					}
				case *ssa.BinOp:
					walk(y.X, d+1)
					walk(y.Y, d+1)
				case *ssa.Call:
					for _, a := range y.Call.Args {
						walk(a, d+1)
					}
				case *ssa.MakeClosure:
					for _, bnd := range y.Bindings {
						if cell, ok := bnd.(*ssa.Alloc); ok {
							for _, st := range storesInto(cell) {
								walk(st.Val, d+1)
							}
						} else {
							walk(bnd, d+1)
						}
					}
				}
			}
			for _, v := range vals {
				walk(v, 0)
			}
			r.check(len(early) == 0, fmt.Sprintf("configDefault:default-MaxFunc#%d:built-from-the-settled-Max", n), r.pos(fr.Instr), "every value of cfg.Max that goes into the default MaxFunc is read after the last write of cfg.Max",
				"the default MaxFunc is built from cfg.Max as it was before the fallback ("+strings.Join(early, ", ")+"): a Config without Max and MaxFunc limits nothing (the handlers ask MaxFunc, which answers 0), a negative Max rejects everything")
		}
		r.atLeast("default MaxFunc assignments in configDefault", n, 1)
	})

	r.rule("R17", "seconds become a Duration by multiplication: the time left in the window is a count of seconds (item.exp - timestamp); wherever the sliding window converts such a count to time.Duration on the way to manager.set, the conversion is multiplied by a unit of at least time.Second before it meets another Duration — `time.Duration(resetInSec) + cfg.Expiration` adds nanoseconds to a duration, the entry then lives one Expiration instead of into the next window and the previous window's hits are gone when they should weigh (E3: unit of the converted value)", func() {
		h := limiterHandlers(r)["SlidingWindow"]
		r.need(h != nil, "sliding-window handler")
		n := 0
		isSecondsCount := func(v ssa.Value) bool {
			return dependsOn(v, func(x ssa.Value) bool {
				if fa, ok := x.(*ssa.FieldAddr); ok {
					if fv := fieldOfValue(fa); fv != nil && fv.Name() == "exp" {
						return true
					}
				}
				if c, ok := x.(*ssa.Call); ok && strings.HasSuffix(calleeName(&c.Call), ".Timestamp") {
					return true
				}
				return false
			}) != nil
		}
		for _, g := range append([]*ssa.Function{h}, helpersOf(h)...) {
			for _, b := range g.Blocks {
				for _, in := range b.Instrs {
					cv, ok := in.(*ssa.Convert)
					if !ok || !strings.HasSuffix(cv.Type().String(), "time.Duration") {
						continue
					}
					if bt, ok := cv.X.Type().Underlying().(*types.Basic); !ok || bt.Info()&types.IsInteger == 0 || strings.HasSuffix(cv.X.Type().String(), "time.Duration") {
						continue
					}
					if !isSecondsCount(cv.X) || cv.Referrers() == nil {
						continue
					}
					n++
					okUnit := true
					for _, u := range *cv.Referrers() {
						bo, isBin := u.(*ssa.BinOp)
						if !isBin {
							if _, isDbg := u.(*ssa.DebugRef); isDbg {
								continue
							}
							okUnit = false
							continue
						}
						other := bo.Y
						if bo.Y == ssa.Value(cv) {
							other = bo.X
						}
						k, isK := constInt(asConst(other))
						if bo.Op != token.MUL || !isK || k < 1000000000 {
							okUnit = false
						}
					}
					r.check(okUnit, fmt.Sprintf("SlidingWindow:seconds-to-Duration#%d:multiplied-by-a-unit", n), r.pos(in), "the converted count of seconds is multiplied by time.Second (or a larger unit)",
						"a count of seconds is converted to time.Duration and used without being multiplied by time.Second: it counts as nanoseconds — the entry's lifetime is the Expiration alone, a key that spent its budget early in window W has no entry left in W+1 and gets a second full burst (the sliding window degrades to a fixed one)")
				}
			}
		}
		r.atLeast("conversions of a seconds count to time.Duration in the sliding window", n, 1)
	})

	r.rule("R14", "a request's outcome is judged by what the client will get: where a handler decides whether the request failed (a status compared with 400, behind SkipSuccessfulRequests / SkipFailedRequests), the status takes the error c.Next() returned into account — a handler that fails by returning an error still has status 200 at that point, the error handler runs later (E3)", func() {
		n := 0
		for _, name := range []string{"FixedWindow", "SlidingWindow"} {
			h := limiterHandlers(r)[name]
			nexts := callsMatching(h, false, isNext)
			r.need(len(nexts) >= 1, name+" calls c.Next()")
			isErr := func(x ssa.Value) bool {
				for _, nx := range nexts {
					if x == nx.Value() {
						return true
					}
				}
				return false
			}
			k := 0
			for _, in := range instrsWhere(h, func(in ssa.Instruction) bool {
				bo, ok := in.(*ssa.BinOp)
				return ok && (isConstInt(bo.X, 400) || isConstInt(bo.Y, 400))
			}) {
				bo := in.(*ssa.BinOp)
				status := bo.X
				if isConstInt(bo.X, 400) {
					status = bo.Y
				}
				n++
				k++
				r.check(dependsOn(status, isErr) != nil, fmt.Sprintf("%s:outcome#%d:counts-a-returned-error", name, k), r.pos(in), "the status compared with 400 is derived from the error c.Next() returned as well",
					"the limiter judges a request by the response status alone: a handler that returns an error (fiber.ErrUnauthorized) still has status 200 when the limiter looks, so with SkipSuccessfulRequests failed attempts are refunded — a login route is never limited — and with SkipFailedRequests they are charged")
			}
			r.check(k > 0, name+":outcome:classified", r.fpos(h), "the handler compares a status with 400 to tell failed from successful requests", "no outcome classification found in "+name+" (the Skip options have nothing to go by)")
		}
		r.atLeast("outcome classifications in the handlers", n, 2)
	})

	r.rule("R16", "the previous window weighs by the fraction of it that still overlaps: the factor the sliding window multiplies prevHits with is a quotient formed in floating point (float64(left) / float64(window)); no integer division lies between the two times and the factor — an integer quotient of left/window is 1 in the first second and 0 afterwards, the hits of the previous window stop counting one second into the next (E3: the type of the division that feeds the weight)", func() {
		h := limiterHandlers(r)["SlidingWindow"]
		r.need(h != nil, "sliding-window handler")
		n := 0
		isPrev := func(v ssa.Value) bool {
			if fa, ok := v.(*ssa.FieldAddr); ok {
				if fv := fieldOfValue(fa); fv != nil && fv.Name() == "prevHits" {
					return true
				}
			}
			return false
		}
		isFloat := func(t types.Type) bool {
			b, ok := t.Underlying().(*types.Basic)
			return ok && b.Info()&types.IsFloat != 0
		}
		var r16blocks []*ssa.BasicBlock
		for _, g := range append([]*ssa.Function{h}, helpersOf(h)...) {
			r16blocks = append(r16blocks, g.Blocks...)
		}
		for _, b := range r16blocks {
			for _, in := range b.Instrs {
				mul, ok := in.(*ssa.BinOp)
				if !ok || mul.Op != token.MUL || !isFloat(mul.Type()) {
					continue
				}
				var w ssa.Value
				if dependsOn(mul.X, isPrev) != nil {
					w = mul.Y
				} else if dependsOn(mul.Y, isPrev) != nil {
					w = mul.X
				}
				if w == nil {
					continue
				}
				n++
				intQuo := dependsOn(w, func(v ssa.Value) bool {
					q, ok := v.(*ssa.BinOp)
					return ok && (q.Op == token.QUO || q.Op == token.REM || q.Op == token.SHR) && !isFloat(q.Type())
				})
				floatQuo := dependsOn(w, func(v ssa.Value) bool {
					q, ok := v.(*ssa.BinOp)
					return ok && q.Op == token.QUO && isFloat(q.Type())
				})
				r.check(intQuo == nil && floatQuo != nil, fmt.Sprintf("SlidingWindow:weight#%d:fraction-in-floating-point", n), r.pos(in), "the weight is a floating-point quotient",
					"the weight of the previous window passes through an integer division (or is no quotient at all): it is 1 or 0, never the fraction of the window that is left — with Max=8 and a 4 s window all 8 requests of the second window are admitted one second in, where the weighted rule allows 2")
			}
		}
		r.atLeast("products of prevHits with a weight", n, 1)
	})

	r.rule("R10", "the sliding window keeps an entry into the next window: every manager.set of its handler uses a lifetime that includes the time left in the current window (E5)", func() {
		h := limiterHandlers(r)["SlidingWindow"]
		n := 0
		for _, c := range callsMatching(h, false, nameHasSuffix("limiter.manager).set")) {
			n++
			ttl := c.Common.Args[len(c.Common.Args)-1]
			// the time left in the window is exp − ts
			left := dependsOn(ttl, func(v ssa.Value) bool {
				bo, ok := v.(*ssa.BinOp)
				return ok && bo.Op == token.SUB && dependsOn(bo.X, func(x ssa.Value) bool { return loadOfField(x, "limiter.item.exp") }) != nil
			}) != nil
			r.check(left, fmt.Sprintf("SlidingWindow:set#%d:lifetime-covers-next-window", n), r.pos(c.Instr), "the entry's lifetime is derived from the time left in the window (plus the expiration)",
				"the sliding window stores an entry with a lifetime that does not include the time left in the current window: the entry vanishes when the window ends, the previous window's hits no longer count and up to Max requests are admitted right after the edge")
		}
		r.atLeast("manager.set calls in the sliding handler", n, 2)
	})
}
