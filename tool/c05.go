package main

import (
	"fmt"
	"go/token"
	"go/types"
	"strings"

	"golang.org/x/tools/go/ssa"
)

func init() {
	register(&propDef{
		ID: "C05",
		Explain: "Decided clauses: R1 every field of the pooled objects on the request path (DefaultCtx, Redirect, the nine binder bindings, routeParser) is re-initialised on the acquire/release path, allow-list with reasons; " +
			"R2 every Put into those pools is preceded by the reset of the same object; R3 a slice field that is reset by truncation is never re-extended by reslicing in a callee that fills only some fields of the exposed elements " +
			"(flash-message decoder); R4 the per-request values array is only read for indices the current match wrote. " +
			"Not decided: fasthttp's own buffer recycling, concurrent request mixes (no shared mutable context state is the structural part; schedules are not explored), user Locals.",
		Assume: []string{"fasthttp hands a fresh or reset RequestCtx per request"},
		Run:    runC05,
	})
}

// exposesStaleElements: function g (a decoder receiving a pointer to a slice) re-extends the
// slice by reslicing *p up to a non-constant bound — elements beyond the old length keep their
// previous contents unless every field is overwritten.
func reslicesUp(g *ssa.Function) (ssa.Instruction, bool) {
	if g == nil || len(g.Blocks) == 0 || len(g.Params) == 0 {
		return nil, false
	}
	p := g.Params[0]
	for _, b := range g.Blocks {
		for _, in := range b.Instrs {
			sl, ok := in.(*ssa.Slice)
			if !ok || sl.High == nil {
				continue
			}
			if asConst(sl.High) != nil {
				continue
			}
			// base is a load of *param
			if u, ok := sl.X.(*ssa.UnOp); ok && u.X == ssa.Value(p) {
				return in, true
			}
		}
	}
	return nil, false
}

func runC05(r *Run) {
	r.rule("R1", "pool reset completeness (E4a)", func() {
		type spec struct {
			pkg, typ string
			fns      []string
			allow    map[string]string
			min      int
		}
		specs := []spec{
			{"", "DefaultCtx", []string{"(*DefaultCtx).Reset", "(*DefaultCtx).release", "(*DefaultCtx).configDependentPaths"}, map[string]string{
				"DefaultCtx.app":    "constructor-set back reference to the owning App (contexts never change app)",
				"DefaultCtx.req":    "constructor-set API facade pointing back to this context",
				"DefaultCtx.res":    "constructor-set API facade pointing back to this context",
				"DefaultCtx.values": "only indices written by the current match are read (R4 / C02-R2: getMatch stores params[k] for every parameter before accepting)",
			}, 19},
			{"", "Redirect", []string{"(*Redirect).release"}, nil, 3},
			{"", "routeParser", []string{"(*routeParser).reset"}, nil, 4},
		}
		for _, b := range []string{"HeaderBinding", "RespHeaderBinding", "CookieBinding", "QueryBinding", "FormBinding", "URIBinding", "XMLBinding", "JSONBinding", "CBORBinding"} {
			specs = append(specs, spec{"binder", b, []string{"(*" + b + ").Reset"}, nil, 0})
		}
		for _, sp := range specs {
			wr, st, f := poolReset(r, sp.pkg, sp.typ, sp.fns)
			r.atLeast(sp.typ+" fields", st.NumFields(), sp.min)
			prefix := sp.typ + "."
			if sp.pkg != "" {
				prefix = sp.pkg + "." + prefix
			}
			if st.NumFields() == 0 {
				r.ok("pool-reset:"+prefix+"(no fields)", r.fpos(f), "stateless")
			}
			for i := 0; i < st.NumFields(); i++ {
				n := prefix + st.Field(i).Name()
				if why, ok := sp.allow[n]; ok {
					r.ok("pool-reset:"+n, r.fpos(f), "allow-listed: "+why)
					continue
				}
				r.check(wr[n], "pool-reset:"+n, r.fpos(f), "re-initialised on acquire/release",
					n+" is not re-initialised when the pooled object changes hands: the next request observes the previous request's value")
				if !wr[n] {
					continue
				}
				// … on every path: one of the reset functions writes the field whatever else holds — a reset may be
				// skipped only by a test of the field itself (`if c.redirect != nil { … }`), not by a configuration flag
				// the value does not depend on
				isWrite := func(in ssa.Instruction) bool {
					switch x := in.(type) {
					case *ssa.Store:
						if fa, ok := x.Addr.(*ssa.FieldAddr); ok {
							if fv := fieldVar(fa.X.Type(), fa.Field); fv != nil && fieldOwner(fv)+"."+fv.Name() == n {
								return true
							}
						}
					case *ssa.Call:
						nm := calleeName(&x.Call)
						if (strings.HasSuffix(nm, ").Reset") || strings.HasSuffix(nm, ").Release") || strings.HasSuffix(nm, ").reset") || strings.HasSuffix(nm, ").Clear")) && len(x.Call.Args) > 0 {
							hit := false
							dependsOn(x.Call.Args[0], func(v ssa.Value) bool {
								if fv := fieldOfValue(v); fv != nil && fieldOwner(fv)+"."+fv.Name() == n {
									hit = true
								}
								return hit
							})
							return hit
						}
					}
					return false
				}
				always := false
				for _, fn := range sp.fns {
					rf := r.P.Func(sp.pkg, fn)
					if rf == nil {
						continue
					}
					cut := map[edge]bool{}
					for _, br := range branchesIn(rf) {
						if dependsOn(br.Info.Root, func(v ssa.Value) bool { return loadOfField(v, n) }) != nil {
							cut[edge{br.If.Block(), 0}] = true
							cut[edge{br.If.Block(), 1}] = true
						}
					}
					ownRet := func(in ssa.Instruction) bool { _, ok := in.(*ssa.Return); return ok && in.Parent() == rf }
					wrote := len(instrsWhere(rf, isWrite)) > 0
					if _, hit := reach(entryOf(rf), ownRet, cut, isWrite); hit == nil && wrote {
						always = true
					}
				}
				r.check(always, "pool-reset:"+n+":on-every-path", r.fpos(f), "one of the reset functions writes the field on every path that does not test the field itself",
					n+" is re-initialised only under a condition that has nothing to do with the field (a configuration flag): with the condition false the value of one request stays in the pooled object and is seen by the next")
			}
		}
	})

	r.rule("R2", "release pairs with reset: every Put is dominated by the reset of the object (E1)", func() {
		// ReleaseCtx / ReleaseRedirect
		for _, sp := range []struct{ fn, reset string }{
			{"(*App).ReleaseCtx", ").release"}, {"ReleaseRedirect", "Redirect).release"},
		} {
			f := r.Fn("", sp.fn)
			puts := callsMatching(f, false, nameIs("(*sync.Pool).Put"))
			rs := callsMatching(f, false, nameHasSuffix(sp.reset))
			r.check(len(puts) == 1 && len(rs) == 1 && precedes(rs[0].Instr, puts[0].Instr), sp.fn+":reset-before-put", r.fpos(f), "release() precedes pool.Put", "an object can be put back into the pool without its release/reset running")
		}
		// AcquireCtx resets on acquire
		ac := r.Fn("", "(*App).AcquireCtx")
		gets := callsMatching(ac, false, nameIs("(*sync.Pool).Get"))
		rs := callsMatching(ac, false, nameHasSuffix(".Ctx).Reset"))
		okA := len(gets) == 1 && len(rs) == 1
		if okA {
			_, hit := reach(pointAfter(gets[0].Instr), isReturn, nil, func(in ssa.Instruction) bool { return in == rs[0].Instr })
			okA = hit == nil
		}
		r.check(okA, "AcquireCtx:reset-on-acquire", r.fpos(ac), "every acquired context is Reset with the new request before it is handed out", "a context can be handed out without Reset")
		// Bind.* methods: deferred Reset before PutToThePool
		n := 0
		tm, _ := r.P.Pkg("").Members["Bind"].(*ssa.Type)
		r.need(tm != nil, "fiber.Bind")
		ms := r.P.SSA.MethodSets.MethodSet(types.NewPointer(tm.Type()))
		for i := 0; i < ms.Len(); i++ {
			m := r.P.SSA.MethodValue(ms.At(i))
			if m == nil || len(m.Blocks) == 0 {
				continue
			}
			if m.Object() != nil && !m.Object().Exported() {
				continue // a helper of the exported methods (`acquireQueryBinder`): judged where it is used
			}
			gets := callsMatching(m, false, func(s string) bool { return strings.Contains(s, "binder.GetFromThePool") })
			if len(gets) == 0 {
				continue
			}
			n++
			ok := false
			// the releasing function: a deferred closure, or a named function that is deferred (`defer releaseQueryBinder(bind)`)
			releasers := anonFuncsDeep(m)
			for _, in := range instrsWhereOne(m, func(in ssa.Instruction) bool { _, ok := in.(*ssa.Defer); return ok }) {
				if g := in.(*ssa.Defer).Call.StaticCallee(); g != nil && len(g.Blocks) > 0 && g.Pkg == m.Pkg {
					releasers = append(releasers, g)
				}
			}
			for _, a := range releasers {
				rs := callsMatching(a, false, nameHasSuffix("Binding).Reset"))
				ps := callsMatching(a, false, func(s string) bool { return strings.Contains(s, "binder.PutToThePool") })
				if len(rs) == 1 && len(ps) == 1 && precedes(rs[0].Instr, ps[0].Instr) {
					ok = true
				}
			}
			// the closure must be deferred before any return
			deferred := false
			// (the binding may be taken inside a helper: then the paths start behind the call of that helper)
			start := ssa.Instruction(gets[0].Instr)
			if start.Parent() != m {
				for _, c := range callsIn(m, false) {
					if c.Instr.Parent() == m && c.Common.StaticCallee() == start.Parent() {
						start = c.Instr
					}
				}
			}
			ownReturn := func(x ssa.Instruction) bool { _, isRet := x.(*ssa.Return); return isRet && x.Parent() == m }
			for _, in := range instrsWhereOne(m, func(in ssa.Instruction) bool { _, ok := in.(*ssa.Defer); return ok }) {
				if start.Parent() != m {
					continue
				}
				_, hit := reach(pointAfter(start), ownReturn, nil, func(x ssa.Instruction) bool { return x == in })
				if hit == nil {
					deferred = true
				}
			}
			// stateless bindings (no fields) have nothing to reset
			if !ok {
				if pt, isPtr := gets[0].Value().Type().Underlying().(*types.Pointer); isPtr {
					if st, isSt := pt.Elem().Underlying().(*types.Struct); isSt && st.NumFields() == 0 {
						for _, a := range anonFuncsDeep(m) {
							if len(callsMatching(a, false, func(s string) bool { return strings.Contains(s, "binder.PutToThePool") })) == 1 {
								ok = true
							}
						}
					}
				}
			}
			r.check(ok && deferred, "Bind."+m.Name()+":reset-before-put", r.fpos(m), "the binding is Reset and then put back by a deferred closure registered before any return", "Bind."+m.Name()+" can return a binding to the pool without Reset (or leak it)")
		}
		r.atLeast("Bind methods using pooled bindings", n, 9)
	})

	r.rule("R3", "no stale-element exposure on truncation-reset slices (E4d)", func() { staleElementRule(r) })

	r.rule("R5", "pooled Accept-parameter maps are cleared before reuse (shared with C09-R5)", func() { pooledParamMapRule(r) })

	r.rule("R4", "route parameter values are read only for indices the current route declares (E3)", func() {
		f := r.Fn("", "(*DefaultCtx).Params")
		// every read of c.values[i] is inside the loop over route.Params (index = loop variable)
		n := 0
		for _, b := range f.Blocks {
			for _, in := range b.Instrs {
				ia, ok := in.(*ssa.IndexAddr)
				if !ok {
					continue
				}
				fa, ok := ia.X.(*ssa.FieldAddr)
				if !ok {
					continue
				}
				fv := fieldVar(fa.X.Type(), fa.Field)
				if fv == nil || fv.Name() != "values" {
					continue
				}
				n++
				// the index is the induction variable of a range over route.Params: `i < len(route.Params)` holds where it is read
				okIdx := false
				for _, l := range rangeLoopsOverField(f, "Route.Params") {
					ci := decompose(l.Cond)
					if ci.Root == ia.Index && dom(l.Block().Succs[0], b) {
						okIdx = true
					}
				}
				r.check(okIdx, fmt.Sprintf("Params:values-read#%d", n), r.pos(in), "values[i] is read inside the loop over the matched route's Params", "values[i] is read outside the bounds of the matched route's parameters: a value left by an earlier request or match attempt can surface")
			}
		}
		r.atLeast("values reads in Params", n, 1)
	})

	r.rule("R6", "the application-wide SendFile cache is keyed by everything an entry is built from: compareConfig compares every SendFile field that SendFile reads while building a new entry (E4)", func() {
		sfn := r.Fn("", "(*DefaultCtx).SendFile")
		cmp := firstFn(r, "", "(*sendFileStore).compareConfig", "(sendFileStore).compareConfig")
		// the entry-building region: blocks dominated by the edge taken when no cached entry matched
		var allocBlock *ssa.BasicBlock
		for _, in := range instrsWhereOne(sfn, func(in ssa.Instruction) bool {
			al, ok := in.(*ssa.Alloc)
			return ok && al.Heap && namedTypeName(al.Type().(*types.Pointer).Elem()) == "sendFileStore"
		}) {
			allocBlock = in.Block()
		}
		// … or in a constructor SendFile calls (`sf := c.app.newSendFileStore(cfg)`): the call stands for the allocation,
		// and everything the constructor reads of the configuration goes into the entry
		var builder *ssa.Function
		if allocBlock == nil {
			for _, c := range callsIn(sfn, false) {
				g := c.Common.StaticCallee()
				if g == nil || g.Pkg != sfn.Pkg || len(g.Blocks) == 0 || c.Instr.Parent() != sfn {
					continue
				}
				for _, in := range instrsWhereOne(g, func(in ssa.Instruction) bool {
					al, ok := in.(*ssa.Alloc)
					return ok && al.Heap && namedTypeName(al.Type().(*types.Pointer).Elem()) == "sendFileStore"
				}) {
					_ = in
					builder, allocBlock = g, c.Instr.Block()
				}
			}
		}
		r.need(allocBlock != nil, "SendFile allocates a sendFileStore when nothing matched")
		var region *ssa.BasicBlock
		for _, br := range branchesInOne(sfn) {
			if !constIsNil(br.Info.Const) {
				continue
			}
			if sl, ok := br.nilSlot(true); ok {
				tgt := br.If.Block().Succs[sl]
				if len(tgt.Preds) == 1 && dom(tgt, allocBlock) && (region == nil || dom(region, tgt)) {
					region = tgt
				}
			}
		}
		r.need(region != nil, "the entry is built under `no cached handler found`")
		used := map[string]string{}
		for _, fr := range fieldRefsOne(sfn) {
			if fr.Write || !strings.HasPrefix(fr.Name, "SendFile.") || !dom(region, fr.Instr.Block()) {
				continue
			}
			if _, ok := used[fr.Name]; !ok {
				used[fr.Name] = r.pos(fr.Instr)
			}
		}
		if builder != nil {
			for _, fr := range fieldRefsOne(builder) {
				if fr.Write || !strings.HasPrefix(fr.Name, "SendFile.") {
					continue
				}
				if _, ok := used[fr.Name]; !ok {
					used[fr.Name] = r.pos(fr.Instr)
				}
			}
		}
		r.atLeast("SendFile fields an entry is built from", len(used), 4)
		compared := map[string]bool{}
		wholeStruct := false
		for _, b := range cmp.Blocks {
			for _, in := range b.Instrs {
				bo, ok := in.(*ssa.BinOp)
				if !ok || (bo.Op != token.EQL && bo.Op != token.NEQ) {
					continue
				}
				fx, fy := fieldOfValue(stripValue(bo.X)), fieldOfValue(stripValue(bo.Y))
				if fx != nil && fy != nil && fx == fy && fieldOwner(fx) == "SendFile" {
					compared["SendFile."+fx.Name()] = true
				}
				if namedTypeName(bo.X.Type()) == "SendFile" {
					wholeStruct = true
				}
			}
		}
		// a field handed twice — the stored and the new value — to a two-argument predicate (an equality helper)
		for _, c := range callsIn(cmp, false) {
			if len(c.Common.Args) != 2 || c.Value() == nil {
				continue
			}
			if b, ok := c.Value().Type().Underlying().(*types.Basic); !ok || b.Kind() != types.Bool {
				continue
			}
			fx, fy := fieldOfValue(stripValue(c.Common.Args[0])), fieldOfValue(stripValue(c.Common.Args[1]))
			if fx != nil && fy != nil && fx == fy && fieldOwner(fx) == "SendFile" {
				compared["SendFile."+fx.Name()] = true
			}
		}
		for _, n := range sortedKeys(used) {
			r.check(wholeStruct || compared[n], "compareConfig:"+n, used[n], "compared by compareConfig", n+" shapes a cached SendFile entry (read at "+used[n]+" while the entry is built) but compareConfig does not compare it: two SendFile call sites that differ only in this option share whichever entry was created first, so the response depends on which route was requested earlier")
		}
	})

	r.rule("R8", "a matching catch-all route overwrites its value slot: in Route.match no `return true` is reachable for a star route (a route is never root and star at once) without a store into the value array — the slots are not cleared between requests, a match that leaves one alone hands the handler the previous request's value (E1)", func() {
		f := r.Fn("", "(*Route).match")
		cut := map[edge]bool{}
		nstar := 0
		for _, br := range branchesInOne(f) {
			switch {
			case loadOfField(br.Info.Root, "Route.star"):
				if s, ok := br.truthSlot(false); ok {
					cut[edge{br.If.Block(), s}] = true
					nstar++
				}
			case loadOfField(br.Info.Root, "Route.root"):
				if s, ok := br.truthSlot(true); ok {
					cut[edge{br.If.Block(), s}] = true
				}
			}
		}
		r.need(nstar >= 1, "Route.match branches on Route.star")
		isSlotStore := func(in ssa.Instruction) bool {
			st, ok := in.(*ssa.Store)
			if !ok {
				return false
			}
			ia, ok := st.Addr.(*ssa.IndexAddr)
			if !ok {
				return false
			}
			p, ok := stripValue(ia.X).(*ssa.Parameter)
			return ok && p.Name() == "params"
		}
		retTrue := func(in ssa.Instruction) bool {
			ret, ok := in.(*ssa.Return)
			if !ok || ret.Parent() != f || len(ret.Results) != 1 {
				return false
			}
			b, isC := constBool(asConst(stripValue(ret.Results[0])))
			return !(isC && !b)
		}
		path, hit := reach(entryOf(f), retTrue, cut, func(in ssa.Instruction) bool {
			return isSlotStore(in) || isCallTo(in, nameHasSuffix("routeParser).getMatch"))
		})
		r.check(hit == nil, "match:star-route-writes-its-slot", r.fpos(f), "with the `not star` and `root` edges removed every accepting return is preceded by a store into the value array",
			"Route.match can accept a request for a catch-all route without writing the wildcard's value: GET / on \"/*\" leaves params[0] as the previous request on that pooled context set it — Params(\"*\") answers secret/report.pdf: "+pathString(r.P, path))
	})

	r.rule("R9", "what goes back to the byte-buffer pool is not kept by the reply: in every function of the module that returns a bytebufferpool buffer to its pool (a plain or deferred Put), the buffer's bytes are handed to the request or response only through copying setters — never to fasthttp's SetBodyRaw / SetBodyStream family, which keep the slice they are given: the body would be a view of a buffer the next user of the pool (the logger, the handler, a concurrent request) overwrites before the reply is written (E1: retaining sink fed from a pooled buffer)", func() {
		var fs []*ssa.Function
		r.P.AllFuncs("*", func(f *ssa.Function) { fs = append(fs, f) })
		retaining := func(cn string) bool {
			for _, s := range []string{".SetBodyRaw", ".SetBodyStream", ".SetBodyStreamWriter", ".SetBodyString"} {
				if strings.HasSuffix(cn, s) && s != ".SetBodyString" {
					return true
				}
			}
			return false
		}
		nFuncs, nSinks := 0, 0
		for _, f := range fs {
			// pooled buffers of the function: results of bytebufferpool Get that are also Put here
			var bufs []ssa.Value
			puts := 0
			for _, b := range f.Blocks {
				for _, in := range b.Instrs {
					var cc *ssa.CallCommon
					switch x := in.(type) {
					case *ssa.Call:
						cc = &x.Call
					case *ssa.Defer:
						cc = &x.Call
					}
					if cc == nil {
						continue
					}
					cn := calleeName(cc)
					if !strings.Contains(cn, "bytebufferpool") {
						continue
					}
					if strings.HasSuffix(cn, ".Put") && len(cc.Args) > 0 {
						puts++
						bufs = append(bufs, stripValue(cc.Args[len(cc.Args)-1]))
					}
				}
			}
			if puts == 0 {
				continue
			}
			nFuncs++
			// fromBuf: v is a view of a pooled buffer's memory (not a copy of it): followed through reslicing, the
			// buffer's B field / Bytes(), phis, local variables, and append onto such a view; a conversion through
			// string, an append onto another base, and any other call give a copy (or something else)
			isBuf := func(x ssa.Value) bool {
				for _, b := range bufs {
					if x == b {
						return true
					}
				}
				return false
			}
			seen := map[ssa.Value]bool{}
			var fromBuf func(v ssa.Value) bool
			fromBuf = func(v ssa.Value) bool {
				if v == nil || seen[v] {
					return false
				}
				seen[v] = true
				if isBuf(v) {
					return true
				}
				switch x := v.(type) {
				case *ssa.Slice:
					return fromBuf(x.X)
				case *ssa.ChangeType:
					return fromBuf(x.X)
				case *ssa.MakeInterface:
					return fromBuf(x.X)
				case *ssa.Phi:
					for _, e := range x.Edges {
						if fromBuf(e) {
							return true
						}
					}
				case *ssa.FieldAddr:
					return fromBuf(x.X)
				case *ssa.Field:
					return fromBuf(x.X)
				case *ssa.UnOp:
					if x.Op == token.MUL {
						if a, ok := x.X.(*ssa.Alloc); ok {
							for _, st := range storesInto(a) {
								if fromBuf(st.Val) {
									return true
								}
							}
							return false
						}
						return fromBuf(x.X)
					}
				case *ssa.Call:
					if bi, ok := x.Call.Value.(*ssa.Builtin); ok {
						if bi.Name() == "append" && len(x.Call.Args) > 0 {
							return fromBuf(x.Call.Args[0])
						}
						return false
					}
					cn := calleeName(&x.Call)
					if strings.Contains(cn, "bytebufferpool.ByteBuffer).Bytes") && len(x.Call.Args) > 0 {
						return fromBuf(x.Call.Args[0])
					}
					if strings.HasSuffix(cn, "utils.UnsafeBytes") || strings.HasSuffix(cn, "utils.UnsafeString") || strings.HasSuffix(cn, "App.getString") || strings.HasSuffix(cn, "App.getBytes") {
						// (*App).getString / getBytes copy only under Immutable
						return len(x.Call.Args) > 0 && fromBuf(x.Call.Args[len(x.Call.Args)-1])
					}
					// the append convention: func AppendX(dst []byte, …) []byte extends and returns dst
					if g := x.Call.StaticCallee(); g != nil && !x.Call.IsInvoke() && strings.HasPrefix(g.Name(), "Append") && len(x.Call.Args) > 0 {
						if _, isSlice := x.Call.Args[0].Type().Underlying().(*types.Slice); isSlice {
							if _, retSlice := x.Type().Underlying().(*types.Slice); retSlice {
								return fromBuf(x.Call.Args[0])
							}
						}
					}
				}
				return false
			}
			found := false
			for _, b := range f.Blocks {
				for _, in := range b.Instrs {
					c, ok := in.(*ssa.Call)
					if !ok {
						continue
					}
					cn := calleeName(&c.Call)
					if !retaining(cn) {
						continue
					}
					for _, a := range c.Call.Args {
						if _, isSlice := a.Type().Underlying().(*types.Slice); !isSlice {
							continue
						}
						nSinks++
						seen = map[ssa.Value]bool{}
						if fromBuf(a) {
							found = true
							r.bad(short(f.String())+":pooled-buffer-not-retained", r.pos(c), "the bytes of a buffer this function returns to bytebufferpool are handed to "+short(cn)+", which keeps the slice: the body is a view of a recycled buffer — whoever takes the buffer next (logger, handler, another request) overwrites the reply before it is written")
						}
					}
				}
			}
			// … and no view of it leaves through a return value: the caller reads it after the Put
			for _, b := range f.Blocks {
				for _, in := range b.Instrs {
					ret, ok := in.(*ssa.Return)
					if !ok {
						continue
					}
					for _, res := range ret.Results {
						seen = map[ssa.Value]bool{}
						if fromBuf(res) {
							found = true
							r.bad(short(f.String())+":pooled-buffer-not-returned", r.pos(ret), "the function returns a view of a buffer it has handed back to bytebufferpool (without Immutable, (*App).getString converts without copying): whoever takes the buffer next writes into the memory the caller is still reading — bytes of another request end up in this one's reply")
						}
					}
				}
			}
			if !found {
				r.ok(short(f.String())+":pooled-buffer-not-retained", r.P.Pos(f.Pos()), "no retaining setter is fed from the pooled buffer")
			}
		}
		r.atLeast("functions that return a bytebufferpool buffer", nFuncs, 8)
	})

	r.rule("R7", "a fasthttp.RequestCtx taken from a pool is wiped before request code sees it: on every path from the pool's Get to the first hand-over (AcquireCtx, a handler call) the request, the response and the user values (c.Locals) are reset (E1, every function of the module)", func() {
		n := 0
		r.P.AllFuncs("*", func(f *ssa.Function) {
			for _, gc := range callsMatching(f, false, nameIs("(*sync.Pool).Get")) {
				var fctx ssa.Value
				if gc.Value() == nil {
					continue
				}
				for _, ref := range *gc.Value().Referrers() {
					if ta, ok := ref.(*ssa.TypeAssert); ok && strings.HasSuffix(ta.AssertedType.String(), "fasthttp.RequestCtx") {
						fctx = ta
					}
				}
				if fctx == nil {
					continue
				}
				n++
				isUse := func(in ssa.Instruction) bool {
					ci, ok := in.(ssa.CallInstruction)
					if !ok {
						return false
					}
					if _, isDefer := in.(*ssa.Defer); isDefer {
						return false
					}
					nm := calleeName(ci.Common())
					if strings.Contains(nm, "valyala/fasthttp") || nm == "(*sync.Pool).Put" {
						return false
					}
					for _, a := range ci.Common().Args {
						if stripValue(a) == fctx {
							return true
						}
					}
					return false
				}
				for _, w := range []struct{ what, suffix, field string }{
					{"the request", "fasthttp.Request).Reset", "Request"}, {"the response", "fasthttp.Response).Reset", "Response"}, {"the user values (c.Locals)", "fasthttp.RequestCtx).ResetUserValues", ""},
				} {
					isWipe := func(in ssa.Instruction) bool { return isCallTo(in, nameHasSuffix(w.suffix)) }
					_, hit := reach(pointAfter(gc.Instr), isUse, nil, isWipe)
					r.check(hit == nil, fmt.Sprintf("%s:pooled-RequestCtx#%d:resets-%s", short(f.String()), n, strings.Fields(w.what)[1]), r.pos(gc.Instr), w.what+" is reset before the context is handed on",
						"a pooled fasthttp.RequestCtx reaches request code without "+w.what+" being reset: what the previous request left there (for the user values: everything it put into c.Locals) is visible to the next request served with the same object")
				}
			}
		})
		r.atLeast("pools of fasthttp.RequestCtx", n, 1)
	})
}

// staleElementRule: shared by C05-R3 and C12-R4.
func staleElementRule(r *Run) {
	// truncation-reset slice fields of DefaultCtx / Redirect
	type tf struct{ field, resetFn string }
	var trunc []tf
	for _, sp := range []struct{ typ, fn string }{{"DefaultCtx", "(*DefaultCtx).release"}, {"Redirect", "(*Redirect).release"}} {
		f := r.Fn("", sp.fn)
		for _, fr := range fieldRefs(f) {
			if !fr.Write || fr.Val == nil {
				continue
			}
			if sl, ok := fr.Val.(*ssa.Slice); ok && sl.High != nil && isConstInt(sl.High, 0) {
				trunc = append(trunc, tf{fr.Name, sp.fn})
			}
		}
	}
	r.atLeast("truncation-reset slice fields", len(trunc), 2)
	for _, t := range trunc {
		// every place where the address of the field is handed to a callee
		bad := ""
		n := 0
		r.P.AllFuncs("", func(f *ssa.Function) {
			for _, c := range callsIn(f, false) {
				for _, a := range c.Common.Args {
					fa, ok := a.(*ssa.FieldAddr)
					if !ok {
						continue
					}
					fv := fieldVar(fa.X.Type(), fa.Field)
					if fv == nil || fieldOwner(fv)+"."+fv.Name() != t.field {
						continue
					}
					n++
					if at, up := reslicesUp(c.Common.StaticCallee()); up {
						bad = fmt.Sprintf("%s passes &%s to %s, which re-extends it by reslicing (%s)", f.Name(), t.field, short(c.Name), r.pos(at))
					}
				}
			}
			// direct reslice of the field value in fiber code
			for _, b := range f.Blocks {
				for _, in := range b.Instrs {
					sl, ok := in.(*ssa.Slice)
					if !ok || sl.High == nil || asConst(sl.High) != nil {
						continue
					}
					if loadOfField(sl.X, t.field) {
						// reslicing up within capacity: only safe when High <= len (not decidable) — flag unless it is the reset itself
						bad = fmt.Sprintf("%s reslices %s up to a computed bound (%s)", f.Name(), t.field, r.pos(in))
					}
				}
			}
		})
		r.check(bad == "", "stale-elements:"+t.field, r.fpos(r.Fn("", t.resetFn)), fmt.Sprintf("%s is reset by truncation and only ever grown by append of fully built values (%d address hand-offs checked)", t.field, n),
			t.field+" is reset by truncation but re-extended without zeroing: "+bad+" — the element decoder writes only the fields present in the input, so a cookie carrying `\\x91\\x80` (array of one empty map) exposes the previous request's message")
	}
}
