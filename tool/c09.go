package main

import (
	"fmt"
	"go/constant"
	"go/token"
	"sort"
	"strings"

	"golang.org/x/tools/go/ssa"
)

func init() {
	register(&propDef{
		ID: "C09",
		Explain: "Decided clauses (thin): R1 getOffer returns \"\" or an element of its offers argument; Format calls only the handler whose MediaType equals the accepted value, the default handler, or answers 406; " +
			"R2 from the quality == 0 edge a range is never added to the candidates; R3 the insertion condition of sortAcceptedTypes, evaluated on all 81 sign vectors of (quality, specificity, #params, order), is true exactly when the " +
			"element is strictly worse in the order quality desc, specificity desc, params desc, position asc, and the surrounding binary insertion moves lo/hi the right way; R4 no offers ⇒ \"\" and absent header ⇒ first offer, before any parsing; " +
			"R5 a pooled parameter map is cleared before use and not used after it was put back; R6 every weight is parsed from a delimited parameter value (the visitor's value, or a slice proven to contain no further ';'). Not decided (honest not-applicable): the acceptability predicates (acceptsOffer*, paramsMatch), quote/whitespace handling, ParseUfloat itself — value-level semantics.",
		Assume: []string{"keys are touched only through <, ==, > (checked: any other use makes the instance undecided)"},
		Run:    runC09,
	})
}

func runC09(r *Run) {
	r.rule("R1", "result is an offer or nothing (E3 backwards)", func() {
		f := r.Fn("", "getOffer")
		n := 0
		for _, in := range instrsWhere(f, isReturn) {
			n++
			v := retOperand(in.(*ssa.Return), 0)
			// "" or an element of the offers argument — directly, through a phi, or as the answer of a helper of the
			// package that is handed the offers (`matched := firstAcceptedOffer(candidate, isAccepted, offers)`)
			var isOffers func(x ssa.Value, d int) bool
			isOffers = func(x ssa.Value, d int) bool {
				p, isP := stripValue(x).(*ssa.Parameter)
				if !isP || d > 3 {
					return false
				}
				if p.Parent() == f {
					return p.Name() == "offers"
				}
				g := p.Parent()
				calls := staticCallersOf(g)
				if len(calls) == 0 {
					return false
				}
				for i, gp := range g.Params {
					if gp != p {
						continue
					}
					for _, c := range calls {
						if i >= len(c.Call.Args) || !isOffers(c.Call.Args[i], d+1) {
							return false
						}
					}
					return true
				}
				return false
			}
			var offerOrEmpty func(x ssa.Value, d int) (bool, string)
			offerOrEmpty = func(x ssa.Value, d int) (bool, string) {
				x = stripValue(x)
				if d > 4 {
					return false, ""
				}
				if s, isC := constString(asConst(x)); isC && s == "" {
					return true, `""`
				}
				switch y := x.(type) {
				case *ssa.UnOp:
					if y.Op == token.MUL {
						if ia, isIA := y.X.(*ssa.IndexAddr); isIA && isOffers(ia.X, 0) {
							return true, "offers[i]"
						}
					}
				case *ssa.Phi:
					for _, e := range y.Edges {
						if ok, _ := offerOrEmpty(e, d+1); !ok {
							return false, ""
						}
					}
					return len(y.Edges) > 0, `offers[i] or ""`
				case *ssa.Call:
					g := y.Call.StaticCallee()
					if g == nil || g.Pkg != f.Pkg || len(g.Blocks) == 0 {
						return false, ""
					}
					rets := instrsWhereOne(g, isReturn)
					for _, ri := range rets {
						if ok, _ := offerOrEmpty(retOperand(ri.(*ssa.Return), 0), d+1); !ok {
							return false, ""
						}
					}
					return len(rets) > 0, "the answer of " + g.Name() + ` (offers[i] or "")`
				}
				return false, ""
			}
			ok, why := offerOrEmpty(v, 0)
			r.check(ok, fmt.Sprintf("getOffer:return#%d", n), r.pos(in), "returns "+why, "getOffer can return a value that is neither \"\" nor one of the offers")
		}
		r.atLeast("returns", n, 3)
		// Format
		ff := r.Fn("", "(*DefaultCtx).Format")
		acc := callsMatching(ff, false, nameHasSuffix("DefaultCtx).Accepts"))
		r.need(len(acc) == 1, "Format negotiates with Accepts once")
		nh := 0
		for _, c := range callsIn(ff, false) {
			if c.Name != "field:ResFmt.Handler" && c.Name != "var:defaultHandler" && !strings.HasPrefix(c.Name, "dynamic") {
				continue
			}
			if c.Name == "dynamic" {
				// handler loaded from handlers[i].Handler / phi
				if dependsOn(c.Common.Value, func(v ssa.Value) bool { return loadOfField(v, "ResFmt.Handler") }) == nil {
					continue
				}
			}
			nh++
			// classify: under `MediaType == accept`, under accept == "" (default), or header empty (first)
			okEq := false
			for _, br := range branchesIn(ff) {
				if br.Info.Other == nil {
					continue
				}
				eqSlot, isEq := br.slotFor(token.EQL) // `==` taken, or `!=` not taken
				if !isEq {
					continue
				}
				a, b := br.Info.Root, br.Info.Other
				if (loadOfField(a, "ResFmt.MediaType") && b == acc[0].Value()) || (loadOfField(b, "ResFmt.MediaType") && a == acc[0].Value()) {
					tgt := br.If.Block().Succs[eqSlot]
					if len(tgt.Preds) == 1 && dom(tgt, c.Block()) {
						okEq = true
					}
				}
			}
			okDefault := false
			for _, br := range ifsOnValue(ff, acc[0].Value()) {
				if s, ok := constString(br.Info.Const); ok && s == "" {
					if sl, ok := br.slotFor(token.EQL); ok && dom(br.If.Block().Succs[sl], c.Block()) {
						okDefault = true
					}
				}
			}
			okFirst := !dom(acc[0].Block(), c.Block()) // before negotiation: the empty-Accept shortcut
			r.check(okEq || okDefault || okFirst, fmt.Sprintf("Format:handler-call#%d", nh), r.pos(c.Instr), "handler is the one whose MediaType == accepted value, the default handler, or the first one for an empty Accept", "Format can call a handler whose MediaType was not the negotiated one")
		}
		r.atLeast("handler calls in Format", nh, 3)
	})

	r.rule("R2", "q=0 never selects (E1)", func() {
		f := r.Fn("", "getOffer")
		var cl *ssa.Function
		for _, a := range f.AnonFuncs {
			if len(callsMatching(a, false, nameIs("builtin:append"))) > 0 {
				cl = a
			}
		}
		r.need(cl != nil, "the media-range callback")
		n := 0
		for _, br := range branchesIn(cl) {
			if cellName(br.Info.Root) != "quality" && !strings.Contains(br.Info.Root.Name(), "quality") {
				if p, ok := br.Info.Root.(*ssa.Phi); !ok || p.Comment != "quality" {
					continue
				}
			}
			c := br.Info.Const
			if c == nil || c.Value == nil || c.Value.Kind() != constant.Float && c.Value.Kind() != constant.Int {
				continue
			}
			if f64, _ := constant.Float64Val(constant.ToFloat(c.Value)); f64 != 0 {
				continue
			}
			sl, ok := br.slotFor(token.EQL)
			if !ok {
				continue
			}
			n++
			_, hit := reachEdge(edge{br.If.Block(), sl}, func(in ssa.Instruction) bool { return isCallTo(in, nameIs("builtin:append")) }, nil, nil)
			r.check(hit == nil, "getOffer$callback:q0↛candidate", r.pos(br.If), "from quality == 0 the range is not appended to the candidates", "a range with q=0 can still be added to the candidates and select an offer")
		}
		r.atLeast("quality == 0 tests", n, 1)
		// the weight is recognised whatever the letter case of its name (parameter names are case-insensitive, and the
		// literal "q=" of the grammar matches either case): the visitor that parses it compares the name's byte with
		// both 'q' and 'Q', or folds it first
		var visitor *ssa.Function
		for _, a := range anonFuncsDeep(f) {
			if a.Parent() != f && len(callsMatching(a, false, nameHasSuffix("fasthttp.ParseUfloat"))) > 0 {
				visitor = a
			}
		}
		r.need(visitor != nil, "the parameter visitor that parses the weight")
		has := map[int64]bool{}
		foldsName := false
		for _, b := range visitor.Blocks {
			for _, in := range b.Instrs {
				switch x := in.(type) {
				case *ssa.BinOp:
					if x.Op == token.EQL || x.Op == token.NEQ {
						for _, o := range []ssa.Value{x.X, x.Y} {
							if k, ok := constInt(asConst(o)); ok && (k == 'q' || k == 'Q') {
								has[k] = true
							}
						}
					}
					if x.Op == token.OR {
						if k, ok := constInt(asConst(x.Y)); ok && k == 0x20 {
							foldsName = true
						}
					}
				case *ssa.Call:
					n := calleeName(&x.Call)
					if strings.HasSuffix(n, "EqualFold") || strings.Contains(n, "ToLower") && len(x.Call.Args) > 0 {
						if _, isParam := stripValue(x.Call.Args[0]).(*ssa.Parameter); isParam || strings.HasSuffix(n, "EqualFold") {
							foldsName = true
						}
					}
				}
			}
		}
		r.check(foldsName || (has['q'] && has['Q']), "getOffer$visitor:weight-name-any-case", r.fpos(visitor), "the weight's name is matched in either letter case",
			"the weight is recognised only when its name is a lower-case q: in `text/html;level=1;Q=0` the Q becomes a media-type parameter the offer must carry, the weight stays 1 — a refused range is not refused, and a range with Q=0.5 selects nothing")
	})

	r.rule("R3", "preference order: insertion condition ≡ 'strictly worse' on all 81 sign vectors (E6)", func() {
		f := r.Fn("", "sortAcceptedTypes")
		// mid = (lo+hi)/2
		var mid ssa.Value
		for _, b := range f.Blocks {
			for _, in := range b.Instrs {
				if bo, ok := in.(*ssa.BinOp); ok && bo.Op == token.QUO && isConstInt(bo.Y, 2) {
					mid = bo
				}
			}
		}
		r.need(mid != nil, "binary insertion computes mid = (lo+hi)/2")
		start := mid.(ssa.Instruction).Block()
		// terminal blocks: the one computing mid+1 (condition true → lo = mid+1) and mid-1
		var tBlock, fBlock *ssa.BasicBlock
		for _, b := range f.Blocks {
			for _, in := range b.Instrs {
				if bo, ok := in.(*ssa.BinOp); ok && bo.X == mid && isConstInt(bo.Y, 1) {
					if bo.Op == token.ADD {
						tBlock = b
					}
					if bo.Op == token.SUB {
						fBlock = b
					}
				}
			}
		}
		r.need(tBlock != nil && fBlock != nil, "lo = mid+1 / hi = mid-1 arms")
		keys := []string{"acceptedType.quality", "acceptedType.specificity", "len(acceptedType.params)", "acceptedType.order"}
		// sideOf: which element a base pointer denotes: 0 = element i, 1 = element mid, -1 unknown.
		type sideFn func(base ssa.Value) int
		callerSide := func(base ssa.Value) int {
			ia, ok := base.(*ssa.IndexAddr)
			if !ok {
				return -1
			}
			if ia.Index == mid {
				return 1
			}
			return 0
		}
		keyOf := func(v ssa.Value, side sideFn) (key int, sd int) {
			name := ""
			var base ssa.Value
			v = stripValue(v)
			if c, ok := v.(*ssa.Call); ok && calleeName(&c.Call) == "builtin:len" {
				inner := stripValue(c.Call.Args[0])
				if fv := fieldOfValue(inner); fv != nil {
					if u, ok := inner.(*ssa.UnOp); ok {
						if fa, ok := u.X.(*ssa.FieldAddr); ok {
							name = "len(" + fieldOwner(fv) + "." + fv.Name() + ")"
							base = fa.X
						}
					}
				}
			} else if fv := fieldOfValue(v); fv != nil {
				if u, ok := v.(*ssa.UnOp); ok {
					if fa, ok := u.X.(*ssa.FieldAddr); ok {
						name = fieldOwner(fv) + "." + fv.Name()
						base = fa.X
					}
				}
			}
			key = -1
			for i, k := range keys {
				if k == name {
					key = i
				}
			}
			if base == nil {
				return -1, -1
			}
			return key, side(base)
		}
		// evalCond evaluates a boolean value under the sign vector; prev is the block control came from (for phis).
		var evalFn func(fn *ssa.Function, signs [4]int, side sideFn, depth int) (bool, string)
		var evalCond func(v ssa.Value, prev *ssa.BasicBlock, signs [4]int, side sideFn, depth int) (bool, string)
		evalCond = func(v ssa.Value, prev *ssa.BasicBlock, signs [4]int, side sideFn, depth int) (bool, string) {
			if bv, ok := constBool(asConst(v)); ok {
				return bv, ""
			}
			if u, ok := v.(*ssa.UnOp); ok && u.Op == token.NOT {
				x, why := evalCond(u.X, prev, signs, side, depth)
				return !x, why
			}
			if ph, ok := v.(*ssa.Phi); ok {
				for i, p := range ph.Block().Preds {
					if p == prev {
						return evalCond(ph.Edges[i], nil, signs, side, depth)
					}
				}
				return false, "phi without a known predecessor"
			}
			if c, ok := v.(*ssa.Call); ok {
				g := transparentCallee(c.Parent(), c)
				if g == nil || depth > 2 {
					return false, "condition calls an opaque function"
				}
				// the helper's parameters denote the elements its arguments denote
				inner := func(base ssa.Value) int {
					if p, ok := base.(*ssa.Parameter); ok {
						for i, gp := range g.Params {
							if gp == p && i < len(c.Call.Args) {
								return side(c.Call.Args[i])
							}
						}
					}
					return -1
				}
				return evalFn(g, signs, inner, depth+1)
			}
			bo, ok := v.(*ssa.BinOp)
			if !ok {
				return false, "condition is not a comparison of two keys"
			}
			ka, sa := keyOf(bo.X, side)
			kb, sb := keyOf(bo.Y, side)
			if ka < 0 || ka != kb || sa == sb || sa < 0 || sb < 0 {
				return false, "operands are not the same key of element i and element mid"
			}
			sign := signs[ka] // sign of key_i - key_mid
			if sa == 1 {      // X is mid: X-Y = -(i-mid)
				sign = -sign
			}
			switch bo.Op {
			case token.LSS:
				return sign < 0, ""
			case token.LEQ:
				return sign <= 0, ""
			case token.GTR:
				return sign > 0, ""
			case token.GEQ:
				return sign >= 0, ""
			case token.EQL:
				return sign == 0, ""
			case token.NEQ:
				return sign != 0, ""
			}
			return false, "arithmetic on keys"
		}
		// evalFn runs a boolean helper to its Return under the sign vector
		evalFn = func(fn *ssa.Function, signs [4]int, side sideFn, depth int) (bool, string) {
			b := fn.Blocks[0]
			var prev *ssa.BasicBlock
			for steps := 0; steps < 64; steps++ {
				switch t := b.Instrs[len(b.Instrs)-1].(type) {
				case *ssa.Return:
					if len(t.Results) != 1 {
						return false, "helper does not return one boolean"
					}
					return evalCond(retOperand(t, 0), prev, signs, side, depth)
				case *ssa.If:
					x, why := evalCond(t.Cond, prev, signs, side, depth)
					if why != "" {
						return false, why
					}
					prev = b
					if x {
						b = b.Succs[0]
					} else {
						b = b.Succs[1]
					}
				case *ssa.Jump:
					prev = b
					b = b.Succs[0]
				default:
					return false, "unexpected block shape in helper"
				}
			}
			return false, "helper did not return"
		}
		eval := func(signs [4]int) (result int, why string) { // 1 = true arm, 0 = false arm, -1 undecided
			b := start
			var prev *ssa.BasicBlock
			for steps := 0; steps < 64; steps++ {
				if b == tBlock {
					return 1, ""
				}
				if b == fBlock {
					return 0, ""
				}
				iff, ok := b.Instrs[len(b.Instrs)-1].(*ssa.If)
				if !ok {
					if len(b.Succs) == 1 {
						prev = b
						b = b.Succs[0]
						continue
					}
					return -1, "unexpected block shape"
				}
				x, why := evalCond(iff.Cond, prev, signs, callerSide, 0)
				if why != "" {
					return -1, why
				}
				prev = b
				if x {
					b = b.Succs[0]
				} else {
					b = b.Succs[1]
				}
			}
			return -1, "no terminal arm reached"
		}
		bad := ""
		n := 0
		for q := -1; q <= 1; q++ {
			for s := -1; s <= 1; s++ {
				for p := -1; p <= 1; p++ {
					for o := -1; o <= 1; o++ {
						n++
						got, why := eval([4]int{q, s, p, o})
						// spec: i strictly worse than mid ⇔ lexicographic (quality desc, specificity desc, params desc, order asc)
						want := 0
						switch {
						case q != 0:
							if q < 0 {
								want = 1
							}
						case s != 0:
							if s < 0 {
								want = 1
							}
						case p != 0:
							if p < 0 {
								want = 1
							}
						case o != 0:
							if o > 0 {
								want = 1
							}
						}
						if got == -1 {
							bad = "undecided: " + why
						} else if got != want && bad == "" {
							bad = fmt.Sprintf("for signs (quality,specificity,params,order)=(%d,%d,%d,%d) the element is treated as worse=%v, RFC 9110 order says %v", q, s, p, o, got == 1, want == 1)
						}
					}
				}
			}
		}
		r.Extra["sign_vectors_evaluated"] = n
		r.check(bad == "", "sortAcceptedTypes:insertion-condition", r.fpos(f), "81/81 sign vectors agree with quality desc, specificity desc, params desc, order asc (strict)", "the insertion condition does not implement the RFC 9110 preference order: "+bad)
		// binary insertion skeleton: loop on lo <= hi, rotation down to lo
		okLoop := false
		for _, br := range branchesIn(f) {
			if br.Info.Op == token.LEQ && br.Info.Other != nil {
				okLoop = true
			}
		}
		r.check(okLoop, "sortAcceptedTypes:search-loop", r.fpos(f), "the search loop runs while lo <= hi", "the binary search loop condition changed")
	})

	r.rule("R4", "no offers ⇒ \"\"; absent header ⇒ first offer; both before parsing (E1)", func() {
		f := r.Fn("", "getOffer")
		parse := callsMatching(f, false, nameHasSuffix("forEachMediaRange"))
		r.need(len(parse) == 1, "getOffer parses with forEachMediaRange")
		for _, spec := range []struct {
			param string
			want  string
		}{{"offers", `""`}, {"header", "offers[0]"}} {
			var br *branch
			for _, b := range branchesIn(f) {
				b := b
				if c, ok := b.Info.Root.(*ssa.Call); ok && calleeName(&c.Call) == "builtin:len" {
					if p, ok := c.Call.Args[0].(*ssa.Parameter); ok && p.Name() == spec.param && isConstInt(asConst(b.Info.Const), 0) {
						br = &b
					}
				}
			}
			if br == nil {
				r.bad("getOffer:empty-"+spec.param, r.fpos(f), "no test of len("+spec.param+") == 0")
				continue
			}
			sl, _ := br.slotFor(token.EQL)
			_, hit := reachEdge(edge{br.If.Block(), sl}, func(in ssa.Instruction) bool { return in == parse[0].Instr }, nil, nil)
			okRet := false
			tb := br.If.Block().Succs[sl]
			if ret, ok := tb.Instrs[len(tb.Instrs)-1].(*ssa.Return); ok {
				v := retOperand(ret, 0)
				if spec.want == `""` {
					s, isC := constString(asConst(v))
					okRet = isC && s == ""
				} else if u, ok := v.(*ssa.UnOp); ok {
					if ia, ok := u.X.(*ssa.IndexAddr); ok {
						okRet = isConstInt(ia.Index, 0)
					}
				}
			}
			r.check(hit == nil && okRet && dom(br.If.Block(), parse[0].Block()), "getOffer:empty-"+spec.param, r.pos(br.If), "len("+spec.param+") == 0 returns "+spec.want+" before any parsing", "the empty-"+spec.param+" shortcut is wrong or happens after parsing")
		}
	})

	r.rule("R5", "pooled parameter maps: cleared before reuse, not used after Put (E4a/E1)", func() { pooledParamMapRule(r) })

	r.rule("R12", "the request and response views negotiate like the context: Req().Accepts / AcceptsCharsets / AcceptsEncodings / AcceptsLanguages and Res().Format / AutoFormat each answer by the context method of the same name on the same offers (sibling agreement between the two spellings of one API)", func() {
		viewDelegatesByNameRule(r, "DefaultReq", []string{"Accepts", "AcceptsCharsets", "AcceptsEncodings", "AcceptsLanguages"}, "c.Req()."+"AcceptsLanguages(\"en\",\"de\",\"fr\") would be negotiated against another header (Accept-Encoding) than c.AcceptsLanguages — a missing Accept-Language no longer selects the first offer, a language refused with q=0 can be selected")
		viewDelegatesByNameRule(r, "DefaultRes", []string{"Format", "AutoFormat"}, "the response view would format by another method than the context")
	})

	r.rule("R11", "a parameter map goes back to the pool once: the maps of the parsed ranges are handed back by one loop over the ranges (each range when the selection is done with it) — a second sweep over the list (`release all` at the match) hands back the maps of ranges that were already rejected a second time, two later ranges then share one map and the second overwrites the first one's parameters (E1 pairing)", func() {
		f := r.Fn("", "getOffer")
		type loopKey struct {
			fn  *ssa.Function
			hdr *ssa.BasicBlock
		}
		loops := map[loopKey]string{}
		n := 0
		for _, c := range callsIn(f, false) {
			if c.Name != "(*sync.Pool).Put" || len(c.Common.Args) != 2 {
				continue
			}
			var elem *ssa.IndexAddr
			dependsOn(c.Common.Args[1], func(v ssa.Value) bool {
				ia, ok := v.(*ssa.IndexAddr)
				if ok && strings.HasSuffix(ia.X.Type().String(), ".acceptedType") {
					elem = ia
					return true
				}
				return false
			})
			if elem == nil {
				continue
			}
			n++
			hdr := elem.Block()
			if ph, ok := elem.Index.(*ssa.Phi); ok {
				hdr = ph.Block()
			} else if bo, ok := elem.Index.(*ssa.BinOp); ok {
				if ph, ok := bo.X.(*ssa.Phi); ok {
					hdr = ph.Block()
				}
			}
			loops[loopKey{c.Instr.Parent(), hdr}] = r.pos(c.Instr)
		}
		r.atLeast("Put sites for the maps of parsed ranges", n, 1)
		var where []string
		for _, p := range loops {
			where = append(where, p)
		}
		sort.Strings(where)
		r.check(len(loops) == 1, "getOffer:range-maps-handed-back-by-one-loop", r.fpos(f), "every Put of a range's map belongs to the one loop that walks the ranges",
			"the maps of the parsed ranges are handed back in "+fmt.Sprint(len(loops))+" different loops over the list ("+strings.Join(where, ", ")+"): a range rejected earlier has its map put back twice, the pool hands the same map to two ranges of a later header and the second overwrites the first one's parameters — a range selects an offer that lacks its parameters")
	})

	r.rule("R10", "a type wildcard compares whole types: where acceptsOfferType tests one media type for being a prefix of the other, the prefix is cut behind the `/` (an index of '/' plus at least one) — a prefix cut in front of the separator makes `t/*` accept text/html and the offer text/* answer for textual/html (E5, offsets)", func() {
		f := r.Fn("", "acceptsOfferType")
		n := 0
		for _, c := range callsMatching(f, false, nameIs("strings.HasPrefix")) {
			sl, ok := c.Common.Args[1].(*ssa.Slice)
			if !ok || sl.High == nil {
				continue
			}
			n++
			v, k := splitOffset(sl.High)
			isSlashIndex := false
			if ic, ok := stripValue(v).(*ssa.Call); ok && (calleeName(&ic.Call) == "strings.IndexByte" || calleeName(&ic.Call) == "strings.Index") && len(ic.Call.Args) == 2 {
				if kk, isInt := constInt(asConst(stripValue(ic.Call.Args[1]))); isInt && kk == '/' {
					isSlashIndex = true
				}
				if literalIs(ic.Call.Args[1], "/") {
					isSlashIndex = true
				}
			}
			r.check(isSlashIndex && k >= 1, fmt.Sprintf("acceptsOfferType:type-prefix#%d:includes-the-separator", n), r.pos(c.Instr), "the compared prefix ends behind the '/'",
				"a media type is compared with the other one's text in front of the `/` only: the bare type is a prefix test, so the range t/* (or app/*) accepts text/html (application/json) and the offer text/* is selected for textual/html")
		}
		r.atLeast("type-prefix comparisons in acceptsOfferType", n, 1)
	})

	r.rule("R9", "a pooled parameter map is handed back once: a loop that returns the maps of the remaining ranges, run after the current range's own map went back, starts behind the current range (a map put into the pool twice is handed to two ranges of a later header, whose parameters overwrite each other) (E10)", func() {
		f := r.Fn("", "getOffer")
		type put struct {
			in   ssa.Instruction
			elem *ssa.IndexAddr // the slice element whose params field is handed back
		}
		var puts []put
		for _, c := range callsMatching(f, false, nameIs("(*sync.Pool).Put")) {
			d := dependsOn(c.Common.Args[len(c.Common.Args)-1], func(v ssa.Value) bool {
				fv := fieldOfValue(v)
				return fv != nil && fv.Name() == "params"
			})
			if d == nil {
				continue
			}
			var ia *ssa.IndexAddr
			elemOf := func(base ssa.Value) *ssa.IndexAddr {
				switch b := base.(type) {
				case *ssa.IndexAddr:
					return b
				case *ssa.Alloc: // a copy of the element kept in a local (the range value)
					for _, st := range storesInto(b) {
						if ld, ok := st.Val.(*ssa.UnOp); ok {
							if e, ok := ld.X.(*ssa.IndexAddr); ok {
								return e
							}
						}
					}
				}
				return nil
			}
			switch x := d.(type) {
			case *ssa.UnOp: // load of &elem.params
				if fa, ok := x.X.(*ssa.FieldAddr); ok {
					ia = elemOf(fa.X)
				}
			case *ssa.FieldAddr:
				ia = elemOf(x.X)
			case *ssa.Field: // field of a copied element (range value)
				if ld, ok := x.X.(*ssa.UnOp); ok {
					ia, _ = ld.X.(*ssa.IndexAddr)
				}
			}
			puts = append(puts, put{c.Instr, ia})
		}
		r.atLeast("hand-backs of a range's parameter map", len(puts), 1)
		bad := ""
		pairs := 0
		for _, p1 := range puts {
			for _, p2 := range puts {
				if p1.in == p2.in || p1.elem == nil || p2.elem == nil {
					continue
				}
				if _, hit := reach(pointAfter(p1.in), func(in ssa.Instruction) bool { return in == p2.in }, nil, isReturn); hit == nil {
					continue
				}
				// p2 walks a re-slice of the list p1's element belongs to?
				sl, ok := p2.elem.X.(*ssa.Slice)
				if !ok || !sameValue(sl.X, p1.elem.X) {
					continue
				}
				pairs++
				if sl.Low == nil {
					bad = r.pos(p2.in)
					continue
				}
				v2, c2 := splitOffset(sl.Low)
				v1, c1 := splitOffset(p1.elem.Index)
				if sameValue(v1, v2) && c2-c1 < 1 {
					bad = r.pos(p2.in)
				}
			}
		}
		r.count("hand-back loops that follow another hand-back", pairs)
		r.check(bad == "", "getOffer:maps-handed-back-once", r.fpos(f), "no loop over the remaining ranges includes the range whose map was already handed back",
			"the loop at "+bad+" returns the maps of the ranges from the current one on, after the current range's map was already put into the pool: the same map is in the pool twice, a later header with two parameterised ranges receives it for both, and the second range's parameters overwrite the first's")
	})

	r.rule("R6", "a weight is parsed from a delimited parameter value: ParseUfloat sees the visitor's value or a slice proven to hold no further ';' (E1)", func() {
		f := r.Fn("", "getOffer")
		fs := append([]*ssa.Function{f}, anonFuncsDeep(f)...)
		// closures handed to the header-parameter visitor: their value parameter is delimited by fasthttp
		visitorCb := map[*ssa.Function]bool{}
		for _, g := range fs {
			for _, c := range callsMatching(g, false, nameHasSuffix("fasthttp.VisitHeaderParams")) {
				for _, a := range c.Common.Args {
					if mc, ok := a.(*ssa.MakeClosure); ok {
						visitorCb[mc.Fn.(*ssa.Function)] = true
					} else if fn, ok := a.(*ssa.Function); ok {
						visitorCb[fn] = true
					}
				}
			}
		}
		n := 0
		for _, g := range fs {
			for _, c := range callsMatching(g, false, nameHasSuffix("fasthttp.ParseUfloat")) {
				n++
				arg := stripValue(c.Common.Args[0])
				okArg, how := false, ""
				if p, isP := arg.(*ssa.Parameter); isP && visitorCb[g] {
					okArg, how = true, "the visitor's "+p.Name()
				}
				if sl, isS := arg.(*ssa.Slice); isS && !okArg {
					if sl.High != nil {
						if dependsOn(sl.High, func(v ssa.Value) bool {
							cc, ok := v.(*ssa.Call)
							return ok && strings.HasSuffix(calleeName(&cc.Call), ".IndexByte")
						}) != nil {
							okArg, how = true, "a slice that ends at the next delimiter"
						}
					} else {
						cut := map[edge]bool{}
						// a search for the next ';' in the same open slice, however it is written (IndexByte == -1, !Contains, …)
						for _, bs := range byteSearchesIn(g, ';') {
							hay, isSl := bs.call.Common.Args[0].(*ssa.Slice)
							if !isSl || hay.High != nil || !sameValue(hay.X, sl.X) || !sameValue(hay.Low, sl.Low) {
								continue
							}
							for _, e := range bs.notFound {
								cut[e] = true
							}
						}
						if len(cut) > 0 {
							if _, hit := reach(entryOf(g), func(in ssa.Instruction) bool { return in == c.Instr }, cut, nil); hit == nil {
								okArg, how = true, "an open slice reached only when no further ';' follows"
							}
						}
					}
				}
				r.check(okArg, fmt.Sprintf("%s:q-value-delimited#%d", short(g.String()), n), r.pos(c.Instr), "ParseUfloat is given "+how,
					"the weight parser is handed text that may run into the next parameter (`;q=0;level=1`): ParseUfloat fails, the error is dropped and the range keeps q=1 — a range the client refused (q=0) or ranked low selects an offer")
			}
		}
		r.atLeast("ParseUfloat call sites", n, 2)
	})

	r.rule("R7", "the list scanner hands out clean ranges: trailing optional whitespace is cut off before the callback, and the quoted-pair flag never survives a character unchanged (E7/E3)", func() {
		f := r.Fn("", "forEachMediaRange")
		// (a) what the callback receives went through a right trim
		n := 0
		for _, c := range callsIn(f, false) {
			if _, isParam := c.Common.Value.(*ssa.Parameter); !isParam || c.Common.IsInvoke() {
				continue
			}
			n++
			arg := c.Common.Args[0]
			trimmed := dependsOn(arg, func(v ssa.Value) bool {
				switch x := v.(type) {
				case *ssa.Call:
					nm := calleeName(&x.Call)
					return strings.Contains(nm, "TrimRight") || strings.HasSuffix(nm, ".TrimSpace") || strings.HasSuffix(nm, "utils/v2.Trim") || strings.HasSuffix(nm, "bytes.Trim")
				case *ssa.Slice:
					// x[:len(x)-1] under a loop: the hand-written right trim
					if x.High != nil {
						if bo, ok := x.High.(*ssa.BinOp); ok && bo.Op == token.SUB && isConstInt(bo.Y, 1) {
							if lc, ok := bo.X.(*ssa.Call); ok && calleeName(&lc.Call) == "builtin:len" {
								return true
							}
						}
					}
				}
				return false
			}) != nil
			r.check(trimmed, fmt.Sprintf("forEachMediaRange:callback#%d:right-trimmed", n), r.pos(c.Instr), "the range handed to the callback has its trailing blanks removed",
				"a media range is handed on with the optional whitespace that precedes the comma: `text/html;q=0 , text/plain` yields the weight text `0 `, ParseUfloat fails, the error is dropped and the range keeps q=1 — a range the client refused selects an offer")
		}
		r.atLeast("callback invocations", n, 1)
		// (b) the escape flag
		var esc *ssa.Phi
		for _, b := range f.Blocks {
			for _, in := range b.Instrs {
				if ph, ok := in.(*ssa.Phi); ok && ph.Comment == "escaping" {
					// the loop-carried one: has an edge from a block it dominates
					for i := range ph.Edges {
						if dom(ph.Block(), ph.Block().Preds[i]) {
							esc = ph
						}
					}
				}
			}
		}
		if esc == nil {
			r.ok("forEachMediaRange:escape-flag", r.fpos(f), "no loop-carried quoted-pair flag")
			return
		}
		loop := map[*ssa.BasicBlock]bool{}
		for _, b := range f.Blocks {
			if dom(esc.Block(), b) {
				loop[b] = true
			}
		}
		keeps := false
		for _, lf := range leavesOf(esc, loop) {
			v := lf.Val
			if u, ok := v.(*ssa.UnOp); ok && u.Op == token.NOT {
				v = u.X
			}
			if v == ssa.Value(esc) {
				keeps = true
			}
		}
		r.check(!keeps, "forEachMediaRange:escape-flag", r.pos(esc), "every iteration gives the quoted-pair flag a fresh value (set by a backslash, cleared otherwise)",
			"the quoted-pair flag is carried over unchanged by characters other than a backslash: after `\\\"` inside a quoted parameter value the closing quote is not counted, the following comma is swallowed and the remaining ranges of the header are lost")
	})

	r.rule("R8", "a media range accepts an offer only with its parameters: acceptsOfferType answers true only as the result of paramsMatch(the range's parameters, …) (E1)", func() {
		f := r.Fn("", "acceptsOfferType")
		var specParams ssa.Value
		for _, p := range f.Params {
			if strings.HasSuffix(p.Type().String(), "headerParams") {
				specParams = p
			}
		}
		r.need(specParams != nil, "acceptsOfferType takes the range's headerParams")
		isPM := func(v ssa.Value) bool {
			c, ok := v.(*ssa.Call)
			return ok && strings.HasSuffix(calleeName(&c.Call), "fiber/v3.paramsMatch") && len(c.Call.Args) == 2 && stripValue(c.Call.Args[0]) == specParams
		}
		cut := map[edge]bool{}
		n := 0
		for _, b := range f.Blocks {
			for _, in := range b.Instrs {
				if v, ok := in.(ssa.Value); ok && isPM(v) {
					n++
					for _, e := range trueEdgesOf(f, v) {
						cut[e] = true
					}
				}
			}
		}
		r.atLeast("paramsMatch calls on the range's parameters", n, 1)
		r.check(trueOnlyBehind(f, cut, isPM), "acceptsOfferType:true-only-with-paramsMatch", r.fpos(f), fmt.Sprintf("every true answer is (or lies behind) one of %d paramsMatch(specParams, offerParams) results", n),
			"acceptsOfferType can answer true without comparing the range's parameters with the offer's: a range such as */*;version=2 or text/*;charset=x selects an offer that lacks the parameter")
	})
}

// pooledParamMapRule is shared by C09-R5 and C05-R5: a map taken from headerParamPool must be empty
// when it is filled — either it is cleared on every path between Get and the fill, or every Put into the
// pool is preceded by a clearing loop over the same map.
func pooledParamMapRule(r *Run) {
	f := r.Fn("", "getOffer")
	var cl *ssa.Function
	for _, a := range f.AnonFuncs {
		if len(callsMatching(a, false, nameIs("(*sync.Pool).Get"))) > 0 {
			cl = a
		}
	}
	r.need(cl != nil, "the callback takes maps from headerParamPool")
	get := callsMatching(cl, false, nameIs("(*sync.Pool).Get"))[0]
	visit := callsMatching(cl, false, nameHasSuffix("fasthttp.VisitHeaderParams"))
	r.need(len(visit) == 1, "the callback fills the map with VisitHeaderParams")
	// a range over a map whose body deletes must sit on every path from Get to the fill
	// … or the clear builtin applied to the map that came out of the pool
	var clearHdr *ssa.BasicBlock
	for _, mr := range mapRangesIn(cl) {
		for b := range mr.Loop {
			for _, in := range b.Instrs {
				if isCallTo(in, nameIs("builtin:delete")) {
					clearHdr = mr.Header
				}
			}
		}
	}
	fromGet := func(v ssa.Value) bool {
		return dependsOn(v, func(x ssa.Value) bool { return x == get.Value() }) != nil
	}
	isClearing := func(in ssa.Instruction) bool {
		if clearHdr != nil && in.Block() == clearHdr {
			return true
		}
		if ci, ok := in.(ssa.CallInstruction); ok && calleeName(ci.Common()) == "builtin:clear" && len(ci.Common().Args) == 1 {
			return fromGet(ci.Common().Args[0])
		}
		return false
	}
	_, hitC := reach(pointAfter(get.Instr), func(in ssa.Instruction) bool { return in == visit[0].Instr }, nil, isClearing)
	okClear := hitC == nil
	puts := callsMatching(f, true, nameIs("(*sync.Pool).Put"))
	// alternative discipline: cleared before every Put (in the function doing the Put)
	okPutClear := len(puts) > 0
	for _, p := range puts {
		v := stripValue(p.Common.Args[1])
		cleared := false
		for _, c := range callsMatching(p.Fn, false, nameIs("builtin:clear")) {
			if len(c.Common.Args) == 1 && stripValue(c.Common.Args[0]) == v {
				if _, hit := reach(entryOf(p.Fn), func(x ssa.Instruction) bool { return x == p.Instr }, nil, func(x ssa.Instruction) bool { return x == c.Instr }); hit == nil {
					cleared = true
				}
			}
		}
		for _, mr := range mapRangesIn(p.Fn) {
			if stripValue(mr.Range.X) != v {
				continue
			}
			for b := range mr.Loop {
				for _, in := range b.Instrs {
					if isCallTo(in, nameIs("builtin:delete")) {
						if _, hit := reach(entryOf(p.Fn), func(x ssa.Instruction) bool { return x == p.Instr }, nil, func(x ssa.Instruction) bool { return x.Block() == mr.Header }); hit == nil {
							cleared = true
						}
					}
				}
			}
		}
		if !cleared {
			okPutClear = false
		}
	}
	r.check(okClear || okPutClear, "getOffer$callback:pooled-map-cleared", r.pos(get.Instr), "the pooled map is cleared on every path from pool.Get to the fill (or before every Put)", "a pooled parameter map can be used without being cleared: parameters of an earlier request's Accept header take part in matching (e.g. after `text/html;level=1;q=0` the next parameterised range inherits level=1)")
	puts = callsMatching(f, false, nameIs("(*sync.Pool).Put"))
	r.atLeast("Put sites", len(puts), 1)
	for i, p := range puts {
		// after Put: return, or the next candidate — never the acceptance predicate with the same candidate
		var outer *ssa.BasicBlock
		for _, b := range f.Blocks {
			if b.Comment == "rangeindex.loop" && dom(b, p.Block()) && (outer == nil || dom(outer, b)) {
				if outer == nil {
					outer = b
				}
			}
		}
		_, hit := reach(pointAfter(p.Instr), func(in ssa.Instruction) bool { return isCallTo(in, nameIs("var:isAccepted")) }, nil, func(in ssa.Instruction) bool { return outer != nil && in.Block() == outer })
		r.check(hit == nil, fmt.Sprintf("getOffer:no-use-after-put#%d", i+1), r.pos(p.Instr), "after Put the map is not passed to the acceptance predicate again before the next candidate", "a parameter map is used after it was returned to the pool")
	}
}
