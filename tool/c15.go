package main

import (
	"fmt"
	"go/token"
	"go/types"
	"strings"

	"golang.org/x/tools/go/ssa"
)

func init() {
	register(&propDef{
		ID: "C15",
		Explain: "Decided clauses: R1 in getSession a storage miss can reach the assignment of the session id only through the key generator (constant propagation of the cleared id along the path), and GetByID returns not-found on a miss; " +
			"R2 Regenerate/Reset/Destroy delete the old id from the storage successfully before the new id / cookie removal, and clear the data first; R3 pooled Session, Middleware and data objects are completely re-initialised across release+acquire; " +
			"R4 the middleware epilogue saves unless destroyed, always releases the middleware object, and Store.Get refuses when the middleware owns the session; R5 the non-data fields of Session and Middleware are written only with the object's mutex held " +
			"(or before publication); R6 the storage TTL is the idle timeout and the absolute deadline is set on fresh sessions and tested on every load. " +
			"Not decided: conformance to the session state machine over operation sequences, clocks, storage TTL behaviour, gob round trip.",
		Assume: []string{"sync.RWMutex provides mutual exclusion", "Storage.Get returns nil data for unknown ids"},
		Run:    runC15,
	})
}

const sessPkg = "middleware/session"

func runC15(r *Run) {
	g := r.P.Graph()
	_ = g
	isKeyGen := func(in ssa.Instruction) bool {
		return isCallTo(in, nameIs("field:session.Config.KeyGenerator"))
	}
	storeOfField := func(f *ssa.Function, name string) []ssa.Instruction {
		var out []ssa.Instruction
		for _, fr := range fieldRefs(f) {
			if fr.Write && fr.Name == name {
				out = append(out, fr.Instr)
			}
		}
		return out
	}

	r.rule("R1", "no adoption of an id the server did not issue (E1 with constant propagation along the path)", func() {
		f := r.Fn(sessPkg, "(*Store).getSession")
		gets := callsMatching(f, false, nameHasSuffix("v3.Storage).Get"))
		r.need(len(gets) == 1, "getSession calls Storage.Get once")
		idStores := storeOfField(f, "session.Session.id")
		r.need(len(idStores) == 1, "getSession assigns Session.id once")
		isIDStore := func(in ssa.Instruction) bool { return in == idStores[0] }
		var miss []edge
		for _, br := range branchesIn(f) {
			if e, ok := stripValue(br.Info.Root).(*ssa.Extract); ok && e.Tuple == gets[0].Value() && e.Index == 0 {
				if s, ok := br.nilSlot(true); ok {
					miss = append(miss, edge{br.If.Block(), s})
				}
			}
		}
		r.need(len(miss) >= 1, "getSession tests the loaded data for nil")
		// the first nil test (directly after the load) is the miss edge
		ok := true
		var wit string
		for _, e := range miss {
			if !dom(gets[0].Block(), e.From) {
				continue
			}
			path, hit := reachEdge(e, isIDStore, nil, isKeyGen)
			if hit != nil {
				ok = false
				wit = pathString(r.P, path)
			}
		}
		r.check(ok, "getSession:miss⇒generated-id", r.pos(idStores[0]), "after a storage miss the id assignment is reachable only through KeyGenerator()",
			"after a storage miss the client-presented id can be assigned to the session (session fixation): "+wit)
		// belief: an id found in the request locals is treated as fresh (`fresh := ok`), so only generated ids may be written there
		n15 := 0
		for _, c := range callsMatching(f, false, nameHasSuffix(".Ctx).Locals")) {
			// setter form: Locals(key, value...) with a non-empty variadic
			if len(c.Common.Args) < 2 {
				continue
			}
			sl, isSlice := c.Common.Args[1].(*ssa.Slice)
			if !isSlice {
				continue
			}
			n15++
			_, hit := reach(entryOf(f), func(in ssa.Instruction) bool { return in == c.Instr }, nil, isKeyGen)
			_ = sl
			r.check(hit == nil, "getSession:locals-cache-only-generated-ids", r.pos(c.Instr), "the id is cached in the request locals only after it was generated",
				"getSession caches a client-presented id in the request locals, where a later lookup in the same request takes it as fresh: the absolute deadline is re-stamped (never expires) and a second store ignores its own cookie")
		}
		r.atLeast("locals writes in getSession", n15, 1)
		// storage error → no session
		var errE []edge
		for _, br := range branchesIn(f) {
			if e, ok := stripValue(br.Info.Root).(*ssa.Extract); ok && e.Tuple == gets[0].Value() && e.Index == 1 {
				if s, ok := br.nilSlot(false); ok {
					errE = append(errE, edge{br.If.Block(), s})
				}
			}
		}
		okErr := len(errE) > 0
		for _, e := range errE {
			if _, hit := reachEdge(e, isIDStore, nil, nil); hit != nil {
				okErr = false
			}
		}
		r.check(okErr, "getSession:storage-error⇒no-session", r.pos(gets[0].Instr), "a storage error returns without building a session", "a storage error still yields a session")
		// GetByID
		gb := r.Fn(sessPkg, "(*Store).GetByID")
		g2 := callsMatching(gb, false, nameHasSuffix("v3.Storage).Get"))
		r.need(len(g2) == 1, "GetByID calls Storage.Get once")
		ids2 := storeOfField(gb, "session.Session.id")
		okG := len(ids2) == 1
		for _, br := range branchesIn(gb) {
			if e, ok := stripValue(br.Info.Root).(*ssa.Extract); ok && e.Tuple == g2[0].Value() && e.Index == 0 {
				if s, ok := br.nilSlot(true); ok {
					if _, hit := reachEdge(edge{br.If.Block(), s}, func(in ssa.Instruction) bool { return len(ids2) == 1 && in == ids2[0] }, nil, nil); hit != nil {
						okG = false
					}
				}
			}
		}
		r.check(okG, "GetByID:miss⇒not-found", r.fpos(gb), "an unknown id yields no session", "GetByID builds a session for an id that is not in the store")
	})

	r.rule("R2", "the old id dies first: successful Storage.Delete precedes refresh/delSession; data cleared before (E1/E10)", func() {
		for _, spec := range []struct {
			fn     string
			after  []string
			clears bool
		}{
			{"(*Session).Regenerate", []string{"session.Session).refresh"}, false},
			{"(*Session).Reset", []string{"session.Session).refresh", "session.Session).delSession"}, true},
			{"(*Session).Destroy", []string{"session.Session).delSession"}, true},
		} {
			f := r.Fn(sessPkg, spec.fn)
			del := callsMatching(f, false, nameHasSuffix("v3.Storage).Delete"))
			r.need(len(del) == 1, spec.fn+" calls Storage.Delete once")
			r.check(loadOfField(del[0].Common.Args[0], "session.Session.id"), spec.fn+":deletes-own-id", r.pos(del[0].Instr), "Delete(s.id)", "the deleted key is not the session's current id")
			cut := map[edge]bool{}
			for _, br := range ifsOnValue(f, del[0].Value()) {
				if s, ok := br.nilSlot(true); ok {
					cut[edge{br.If.Block(), s}] = true
				}
			}
			for _, a := range spec.after {
				_, hit := reach(entryOf(f), func(in ssa.Instruction) bool { return isCallTo(in, nameHasSuffix(a)) }, cut, nil)
				r.check(len(cut) > 0 && hit == nil, spec.fn+":delete-ok-before-"+a[strings.LastIndex(a, ".")+1:], r.pos(del[0].Instr), "unreachable with the Delete err == nil edge removed",
					"the new id / cookie removal is reachable without the old id having been deleted from the storage: the previous id keeps yielding the data")
			}
			if spec.clears {
				rs := callsMatching(f, false, nameHasSuffix("session.data).Reset"))
				okC := len(rs) == 1 && (dom(rs[0].Block(), del[0].Block()) || rs[0].Block() == del[0].Block())
				// the data.Reset call sits under `s.data != nil`; what matters: no path reaches Delete with data != nil and without Reset
				if len(rs) == 1 {
					cutNil := map[edge]bool{}
					for _, br := range branchesIn(f) {
						if loadOfField(br.Info.Root, "session.Session.data") {
							if s, ok := br.nilSlot(true); ok {
								cutNil[edge{br.If.Block(), s}] = true
							}
						}
					}
					_, hit := reach(entryOf(f), func(in ssa.Instruction) bool { return in == del[0].Instr }, cutNil, func(in ssa.Instruction) bool { return in == rs[0].Instr })
					okC = hit == nil
				}
				r.check(okC, spec.fn+":data-cleared-first", r.fpos(f), "data is cleared before the storage delete", "the in-memory data is not cleared before the id is replaced (old data would be saved under the new id)")
			}
		}
	})

	r.rule("R3", "pooled objects are completely re-initialised (E4a)", func() {
		check := func(typ string, fns []string, allow map[string]string, min int) {
			_, st := r.P.Struct(sessPkg, typ)
			r.need(st != nil, "session."+typ)
			wr := map[string]bool{}
			for _, fn := range fns {
				f := r.Fn(sessPkg, fn)
				for _, fr := range fieldRefs(f) {
					if fr.Write {
						wr[fr.Name] = true
					}
				}
				// x.field.Reset() counts as re-initialising field
				for _, c := range callsMatching(f, false, nameHasSuffix(").Reset")) {
					if len(c.Common.Args) > 0 {
						if fv := fieldOfValue(c.Common.Args[0]); fv != nil {
							wr[fieldOwner(fv)+"."+fv.Name()] = true
						}
					}
				}
			}
			r.atLeast(typ+" fields", st.NumFields(), min)
			for i := 0; i < st.NumFields(); i++ {
				n := "session." + typ + "." + st.Field(i).Name()
				if why, ok := allow[n]; ok {
					r.ok("pool-reset:"+n, r.fpos(r.Fn(sessPkg, fns[0])), "allow-listed: "+why)
					continue
				}
				r.check(wr[n], "pool-reset:"+n, r.fpos(r.Fn(sessPkg, fns[0])), "re-initialised on release/acquire", n+" survives pool reuse: a later session object starts with the previous owner's value")
			}
		}
		check("Session", []string{"releaseSession", "acquireSession"}, map[string]string{"session.Session.mu": "sync primitive, unlocked at release"}, 7)
		check("Middleware", []string{"releaseMiddleware"}, map[string]string{"session.Middleware.mu": "sync primitive, unlocked at release"}, 5)
		check("data", []string{"(*data).Reset"}, map[string]string{"session.data.RWMutex": "sync primitive"}, 2)
		// release resets before Put
		for _, fn := range []string{"releaseSession", "releaseMiddleware"} {
			f := r.Fn(sessPkg, fn)
			puts := callsMatching(f, false, nameIs("(*sync.Pool).Put"))
			r.need(len(puts) == 1, fn+" puts the object back once")
			n := 0
			okDom := true
			for _, fr := range fieldRefs(f) {
				if fr.Write {
					n++
					// every path to the Put passes this reset (the reset may live in a helper the release calls)
					w := fr.Instr
					if _, hit := reach(entryOf(f), func(in ssa.Instruction) bool { return in == puts[0].Instr }, nil, func(in ssa.Instruction) bool { return in == w }); hit != nil {
						okDom = false
					}
				}
			}
			r.check(okDom && n > 0, fn+":reset-before-put", r.pos(puts[0].Instr), "all resets dominate the Put", "an object can be put back to the pool before it is reset")
		}
	})

	r.rule("R4", "middleware epilogue and ownership (E1)", func() {
		f := r.Fn(sessPkg, "NewWithStore")
		hs := handlerClosures(f)
		r.need(len(hs) == 1, "NewWithStore builds one handler closure")
		h := hs[0]
		var next ssa.Instruction
		acq := callsMatching(h, false, nameHasSuffix("session.acquireMiddleware"))
		r.need(len(acq) == 1, "handler acquires a Middleware")
		for _, in := range instrsWhere(h, func(in ssa.Instruction) bool {
			return isCallTo(in, func(s string) bool { return s == "("+fiberMod+".Ctx).Next" })
		}) {
			if dom(acq[0].Block(), in.Block()) {
				next = in
			}
		}
		r.need(next != nil, "c.Next() after the middleware was initialised")
		isSave := func(in ssa.Instruction) bool { return isCallTo(in, nameHasSuffix("session.Middleware).saveSession")) }
		isRel := func(in ssa.Instruction) bool { return isCallTo(in, nameHasSuffix("session.releaseMiddleware")) }
		_, hit := reach(pointAfter(next), isReturn, nil, isRel)
		r.check(hit == nil, "handler:always-releases-middleware", r.pos(next), "every path after Next releases the Middleware object", "a return after Next skips releaseMiddleware")
		// save unless destroyed
		cut := map[edge]bool{}
		for _, br := range branchesIn(h) {
			if loadOfField(br.Info.Root, "session.Middleware.destroyed") {
				if s, ok := br.truthSlot(true); ok {
					cut[edge{br.If.Block(), s}] = true
				}
			}
		}
		_, hit = reach(pointAfter(next), isReturn, cut, isSave)
		r.check(len(cut) > 0 && hit == nil, "handler:saves-unless-destroyed", r.pos(next), "with the destroyed edge removed every path after Next saves the session", "a live session can reach the end of the request without being saved")
		okD := len(cut) > 0
		for e := range cut {
			if _, hit := reachEdge(e, isSave, nil, nil); hit != nil {
				okD = false
			}
		}
		r.check(okD, "handler:destroyed↛save", r.pos(next), "a destroyed session is never saved", "a destroyed session is saved again (its data would come back)")
		// save happens after Next, never before
		_, hit = reach(entryOf(h), isSave, nil, func(in ssa.Instruction) bool { return in == next })
		r.check(hit == nil, "handler:save-after-Next", r.pos(next), "the save is only reachable through c.Next()", "the session can be saved before the handler ran")
		// Store.Get refuses when the middleware owns the session
		sg := r.Fn(sessPkg, "(*Store).Get")
		okOwn := false
		for _, br := range branchesIn(sg) {
			if e, ok := stripValue(br.Info.Root).(*ssa.Extract); ok && e.Index == 1 {
				if _, isTA := e.Tuple.(*ssa.TypeAssert); isTA {
					if s, ok := br.truthSlot(true); ok {
						_, hit := reachEdge(edge{br.If.Block(), s}, func(in ssa.Instruction) bool { return isCallTo(in, nameHasSuffix("session.Store).getSession")) }, nil, nil)
						okOwn = hit == nil
					}
				}
			}
		}
		r.check(okOwn, "Store.Get:refuses-when-middleware-owns", r.fpos(sg), "with a middleware-owned session Store.Get returns an error instead of a second Session object", "Store.Get hands out a second Session for a request the middleware already owns")
	})

	r.rule("R5", "non-data fields are written under the object's mutex or before publication (E2)", func() {
		guarded := map[string]bool{
			"session.Session.id": true, "session.Session.fresh": true, "session.Session.idleTimeout": true, "session.Session.ctx": true, "session.Session.config": true,
			"session.Middleware.Session": true, "session.Middleware.ctx": true, "session.Middleware.config": true, "session.Middleware.destroyed": true,
		}
		// helpers that run with the lock held at all their call sites
		requiresHeld := map[string]bool{"(*Session).refresh": true}
		unpublished := map[string]string{"acquireSession": "object just taken from the pool, not yet returned to anyone"}
		n := 0
		r.P.AllFuncs(sessPkg, func(f *ssa.Function) {
			var ls *lockResult
			for _, fr := range fieldRefs(f) {
				if !fr.Write || !guarded[fr.Name] {
					continue
				}
				n++
				key := f.RelString(f.Pkg.Pkg) + ":" + fr.Name
				if why, ok := unpublished[f.Name()]; ok {
					r.ok(key, r.pos(fr.Instr), "exempt: "+why)
					continue
				}
				want := lockID(fr.Addr.X) + ".mu"
				if requiresHeld[f.RelString(f.Pkg.Pkg)] {
					// every caller must hold the receiver's mutex at the call site
					okAll := len(g.Callers[f]) > 0
					for _, c := range g.Callers[f] {
						cl := locksets(c.Fn, lockState{}, nil)
						cw := lockID(c.Common.Args[0]) + ".mu"
						if !cl.Before[c.Instr].holds(cw) {
							okAll = false
						}
					}
					r.check(okAll, key, r.pos(fr.Instr), fmt.Sprintf("helper runs with the lock held at all %d call sites", len(g.Callers[f])), "helper writes "+fr.Name+" and a caller does not hold the mutex")
					continue
				}
				if ls == nil {
					ls = locksets(f, lockState{}, nil)
				}
				st := ls.Before[fr.Instr]
				r.check(st[want], key, r.pos(fr.Instr), "written with "+want+" held", fr.Name+" is written without the exclusive lock "+want+" (held: "+st.String()+"): concurrent handlers of one session race on it")
			}
		})
		r.atLeast("guarded field writes", n, 15)
	})

	r.rule("R6", "expiry plumbing (E3/E1)", func() {
		ss := r.Fn(sessPkg, "(*Session).saveSession")
		sets := callsMatching(ss, false, nameHasSuffix("v3.Storage).Set"))
		r.need(len(sets) == 1, "saveSession calls Storage.Set once")
		r.check(loadOfField(sets[0].Common.Args[2], "session.Session.idleTimeout") && loadOfField(sets[0].Common.Args[0], "session.Session.id"), "saveSession:ttl=idleTimeout", r.pos(sets[0].Instr),
			"Storage.Set(s.id, data, s.idleTimeout)", "the storage TTL is not the session's idle timeout, or the key is not the session id")
		// idleTimeout defaults from config when unset
		def := false
		for _, fr := range fieldRefs(ss) {
			// (directly, or as one outcome of a helper that chooses between the session's own value and the configured one)
			if fr.Write && fr.Name == "session.Session.idleTimeout" && fr.Val != nil &&
				(loadOfField(fr.Val, "session.Config.IdleTimeout") || dependsOn(fr.Val, func(v ssa.Value) bool { return loadOfField(v, "session.Config.IdleTimeout") }) != nil) {
				def = true
			}
		}
		r.check(def, "saveSession:idleTimeout-default", r.fpos(ss), "an unset idle timeout is taken from the configuration", "an unset idle timeout is not defaulted (TTL 0 = never expires)")
		gs := r.Fn(sessPkg, "(*Store).getSession")
		isAbs := func(in ssa.Instruction) bool {
			return isCallTo(in, nameHasSuffix("session.Session).isAbsExpired", "session.Session).setAbsExpiration"))
		}
		_, hit := reach(entryOf(gs), func(in ssa.Instruction) bool {
			ret, ok := in.(*ssa.Return)
			return ok && !constIsNil(asConst(retOperand(ret, 0)))
		}, nil, isAbs)
		r.check(hit == nil, "getSession:absolute-deadline-on-every-load", r.fpos(gs), "every path returning a session sets or tests the absolute deadline", "a session can be returned without its absolute deadline being set or tested")
		gb := r.Fn(sessPkg, "(*Store).GetByID")
		cut := map[edge]bool{}
		for _, br := range branchesIn(gb) {
			if loadOfField(br.Info.Root, "session.Config.AbsoluteTimeout") {
				// the edge on which the feature is off: `> 0` / `!= 0` false, `<= 0` / `== 0` true
				off := false
				switch br.Info.Op {
				case token.LEQ, token.EQL, token.LSS:
					off = true
				}
				s := br.slotWhenRel(off)
				cut[edge{br.If.Block(), s}] = true
			}
		}
		_, hit = reach(entryOf(gb), func(in ssa.Instruction) bool {
			ret, ok := in.(*ssa.Return)
			return ok && !constIsNil(asConst(retOperand(ret, 0)))
		}, cut, func(in ssa.Instruction) bool { return isCallTo(in, nameHasSuffix("session.Session).isAbsExpired")) })
		r.check(len(cut) > 0 && hit == nil, "GetByID:absolute-deadline-tested", r.fpos(gb), "with AbsoluteTimeout on, every returned session passed isAbsExpired", "GetByID can return a session past its absolute deadline")
	})

	r.rule("R7", "the session id taken from the request is a private copy (E3): it outlives the request as a storage key", func() {
		f := r.Fn(sessPkg, "(*Store).getSessionID")
		n := 0
		for _, in := range instrsWhereOne(f, isReturn) {
			ret := in.(*ssa.Return)
			var check func(v ssa.Value, seen map[ssa.Value]bool) (bool, string)
			check = func(v ssa.Value, seen map[ssa.Value]bool) (bool, string) {
				if seen[v] {
					return true, ""
				}
				seen[v] = true
				if s, ok := constString(asConst(v)); ok && s == "" {
					return true, ""
				}
				switch x := v.(type) {
				case *ssa.Phi:
					for _, e := range x.Edges {
						if ok, why := check(e, seen); !ok {
							return false, why
						}
					}
					return true, ""
				case *ssa.Convert:
					if sl, ok := x.X.Type().Underlying().(*types.Slice); ok {
						if b, ok := sl.Elem().Underlying().(*types.Basic); ok && b.Kind() == types.Byte {
							return true, "" // string([]byte) copies
						}
					}
					return check(x.X, seen)
				case *ssa.Call:
					switch calleeName(&x.Call) {
					case "github.com/gofiber/utils/v2.CopyString", "strings.Clone":
						return true, ""
					}
					return false, "the result of " + short(calleeName(&x.Call)) + " (a view of request memory unless Immutable is set)"
				}
				return false, "a value that is not copied (" + v.Name() + ")"
			}
			n++
			ok, why := check(retOperand(ret, 0), map[ssa.Value]bool{})
			r.check(ok, fmt.Sprintf("getSessionID:return#%d:private-copy", n), r.pos(in), "the id is \"\", a string([]byte) conversion or an explicit copy",
				"the session id handed to the store is "+why+": saved as a map/storage key it is rewritten when the connection's buffers are reused — the owner loses the session and a later request can be given it")
		}
		r.atLeast("returns of getSessionID", n, 2)
	})

	r.rule("R8", "the absolute deadline survives a wipe: a session method that empties the data (where the deadline is kept) and lets the session live on stamps a new deadline when AbsoluteTimeout is configured (E1)", func() {
		n := 0
		r.P.AllFuncs(sessPkg, func(f *ssa.Function) {
			if f.Signature.Recv() == nil || !strings.HasSuffix(f.Signature.Recv().Type().String(), "session.Session") {
				return
			}
			// the session lives on when the method gives it a new id; a wipe on the way to the pool or to destruction does not
			issuesNewID := len(callsMatching(f, false, func(n string) bool {
				return strings.HasSuffix(n, "session.Session).refresh") || n == "field:session.Config.KeyGenerator"
			})) > 0
			if !issuesNewID {
				return
			}
			for _, w := range callsMatching(f, false, nameHasSuffix("session.data).Reset")) {
				n++
				cut := map[edge]bool{}
				for _, br := range branchesInOne(f) {
					if loadOfField(br.Info.Root, "session.Config.AbsoluteTimeout") {
						if k, ok := constInt(br.Info.Const); ok && k == 0 {
							// edges on which no absolute timeout is configured
							switch br.Info.Op {
							case token.GTR:
								cut[edge{br.If.Block(), br.slotWhenRel(false)}] = true
							case token.LEQ, token.EQL:
								cut[edge{br.If.Block(), br.slotWhenRel(true)}] = true
							case token.NEQ:
								cut[edge{br.If.Block(), br.slotWhenRel(false)}] = true
							}
						}
					}
				}
				okReturn := func(in ssa.Instruction) bool {
					ret, ok := in.(*ssa.Return)
					if !ok {
						return false
					}
					if len(ret.Results) == 0 {
						return true
					}
					return constIsNil(asConst(retOperand(ret, len(ret.Results)-1)))
				}
				isStamp := func(in ssa.Instruction) bool { return isCallTo(in, nameHasSuffix("session.Session).setAbsExpiration")) }
				_, hit := reach(pointAfter(w.Instr), okReturn, cut, isStamp)
				r.check(hit == nil, short(f.String())+":wipe-then-new-deadline", r.pos(w.Instr), "every successful path after the wipe sets a new absolute deadline when one is configured",
					"the session data — which holds the absolute deadline — is wiped and the session lives on without a new deadline: saved afterwards it never expires absolutely, however long it is kept active")
			}
		})
		r.atLeast("session methods that wipe the data", n, 1)
	})

	r.rule("R13", "what the storage answered for an id is a miss or is decoded: getSession and GetByID treat a nil answer as `no such session` (a new id is issued); every other answer is decoded before the session is handed out under the client's id — the test in front of decodeSessionData is the same nil test, not a length test: a storage that answers a missing key with an empty non-nil slice would otherwise make the store adopt a forged or destroyed id without decoding anything (session fixation, destroyed ids revived) (E1 with the nil edges of the answer removed)", func() {
		n := 0
		for _, fn := range []string{"(*Store).getSession", "(*Store).GetByID"} {
			f := r.Fn(sessPkg, fn)
			var raw ssa.Value
			isStorageGet := func(c callSite) bool {
				return c.Common.IsInvoke() && c.Common.Method.Name() == "Get" && strings.HasSuffix(c.Common.Value.Type().String(), "Storage")
			}
			var own []callSite
			withoutHelpers(func() { own = callsIn(f, false) })
			for _, c := range own {
				cv := c.Value()
				if cv == nil || cv.Referrers() == nil {
					continue
				}
				want := -1
				if isStorageGet(c) {
					want = 0
				} else if h := c.Common.StaticCallee(); h != nil && h.Pkg == f.Pkg && len(h.Blocks) > 0 {
					// the lookup in a helper of the package that hands the storage's answer back among its results
					calls := false
					withoutHelpers(func() {
						for _, hc := range callsIn(h, false) {
							if isStorageGet(hc) {
								calls = true
							}
						}
					})
					if calls {
						res := h.Signature.Results()
						for k := 0; k < res.Len(); k++ {
							if sl, ok := res.At(k).Type().Underlying().(*types.Slice); ok {
								if bt, ok := sl.Elem().Underlying().(*types.Basic); ok && bt.Kind() == types.Byte {
									want = k
								}
							}
						}
					}
				}
				if want < 0 {
					continue
				}
				for _, u := range *cv.Referrers() {
					if e, ok := u.(*ssa.Extract); ok && e.Index == want {
						raw = e
					}
				}
			}
			if raw == nil {
				r.bad(fn+":answer-decoded-or-miss", r.fpos(f), "no Storage.Get whose answer could be followed: not the shape the rule reads")
				continue
			}
			n++
			isRawish := func(v ssa.Value) bool {
				return allSourcesAre(v, func(x ssa.Value) bool {
					if x == raw {
						return true
					}
					c := asConst(x)
					return c != nil && constIsNil(c)
				})
			}
			cut := map[edge]bool{}
			for _, br := range branchesIn(f) {
				if br.Info.Root == nil || !isRawish(br.Info.Root) {
					continue
				}
				if sl, ok := br.nilSlot(true); ok {
					cut[edge{br.If.Block(), sl}] = true
				}
			}
			isDecode := func(in ssa.Instruction) bool {
				return isCallTo(in, nameHasSuffix("session.Session).decodeSessionData"))
			}
			hands := func(in ssa.Instruction) bool {
				ret, ok := in.(*ssa.Return)
				if !ok || len(ret.Results) == 0 {
					return false
				}
				c := asConst(ret.Results[0])
				return !(c != nil && constIsNil(c))
			}
			var start ssa.Instruction
			if ri, ok := raw.(ssa.Instruction); ok {
				start = ri
			}
			var path []*ssa.BasicBlock
			var hit ssa.Instruction
			withoutHelpers(func() { path, hit = reach(pointAfter(start), hands, cut, isDecode) })
			r.check(len(cut) >= 1 && hit == nil, fn+":answer-decoded-or-miss", r.fpos(f), "with the nil edges removed every path to a handed-out session decodes the answer",
				"a session can be handed out under the client's id although the storage's non-nil answer was not decoded ("+pathString(r.P, path)+"): the decode is guarded by something else than the nil test that decides `miss` — an empty non-nil answer (a storage that copies with append([]byte{}, v...)) keeps the forged id, Save then persists data under it")
		}
		r.atLeast("lookups of a session by id", n, 2)
	})

	r.rule("R12", "a session goes back to the pool once: on no path through a function of the package is Release called twice on the same session value, counting a deferred Release together with the plain calls after it — the pool would hand the same object to the next two requests, whose data and ids then mix (E2 pairing: at most one release per acquisition)", func() {
		nRel := 0
		type fnd struct{ fn, pos, detail string }
		var bad []fnd
		r.P.AllFuncs(sessPkg, func(f *ssa.Function) {
			type rel struct {
				in     ssa.Instruction
				recv   ssa.Value
				defer_ bool
			}
			var rels []rel
			for _, b := range f.Blocks {
				for _, in := range b.Instrs {
					ci, ok := in.(ssa.CallInstruction)
					if !ok || !(strings.HasSuffix(calleeName(ci.Common()), "session.Session).Release") || strings.HasSuffix(calleeName(ci.Common()), "session.releaseSession")) || len(ci.Common().Args) == 0 {
						continue
					}
					_, isDefer := in.(*ssa.Defer)
					rels = append(rels, rel{in, ci.Common().Args[0], isDefer})
					nRel++
				}
			}
			for i, a := range rels {
				for j, b := range rels {
					if i == j || b.defer_ && !a.defer_ {
						continue
					}
					if !sameExpr(a.recv, b.recv) {
						continue
					}
					// a deferred release runs at every return after it; a plain release after a (plain or deferred) one doubles it
					_, hit := reach(pointAfter(a.in), func(in ssa.Instruction) bool { return in == b.in }, nil, func(in ssa.Instruction) bool {
						return isCallTo(in, nameHasSuffix("session.acquireSession"))
					})
					if hit != nil {
						how := "after an earlier Release"
						if a.defer_ {
							how = "although a deferred Release is already registered (" + r.pos(a.in) + ")"
						}
						bad = append(bad, fnd{short(f.String()), r.pos(b.in), how})
					}
				}
			}
		})
		r.atLeast("Release calls in the session package", nRel, 3)
		if len(bad) == 0 {
			r.ok("Release:at-most-once-per-path", "", fmt.Sprintf("%d Release calls; no path releases one session value twice", nRel))
		}
		for _, b := range bad {
			r.bad(b.fn+":Release:at-most-once-per-path", b.pos, "a session is released a second time "+b.detail+": sync.Pool then holds the object twice and hands it to two requests at once — client B reads what client A just set, A's session takes B's id")
		}
	})

	r.rule("R11", "only `no lifetime` means `never expires`: the bundled memory storages (the session store's default) keep expiry 0 for entries that never expire; in their Set (or the helper that computes the expiry) the branch that leaves the expiry at 0 is taken on the lifetime argument itself being zero (or not positive) — not on its truncation to whole seconds, which is also 0 for every idle timeout below one second and would make such a session immortal (E1: the value the guard compares)", func() {
		neverExpiresOnlyForNoLifetimeRule(r, []string{"internal/storage/memory", "internal/memory"}, 2, "a session saved with IdleTimeout 900ms (or SetIdleTimeout(time.Until(tokenExpiry)) near the end) never expires, its id keeps yielding the data")
	})

	r.rule("R14", "a long lifetime does not wrap into the past: the bundled memory storages keep the expiry as a 32-bit second count; where their Set (or its helper) adds the lifetime's seconds to the current timestamp, the sum is bounded — formed in a wider integer type and clamped, the lifetime (or its seconds) compared with a limit first, or the sum compared with the timestamp afterwards — otherwise a lifetime of about 80 years (`practically for ever`) wraps round modulo 2^32 and the entry is expired the moment it is stored (E1: a bounding comparison or min next to the sum)", func() {
		n := 0
		for _, pk := range []string{"internal/storage/memory", "internal/memory"} {
			set := r.Fn(pk, "(*Storage).Set")
			for _, f := range append([]*ssa.Function{set}, helpersOf(set)...) {
				var dur *ssa.Parameter
				for _, p := range f.Params {
					if strings.HasSuffix(p.Type().String(), "time.Duration") {
						dur = p
					}
				}
				if dur == nil {
					continue
				}
				isStamp := func(v ssa.Value) bool {
					c, ok := v.(*ssa.Call)
					return ok && strings.HasSuffix(calleeName(&c.Call), ".Timestamp")
				}
				onDur := func(v ssa.Value) bool {
					return dependsOn(v, func(x ssa.Value) bool { return x == ssa.Value(dur) }) != nil
				}
				onStamp := func(v ssa.Value) bool { return dependsOn(v, isStamp) != nil }
				nonZeroConst := func(v ssa.Value) bool {
					c, ok := stripValue(v).(*ssa.Const)
					if !ok {
						return false
					}
					k, isInt := constInt(c)
					return !isInt || k != 0
				}
				// bounding constructs of the function: an ordering comparison (or min) between something that comes from
				// the lifetime and a limit (a non-zero constant, or something derived from the timestamp)
				var bounds []ssa.Instruction
				for _, b := range f.Blocks {
					for _, in := range b.Instrs {
						switch x := in.(type) {
						case *ssa.BinOp:
							switch x.Op {
							case token.LSS, token.LEQ, token.GTR, token.GEQ:
								for _, pr := range [][2]ssa.Value{{x.X, x.Y}, {x.Y, x.X}} {
									if onDur(pr[0]) && (nonZeroConst(pr[1]) || (onStamp(pr[1]) && !onDur(pr[1])) || (onStamp(pr[0]) && onStamp(pr[1]))) {
										bounds = append(bounds, x)
									}
								}
							}
						case *ssa.Call:
							if bi, ok := x.Call.Value.(*ssa.Builtin); ok && bi.Name() == "min" {
								for _, a := range x.Call.Args {
									if onDur(a) {
										bounds = append(bounds, x)
										break
									}
								}
							}
						}
					}
				}
				for _, b := range f.Blocks {
					for _, in := range b.Instrs {
						bo, ok := in.(*ssa.BinOp)
						if !ok || bo.Op != token.ADD {
							continue
						}
						bt, isBasic := bo.Type().Underlying().(*types.Basic)
						if !isBasic || bt.Info()&types.IsInteger == 0 {
							continue
						}
						if !((onDur(bo.X) && onStamp(bo.Y)) || (onDur(bo.Y) && onStamp(bo.X))) {
							continue
						}
						n++
						r.check(len(bounds) > 0, pk+":"+short(f.String())+":expiry-sum-is-bounded", r.pos(bo),
							fmt.Sprintf("the sum of lifetime and timestamp is bounded (%d bounding comparison(s), first at %s)", len(bounds), func() string {
								if len(bounds) == 0 {
									return "-"
								}
								return r.pos(bounds[0])
							}()),
							"the lifetime's seconds are added to the current timestamp in "+bo.Type().String()+" with no bounding comparison anywhere in the function: for a lifetime of about 80 years or more (sessions or cache entries meant to last `for ever`) the sum wraps round into the past and the entry counts as expired as soon as it is stored")
					}
				}
			}
		}
		r.atLeast("expiry sums in the memory storages", n, 2)
	})

	r.rule("R10", "a pooled buffer goes back empty on every path: in every function of the package that takes a *bytes.Buffer from a sync.Pool, each Put of it is preceded by its Reset — as plain calls on every path from the Get, or as deferred calls registered so that the Reset runs first (defers run last-in first-out) — the encoder writes type information into the buffer before it fails, a buffer returned after a failed Encode corrupts the next session that is saved or loaded through it (E1 pairing)", func() {
		n := 0
		r.P.AllFuncs(sessPkg, func(f *ssa.Function) {
			if len(f.Blocks) == 0 {
				return
			}
			isBuf := func(t types.Type) bool {
				pt, ok := t.(*types.Pointer)
				return ok && namedTypeName(pt.Elem()) == "Buffer"
			}
			type site struct {
				in     ssa.Instruction
				defers bool
			}
			var puts, resets []site
			var bufs []ssa.Value
			for _, b := range f.Blocks {
				for _, in := range b.Instrs {
					var cc *ssa.CallCommon
					deferred := false
					switch x := in.(type) {
					case *ssa.Call:
						cc = &x.Call
					case *ssa.Defer:
						cc, deferred = &x.Call, true
					default:
						continue
					}
					switch nm := calleeName(cc); {
					case nm == "(*sync.Pool).Put" && len(cc.Args) == 2:
						arg := stripValue(cc.Args[1])
						if isBuf(arg.Type()) {
							puts = append(puts, site{in, deferred})
							bufs = append(bufs, arg)
						}
					case nm == "(*bytes.Buffer).Reset":
						resets = append(resets, site{in, deferred})
					}
				}
			}
			for i, p := range puts {
				n++
				ok := false
				buf := bufs[i]
				sameBuf := func(in ssa.Instruction) bool {
					var cc *ssa.CallCommon
					switch x := in.(type) {
					case *ssa.Call:
						cc = &x.Call
					case *ssa.Defer:
						cc = &x.Call
					}
					return cc != nil && len(cc.Args) > 0 && stripValue(cc.Args[0]) == buf
				}
				if p.defers {
					// a deferred Reset registered after the deferred Put, on every path to a return
					for _, rs := range resets {
						if rs.defers && sameBuf(rs.in) {
							if _, hit := reach(pointAfter(p.in), isReturn, nil, func(y ssa.Instruction) bool { return y == rs.in }); hit == nil {
								ok = true
							}
						}
					}
					// … or plain Resets on every path from the registration to a return
					if !ok {
						_, hit := reach(pointAfter(p.in), isReturn, nil, func(y ssa.Instruction) bool {
							_, isCall := y.(*ssa.Call)
							return isCall && calleeName(y.(*ssa.Call).Common()) == "(*bytes.Buffer).Reset" && sameBuf(y)
						})
						ok = hit == nil
					}
				} else {
					// plain Put: from the place the buffer was taken, no path reaches it without a plain Reset
					var get ssa.Instruction
					dependsOn(buf, func(v ssa.Value) bool {
						c, isCall := v.(*ssa.Call)
						if isCall && calleeName(&c.Call) == "(*sync.Pool).Get" {
							get = c
							return true
						}
						return false
					})
					if get != nil {
						_, hit := reach(pointAfter(get), func(y ssa.Instruction) bool { return y == p.in }, nil, func(y ssa.Instruction) bool {
							c, isCall := y.(*ssa.Call)
							return isCall && calleeName(&c.Call) == "(*bytes.Buffer).Reset" && sameBuf(y)
						})
						ok = hit == nil
					}
				}
				r.check(ok, fmt.Sprintf("%s:Put#%d:buffer-reset-before-it-goes-back", f.Name(), i+1), r.pos(p.in), "the buffer is Reset before it is handed back to the pool on every path",
					"a pooled buffer can go back to the pool with content: after a failed Encode (an unregistered value type) the encoder has already written its type definitions — the next session saved through this buffer stores a corrupt record, the next one loaded through it fails to decode (`gob: duplicate type received`)")
			}
		})
		r.atLeast("Put sites of pooled buffers in the session package", n, 2)
	})

	r.rule("R9", "the id kept in the request's locals is one generated during this request: every write of the locals id key in the package passes the KeyGenerator result (getSession reads an id found there as newly issued and stamps a new absolute deadline) (E3, who-may-write)", func() {
		n, nk := 0, 0
		keySeen := map[ssa.Instruction]bool{}
		r.P.AllFuncs(sessPkg, func(f *ssa.Function) {
			for _, c := range callsIn(f, false) {
				if !strings.HasSuffix(c.Name, ".Ctx).Locals") || len(c.Common.Args) < 2 {
					continue
				}
				kv := stripValue(c.Common.Args[0])
				if !strings.HasSuffix(kv.Type().String(), "session.sessionIDKey") {
					continue
				}
				// the key names the store: an id generated by one store is not another store's id
				if !keySeen[c.Instr] {
					keySeen[c.Instr] = true
					nk++
					perStore := asConst(kv) == nil && len(f.Params) > 0 && dependsOn(kv, func(v ssa.Value) bool { return v == ssa.Value(f.Params[0]) }) != nil
					r.check(perStore, fmt.Sprintf("%s:locals-id-key#%d:per-store", short(f.String()), nk), r.pos(c.Instr), "the locals key is built from the store",
						"the id a store generated for the request is kept under a key shared by all stores: a second store serving the same request looks that id up instead of its own cookie, finds nothing and hands out an empty session although a valid one was presented")
				}
				// the variadic value: a slice literal of one element, or nil for a read
				var vals []ssa.Value
				if sl, ok := c.Common.Args[len(c.Common.Args)-1].(*ssa.Slice); ok {
					if al, ok := sl.X.(*ssa.Alloc); ok {
						for _, st := range storesInto(al) {
							vals = append(vals, st.Val)
						}
					}
				}
				if len(vals) == 0 {
					continue
				}
				n++
				okGen := true
				for _, v := range vals {
					cc, isCall := stripValue(v).(*ssa.Call)
					if !isCall || !isKeyGen(cc) {
						okGen = false
					}
				}
				r.check(okGen, short(f.String())+":locals-id-is-generated", r.pos(c.Instr), "the stored id is the KeyGenerator result",
					"an id that was not generated in this request is put under the locals id key: the next Store.Get of the request takes the session for newly issued and gives it a new absolute deadline, so a session in use never reaches its absolute timeout (and another store of the same request is handed an id that is not its own)")
			}
		})
		r.atLeast("writes of the locals id key", n, 1)
	})
}

// neverExpiresOnlyForNoLifetimeRule: in the Set of the bundled memory storages (or the helper that computes the
// expiry) the branch that leaves the expiry at 0 (`never expires`) is taken on the lifetime argument itself being
// zero or not positive — not on its truncation to whole seconds. Shared by C15 (sessions) and C16 (csrf tokens).
func neverExpiresOnlyForNoLifetimeRule(r *Run, pkgs []string, floor int, consequence string) {
	n := 0
	for _, pk := range pkgs {
		set := r.Fn(pk, "(*Storage).Set")
		for _, f := range append([]*ssa.Function{set}, helpersOf(set)...) {
			var dur *ssa.Parameter
			for _, p := range f.Params {
				if strings.HasSuffix(p.Type().String(), "time.Duration") {
					dur = p
				}
			}
			if dur == nil {
				continue
			}
			if f != set {
				// the helper is handed Set's own lifetime
				okArg := false
				for _, c := range staticCallersOf(f) {
					for k, a := range c.Call.Args {
						if k < len(f.Params) && f.Params[k] == dur {
							if pa, ok := stripValue(a).(*ssa.Parameter); ok && strings.HasSuffix(pa.Type().String(), "time.Duration") {
								okArg = true
							}
						}
					}
				}
				if !okArg {
					continue
				}
			}
			isInt := func(t types.Type) bool {
				bt, ok := t.Underlying().(*types.Basic)
				return ok && bt.Info()&types.IsInteger != 0
			}
			// blocks in which a non-zero expiry is computed, next to a zero alternative
			type site struct {
				blk *ssa.BasicBlock
				at  ssa.Instruction
			}
			var sites []site
			hasZeroRet := false
			var nonZeroRets []*ssa.Return
			for _, b := range f.Blocks {
				for _, in := range b.Instrs {
					switch x := in.(type) {
					case *ssa.Phi:
						if !isInt(x.Type()) {
							continue
						}
						hasZero := false
						for _, e := range x.Edges {
							if isConstInt(e, 0) {
								hasZero = true
							}
						}
						if !hasZero {
							continue
						}
						for k, e := range x.Edges {
							if !isConstInt(e, 0) {
								sites = append(sites, site{b.Preds[k], x})
							}
						}
					case *ssa.Return:
						if len(x.Results) == 1 && isInt(x.Results[0].Type()) {
							if isConstInt(x.Results[0], 0) {
								hasZeroRet = true
							} else if _, isPhi := x.Results[0].(*ssa.Phi); !isPhi {
								nonZeroRets = append(nonZeroRets, x)
							}
						}
					}
				}
			}
			if hasZeroRet {
				for _, rt := range nonZeroRets {
					sites = append(sites, site{rt.Block(), rt})
				}
			}
			// the expiry written straight into the entry under the guard (the zero alternative is the field's zero value)
			for _, b := range f.Blocks {
				for _, in := range b.Instrs {
					st, ok := in.(*ssa.Store)
					if !ok {
						continue
					}
					fa, ok := st.Addr.(*ssa.FieldAddr)
					if !ok || !isInt(st.Val.Type()) {
						continue
					}
					if !func() bool {
							// the stored value is the sum itself, possibly clamped and converted: uint32(min(sum, limit))
							v := stripValue(st.Val)
							for i := 0; i < 4; i++ {
								switch x := v.(type) {
								case *ssa.BinOp:
									return x.Op == token.ADD
								case *ssa.Convert:
									v = stripValue(x.X)
									continue
								case *ssa.Call:
									if bi, ok := x.Call.Value.(*ssa.Builtin); ok && bi.Name() == "min" && len(x.Call.Args) > 0 {
										v = stripValue(x.Call.Args[0])
										continue
									}
								}
								return false
							}
							return false
						}() {
						continue // a phi or a helper's answer: judged where it is computed (the phi / return forms above)
					}
					if dependsOn(st.Val, func(v ssa.Value) bool {
						c, ok := v.(*ssa.Call)
						return ok && strings.HasSuffix(calleeName(&c.Call), ".Timestamp")
					}) == nil {
						continue
					}
					if _, isLocal := fa.X.(*ssa.Alloc); isLocal {
						sites = append(sites, site{b, st})
					}
				}
			}
			for _, st := range sites {
				n++
				pb := st.blk
				decided, okGuard := false, true
				why := ""
				for d := pb; d != nil && !decided; d = d.Idom() {
					par := d.Idom()
					if par == nil {
						break
					}
					i, ok := par.Instrs[len(par.Instrs)-1].(*ssa.If)
					if !ok {
						continue
					}
					slot := -1
					for sl, sc := range par.Succs {
						if sc == d || dom(sc, pb) {
							slot = sl
						}
					}
					if slot < 0 {
						continue
					}
					ci := decompose(i.Cond)
					if ci.Const != nil && !isConstInt(ci.Const, 0) {
						continue // a bound on the lifetime (the saturation of R14), not the `no lifetime` test
					}
					if cb, isCmp := i.Cond.(*ssa.BinOp); isCmp && ci.Const == nil && asConst(stripValue(cb.X)) == nil && asConst(stripValue(cb.Y)) == nil {
						continue // two computed values compared (seconds against the room left): a bound as well
					}
					decided = true
					if !(ci.Root == ssa.Value(dur) && ci.Const != nil && isConstInt(ci.Const, 0)) {
						okGuard = false
						why = "the guard at " + r.pos(i) + " does not compare the lifetime argument itself with 0"
					}
				}
				if !decided {
					okGuard = false
					why = "no guard found around the computation of the expiry"
				}
				r.check(okGuard, pk+":"+short(f.String())+":never-expires-only-for-no-lifetime", r.pos(st.at), "the expiry stays 0 exactly when the lifetime argument is 0 (not positive)",
					"the memory storage decides `never expires` on something else than the lifetime it was given ("+why+"): a lifetime below one second truncates to 0 whole seconds — "+consequence)
			}
		}
	}
	r.atLeast("expiry choices in the memory storages", n, floor)
}
