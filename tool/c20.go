package main

import (
	"fmt"
	"go/token"
	"go/types"
	"strings"

	"golang.org/x/tools/go/ssa"
)

func init() {
	register(&propDef{
		ID: "C20",
		Explain: "Decided clauses: R1 after c.Next() every path passes the response-cookie visitor, which for a non-excepted name stores the cookie only with the Encryptor result (an encryptor error never falls through), " +
			"excepted names are not rewritten; R2 for a non-excepted request cookie every path ends in a rewrite whose value is the Decryptor result (under err == nil) or empty, before c.Next(); DecryptCookie returns non-empty " +
			"only from a successful gcm.Open; R3 the nonce passed to Seal is the buffer filled from crypto/rand with the error checked, key length is validated before the cipher is built on both sides; " +
			"R4 no by-name rewrite of the request cookie collection from inside its own visitor (duplicate names address the first entry). Not decided: cryptographic strength, base64/GCM correctness (stdlib), " +
			"that all tamperings are rejected (follows from R2 + AEAD; argued, not checked).",
		Assume: []string{"fasthttp response cookies are unique by key (setArg), request cookies are not", "crypto/cipher AEAD is authentic"},
		Run:    runC20,
	})
}

const encPkg = "middleware/encryptcookie"

func encHandler(r *Run) *ssa.Function {
	f := r.Fn(encPkg, "New")
	hs := handlerClosures(f)
	r.need(len(hs) == 1, "encryptcookie.New returns one handler closure")
	return hs[0]
}

// visitorsOf: closures passed to (*Header).VisitAllCookie calls in f, with the receiver type.
type cookieVisit struct {
	Call    callSite
	Closure *ssa.Function
	Request bool
}

func cookieVisits(f *ssa.Function) []cookieVisit {
	var out []cookieVisit
	for _, c := range callsIn(f, false) {
		if !strings.HasSuffix(c.Name, "Header).VisitAllCookie") {
			continue
		}
		v := cookieVisit{Call: c, Request: strings.Contains(c.Name, "RequestHeader")}
		for _, a := range c.Common.Args {
			if mc, ok := a.(*ssa.MakeClosure); ok {
				v.Closure = mc.Fn.(*ssa.Function)
			}
		}
		out = append(out, v)
	}
	return out
}

func runC20(r *Run) {
	g := r.P.Graph()
	isNextCall := func(in ssa.Instruction) bool {
		return isCallTo(in, func(s string) bool { return s == "("+fiberMod+".Ctx).Next" })
	}
	isReqRewrite := nameHasSuffix("fasthttp.RequestHeader).SetCookie", "fasthttp.RequestHeader).SetCookieBytesKV", "fasthttp.RequestHeader).SetCookieBytesK",
		"fasthttp.RequestHeader).DelCookie", "fasthttp.RequestHeader).DelCookieBytes")
	disabledEdges := func(f *ssa.Function, want bool) []edge {
		var out []edge
		for _, c := range callsMatching(f, false, nameHasSuffix("encryptcookie.isDisabled")) {
			// only the test against the configured exception list counts
			if dependsOn(c.Common.Args[1], func(v ssa.Value) bool { return loadOfField(v, "encryptcookie.Config.Except") }) == nil {
				continue
			}
			for _, br := range ifsOnValue(f, c.Value()) {
				if s, ok := br.truthSlot(want); ok {
					out = append(out, edge{br.If.Block(), s})
				}
			}
		}
		return out
	}

	r.rule("R1", "nothing leaves unencrypted (E1)", func() {
		h := encHandler(r)
		var resp *cookieVisit
		for _, v := range cookieVisits(h) {
			v := v
			if !v.Request {
				resp = &v
			}
		}
		r.need(resp != nil && resp.Closure != nil, "handler visits the response cookies with a closure")
		// the visit may live in a helper: what counts in the handler is the (deferred) call of that helper
		anchor := ssa.Instruction(resp.Call.Instr)
		if g := anchor.Parent(); g != h {
			for _, b := range h.Blocks {
				for _, in := range b.Instrs {
					if ci, ok := in.(ssa.CallInstruction); ok && ci.Common().StaticCallee() == g {
						anchor = in
					}
				}
			}
		}
		// after every protected continuation (all c.Next() calls except the documented cfg.Next skip) every path passes the visitor
		nNext := 0
		okAll := true
		for _, next := range instrsWhere(h, isNextCall) {
			if isCfgNextSkip(h, next) {
				continue
			}
			nNext++
			if _, isDefer := anchor.(*ssa.Defer); isDefer {
				// deferred: it runs on every exit once the defer statement was executed — which must precede the continuation
				if _, hit := reach(entryOf(h), func(in ssa.Instruction) bool { return in == next }, nil, func(in ssa.Instruction) bool { return in == anchor }); hit != nil {
					okAll = false
				}
				continue
			}
			if _, hit := reach(pointAfter(next), isReturn, nil, func(in ssa.Instruction) bool { return in == anchor }); hit != nil {
				okAll = false
			}
		}
		_, deferred := anchor.(*ssa.Defer)
		r.check(deferred, "handler:response-visitor-on-panic", r.pos(anchor), "the response-cookie visitor is deferred: it also runs when the rest of the chain panics and a recover middleware answers",
			"the response cookies are encrypted only after c.Next() returned normally: a handler that sets a cookie and then panics — with the recover middleware in front — sends that cookie in clear")
		r.check(nNext >= 1 && okAll, "handler:response-visitor-after-Next", r.pos(anchor), "every path from every c.Next() (except the cfg.Next skip) to return runs the response-cookie visitor", "a return is reachable after a c.Next() without the response cookies being encrypted")
		cl := resp.Closure
		enc := callsMatching(cl, false, nameIs("field:encryptcookie.Config.Encryptor"))
		r.need(len(enc) == 1, "response visitor calls cfg.Encryptor once")
		var encVal ssa.Value
		for _, ref := range *enc[0].Value().Referrers() {
			if e, ok := ref.(*ssa.Extract); ok && e.Index == 0 {
				encVal = e
			}
		}
		isSetCookie := func(in ssa.Instruction) bool {
			return isCallTo(in, nameHasSuffix("fasthttp.ResponseHeader).SetCookie"))
		}
		isSetEncValue := func(in ssa.Instruction) bool {
			ci, ok := in.(ssa.CallInstruction)
			return ok && strings.HasSuffix(calleeName(ci.Common()), "fasthttp.Cookie).SetValue") && ci.Common().Args[1] == encVal
		}
		_, hit := reach(entryOf(cl), isSetCookie, nil, isSetEncValue)
		r.check(encVal != nil && hit == nil && len(instrsWhere(cl, isSetCookie)) >= 1, "response-visitor:stores-only-ciphertext", r.fpos(cl), "the cookie is stored back only after its value was set to the Encryptor result", "a response cookie can be stored back without its value being replaced by the Encryptor result (plaintext reaches the client)")
		okErr := false
		for _, br := range branchesIn(cl) {
			if e, ok := stripValue(br.Info.Root).(*ssa.Extract); ok && e.Tuple == enc[0].Value() && e.Index == 1 {
				if s, ok := br.nilSlot(false); ok {
					_, hit := reachEdge(edge{br.If.Block(), s}, orPred(isSetCookie, isReturn), nil, nil)
					okErr = hit == nil
				}
			}
		}
		r.check(okErr, "response-visitor:encryptor-error-does-not-fall-through", r.fpos(cl), "an Encryptor error ends in panic: the plaintext cookie is never sent", "after an Encryptor error the visitor continues (plaintext cookie stays in the response)")
		de := disabledEdges(cl, true)
		okEx := len(de) > 0
		for _, e := range de {
			if _, hit := reachEdge(e, isSetCookie, nil, nil); hit != nil {
				okEx = false
			}
		}
		// … and every other cookie is: apart from an excepted name and a cookie the response does not hold, no way
		// through the visitor leaves the cookie as the handler set it (whatever its expiry, flags or value)
		skip := map[edge]bool{}
		for _, e := range de {
			skip[e] = true
		}
		for _, c := range callsMatching(cl, false, nameHasSuffix("fasthttp.ResponseHeader).Cookie")) {
			for _, br := range ifsOnValue(cl, c.Value()) {
				if s, ok := br.truthSlot(false); ok {
					skip[edge{br.If.Block(), s}] = true
				}
			}
		}
		isOwnReturn := func(in ssa.Instruction) bool { _, ok := in.(*ssa.Return); return ok && in.Parent() == cl }
		path, hitR := reach(entryOf(cl), isOwnReturn, skip, isSetCookie)
		r.check(hitR == nil, "response-visitor:every-other-cookie-is-rewritten", r.fpos(cl), "with the `excepted` and `not in the response` edges removed every path through the visitor stores the cookie back (with the ciphertext, see above)",
			"the visitor can leave a response cookie untouched although its name is not excepted (e.g. one whose expiry lies in the past): the value the handler set goes out in plaintext: "+pathString(r.P, path))
		r.check(okEx, "response-visitor:excepted-pass-through", r.fpos(cl), "excepted names are not rewritten", "excepted cookie names are rewritten (or the exception list is not consulted)")
	})

	r.rule("R2", "nothing enters unauthenticated (E1/E3)", func() {
		h := encHandler(r)
		// all request-cookie rewrites (in the handler or its visitor closures) happen before the protected continuation and use the Decryptor result or empty
		var sites []callSite
		funcs := append([]*ssa.Function{h}, anonFuncsDeep(h)...)
		// … or in a helper of the package the handler hands the request header to, and that helper's closures
		for _, hl := range helpersOf(h) {
			funcs = append(funcs, hl)
			funcs = append(funcs, anonFuncsDeep(hl)...)
		}
		withoutHelpers(func() { // each site is attributed to the one function that contains it
			for _, f := range funcs {
				sites = append(sites, callsMatching(f, false, isReqRewrite)...)
			}
		})
		r.atLeast("request-cookie rewrite sites", len(sites), 2)
		dec := map[*ssa.Function][]callSite{}
		for _, f := range funcs {
			dec[f] = callsMatching(f, false, nameIs("field:encryptcookie.Config.Decryptor"))
		}
		nSet := 0
		for _, s := range sites {
			if strings.Contains(s.Name, "DelCookie") {
				continue
			}
			nSet++
			f := s.Fn
			val := s.Common.Args[len(s.Common.Args)-1]
			key := fmt.Sprintf("request-rewrite:%s#%d", short(s.Name), nSet)
			if c := asConst(val); c != nil {
				str, isStr := constString(c)
				r.check(constIsNil(c) || (isStr && str == ""), key, r.pos(s.Instr), "stores the empty value (rejected cookie)", "stores a constant that is not empty")
				continue
			}
			// must be Extract#0 of a Decryptor call on its err == nil edge
			okV := false
			for _, d := range dec[f] {
				if e, ok := val.(*ssa.Extract); ok && e.Tuple == d.Value() && e.Index == 0 {
					for _, br := range branchesIn(f) {
						if e2, ok := stripValue(br.Info.Root).(*ssa.Extract); ok && e2.Tuple == d.Value() && e2.Index == 1 {
							if sl, ok := br.nilSlot(true); ok && dom(br.If.Block().Succs[sl], s.Block()) {
								okV = true
							}
						}
					}
				}
			}
			r.check(okV, key, r.pos(s.Instr), "stores the Decryptor result on its err == nil edge", "a request cookie is rewritten with a value that is not the authenticated Decryptor result")
		}
		// every non-excepted cookie is rewritten: in the function that decides per cookie (has the isDisabled(Except) test),
		// from the not-excepted edge every path to return passes a Decryptor call
		decided := false
		for _, f := range funcs {
			for _, e := range disabledEdges(f, false) {
				if f == h {
					continue
				}
				// request-side visitor only
				isReq := false
				for _, v := range cookieVisits(h) {
					if v.Request && v.Closure == f {
						isReq = true
					}
				}
				if !isReq {
					continue
				}
				decided = true
				direct := len(dec[f]) > 0
				if direct {
					_, hit := reachEdge(e, isReturn, nil, func(in ssa.Instruction) bool {
						return isCallTo(in, isReqRewrite)
					})
					r.check(hit == nil, "request-visitor:not-excepted⇒rewritten", r.fpos(f), "every non-excepted cookie is rewritten (plaintext or empty) on every path", "a non-excepted request cookie can reach the handler as sent by the client")
				} else {
					// snapshot form: the visitor records the name; the handler rewrites every recorded name before Next.
					// (a) from the not-excepted edge every path to return stores into a captured cell (the name list),
					//     unless the name is already recorded (second isDisabled test against that list)
					cut := map[edge]bool{}
					for _, c := range callsMatching(f, false, nameHasSuffix("encryptcookie.isDisabled")) {
						if dependsOn(c.Common.Args[1], func(v ssa.Value) bool { return loadOfField(v, "encryptcookie.Config.Except") }) != nil {
							continue
						}
						for _, br := range ifsOnValue(f, c.Value()) {
							if sl, ok := br.truthSlot(true); ok {
								cut[edge{br.If.Block(), sl}] = true
							}
						}
					}
					_, hit := reachEdge(e, isReturn, cut, func(in ssa.Instruction) bool {
						st, ok := in.(*ssa.Store)
						if !ok {
							return false
						}
						_, isFree := st.Addr.(*ssa.FreeVar)
						return isFree
					})
					// (b) in the handler, after each Decryptor call a rewrite happens before the next one / before Next
					okLoop := len(dec[h]) >= 1
					for _, d := range dec[h] {
						_, hit2 := reach(pointAfter(d.Instr), orPred(isNextCall, isReturn, func(in ssa.Instruction) bool { return in == d.Instr }), nil, func(in ssa.Instruction) bool {
							return isCallTo(in, nameHasSuffix("fasthttp.RequestHeader).SetCookie", "fasthttp.RequestHeader).SetCookieBytesKV"))
						})
						if hit2 != nil {
							okLoop = false
						}
					}
					r.check(hit == nil && okLoop, "request-visitor:not-excepted⇒rewritten", r.fpos(f), "every non-excepted name is recorded once by the visitor, and each recorded name is rewritten (plaintext or empty) in the handler before Next",
						"a non-excepted request cookie can reach the handler as sent by the client (name not recorded, or recorded but not rewritten)")
				}
			}
		}
		r.check(decided, "request-visitor:consults-exception-list", r.fpos(h), "the request-side visitor tests isDisabled(name, cfg.Except)", "request cookies are not filtered through the exception list")
		// rewrites precede the protected continuation
		var reqVisit *cookieVisit
		for _, v := range cookieVisits(h) {
			v := v
			if v.Request {
				reqVisit = &v
			}
		}
		r.need(reqVisit != nil, "request visitor")
		okOrder := true
		nn := 0
		for _, in := range instrsWhere(h, isNextCall) {
			if isCfgNextSkip(h, in) {
				continue // the only continuation allowed to run before decryption
			}
			nn++
			if _, hit := reach(entryOf(h), func(x ssa.Instruction) bool { return x == in }, nil, func(x ssa.Instruction) bool { return x == reqVisit.Call.Instr }); hit != nil {
				okOrder = false
			}
		}
		okOrder = okOrder && nn >= 1
		r.check(okOrder, "handler:decrypt-before-Next", r.pos(reqVisit.Call.Instr), "request cookies are processed before the protected handler runs", "the handler runs before request cookies are decrypted")
		// DecryptCookie: non-empty only from Open success
		d := r.Fn(encPkg, "DecryptCookie")
		open := callsMatching(d, false, nameHasSuffix("cipher.AEAD).Open"))
		r.need(len(open) == 1, "DecryptCookie calls AEAD.Open once")
		okD := true
		for _, in := range instrsWhere(d, isReturn) {
			ret := in.(*ssa.Return)
			v := retOperand(ret, 0)
			if s, ok := constString(asConst(v)); ok && s == "" {
				continue
			}
			fromOpen := dependsOn(v, func(x ssa.Value) bool {
				e, ok := x.(*ssa.Extract)
				return ok && e.Tuple == open[0].Value() && e.Index == 0
			}) != nil
			gated := false
			for _, br := range branchesIn(d) {
				if e, ok := stripValue(br.Info.Root).(*ssa.Extract); ok && e.Tuple == open[0].Value() && e.Index == 1 {
					if sl, ok := br.nilSlot(true); ok && dom(br.If.Block().Succs[sl], ret.Block()) {
						gated = true
					}
				}
			}
			if !fromOpen || !gated {
				okD = false
			}
		}
		r.check(okD, "DecryptCookie:plaintext-only-from-Open", r.fpos(d), "every non-empty result is the plaintext of a successful gcm.Open", "DecryptCookie can return text that did not pass authentication")
	})

	r.rule("R3", "AEAD usage: random nonce with checked error; key length validated before the cipher is built (E1/E3)", func() {
		e := r.Fn(encPkg, "EncryptCookie")
		seal := callsMatching(e, false, nameHasSuffix("cipher.AEAD).Seal"))
		rf := callsMatching(e, false, nameIs("io.ReadFull"))
		r.need(len(seal) == 1 && len(rf) == 1, "EncryptCookie calls Seal and io.ReadFull once")
		nonce := seal[0].Common.Args[1]
		sameBuf := rf[0].Common.Args[1] == nonce
		fromRand := dependsOn(rf[0].Common.Args[0], func(v ssa.Value) bool {
			gl, ok := v.(*ssa.Global)
			return ok && gl.Name() == "Reader" && gl.Pkg.Pkg.Path() == "crypto/rand"
		}) != nil
		errChecked := false
		for _, br := range branchesIn(e) {
			if ex, ok := stripValue(br.Info.Root).(*ssa.Extract); ok && ex.Tuple == rf[0].Value() && ex.Index == 1 {
				if sl, ok := br.nilSlot(true); ok && dom(br.If.Block().Succs[sl], seal[0].Block()) {
					errChecked = true
				}
			}
		}
		r.check(sameBuf && fromRand && errChecked, "EncryptCookie:nonce", r.pos(seal[0].Instr), "Seal's nonce is the buffer filled by io.ReadFull(crypto/rand.Reader) on its err == nil edge",
			fmt.Sprintf("nonce discipline broken: same buffer=%v, from crypto/rand=%v, error checked=%v (a repeated GCM nonce voids confidentiality and authenticity)", sameBuf, fromRand, errChecked))
		for _, fn := range []string{"EncryptCookie", "DecryptCookie"} {
			f := r.Fn(encPkg, fn)
			nc := callsMatching(f, false, nameIs("crypto/aes.NewCipher"))
			r.need(len(nc) == 1, fn+" calls aes.NewCipher once")
			cut := map[edge]bool{}
			for _, br := range branchesIn(f) {
				for _, k := range []int64{16, 24, 32} {
					if s, ok := br.eqIntSlot(k, true); ok {
						cut[edge{br.If.Block(), s}] = true
					}
				}
			}
			_, hit := reach(entryOf(f), func(in ssa.Instruction) bool { return in == nc[0].Instr }, cut, nil)
			r.check(len(cut) == 3 && hit == nil, fn+":key-length-validated", r.pos(nc[0].Instr), "the cipher is built only for 16/24/32-byte keys", "the key length is not validated before the cipher is built")
		}
	})

	r.rule("R4", "no by-name rewrite of a request cookie collection from inside its own visitor (E5, belief rule)", func() {
		n := 0
		for _, f := range g.Funcs {
			for _, v := range cookieVisits(f) {
				if !v.Request || v.Closure == nil {
					continue
				}
				n++
				fname := short(f.String())
				var bad []string
				for _, c := range callsMatching(v.Closure, true, isReqRewrite) {
					bad = append(bad, short(c.Name)+" "+r.pos(c.Instr))
				}
				r.check(len(bad) == 0, "VisitAllCookie-closure:"+fname, r.pos(v.Call.Instr), "the visitor does not rewrite the collection by name",
					"the request-cookie visitor rewrites the collection by name ("+strings.Join(bad, "; ")+"): with duplicate names the rewrite always lands on the first entry — `Cookie: a=<valid>; a=ATTACKER` leaves a=ATTACKER untouched in the list the handler (and the cookie binder) sees")
			}
		}
		r.atLeast("request-cookie visitors in the module", n, 1)
	})

	r.rule("R10", "one Set-Cookie line per name: the middleware's encrypt step fetches and rewrites response cookies by name, which reaches the first cookie of a name only — so (*DefaultCtx).Cookie writes the response cookie through ResponseHeader.SetCookie (replace by name) alone and adds no second Set-Cookie line by another header call; with two lines of one name the first is encrypted twice and the second leaves in plaintext (E2 who-may-write, the agreement between Cookie and the middleware)", func() {
		f := r.Fn("", "(*DefaultCtx).Cookie")
		nSet := 0
		for _, c := range callsIn(f, false) {
			if !strings.Contains(c.Name, "fasthttp.ResponseHeader).") {
				continue
			}
			m := c.Name[strings.LastIndex(c.Name, ".")+1:]
			switch {
			case m == "SetCookie":
				nSet++
			case strings.HasPrefix(m, "Add") || strings.HasPrefix(m, "Set") || m == "AppendBytes":
				// a write of another header line: must not be Set-Cookie
				isCookieLine := false
				for _, a := range c.Common.Args {
					if str, ok := constString(asConst(a)); ok && strings.EqualFold(str, "Set-Cookie") {
						isCookieLine = true
					}
				}
				if isCookieLine || strings.HasPrefix(m, "Add") {
					r.bad("Cookie:"+m+":one-line-per-name", r.pos(c.Instr), "Cookie() writes a header line beside ResponseHeader.SetCookie ("+m+"): a second Set-Cookie of the same name — set for another path or domain — is out of reach of the encryptcookie middleware's by-name rewrite, `sid=plain-secret; path=/shop` leaves in plaintext while the first sid is encrypted twice")
				}
			}
		}
		r.check(nSet >= 1, "Cookie:written-through-SetCookie", r.fpos(f), "the response cookie is written through ResponseHeader.SetCookie", "Cookie() no longer writes through ResponseHeader.SetCookie: not the shape the rule reads")
	})

	r.rule("R11", "the snapshot of names is the request's own: the handler runs for many requests at once; the memory it collects the request's cookie names in (and anything else it appends to) is created per request, not once in New and re-sliced — two requests inside the middleware would overwrite each other's names, an authentic second cookie then reaches the handler as ciphertext (E2 ownership: no append onto / store into a slice captured from the constructor)", func() {
		handlerScratchIsPerRequestRule(r, encPkg, "New", "a second request overwrites the names of the first while it is between two cookies, the first request's remaining cookies are not decrypted and reach its handler as base64 ciphertext (neither the original value nor empty)")
	})

	r.rule("R9", "a truncated value is an error, not a crash: where DecryptCookie (or any function of the package) cuts the decoded bytes at a position it took from elsewhere (the nonce size), the length it compared that position with is the length of the bytes it cuts — not of the text before decoding (contradiction rule, E1)", func() {
		sliceBoundOnItsOwnValueRule(r, encPkg)
	})

	r.rule("R8", "what the handler sees under a name is exactly the one rewritten cookie: every rewrite of a request cookie in the decrypt loop is preceded, in the same iteration, by DelCookie(name) — SetCookie replaces the first cookie of that name only, a second one sent by the client would stay as sent (E1 ordering)", func() {
		h := encHandler(r)
		reads := callsMatching(h, false, nameHasSuffix("fasthttp.RequestHeader).Cookie"))
		r.need(len(reads) >= 1, "the decrypt loop reads the cookie by name")
		isDel := func(in ssa.Instruction) bool { return isCallTo(in, nameHasSuffix("fasthttp.RequestHeader).DelCookie")) }
		n := 0
		for _, w := range callsMatching(h, false, isReqRewrite) {
			if strings.Contains(w.Name, "DelCookie") || strings.Contains(w.Name, "DelAllCookies") {
				continue
			}
			n++
			okAll := true
			for _, rd := range reads {
				// from this iteration's read to the rewrite, without passing the read again (the next iteration)
				_, hit := reach(pointAfter(rd.Instr), func(in ssa.Instruction) bool { return in == w.Instr }, nil, func(in ssa.Instruction) bool { return isDel(in) || in == rd.Instr })
				if hit != nil {
					okAll = false
				}
			}
			r.check(okAll, fmt.Sprintf("handler:request-rewrite#%d:all-of-the-name-removed-first", n), r.pos(w.Instr), "DelCookie(name) lies on every path from the read to this rewrite",
				"a request cookie is rewritten without the cookies of that name having been removed first: with `sid=garbage; sid=role-admin` the first is blanked and the second reaches the handler as the client sent it")
		}
		r.atLeast("request-cookie rewrites in the decrypt loop", n, 1)
	})

	r.rule("R5", "cookie names are compared exactly (E1): isDisabled answers true only behind a string equality with (or slices.Contains over) the given names", func() {
		f := r.Fn(encPkg, "isDisabled")
		var key *ssa.Parameter
		for _, p := range f.Params {
			if b, ok := p.Type().Underlying().(*types.Basic); ok && b.Info()&types.IsString != 0 {
				key = p
			}
		}
		r.need(key != nil, "isDisabled(key string, …)")
		cut := map[edge]bool{}
		for _, br := range branchesInOne(f) {
			if br.Info.Other == nil {
				continue
			}
			if sl, ok := br.slotFor(token.EQL); ok && (br.Info.Root == ssa.Value(key) || br.Info.Other == ssa.Value(key)) {
				if _, isBin := stripValue(br.If.Cond).(*ssa.BinOp); isBin || true {
					cut[edge{br.If.Block(), sl}] = true
				}
			}
		}
		isExact := func(v ssa.Value) bool {
			if c, ok := v.(*ssa.Call); ok && strings.HasPrefix(calleeName(&c.Call), "slices.Contains") && len(c.Call.Args) == 2 && c.Call.Args[1] == ssa.Value(key) {
				return true
			}
			if bo, ok := v.(*ssa.BinOp); ok && bo.Op == token.EQL && (bo.X == ssa.Value(key) || bo.Y == ssa.Value(key)) {
				return true
			}
			return false
		}
		for _, c := range callsMatching(f, false, func(n string) bool { return strings.HasPrefix(n, "slices.Contains") }) {
			if len(c.Common.Args) == 2 && c.Common.Args[1] == ssa.Value(key) {
				for _, br := range ifsOnValue(f, c.Value()) {
					if sl, ok := br.truthSlot(true); ok {
						cut[edge{br.If.Block(), sl}] = true
					}
				}
			}
		}
		r.check(trueOnlyBehind(f, cut, isExact), "isDisabled:exact-name-match", r.fpos(f), "a name is exempt (or counted as already seen) only when it equals a listed name byte for byte",
			"cookie names are matched by something other than exact equality (cookie names are case-sensitive): a cookie whose name differs only in letter case from an excepted or already decrypted one passes through unencrypted / undecrypted, so client-chosen text reaches the handler")
	})

	r.rule("R6", "function-valued Config fields the middleware calls are never nil (E1): set by configDefault on every path, also when no config is passed", func() {
		configFuncFieldsRule(r, encPkg, "encryptcookie")
	})

	r.rule("R7", "per-request code never appends into the configuration's slices: no append in the handler or its closures on a slice that can share its backing array with a Config field (value flow through variables, re-slicing and append; E3)", func() {
		configSlicesNotAppendedRule(r, encPkg, "encryptcookie")
	})
}

// isCfgNextSkip: this c.Next() call sits on the `cfg.Next(c) == true` edge (documented bypass).
func isCfgNextSkip(h *ssa.Function, next ssa.Instruction) bool {
	for _, c := range callsMatching(h, false, nameIs("field:encryptcookie.Config.Next")) {
		for _, br := range ifsOnValue(h, c.Value()) {
			if s, ok := br.truthSlot(true); ok {
				tgt := br.If.Block().Succs[s]
				if len(tgt.Preds) == 1 && dom(tgt, next.Block()) {
					return true
				}
			}
		}
	}
	return false
}
