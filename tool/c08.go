package main

import (
	"fmt"
	"go/token"
	"go/types"
	"sort"
	"strings"

	"golang.org/x/tools/go/ssa"
)

func init() {
	register(&propDef{
		ID: "C08",
		Explain: "Decided clauses: R1 exactly-once funnel — in the three entry points every path with an error passes exactly one call of App.ErrorHandler, a failing handler leads to SendStatus(500), " +
			"and the configured handler field is invoked nowhere else in the routing funnel; R2 the mounted-handler selection loop ranges a map but its result is order-independent: the candidate filter makes all " +
			"candidates prefixes of one string, the running comparison is strict on len(prefix) (injective among them) and handler and key are updated together; R3 a candidate must pass a segment-boundary test; " +
			"R4 DefaultErrorHandler's status is Error.Code under errors.As, else 500; R5 only sub-apps that configured a handler are selected. Not decided: nothing value-level remains for the selection; error texts.",
		Assume: []string{"ctx.Path() without override is pure"},
		Run:    runC08,
	})
}

// loopOf returns the blocks of the natural loop with the given header.
func loopOf(header *ssa.BasicBlock) map[*ssa.BasicBlock]bool {
	in := map[*ssa.BasicBlock]bool{header: true}
	var stack []*ssa.BasicBlock
	for _, p := range header.Preds {
		if dom(header, p) && !in[p] {
			in[p] = true
			stack = append(stack, p)
		}
	}
	for len(stack) > 0 {
		b := stack[len(stack)-1]
		stack = stack[:len(stack)-1]
		for _, p := range b.Preds {
			if !in[p] {
				in[p] = true
				stack = append(stack, p)
			}
		}
	}
	return in
}

type mapRange struct {
	Range  *ssa.Range
	Next   *ssa.Next
	Header *ssa.BasicBlock
	Loop   map[*ssa.BasicBlock]bool
	Key    ssa.Value // extract #1
	Val    ssa.Value // extract #2
}

func mapRangesIn(f *ssa.Function) []mapRange {
	var out []mapRange
	for _, b := range f.Blocks {
		for _, in := range b.Instrs {
			nx, ok := in.(*ssa.Next)
			if !ok || nx.IsString {
				continue
			}
			rg, ok := nx.Iter.(*ssa.Range)
			if !ok {
				continue
			}
			if _, isMap := rg.X.Type().Underlying().(*types.Map); !isMap {
				continue
			}
			mr := mapRange{Range: rg, Next: nx, Header: b, Loop: loopOf(b)}
			for _, ref := range *nx.Referrers() {
				if ex, ok := ref.(*ssa.Extract); ok {
					switch ex.Index {
					case 1:
						mr.Key = ex
					case 2:
						mr.Val = ex
					}
				}
			}
			out = append(out, mr)
		}
	}
	return out
}

type phiLeaf struct {
	Origin *ssa.BasicBlock
	Val    ssa.Value
}

// leavesOf expands the loop-carried phi H along its back edges through inner phis.
func leavesOf(h *ssa.Phi, loop map[*ssa.BasicBlock]bool) []phiLeaf {
	var out []phiLeaf
	seen := map[*ssa.Phi]bool{h: true}
	var expand func(origin *ssa.BasicBlock, v ssa.Value)
	expand = func(origin *ssa.BasicBlock, v ssa.Value) {
		if p, ok := v.(*ssa.Phi); ok && p != h && loop[p.Block()] && !seen[p] {
			seen[p] = true
			for i, e := range p.Edges {
				expand(p.Block().Preds[i], e)
			}
			return
		}
		out = append(out, phiLeaf{origin, v})
	}
	for i, e := range h.Edges {
		pred := h.Block().Preds[i]
		if !loop[pred] {
			continue
		}
		expand(pred, e)
	}
	return out
}

func isLenOf(v, of ssa.Value) bool {
	c, ok := v.(*ssa.Call)
	if !ok {
		return false
	}
	b, ok := c.Call.Value.(*ssa.Builtin)
	return ok && b.Name() == "len" && len(c.Call.Args) == 1 && keyLike(c.Call.Args[0], of)
}

// keyLike: v is the map key itself or its case-folded form (ToLower keeps the length and the
// prefix relation among folded strings), possibly chosen by a configuration flag (phi).
func keyLike(v, key ssa.Value) bool {
	seen := map[ssa.Value]bool{}
	var rec func(v ssa.Value) bool
	rec = func(v ssa.Value) bool {
		if v == key {
			return true
		}
		if v == nil || seen[v] {
			return false
		}
		seen[v] = true
		switch x := v.(type) {
		case *ssa.Phi:
			for _, e := range x.Edges {
				if !rec(e) {
					return false
				}
			}
			return len(x.Edges) > 0
		case *ssa.Call:
			n := calleeName(&x.Call)
			if strings.Contains(n, "utils/v2.ToLower") || n == "strings.ToLower" {
				return rec(x.Call.Args[0])
			}
		}
		return false
	}
	return rec(v)
}

func runC08(r *Run) {
	g := r.P.Graph()
	entries := []string{"(*App).defaultRequestHandler", "(*App).customRequestHandler", "(*App).serverErrorHandler"}
	ehName := "(*" + fiberMod + ".App).ErrorHandler"

	r.rule("R1", "exactly-once funnel: error ⇒ one App.ErrorHandler call; failing handler ⇒ SendStatus(500); configured handler field called only inside App.ErrorHandler (E1 + who-may-call)", func() {
		for _, en := range entries {
			f := r.Fn("", en)
			calls := callsMatching(f, false, nameIs(ehName))
			if !r.check(len(calls) == 1, en+":single-call-site", r.fpos(f), "one ErrorHandler call site", fmt.Sprintf("%d ErrorHandler call sites (an error could be delivered twice or never)", len(calls))) {
				continue
			}
			eh := calls[0]
			isEH := func(in ssa.Instruction) bool { return in == eh.Instr }
			// at most once: not reachable from itself
			_, again := reach(pointAfter(eh.Instr), isEH, nil, nil)
			r.check(again == nil, en+":at-most-once", r.pos(eh.Instr), "the call cannot be reached again from itself", "ErrorHandler can run twice for one request (it is reachable from itself)")
			// at least once
			var start []point
			what := ""
			if nexts := callsMatching(f, false, nameHasSuffix("App).next", "App).nextCustom")); len(nexts) == 1 {
				for _, br := range ifsOnValue(f, nexts[0].Value()) {
					if s, ok := br.nilSlot(false); ok {
						start = append(start, pointOfEdge(edge{br.If.Block(), s}))
					}
				}
				what = "the err != nil edge of next"
			} else {
				start = append(start, entryOf(f))
				what = "entry"
			}
			if len(start) == 0 {
				r.bad(en+":at-least-once", r.fpos(f), "the error returned by next is not tested")
			}
			for _, st := range start {
				_, ret := reach(st, isReturn, nil, isEH)
				r.check(ret == nil, en+":at-least-once", r.pos(eh.Instr), "every path from "+what+" to return passes the ErrorHandler call", "a path from "+what+" reaches return without calling ErrorHandler (error swallowed)")
			}
			// failing handler → 500
			okFail := false
			for _, br := range ifsOnValue(f, eh.Value()) {
				if s, ok := br.nilSlot(false); ok {
					_, ret := reachEdge(edge{br.If.Block(), s}, isReturn, nil, func(in ssa.Instruction) bool {
						ci, ok := in.(ssa.CallInstruction)
						if !ok || !strings.HasSuffix(calleeName(ci.Common()), ").SendStatus") {
							return false
						}
						args := ci.Common().Args
						return len(args) > 0 && isConstInt(args[len(args)-1], 500)
					})
					okFail = ret == nil
				}
			}
			r.check(okFail, en+":handler-failure→500", r.pos(eh.Instr), "a non-nil result of the error handler leads to SendStatus(500) on every path", "a failing error handler does not yield a 500")
		}
		// who may call the configured handler
		allow := map[string]string{
			"(*" + fiberMod + ".App).ErrorHandler":         "the funnel itself",
			fiberMod + "/middleware/adaptor.handlerFunc$1": "adaptor single-handler mode: a lone handler run outside the routing chain of a locally created app (no mounts)",
		}
		n := 0
		for _, f := range g.Funcs {
			for _, c := range callsIn(f, false) {
				if c.Name != "field:Config.ErrorHandler" {
					continue
				}
				n++
				_, ok := allow[f.String()]
				r.check(ok, "who-calls-config.ErrorHandler:"+short(f.String()), r.pos(c.Instr), "allowed caller: "+allow[f.String()], short(f.String())+" invokes the configured error handler directly, bypassing App.ErrorHandler's mounted-app selection")
			}
		}
		r.atLeast("config.ErrorHandler call sites", n, 1)
		var others []string
		for _, c := range g.Callers[r.Fn("", "(*App).ErrorHandler")] {
			others = append(others, short(c.Fn.String()))
		}
		sort.Strings(others)
		r.Extra["ErrorHandler_callers_listed_not_judged"] = others
	})

	r.rule("R2", "mounted-handler selection is independent of map iteration order (E7): strict comparison on len(prefix) among prefixes of one string; handler and key updated together", func() {
		f := r.Fn("", "(*App).ErrorHandler")
		mrs := mapRangesIn(f)
		r.need(len(mrs) == 1, "ErrorHandler ranges over one map")
		mr := mrs[0]
		r.need(loadOfField(mr.Range.X, "mountFields.appList"), "the map is mountFields.appList")
		var phis []*ssa.Phi
		for _, in := range mr.Header.Instrs {
			if p, ok := in.(*ssa.Phi); ok {
				phis = append(phis, p)
			}
		}
		if len(phis) == 0 {
			r.ok("ErrorHandler:range-appList", r.pos(mr.Next), "the loop carries no state (not a selecting loop)")
			return
		}
		// leaves per phi
		type upd struct {
			phi    *ssa.Phi
			leaves []phiLeaf
		}
		var us []upd
		for _, p := range phis {
			us = append(us, upd{p, leavesOf(p, mr.Loop)})
		}
		sig := func(u upd) string {
			var s []string
			for _, l := range u.leaves {
				if l.Val == ssa.Value(u.phi) {
					s = append(s, fmt.Sprintf("keep@b%d", l.Origin.Index))
				} else {
					s = append(s, fmt.Sprintf("set@b%d", l.Origin.Index))
				}
			}
			sort.Strings(s)
			return strings.Join(s, ",")
		}
		together := true
		for _, u := range us[1:] {
			if sig(u) != sig(us[0]) {
				together = false
			}
		}
		names := func() string {
			var s []string
			for _, u := range us {
				s = append(s, u.phi.Comment+"{"+sig(u)+"}")
			}
			return strings.Join(s, " ")
		}
		r.check(together, "ErrorHandler:selection-updated-together", r.pos(mr.Next), "all loop-carried variables are updated on exactly the same paths: "+names(),
			"the selected handler and the running key are updated on different paths ("+names()+"): a candidate that only advances the key shadows or un-shadows others depending on iteration order")
		// strict comparison on len(key) guarding every update
		var updBlocks []*ssa.BasicBlock
		var keyVals []ssa.Value
		for _, u := range us {
			for _, l := range u.leaves {
				if l.Val != ssa.Value(u.phi) {
					updBlocks = append(updBlocks, l.Origin)
					if isLenOf(l.Val, mr.Key) {
						keyVals = append(keyVals, l.Val)
					}
				}
			}
		}
		// Every update lies behind a comparison that orders the candidates strictly and totally:
		//   len(prefix) > running length                                  (candidates are prefixes of one string, so
		//                                                                   equal lengths mean equal prefixes), or
		//   len(prefix) == running length  ∧  map key < remembered key    (needed as soon as the prefix compared is a
		//                                                                   folded form of the key: two keys that differ in
		//                                                                   letter case only fold to the same prefix)
		isPhi := func(v ssa.Value) bool {
			for _, p := range phis {
				if v == ssa.Value(p) {
					return true
				}
			}
			return false
		}
		// abstract evaluation: fix the sign of len(prefix) − running length (s1) and of key ⋚ remembered key (s2), walk
		// one iteration of the loop deciding every test of those two comparisons, following both arms of all others,
		// and see whether an update can be reached
		cmpDesc := ""
		kindOf := func(ci condInfo) (kind int, op token.Token) { // 1: length comparison, 2: key comparison
			if ci.Other == nil {
				return 0, ci.Op
			}
			a, b, op := ci.Root, ci.Other, ci.Op
			switch {
			case isLenOf(a, mr.Key) && isPhi(b):
				return 1, op
			case isLenOf(b, mr.Key) && isPhi(a):
				return 1, flipOp(op)
			case a == mr.Key && isPhi(b):
				return 2, op
			case b == mr.Key && isPhi(a):
				return 2, flipOp(op)
			}
			return 0, op
		}
		holds := func(op token.Token, sign int) bool {
			switch op {
			case token.LSS:
				return sign < 0
			case token.LEQ:
				return sign <= 0
			case token.GTR:
				return sign > 0
			case token.GEQ:
				return sign >= 0
			case token.EQL:
				return sign == 0
			case token.NEQ:
				return sign != 0
			}
			return false
		}
		isUpd := map[*ssa.BasicBlock]bool{}
		for _, ub := range updBlocks {
			isUpd[ub] = true
		}
		tie := 0
		reachesUpdate := func(s1, s2 int) bool {
			seen := map[*ssa.BasicBlock]bool{}
			var walk func(b, from *ssa.BasicBlock) bool
			walk = func(b, from *ssa.BasicBlock) bool {
				if b == mr.Header || seen[b] || !mr.Loop[b] {
					return false
				}
				seen[b] = true
				if isUpd[b] {
					return true
				}
				if iff, ok := b.Instrs[len(b.Instrs)-1].(*ssa.If); ok {
					ci := decompose(iff.Cond)
					// a condition evaluated as a value (`a == b && k < m` in a switch case): the phi of this block takes
					// the operand of the edge the walk came in by — a constant, or one of the two comparisons
					if ph, isPhi := ci.Root.(*ssa.Phi); isPhi && ci.Other == nil && ci.Op == token.ILLEGAL && ph.Block() == b && from != nil {
						for k, pb := range b.Preds {
							if pb != from {
								continue
							}
							if cb, isC := constBool(asConst(ph.Edges[k])); isC {
								if cb != ci.Neg {
									return walk(b.Succs[0], b)
								}
								return walk(b.Succs[1], b)
							}
							inner := decompose(ph.Edges[k])
							inner.Neg = inner.Neg != ci.Neg
							ci = inner
						}
					}
					if kind, op := kindOf(ci); kind != 0 {
						sign := s1
						if kind == 2 {
							sign = s2
						}
						t := holds(op, sign) != ci.Neg
						if t {
							return walk(b.Succs[0], b)
						}
						return walk(b.Succs[1], b)
					}
				}
				for _, su := range b.Succs {
					if walk(su, b) {
						return true
					}
				}
				return false
			}
			for _, su := range mr.Header.Succs {
				if walk(su, mr.Header) {
					return true
				}
			}
			return false
		}
		// the comparisons themselves, whether they are branched on or evaluated as values (`a == b && k < m` as one switch case)
		for _, b := range f.Blocks {
			if !mr.Loop[b] {
				continue
			}
			for _, in := range b.Instrs {
				bo, ok := in.(*ssa.BinOp)
				if !ok {
					continue
				}
				if kind, op := kindOf(decompose(bo)); kind == 1 {
					cmpDesc = fmt.Sprintf("len(prefix) %s running length", op)
				} else if kind == 2 {
					tie++
				}
			}
		}
		strict := len(updBlocks) > 0 && cmpDesc != ""
		var got []string
		for _, s1 := range []int{-1, 0, 1} {
			for _, s2 := range []int{-1, 0, 1} {
				if reachesUpdate(s1, s2) {
					got = append(got, fmt.Sprintf("(%+d,%+d)", s1, s2))
					// allowed: longer prefix; or equally long and the key strictly on one side
					if s1 < 0 || (s1 == 0 && s2 == 0) {
						strict = false
					}
				}
			}
		}
		// among equally long prefixes at most one direction of the key comparison may win
		if reachesUpdate(0, -1) && reachesUpdate(0, 1) {
			strict = false
		}
		if !reachesUpdate(1, -1) || !reachesUpdate(1, 1) || !reachesUpdate(1, 0) {
			strict = false // a longer prefix must always win
		}
		cmpDesc += "; an update is reachable for (sign of length difference, sign of key comparison) ∈ {" + strings.Join(got, " ") + "}"
		// is the prefix that is measured and compared a folded form of the key?
		folded := false
		for _, c := range callsIn(f, false) {
			if mr.Loop[c.Block()] && (strings.Contains(c.Name, "utils/v2.ToLower") || c.Name == "strings.ToLower") && keyLike(c.Common.Args[0], mr.Key) {
				folded = true
			}
		}
		r.check(strict && len(keyVals) > 0, "ErrorHandler:strict-injective-key", r.pos(mr.Next),
			"an update happens exactly for a longer prefix or, among equally long ones, for a key strictly on one side of the remembered key ("+cmpDesc+"), and the running length is set to that length",
			"the running comparison ("+cmpDesc+") is not a strict comparison on len(prefix): with equal keys (e.g. sibling mounts /api and /api-v2, both 2 segments) the last one iterated wins, and map order differs between calls")
		tieWins := reachesUpdate(0, -1) != reachesUpdate(0, 1)
		r.check(!folded || (tie > 0 && tieWins), "ErrorHandler:folded-keys-need-a-tie-break", r.pos(mr.Next), fmt.Sprintf("the compared prefix is a folded form of the map key: %v; tie-breaks on the key as written: %d", folded, tie),
			"the prefixes are compared in a case-folded form, so two mount points that differ in letter case only (/API and /api) are equally long candidates; without a tie-break on the keys as written the strict length comparison keeps whichever the map iteration yields first — the handler chosen for one path differs between calls")
		// candidates are prefixes of one loop-invariant string
		hp := false
		for _, c := range prefixTestsIn(f) {
			if c.Instr.Parent() != f || !mr.Loop[c.Block()] || !keyLike(c.Needle, mr.Key) {
				continue
			}
			x := c.Hay
			inv := false
			if in, ok := x.(ssa.Instruction); ok && !mr.Loop[in.Block()] {
				inv = true
			} else if xc, ok := x.(*ssa.Call); ok && xc.Call.IsInvoke() && xc.Call.Method.Name() == "Path" && len(xc.Call.Args) == 1 && asConst(xc.Call.Args[0]) != nil {
				inv = true // Path() without override
			} else if _, ok := x.(*ssa.Parameter); ok {
				inv = true
			}
			for _, he := range c.holdsEdges(f) {
				if inv {
					tgt := he.To()
					all := len(updBlocks) > 0
					for _, ub := range updBlocks {
						if !dom(tgt, ub) {
							all = false
						}
					}
					hp = hp || all
				}
			}
		}
		// the same filter moved into a boolean helper asked with (path, prefix)
		for _, c := range callsIn(f, false) {
			if hp || !mr.Loop[c.Block()] {
				continue
			}
			g := boolHelperCall(c)
			if g == nil {
				continue
			}
			pk := paramFor(g, c, mr.Key)
			if pk == nil {
				continue
			}
			cutG := map[edge]bool{}
			var hpCalls []ssa.Value
			for _, hc := range prefixTestsIn(g) {
				if hc.Instr.Parent() != g || stripValue(hc.Needle) != ssa.Value(pk) {
					continue
				}
				pp, isParam := stripValue(hc.Hay).(*ssa.Parameter)
				if !isParam {
					continue
				}
				// the path argument must be loop-invariant at the call
				var pathArg ssa.Value
				for i, gp := range g.Params {
					if gp == pp && i < len(c.Common.Args) {
						pathArg = c.Common.Args[i]
					}
				}
				inv := false
				if in, ok := pathArg.(ssa.Instruction); ok && !mr.Loop[in.Block()] {
					inv = true
				} else if xc, ok := pathArg.(*ssa.Call); ok && xc.Call.IsInvoke() && xc.Call.Method.Name() == "Path" && len(xc.Call.Args) == 1 && asConst(xc.Call.Args[0]) != nil {
					inv = true
				} else if _, ok := pathArg.(*ssa.Parameter); ok {
					inv = true
				}
				if !inv {
					continue
				}
				if hc.HoldsWhen {
					hpCalls = append(hpCalls, hc.Val)
				}
				for _, he := range hc.holdsEdges(g) {
					cutG[he] = true
				}
			}
			if len(hpCalls) == 0 && len(cutG) == 0 {
				continue
			}
			isHP := func(v ssa.Value) bool {
				for _, h := range hpCalls {
					if v == h {
						return true
					}
				}
				return false
			}
			if !trueOnlyBehind(g, cutG, isHP) {
				continue
			}
			for _, br := range ifsOnValue(f, c.Value()) {
				if sl, ok := br.truthSlot(true); ok {
					tgt := br.If.Block().Succs[sl]
					all := len(updBlocks) > 0
					for _, ub := range updBlocks {
						if !dom(tgt, ub) {
							all = false
						}
					}
					hp = hp || all
				}
			}
		}
		r.check(hp, "ErrorHandler:candidates-are-prefixes-of-path", r.pos(mr.Next), "every update is dominated by HasPrefix(path, prefix) with a loop-invariant path", "updates are not restricted to prefixes of the request path")
	})

	r.rule("R3", "a mounted app is a candidate only on a segment boundary (E1)", func() {
		f := r.Fn("", "(*App).ErrorHandler")
		mrs := mapRangesIn(f)
		r.need(len(mrs) == 1, "ErrorHandler ranges over one map")
		mr := mrs[0]
		// edges on which a segment boundary is established:
		//  (1) path[len(prefix)] == '/'   (2) len(path) <= len(prefix) (with HasPrefix: equal)   (3) the prefix itself ends in '/'
		boundaryEdges := func(fn *ssa.Function, key ssa.Value, inScope func(*ssa.BasicBlock) bool) (map[edge]bool, int) {
			cut := map[edge]bool{}
			kind1 := 0
			for _, br := range branchesInOne(fn) {
				if !inScope(br.If.Block()) {
					continue
				}
				if n, ok := constInt(br.Info.Const); ok && n == '/' {
					if _, ok := stripValue(br.Info.Root).(*ssa.Index); ok {
						if s, ok := br.slotFor(token.EQL); ok {
							cut[edge{br.If.Block(), s}] = true
							if !keyLike(stripValue(br.Info.Root).(*ssa.Index).X, key) {
								kind1++
							}
						}
					}
					continue
				}
				// (2) written on the remainder: `rest == ""` with rest from strings.CutPrefix(path, prefix) — the path is the prefix
				if str, ok := constString(br.Info.Const); ok && str == "" {
					if ex, ok := stripValue(br.Info.Root).(*ssa.Extract); ok && ex.Index == 0 {
						if c, ok := ex.Tuple.(*ssa.Call); ok && strings.HasSuffix(calleeName(&c.Call), ".CutPrefix") {
							if sl, ok := br.slotFor(token.EQL); ok {
								cut[edge{br.If.Block(), sl}] = true
							}
						}
					}
					continue
				}
				if br.Info.Other != nil {
					a, b := br.Info.Root, br.Info.Other
					op := br.Info.Op
					aKey, bKey := isLenOf(a, key), isLenOf(b, key)
					aLen := func(v ssa.Value) bool { c, ok := v.(*ssa.Call); return ok && calleeName(&c.Call) == "builtin:len" }
					if bKey && aLen(a) && !aKey {
						// len(path) OP len(prefix)
					} else if aKey && aLen(b) && !bKey {
						op = flipOp(op) // len(prefix) OP len(path)  ≡  len(path) flip(OP) len(prefix)
					} else {
						continue
					}
					switch op {
					case token.LEQ, token.EQL, token.LSS:
						cut[edge{br.If.Block(), br.slotWhenRel(true)}] = true
					case token.GTR, token.NEQ, token.GEQ:
						cut[edge{br.If.Block(), br.slotWhenRel(false)}] = true
					}
				}
			}
			return cut, kind1
		}
		cut, kind1 := boundaryEdges(f, mr.Key, func(b *ssa.BasicBlock) bool { return mr.Loop[b] })
		// a boolean helper that answers true only on a boundary: its true edge is a boundary edge
		for _, c := range callsIn(f, false) {
			if !mr.Loop[c.Block()] {
				continue
			}
			g := boolHelperCall(c)
			if g == nil {
				continue
			}
			pk := paramFor(g, c, mr.Key)
			if pk == nil {
				continue
			}
			cutG, k1 := boundaryEdges(g, pk, func(*ssa.BasicBlock) bool { return true })
			isBoundaryPred := func(v ssa.Value) bool {
				bo, ok := v.(*ssa.BinOp)
				if !ok || bo.Op != token.EQL {
					return false
				}
				n, isC := constInt(asConst(bo.Y))
				_, isIdx := stripValue(bo.X).(*ssa.Index)
				if isC && n == '/' && isIdx {
					if stripValue(bo.X).(*ssa.Index).X != ssa.Value(pk) {
						k1++
					}
					return true
				}
				return false
			}
			if trueOnlyBehind(g, cutG, isBoundaryPred) && k1 > 0 {
				kind1 += k1
				for _, br := range ifsOnValue(f, c.Value()) {
					if sl, ok := br.truthSlot(true); ok {
						cut[edge{br.If.Block(), sl}] = true
					}
				}
			}
		}
		concat := false
		for _, c := range prefixTestsIn(f) {
			if dependsOn(c.Needle, func(v ssa.Value) bool {
				bo, ok := v.(*ssa.BinOp)
				if !ok || bo.Op != token.ADD {
					return false
				}
				s, ok := constString(asConst(bo.Y))
				return ok && s == "/"
			}) != nil {
				concat = true
			}
		}
		var updates []ssa.Instruction
		for _, in := range mr.Header.Instrs {
			if p, ok := in.(*ssa.Phi); ok {
				for _, l := range leavesOf(p, mr.Loop) {
					if l.Val != ssa.Value(p) {
						updates = append(updates, l.Origin.Instrs[len(l.Origin.Instrs)-1])
					}
				}
			}
		}
		if len(updates) == 0 {
			r.ok("ErrorHandler:segment-boundary", r.pos(mr.Next), "no selection in the loop")
			return
		}
		isUpd := func(in ssa.Instruction) bool {
			for _, u := range updates {
				if u == in {
					return true
				}
			}
			return false
		}
		body := mr.Header.Succs[0]
		path, hit := reach(point{body, 0}, isUpd, cut, func(in ssa.Instruction) bool { return in.Block() == mr.Header })
		r.check(concat || (kind1 > 0 && hit == nil), "ErrorHandler:segment-boundary", r.pos(mr.Next),
			"with the boundary-establishing edges (next byte is '/', equal length, prefix ends in '/') removed no selection is reachable",
			"a mounted app becomes a candidate on a bare strings.HasPrefix(path, prefix): /api-v2/x is attributed to the app mounted at /api. path: "+pathString(r.P, path))
	})

	r.rule("R4", "DefaultErrorHandler: status = Error.Code under errors.As, else 500 (E3)", func() {
		f := r.Fn("", "DefaultErrorHandler")
		st := callsMatching(f, false, nameHasSuffix(").Status"))
		r.need(len(st) == 1, "DefaultErrorHandler calls Status once")
		arg := st[0].Common.Args[len(st[0].Common.Args)-1]
		phi, ok := arg.(*ssa.Phi)
		okShape := ok
		has500, hasCode := false, false
		if ok {
			for i, e := range phi.Edges {
				if isConstInt(e, 500) {
					has500 = true
				} else if loadOfField(e, "Error.Code") {
					hasCode = true
					// the Code edge is under errors.As == true
					as := callsMatching(f, false, nameIs("errors.As"))
					gated := false
					for _, a := range as {
						for _, br := range ifsOnValue(f, a.Value()) {
							if s, ok := br.truthSlot(true); ok && dom(br.If.Block().Succs[s], phi.Block().Preds[i]) {
								gated = true
							}
						}
					}
					okShape = okShape && gated
				} else {
					okShape = false
				}
			}
		}
		r.check(okShape && has500 && hasCode, "DefaultErrorHandler:status-source", r.pos(st[0].Instr), "status ∈ {Error.Code under errors.As, 500}", "the response status of the default handler is not (Error.Code | 500)")
		body := callsMatching(f, false, nameHasSuffix(").SendString"))
		r.check(len(body) == 1, "DefaultErrorHandler:body", r.fpos(f), "sends the error text", "does not send the error text")
	})

	r.rule("R5", "a sub-app's handler is taken only when that sub-app configured one (E1)", func() {
		f := r.Fn("", "(*App).ErrorHandler")
		n := 0
		for _, b := range f.Blocks {
			for _, in := range b.Instrs {
				u, ok := in.(*ssa.UnOp)
				if !ok || !loadOfField(u, "Config.ErrorHandler") {
					continue
				}
				// loads of config.ErrorHandler of the iterated sub-app (base = App.config of range value)
				fa := u.X.(*ssa.FieldAddr)
				base, ok := fa.X.(*ssa.FieldAddr)
				if !ok {
					continue
				}
				bf := fieldVar(base.X.Type(), base.Field)
				if bf == nil || bf.Name() != "config" {
					continue
				}
				if _, isParam := base.X.(*ssa.Parameter); isParam {
					continue // the root app's own handler
				}
				n++
				gated := false
				for _, br := range branchesIn(f) {
					if !loadOfField(br.Info.Root, "Config.ErrorHandler") {
						continue
					}
					ld := stripValue(br.Info.Root).(*ssa.UnOp)
					cfa, _ := ld.X.(*ssa.FieldAddr)
					cb, _ := cfa.X.(*ssa.FieldAddr)
					if cb == nil {
						continue
					}
					cbf := fieldVar(cb.X.Type(), cb.Field)
					if cbf == nil || cbf.Name() != "configured" || cb.X != base.X {
						continue
					}
					if s, ok := br.nilSlot(false); ok && dom(br.If.Block().Succs[s], b) {
						gated = true
					}
				}
				r.check(gated, "ErrorHandler:only-configured-subapps", r.pos(u), "sub-app handler read under `configured.ErrorHandler != nil`", "a sub-app's default handler can be selected although the sub-app did not configure one (it would shadow the parent's custom handler)")
			}
		}
		r.atLeast("sub-app handler reads", n, 1)
	})

	r.rule("R6", "nested mounts are registered under their full prefix: the prefix handed down the recursion is the key the sub-app was registered under (E5)", func() {
		f := r.Fn("", "(*App).appendSubAppLists")
		var keys []ssa.Value
		for _, in := range instrsWhereOne(f, func(in ssa.Instruction) bool { _, ok := in.(*ssa.MapUpdate); return ok }) {
			mu := in.(*ssa.MapUpdate)
			if loadOfField(mu.Map, "mountFields.appList") {
				keys = append(keys, mu.Key)
			}
		}
		// the registration moved into a helper that is handed the key: the key is the argument at the call
		for _, h := range helpersOf(f) {
			for _, in := range instrsWhereOne(h, func(in ssa.Instruction) bool { _, ok := in.(*ssa.MapUpdate); return ok }) {
				mu := in.(*ssa.MapUpdate)
				kp, isParam := stripValue(mu.Key).(*ssa.Parameter)
				if !isParam || !loadOfField(mu.Map, "mountFields.appList") {
					continue
				}
				var calls []callSite
				withoutHelpers(func() { calls = callsIn(f, false) })
				for _, c := range calls {
					if c.Common.StaticCallee() != h {
						continue
					}
					for i, q := range h.Params {
						if q == kp && i < len(c.Common.Args) {
							keys = append(keys, c.Common.Args[i])
						}
					}
				}
			}
		}
		r.need(len(keys) >= 1, "appendSubAppLists registers sub-apps in mountFields.appList")
		n := 0
		var ownCalls []callSite
		withoutHelpers(func() { ownCalls = callsIn(f, false) })
		for _, c := range ownCalls {
			if c.Common.StaticCallee() != f {
				continue
			}
			n++
			var passed []ssa.Value
			last := c.Common.Args[len(c.Common.Args)-1]
			if sl, ok := last.(*ssa.Slice); ok {
				if al, ok := sl.X.(*ssa.Alloc); ok {
					for _, st := range storesInto(al) {
						passed = append(passed, st.Val)
					}
				}
			}
			okSame := len(passed) == 1
			if okSame {
				okSame = false
				for _, k := range keys {
					if k == passed[0] {
						okSame = true
					}
				}
			}
			r.check(okSame, fmt.Sprintf("appendSubAppLists:recursion#%d:full-prefix", n), r.pos(c.Instr), "the recursion is given the key the sub-app was just registered under",
				"the prefix handed to the recursive call is not the key the sub-app was registered under: a grandchild mounted at /api/sub/third is registered under /sub/third, so its error handler is chosen for foreign paths and (depending on map order) not for its own")
		}
		r.atLeast("recursive calls", n, 1)
		// the descent does not depend on whether the prefix is already known: mounting registers the sub-app's
		// lists as they are at that moment, apps mounted into it afterwards are only found by descending again
		isRec := func(in ssa.Instruction) bool {
			ci, ok := in.(ssa.CallInstruction)
			return ok && ci.Common().StaticCallee() == f
		}
		isNext := func(in ssa.Instruction) bool { _, ok := in.(*ssa.Next); return ok }
		m := 0
		for _, in := range instrsWhereOne(f, func(in ssa.Instruction) bool {
			l, ok := in.(*ssa.Lookup)
			return ok && l.CommaOk && loadOfField(l.X, "mountFields.appList")
		}) {
			for _, ref := range *in.(*ssa.Lookup).Referrers() {
				ex, ok := ref.(*ssa.Extract)
				if !ok || ex.Index != 1 {
					continue
				}
				for _, br := range ifsOnValue(f, ex) {
					m++
					both := true
					for sl := 0; sl < 2; sl++ {
						if _, hit := reach(pointOfEdge(edge{br.If.Block(), sl}), isRec, nil, isNext); hit == nil {
							both = false
						}
					}
					r.check(both, fmt.Sprintf("appendSubAppLists:known-prefix#%d:still-descends", m), r.pos(br.If), "the recursive call is reachable in the same iteration whether or not the prefix was already registered",
						"a sub-app whose prefix is already registered is not descended into: an app mounted into it after it was itself mounted is never registered with the root, so its error handler is not chosen for its own paths")
				}
			}
		}
		r.count("tests of `prefix already registered`", m)
		// at mount time the sub-app's own list is copied into the parent: each entry keeps the app it names
		nm := 0
		for _, name := range []string{"(*App).mount", "(*Group).mount"} {
			mf := r.Fn("", name)
			var fromMount []ssa.Instruction
			withHelpers(func() {
				fromMount = instrsWhere(mf, func(in ssa.Instruction) bool { _, ok := in.(*ssa.MapUpdate); return ok })
			})
			for _, in := range fromMount {
				mu := in.(*ssa.MapUpdate)
				if !loadOfField(mu.Map, "mountFields.appList") {
					continue
				}
				nm++
				fromRange := dependsOn(mu.Value, func(v ssa.Value) bool {
					ex, ok := v.(*ssa.Extract)
					if !ok {
						return false
					}
					_, isNext := ex.Tuple.(*ssa.Next)
					return isNext && ex.Index == 2
				}) != nil
				r.check(fromRange, fmt.Sprintf("%s:appList-copy#%d:entry-keeps-its-app", name, nm), r.pos(in), "the app registered under a copied prefix is the one the sub-app's list names for it",
					name+" registers every prefix of the mounted app's list with the same app instead of the one the list names: errors raised in a nested sub-app go to the outer app's handler (or the root's) instead of the nested app's")
			}
		}
		r.atLeast("appList copies at mount time", nm, 2)
		// the prefix a sub-app is recorded under is the path its routes are registered under: register puts a slash in
		// front of a pattern that lacks one, so the recorded key needs it too (App.ErrorHandler compares it with the path)
		for _, name := range []string{"(*App).mount", "(*Group).mount"} {
			mf := r.Fn("", name)
			var prefixParam ssa.Value
			for _, p := range mf.Params {
				if p.Name() == "prefix" {
					prefixParam = p
				}
			}
			r.need(prefixParam != nil, name+"(prefix, subApp)")
			directCallees := map[*ssa.Function]bool{}
			for _, b := range mf.Blocks {
				for _, in := range b.Instrs {
					if c, ok := in.(*ssa.Call); ok {
						if g := c.Call.StaticCallee(); g != nil && !strings.HasSuffix(g.Name(), "mount") {
							directCallees[g] = true
						}
					}
				}
			}
			var ups []ssa.Instruction
			withHelpers(func() {
				ups = instrsWhere(mf, func(in ssa.Instruction) bool { _, ok := in.(*ssa.MapUpdate); return ok })
			})
			for _, in := range ups {
				mu := in.(*ssa.MapUpdate)
				if !loadOfField(mu.Map, "mountFields.appList") {
					continue
				}
				slashed := dependsOn(mu.Key, func(v ssa.Value) bool {
					switch x := v.(type) {
					case *ssa.BinOp: // "/" + prefix
						// in the mount function itself or in a helper it calls directly — the backward slice is context-insensitive and
						// reaches the other mount function through getGroupPath's parameters; the slash getGroupPath puts between its
						// two parts is not a leading one
						if x.Op == token.ADD && x.Parent() != nil && x.Parent().Name() != "getGroupPath" && (x.Parent() == mf || directCallees[x.Parent()]) {
							if s, ok := constString(asConst(x.X)); ok && s == "/" {
								return dependsOn(x.Y, func(y ssa.Value) bool { return y == prefixParam }) != nil
							}
						}
					case *ssa.Call: // getGroupPath(base, prefix) puts the slash in front of its second argument
						// — the result starts with a slash only if its first argument does (a group's Prefix is kept as written)
						if calleeName(&x.Call) == fiberMod+".getGroupPath" && len(x.Call.Args) == 2 {
							if s, ok := constString(asConst(stripValue(x.Call.Args[0]))); ok && strings.HasPrefix(s, "/") {
								return dependsOn(x.Call.Args[1], func(y ssa.Value) bool { return y == prefixParam }) != nil
							}
						}
					}
					return false
				}) != nil
				// … and it is the very prefix the mount route is registered under (normalised before both uses)
				regSame := false
				for _, rc := range callsMatching(mf, false, nameHasSuffix("App).register")) {
					regPath := rc.Common.Args[2]
					if dependsOn(mu.Key, func(v ssa.Value) bool { return v == regPath }) != nil {
						regSame = true
					}
				}
				r.check(regSame, name+":recorded-prefix-is-the-registered-one", r.pos(in), "the recorded key is built from the value the mount route is registered with",
					name+" records the sub-app under another spelling of the prefix than the one its mount route is registered with (e.g. before the trailing slash is cut or the empty prefix becomes \"/\"): Use(sub) overwrites the app's own entry \"\" and the sub-app's routes are never spliced in; Use(\"/api/\", sub) is recorded under \"/api/\"")
				r.check(slashed, name+":recorded-prefix-has-leading-slash", r.pos(in), "the recorded prefix went through the same leading-slash normalisation as the registered route",
					name+" records the sub-app under the prefix as written while its routes are registered with a leading slash: after Use(\"api\", sub) the routes answer /api/… but the key is \"api\", which no request path starts with — the sub-app's error handler is never chosen")
			}
		}
	})

	r.rule("R9", "the 500 of a failing error handler is really set: the three delivery sites answer a failing handler through SendStatus(500), so SendStatus sets the status it is given on every path to its return — not only when the response has no body yet (a handler that wrote a body and then failed would keep its own status) (E1 must-pass-through)", func() {
		for _, fn := range []string{"(*DefaultCtx).SendStatus"} {
			f := r.Fn("", fn)
			var status *ssa.Parameter
			for _, p := range f.Params {
				if b, ok := p.Type().Underlying().(*types.Basic); ok && b.Info()&types.IsInteger != 0 {
					status = p
				}
			}
			r.need(status != nil, "SendStatus(status int)")
			sets := func(in ssa.Instruction) bool {
				ci, ok := in.(ssa.CallInstruction)
				if !ok {
					return false
				}
				cn := calleeName(ci.Common())
				if !(strings.HasSuffix(cn, ").Status") || strings.HasSuffix(cn, ").SetStatusCode") || strings.HasSuffix(cn, ").setStatus")) {
					return false
				}
				for _, a := range ci.Common().Args {
					if stripValue(a) == ssa.Value(status) {
						return true
					}
				}
				return false
			}
			n := len(instrsWhere(f, sets))
			r.need(n >= 1, "SendStatus sets the status it is given")
			path, hit := reach(entryOf(f), isReturn, nil, sets)
			r.check(hit == nil, "SendStatus:status-set-on-every-path", r.fpos(f), "every path through SendStatus sets the given status",
				"SendStatus can return without having set the status ("+pathString(r.P, path)+"): an error handler that wrote a body and then returned an error leaves its own status on the response instead of the 500 the three delivery sites ask for")
		}
	})

	r.rule("R8", "the error-handler selection folds letter case the way the router does: every case fold applied in ErrorHandler (to the request path and to the mount prefixes) is the function the router applies to detection paths and patterns (the ASCII-only utils.ToLower) — a Unicode-aware fold maps `/K` (Kelvin sign) to `/k`, a path no route of the sub-app can match is then counted as below its mount point (E5, sibling agreement)", func() {
		isFold := func(n string) bool {
			return strings.Contains(n, ".ToLower") || strings.Contains(n, ".ToUpper") || n == "strings.EqualFold" || strings.HasSuffix(n, ".EqualFold")
		}
		router := map[string]bool{}
		for _, fn := range []string{"(*DefaultCtx).configDependentPaths", "(*App).register"} {
			for _, c := range callsIn(r.Fn("", fn), false) {
				if isFold(c.Name) {
					router[c.Name] = true
				}
			}
		}
		r.need(len(router) >= 1, "the router folds detection paths and patterns")
		eh := r.Fn("", "(*App).ErrorHandler")
		n := 0
		for _, c := range callsIn(eh, false) {
			if !isFold(c.Name) {
				continue
			}
			n++
			r.check(router[c.Name], fmt.Sprintf("ErrorHandler:fold#%d:the-router's-fold", n), r.pos(c.Instr), "folded with "+short(c.Name)+", as the router does",
				"the error-handler selection folds with "+short(c.Name)+" while the router folds with "+strings.Join(sortedKeys(router), ", ")+": for non-ASCII letters the two disagree (U+212A KELVIN SIGN → k, É → é), a request the sub-app's routes cannot match is handed to the sub-app's error handler")
		}
		r.atLeast("case folds in ErrorHandler", n, 2)
	})

	r.rule("R7", "the mounted handler is chosen the way routes are matched: when registration folds patterns to lower case (unless CaseSensitive), the candidate test folds path and prefix too (E5)", func() {
		reg := r.Fn("", "(*App).register")
		folds := false
		withinFunction(reg, func() {
			folds = len(callsMatching(reg, false, func(n string) bool { return strings.HasPrefix(n, "github.com/gofiber/utils/v2.ToLower") })) > 0
		})
		f := r.Fn("", "(*App).ErrorHandler")
		if !folds {
			r.ok("ErrorHandler:case-folding-like-routing", r.fpos(f), "registration does not fold case")
			return
		}
		isFold := func(v ssa.Value) bool {
			c, ok := v.(*ssa.Call)
			return ok && (strings.Contains(calleeName(&c.Call), "utils/v2.ToLower") || calleeName(&c.Call) == "strings.ToLower" || strings.HasSuffix(calleeName(&c.Call), "EqualFold"))
		}
		n := 0
		okAll := true
		withHelpers(func() {
			for _, c := range prefixTestsIn(f) {
				n++
				if dependsOn(c.Hay, isFold) == nil || dependsOn(c.Needle, isFold) == nil {
					okAll = false
				}
			}
		})
		cs := false
		csOfReceiver := true
		for _, br := range branchesIn(f) {
			if loadOfField(br.Info.Root, "Config.CaseSensitive") {
				cs = true
				// whose configuration? the routes of a mounted app are matched under the configuration of the app that
				// serves the request — the receiver — not under the sub-app's own
				base := stripValue(br.Info.Root)
				for depth := 0; depth < 6; depth++ {
					switch x := base.(type) {
					case *ssa.UnOp:
						base = x.X
						continue
					case *ssa.FieldAddr:
						base = x.X
						continue
					case *ssa.Field:
						base = x.X
						continue
					}
					break
				}
				if p, isParam := base.(*ssa.Parameter); !isParam || len(f.Params) == 0 || p != f.Params[0] {
					csOfReceiver = false
				}
			}
		}
		r.check(csOfReceiver, "ErrorHandler:folds-under-the-serving-app's-configuration", r.fpos(f), "the CaseSensitive option consulted is the receiver's",
			"the mount prefixes are folded according to the sub-app's own CaseSensitive while the request path (and the routing of the sub-app's routes) follows the serving app's: a case-sensitive sub-app mounted at /API under a default root is not found for /api/boom, its errors go to the root's handler")
		// … and what is compared with the prefixes is the request path — (Ctx).Path(), which routing used — not a
		// string that also carries the query or the scheme and host of an absolute-form target
		fromPath := n > 0
		withHelpers(func() {
			for _, c := range prefixTestsIn(f) {
				isPathCall := func(v ssa.Value) bool {
					cc, ok := v.(*ssa.Call)
					return ok && cc.Call.IsInvoke() && cc.Call.Method.Name() == "Path"
				}
				isOther := func(v ssa.Value) bool {
					cc, ok := v.(*ssa.Call)
					return ok && cc.Call.IsInvoke() && cc.Call.Method.Name() != "Path" && strings.HasSuffix(cc.Call.Value.Type().String(), "fiber/v3.Ctx")
				}
				if dependsOn(c.Hay, isPathCall) == nil || dependsOn(c.Hay, isOther) != nil {
					fromPath = false
				}
			}
		})
		r.check(fromPath, "ErrorHandler:selects-by-request-path", r.fpos(f), "the string the mount prefixes are compared with is (Ctx).Path()",
			"the mounted error handler is selected by something else than the request path (e.g. OriginalURL, which carries the query string): GET /api?page=2 fails the segment-boundary test after /api and its error goes to the root handler, while GET /api goes to the sub-app's")
		r.check(n > 0 && okAll && cs, "ErrorHandler:case-folding-like-routing", r.fpos(f), "path and mount prefix are folded (under !CaseSensitive) before they are compared",
			"routes are matched ignoring letter case unless CaseSensitive is set, but the mounted error handler is chosen by an exact prefix comparison: a request to /API/… runs the sub-app's route and has its error delivered to the root application's handler")
	})
}

// prefixTest: one test "needle is a prefix of hay", written as strings.HasPrefix(hay, needle) or as the comparison of
// a slice of hay with needle (`hay[:len(needle)] == needle`, bounded elsewhere). Val is the boolean the code computes,
// HoldsWhen the truth value of Val for which the prefix relation holds (false for the != form).
type prefixTest struct {
	Hay, Needle ssa.Value
	Val         ssa.Value
	HoldsWhen   bool
	Instr       ssa.Instruction
}

func (t prefixTest) Block() *ssa.BasicBlock { return t.Instr.Block() }

func prefixTestsIn(f *ssa.Function) []prefixTest {
	var out []prefixTest
	for _, c := range callsMatching(f, false, nameIs("strings.HasPrefix")) {
		out = append(out, prefixTest{c.Common.Args[0], c.Common.Args[1], c.Value(), true, c.Instr})
	}
	// strings.CutPrefix(hay, needle): the `found` result is the prefix test
	for _, c := range callsMatching(f, false, nameIs("strings.CutPrefix", "bytes.CutPrefix")) {
		cv := c.Value()
		if cv == nil || cv.Referrers() == nil {
			continue
		}
		for _, u := range *cv.Referrers() {
			if e, ok := u.(*ssa.Extract); ok && e.Index == 1 {
				out = append(out, prefixTest{c.Common.Args[0], c.Common.Args[1], e, true, c.Instr})
			}
		}
	}
	for _, g := range append([]*ssa.Function{f}, helpersOf(f)...) {
		for _, b := range g.Blocks {
			for _, in := range b.Instrs {
				bo, ok := in.(*ssa.BinOp)
				if !ok || (bo.Op != token.EQL && bo.Op != token.NEQ) {
					continue
				}
				for _, pr := range [][2]ssa.Value{{bo.X, bo.Y}, {bo.Y, bo.X}} {
					sl, ok := stripValue(pr[0]).(*ssa.Slice)
					if !ok || sl.Low != nil || sl.High == nil || !isByteSeq(sl.X.Type()) {
						continue
					}
					if !isLenOf(sl.High, pr[1]) {
						continue
					}
					out = append(out, prefixTest{sl.X, pr[1], bo, bo.Op == token.EQL, bo})
				}
			}
		}
	}
	return out
}

// holdsEdges: the edges of fn on which the prefix relation tested by t holds.
func (t prefixTest) holdsEdges(fn *ssa.Function) []edge {
	var out []edge
	if _, isCmp := t.Val.(*ssa.BinOp); !isCmp {
		for _, br := range ifsOnValue(fn, t.Val) {
			if sl, ok := br.truthSlot(t.HoldsWhen); ok {
				out = append(out, edge{br.If.Block(), sl})
			}
		}
		return out
	}
	// a comparison: the branches whose condition is this comparison (decompose splits it into its operands)
	for _, g := range append([]*ssa.Function{fn}, helpersOf(fn)...) {
		for _, b := range g.Blocks {
			iff, ok := b.Instrs[len(b.Instrs)-1].(*ssa.If)
			if !ok {
				continue
			}
			c, neg := iff.Cond, false
			for {
				u, isNot := c.(*ssa.UnOp)
				if !isNot || u.Op != token.NOT {
					break
				}
				c, neg = u.X, !neg
			}
			if c != t.Val {
				continue
			}
			// cond true ⇔ Val == !neg ; want Val == HoldsWhen
			slot := 1
			if (t.HoldsWhen) != neg {
				slot = 0
			}
			out = append(out, edge{b, slot})
		}
	}
	return out
}
