package main

import (
	"fmt"
	"go/token"
	"go/types"
	"os"
	"sort"

	"golang.org/x/tools/go/ssa"
)

// Offset accesses ahead of their guard (a contradiction rule in the sense of Engler et al.):
//
//   within one function, an access  x[v+c]  /  x[v+c:]  /  x[:v+c]  (c a positive constant)
//   needs  len(x) >= v+c (+1 for an element access).  When the same function establishes
//   exactly such a bound for the same x and v — HasPrefix(x[v:], "lit") with len(lit) >= c,
//   or a comparison of len(x) with v+k, k large enough — the function states the belief that
//   the bound is not known otherwise.  The access must then be reachable only through an edge
//   on which one of those bounds holds.  An access that can be evaluated ahead of the guard is
//   reported (out-of-range panic for an input that ends early).
//
// Sites for which the function contains no such bound are *not armed* (counted, not judged):
// the rule does not try to prove bounds, it only reports a guard that is present and bypassed.

type offAccess struct {
	In    ssa.Instruction
	Base  ssa.Value // x
	Var   ssa.Value // v
	Need  int64     // len(x) >= v+Need
	Shape string
}

type offGuard struct {
	Base ssa.Value
	Var  ssa.Value
	Have int64 // on Edge: len(x) >= v+Have
	Edge edge
	Desc string
}

// splitOffset decomposes e into v + c (c >= 0).  A bare value is v+0.
func splitOffset(e ssa.Value) (ssa.Value, int64) {
	if b, ok := e.(*ssa.BinOp); ok && b.Op == token.ADD {
		if c, ok := constInt(asConst(b.Y)); ok {
			v, k := splitOffset(b.X)
			return v, k + c
		}
		if c, ok := constInt(asConst(b.X)); ok {
			v, k := splitOffset(b.Y)
			return v, k + c
		}
	}
	return e, 0
}

func isByteSeq(t types.Type) bool {
	switch u := t.Underlying().(type) {
	case *types.Basic:
		return u.Info()&types.IsString != 0
	case *types.Slice:
		if b, ok := u.Elem().Underlying().(*types.Basic); ok {
			return b.Kind() == types.Byte || b.Kind() == types.Uint8
		}
	}
	return false
}

// sameValue compares two SSA values up to re-evaluation of pure expressions (go/ssa does no CSE).
func sameValue(a, b ssa.Value) bool {
	a, b = stripValue(a), stripValue(b)
	if a == b {
		return true
	}
	switch x := a.(type) {
	case *ssa.UnOp:
		// a re-load of the same address counts as the same value only for field/var addresses that
		// the function does not store to; kept conservative: plain pointer identity of the address
		if y, ok := b.(*ssa.UnOp); ok && x.Op == y.Op && x.Op == token.MUL {
			return sameAddr(x.X, y.X)
		}
	case *ssa.BinOp:
		if y, ok := b.(*ssa.BinOp); ok && x.Op == y.Op {
			return sameValue(x.X, y.X) && sameValue(x.Y, y.Y)
		}
	case *ssa.FieldAddr, *ssa.IndexAddr:
		return sameAddr(a, b)
	case *ssa.Const:
		if y, ok := b.(*ssa.Const); ok {
			xi, ok1 := constInt(x)
			yi, ok2 := constInt(y)
			return ok1 && ok2 && xi == yi
		}
	}
	return false
}

func sameAddr(a, b ssa.Value) bool {
	if a == b {
		return true
	}
	if x, ok := a.(*ssa.FieldAddr); ok {
		if y, ok := b.(*ssa.FieldAddr); ok {
			return x.Field == y.Field && (x.X == y.X || sameValue(x.X, y.X))
		}
	}
	if x, ok := a.(*ssa.IndexAddr); ok {
		if y, ok := b.(*ssa.IndexAddr); ok {
			return (x.X == y.X || sameValue(x.X, y.X)) && (x.Index == y.Index || sameValue(x.Index, y.Index))
		}
	}
	return false
}

func offsetAccesses(f *ssa.Function) []offAccess {
	var out []offAccess
	for _, b := range f.Blocks {
		for _, in := range b.Instrs {
			switch x := in.(type) {
			case *ssa.Slice:
				if !isByteSeq(x.X.Type()) {
					continue
				}
				if x.Low != nil {
					if v, c := splitOffset(x.Low); c > 0 {
						out = append(out, offAccess{in, x.X, v, c, "x[v+c:]"})
					}
				}
				if x.High != nil {
					if v, c := splitOffset(x.High); c > 0 {
						out = append(out, offAccess{in, x.X, v, c, "x[:v+c]"})
					}
				}
			case *ssa.Index:
				if isByteSeq(x.X.Type()) {
					if v, c := splitOffset(x.Index); c > 0 {
						out = append(out, offAccess{in, x.X, v, c + 1, "x[v+c]"})
					}
				}
			case *ssa.IndexAddr:
				if isByteSeq(x.X.Type()) {
					if v, c := splitOffset(x.Index); c > 0 {
						out = append(out, offAccess{in, x.X, v, c + 1, "x[v+c]"})
					}
				}
			}
		}
	}
	return out
}

// literalLen: length of a constant string / []byte("const") argument.
func literalLen(v ssa.Value) (int64, bool) {
	v = stripValue(v)
	if s, ok := constString(asConst(v)); ok {
		return int64(len(s)), true
	}
	// []byte("lit") compiles to a Convert of a const (stripped above) or a Slice of an Alloc'd array
	if sl, ok := v.(*ssa.Slice); ok {
		if s, ok := constString(asConst(stripValue(sl.X))); ok {
			return int64(len(s)), true
		}
	}
	return 0, false
}

func offsetGuards(f *ssa.Function) []offGuard {
	var out []offGuard
	// HasPrefix(x[v:], lit) — true edge
	for _, c := range callsMatching(f, false, nameIs("bytes.HasPrefix", "strings.HasPrefix")) {
		if len(c.Common.Args) != 2 {
			continue
		}
		n, ok := literalLen(c.Common.Args[1])
		if !ok || n == 0 {
			continue
		}
		var base, v ssa.Value
		var k int64
		if sl, ok := c.Common.Args[0].(*ssa.Slice); ok && sl.High == nil && sl.Low != nil {
			base = sl.X
			v, k = splitOffset(sl.Low)
		} else {
			continue
		}
		for _, br := range ifsOnValue(f, c.Value()) {
			if s, ok := br.truthSlot(true); ok {
				out = append(out, offGuard{base, v, k + n, edge{br.If.Block(), s}, fmt.Sprintf("HasPrefix(x[v+%d:], %d-byte literal)", k, n)})
			}
		}
	}
	// len(x) REL v+k
	for _, br := range branchesIn(f) {
		ci := br.Info
		if ci.Op == token.ILLEGAL {
			continue
		}
		lhs, rhs := ci.Root, ci.Other
		if ci.Const != nil {
			rhs = ci.Const
		}
		if rhs == nil {
			continue
		}
		op := ci.Op
		lenOf := func(e ssa.Value) ssa.Value {
			if c, ok := stripValue(e).(*ssa.Call); ok && calleeName(&c.Call) == "builtin:len" && len(c.Call.Args) == 1 {
				return c.Call.Args[0]
			}
			return nil
		}
		var base ssa.Value
		var off ssa.Value
		if b := lenOf(lhs); b != nil {
			base, off = b, rhs
		} else if b := lenOf(rhs); b != nil {
			base, off, op = b, lhs, flipOp(op)
		} else {
			continue
		}
		if !isByteSeq(base.Type()) {
			continue
		}
		v, k := splitOffset(off)
		// relation now reads: len(base) op v+k
		add := func(truth bool, have int64, d string) {
			out = append(out, offGuard{base, v, have, edge{br.If.Block(), br.slotWhenRel(truth)}, d})
		}
		switch op {
		case token.GTR: // len > v+k  ⇒ len >= v+k+1
			add(true, k+1, fmt.Sprintf("len(x) > v+%d", k))
		case token.GEQ:
			add(true, k, fmt.Sprintf("len(x) >= v+%d", k))
		case token.LEQ: // false edge: len > v+k
			add(false, k+1, fmt.Sprintf("!(len(x) <= v+%d)", k))
		case token.LSS: // false edge: len >= v+k
			add(false, k, fmt.Sprintf("!(len(x) < v+%d)", k))
		}
	}
	return out
}

type offsetFinding struct {
	Fn     *ssa.Function
	Acc    offAccess
	Guards []offGuard
}

// offsetGuardScan returns, per function, the armed accesses and those reachable ahead of every
// adequate guard.
func offsetGuardScan(fs []*ssa.Function) (armed int, unarmed int, bad []offsetFinding) {
	for _, f := range fs {
		if len(f.Blocks) == 0 {
			continue
		}
		accs := offsetAccesses(f)
		if len(accs) == 0 {
			continue
		}
		guards := offsetGuards(f)
		for _, a := range accs {
			var adequate []offGuard
			for _, g := range guards {
				if sameValue(g.Base, a.Base) && sameValue(g.Var, a.Var) && g.Have >= a.Need {
					adequate = append(adequate, g)
				}
			}
			if len(adequate) == 0 {
				// a bound on the same operand that does not reach far enough, with the access reachable only behind it:
				// the function states the belief that the access needs a bound, and the bound it gives is too short
				var weak []offGuard
				for _, g := range guards {
					if sameValue(g.Base, a.Base) && sameValue(g.Var, a.Var) && g.Have < a.Need {
						weak = append(weak, g)
					}
				}
				if len(weak) > 0 {
					cut := map[edge]bool{}
					for _, g := range weak {
						cut[g.Edge] = true
					}
					if _, hit := reach(entryOf(f), func(in ssa.Instruction) bool { return in == a.In }, cut, nil); hit == nil {
						armed++
						best := weak[0]
						for _, g := range weak {
							if g.Have > best.Have {
								best = g
							}
						}
						best.Desc += fmt.Sprintf(" — which establishes len(x) >= v+%d only, %d short", best.Have, a.Need-best.Have)
						bad = append(bad, offsetFinding{f, a, []offGuard{best}})
						continue
					}
				}
				unarmed++
				continue
			}
			armed++
			if os.Getenv("VERIF_DEBUG_BOUNDS") != "" {
				fmt.Fprintf(os.Stderr, "armed %s %s need=%d guards=%d (%s)\n", f.String(), a.Shape, a.Need, len(adequate), adequate[0].Desc)
			}
			cut := map[edge]bool{}
			for _, g := range adequate {
				cut[g.Edge] = true
			}
			if _, hit := reach(entryOf(f), func(in ssa.Instruction) bool { return in == a.In }, cut, nil); hit != nil {
				bad = append(bad, offsetFinding{f, a, adequate})
			}
		}
	}
	sort.Slice(bad, func(i, j int) bool { return bad[i].Acc.In.Pos() < bad[j].Acc.In.Pos() })
	return
}

func offsetGuardRule(r *Run) {
	var fs []*ssa.Function
	r.P.AllFuncs("*", func(f *ssa.Function) { fs = append(fs, f) })
	armed, unarmed, bad := offsetGuardScan(fs)
	r.count("offset accesses with a bounding guard in the same function (armed)", armed)
	r.count("offset accesses without one (not judged)", unarmed)
	r.atLeast("armed offset accesses", armed, 3)
	badBy := map[string]offsetFinding{}
	for _, b := range bad {
		badBy[short(b.Fn.String())] = b
	}
	seen := map[string]bool{}
	for _, f := range fs {
		n := short(f.String())
		if seen[n] {
			continue
		}
		seen[n] = true
		if b, ok := badBy[n]; ok {
			r.bad(n+":offset-access-behind-its-guard", r.pos(b.Acc.In), fmt.Sprintf("%s with c=%d can be evaluated without passing %s: an input that ends within %d bytes of the offset panics with slice/index out of range", b.Acc.Shape, b.Acc.Need, b.Guards[0].Desc, b.Acc.Need))
		}
	}
	if len(bad) == 0 {
		r.ok("module:offset-access-behind-its-guard", "", fmt.Sprintf("%d armed offset accesses, each reachable only through an edge that bounds it", armed))
	}
}

// literalIs: v is the constant string s or []byte(s).
func literalIs(v ssa.Value, s string) bool {
	v = stripValue(v)
	if c, ok := constString(asConst(v)); ok {
		return c == s
	}
	if sl, ok := v.(*ssa.Slice); ok {
		if c, ok := constString(asConst(stripValue(sl.X))); ok {
			return c == s
		}
	}
	return false
}

// sliceBoundOnItsOwnValueRule (contradiction rule): where a function cuts a byte sequence at a position that does not
// come from that sequence (`enc[:nonceSize]`, `buf[n:]` with n computed elsewhere) and compares that position with
// the length of *some* sequence ahead of the cut, the compared sequence is the one that is cut. A guard on a related
// but different value (the text before decoding, the detection path instead of the path) bounds nothing: the two
// lengths differ exactly for the inputs the guard was written for.
func sliceBoundOnItsOwnValueRule(r *Run, pkgs ...string) {
	judged, bad := 0, 0
	for _, pkg := range pkgs {
		r.P.AllFuncs(pkg, func(f *ssa.Function) {
			if len(f.Blocks) == 0 {
				return
			}
			// comparisons of a value with a len(...)
			type cmp struct {
				in    *ssa.BinOp
				bound ssa.Value
				of    ssa.Value
			}
			var cmps []cmp
			for _, b := range f.Blocks {
				for _, in := range b.Instrs {
					bo, ok := in.(*ssa.BinOp)
					if !ok {
						continue
					}
					switch bo.Op {
					case token.LSS, token.LEQ, token.GTR, token.GEQ:
					default:
						continue
					}
					for _, pr := range [][2]ssa.Value{{bo.X, bo.Y}, {bo.Y, bo.X}} {
						if c, ok := pr[0].(*ssa.Call); ok && len(c.Call.Args) == 1 {
							if bi, ok := c.Call.Value.(*ssa.Builtin); ok && bi.Name() == "len" {
								cmps = append(cmps, cmp{bo, pr[1], c.Call.Args[0]})
							}
						}
					}
				}
			}
			if len(cmps) == 0 {
				return
			}
			for _, b := range f.Blocks {
				for _, in := range b.Instrs {
					sl, ok := in.(*ssa.Slice)
					if !ok || !isByteSeq(sl.X.Type()) {
						continue
					}
					for _, bound := range []ssa.Value{sl.Low, sl.High} {
						if bound == nil {
							continue
						}
						if _, isC := bound.(*ssa.Const); isC {
							continue
						}
						// a position measured on the sequence itself (an index search, its length) is bounded by construction
						if dependsOn(bound, func(v ssa.Value) bool { return sameValue(v, sl.X) }) != nil {
							continue
						}
						own, other := false, (*cmp)(nil)
						for i := range cmps {
							c := &cmps[i]
							if !sameValue(c.bound, bound) {
								continue
							}
							if !(c.in.Block() == b || dom(c.in.Block(), b)) {
								continue
							}
							if sameValue(c.of, sl.X) {
								own = true
							} else if isByteSeq(c.of.Type()) {
								other = c
							}
						}
						if !own && other == nil {
							continue // the function states no bound for this cut: not judged here
						}
						judged++
						if !own {
							bad++
							r.bad(short(f.String())+":cut-bounded-on-the-value-that-is-cut", r.pos(in),
								fmt.Sprintf("the sequence is cut at a position that was compared with the length of another value (%s) only: when the two lengths differ — the text before decoding is longer than the decoded bytes — the cut is out of range and the request panics", r.pos(other.in)))
						}
					}
				}
			}
		})
	}
	r.count("cuts at a foreign position with a length guard in the same function", judged)
	r.atLeast("judged cuts", judged, 1)
	if bad == 0 {
		r.ok("cut-bounded-on-the-value-that-is-cut", "", fmt.Sprintf("%d cuts, each guarded by a comparison with the length of the value that is cut", judged))
	}
}
