package main

import (
	"go/token"
	"go/types"
	"strings"

	"golang.org/x/tools/go/ssa"
)

// retKind classifies a Return's first result.
func retConstBool(in ssa.Instruction) (isRet bool, isConst bool, val bool) {
	r, ok := in.(*ssa.Return)
	if !ok || len(r.Results) == 0 {
		return ok, false, false
	}
	if c, ok := retOperand(r, 0).(*ssa.Const); ok {
		if b, ok := constBool(c); ok {
			return true, true, b
		}
	}
	return true, false, false
}

// mayReturnTrue: a Return whose first result is not the constant false.
func mayReturnTrue(in ssa.Instruction) bool {
	isRet, isConst, val := retConstBool(in)
	return isRet && (!isConst || val)
}

// ifOnValue finds the If instructions whose decomposed root is v (or an Extract of v).
func ifsOnValue(f *ssa.Function, v ssa.Value) []branch {
	var out []branch
	// v may live in a local cell (variables captured by closures are Allocs): loads of a cell
	// into which v is stored count as v
	cells := map[ssa.Value]bool{}
	if v != nil && v.Referrers() != nil {
		for _, ref := range *v.Referrers() {
			if st, ok := ref.(*ssa.Store); ok && st.Val == v {
				if al, ok := st.Addr.(*ssa.Alloc); ok {
					cells[al] = true
				}
			}
		}
	}
	same := func(root ssa.Value) bool {
		if root == v {
			return true
		}
		if u, ok := root.(*ssa.UnOp); ok && u.Op == token.MUL && cells[u.X] {
			return true
		}
		// `x && v` evaluated as a value (switch cases, assignments): phi [false, …, v] — when the phi is
		// true, v is true (exact for the true edge; callers that cut the false edge cut a superset)
		if ph, ok := root.(*ssa.Phi); ok {
			has, others := false, true
			for _, e := range ph.Edges {
				if stripValue(e) == v {
					has = true
				} else if b, isB := constBool(asConst(e)); !isB || b {
					others = false
				}
			}
			return has && others
		}
		return false
	}
	for _, br := range branchesIn(f) {
		root := stripValue(br.Info.Root)
		if same(root) {
			out = append(out, br)
			continue
		}
		if ex, ok := root.(*ssa.Extract); ok && ex.Tuple == v {
			out = append(out, br)
		}
	}
	// v handed back by a helper (`return v`, `return x, v`, `return cond && v`): branches of the
	// callers on that result are branches on v. For the `&&` form only the true edge is exact.
	if vi, ok := v.(ssa.Instruction); ok && regionMode && ifsDepth < 3 {
		g := vi.Parent()
		if g != nil && g != f {
			for _, in := range instrsWhereOne(g, isReturn) {
				ret := in.(*ssa.Return)
				for i := range ret.Results {
					op := retOperand(ret, i)
					flows := stripValue(op) == v
					if ph, isPhi := op.(*ssa.Phi); isPhi && !flows {
						others := true
						has := false
						for _, e := range ph.Edges {
							if stripValue(e) == v {
								has = true
							} else if b, isB := constBool(asConst(e)); !isB || b {
								others = false
							}
						}
						flows = has && others
					}
					if !flows {
						continue
					}
					for _, c := range callsIn(f, true) {
						if c.Common.StaticCallee() != g {
							continue
						}
						call, isCall := c.Instr.(*ssa.Call)
						if !isCall {
							continue
						}
						var res ssa.Value = call
						if len(ret.Results) > 1 {
							res = nil
							if refs := call.Referrers(); refs != nil {
								for _, rf := range *refs {
									if ex, ok := rf.(*ssa.Extract); ok && ex.Index == i {
										res = ex
									}
								}
							}
						}
						if res != nil {
							ifsDepth++
							out = append(out, ifsOnValue(f, res)...)
							ifsDepth--
						}
					}
				}
			}
		}
	}
	return out
}

var ifsDepth = 0

func instrsWhereOne(f *ssa.Function, pred func(ssa.Instruction) bool) []ssa.Instruction {
	var out []ssa.Instruction
	for _, b := range f.Blocks {
		for _, in := range b.Instrs {
			if pred(in) {
				out = append(out, in)
			}
		}
	}
	return out
}

// truthSlot: for a branch on a boolean root (bare or ==/!= const bool), the slot taken when root is `want`.
func (br branch) truthSlot(want bool) (int, bool) {
	if br.Info.Op == token.ILLEGAL {
		return br.slotWhenRel(want), true
	}
	if b, ok := constBool(br.Info.Const); ok && (br.Info.Op == token.EQL || br.Info.Op == token.NEQ) {
		rel := (b == want) == (br.Info.Op == token.EQL)
		return br.slotWhenRel(rel), true
	}
	return 0, false
}

// nilSlot: slot taken when root is nil (want=true) / non-nil (want=false).
func (br branch) nilSlot(wantNil bool) (int, bool) {
	if !constIsNil(br.Info.Const) {
		return 0, false
	}
	switch br.Info.Op {
	case token.EQL:
		return br.slotWhenRel(wantNil), true
	case token.NEQ:
		return br.slotWhenRel(!wantNil), true
	}
	return 0, false
}

// intRelSlot: slot taken when `root == k` holds (want=true) or not, for branches comparing with EQL/NEQ k.
func (br branch) eqIntSlot(k int64, want bool) (int, bool) {
	n, ok := constInt(br.Info.Const)
	if !ok || n != k {
		return 0, false
	}
	switch br.Info.Op {
	case token.EQL:
		return br.slotWhenRel(want), true
	case token.NEQ:
		return br.slotWhenRel(!want), true
	}
	return 0, false
}

// loadOfField reports whether v is a load (UnOp * of FieldAddr, or Field) of Owner.Field.
func loadOfField(v ssa.Value, name string) bool { return loadOfFieldDepth(v, name, 0) }

func loadOfFieldDepth(v ssa.Value, name string, depth int) bool {
	v = stripValue(v)
	switch x := v.(type) {
	case *ssa.Call:
		// a getter: a function with a body all of whose returns hand out a load of the field (`m.isDestroyed()`,
		// also when it takes a lock around the read)
		g := x.Call.StaticCallee()
		if g == nil || len(g.Blocks) == 0 || depth > 1 || x.Call.IsInvoke() {
			return false
		}
		n := 0
		for _, b := range g.Blocks {
			if b == g.Recover {
				continue
			}
			for _, in := range b.Instrs {
				if ret, ok := in.(*ssa.Return); ok {
					if len(ret.Results) != 1 || !loadOfFieldDepth(ret.Results[0], name, depth+1) {
						return false
					}
					n++
				}
			}
		}
		return n > 0
	case *ssa.UnOp:
		if x.Op != token.MUL {
			return false
		}
		if cell, ok := x.X.(*ssa.Alloc); ok && depth > 0 {
			// a getter's result spilled into a local because of a defer: every value stored there is a load of the field
			sts := storesInto(cell)
			for _, st := range sts {
				if !loadOfFieldDepth(st.Val, name, depth+1) {
					return false
				}
			}
			return len(sts) > 0 && depth < 4
		}
		fa, ok := x.X.(*ssa.FieldAddr)
		if !ok {
			return false
		}
		fv := fieldVar(fa.X.Type(), fa.Field)
		return fv != nil && fieldOwner(fv)+"."+fv.Name() == name
	case *ssa.Field:
		fv := fieldVar(x.X.Type(), x.Field)
		return fv != nil && fieldOwner(fv)+"."+fv.Name() == name
	}
	return false
}

// lenOfFieldLoad: v == len(load Owner.Field)
func lenOfField(v ssa.Value, name string) bool {
	c, ok := v.(*ssa.Call)
	if !ok {
		return false
	}
	b, ok := c.Call.Value.(*ssa.Builtin)
	if !ok || b.Name() != "len" || len(c.Call.Args) != 1 {
		return false
	}
	return loadOfField(c.Call.Args[0], name)
}

// rangeLoopOverField finds `for ... range x.Field` loop headers: an If `idx < n` where n = len(load Field).
func rangeLoopsOverField(f *ssa.Function, name string) []*ssa.If {
	var out []*ssa.If
	for _, br := range branchesIn(f) {
		if br.Info.Op == token.LSS && br.Info.Other != nil && !br.Info.Neg && lenOfField(br.Info.Other, name) {
			out = append(out, br.If)
		}
	}
	return out
}

// isCallTo: instruction is a call (any mode) whose resolved callee name satisfies pred.
func isCallTo(in ssa.Instruction, pred func(string) bool) bool {
	ci, ok := in.(ssa.CallInstruction)
	if !ok {
		return false
	}
	return pred(calleeName(ci.Common()))
}

// blocksReachable returns the set of blocks reachable from start (inclusive of start's
// block only if re-entered), honouring cut edges and stop blocks (not expanded).
func blocksReachable(start *ssa.BasicBlock, cut map[edge]bool, stopAt map[*ssa.BasicBlock]bool) map[*ssa.BasicBlock]bool {
	seen := map[*ssa.BasicBlock]bool{}
	var rec func(b *ssa.BasicBlock)
	rec = func(b *ssa.BasicBlock) {
		if seen[b] {
			return
		}
		seen[b] = true
		if stopAt[b] {
			return
		}
		for slot, s := range b.Succs {
			if cut[edge{b, slot}] {
				continue
			}
			rec(s)
		}
	}
	rec(start)
	return seen
}

func pointOfEdge(e edge) point { return point{e.To(), 0} }

func namedTypeName(t types.Type) string {
	if p, ok := t.(*types.Pointer); ok {
		t = p.Elem()
	}
	if n, ok := t.(*types.Named); ok {
		return n.Obj().Name()
	}
	return t.String()
}

// storesToIndexOfParam: Store instructions whose address is &param[...] for the named parameter.
func storesIntoParamIndex(f *ssa.Function, param string) []*ssa.Store {
	var out []*ssa.Store
	for _, b := range f.Blocks {
		for _, in := range b.Instrs {
			st, ok := in.(*ssa.Store)
			if !ok {
				continue
			}
			ia, ok := st.Addr.(*ssa.IndexAddr)
			if !ok {
				continue
			}
			if p, ok := ia.X.(*ssa.Parameter); ok && p.Name() == param {
				out = append(out, st)
			}
		}
	}
	return out
}

// anyInstr finds instructions satisfying pred in f.
func instrsWhere(f *ssa.Function, pred func(ssa.Instruction) bool) []ssa.Instruction {
	var out []ssa.Instruction
	for _, g := range append([]*ssa.Function{f}, helpersOf(f)...) {
		for _, b := range g.Blocks {
			for _, in := range b.Instrs {
				if _, isRet := in.(*ssa.Return); isRet && g != f {
					continue // a helper's return is not a return of f
				}
				if pred(in) {
					out = append(out, in)
				}
			}
		}
	}
	return out
}

func inBlock(b *ssa.BasicBlock) func(ssa.Instruction) bool {
	return func(in ssa.Instruction) bool { return in.Block() == b }
}

func orPred(ps ...func(ssa.Instruction) bool) func(ssa.Instruction) bool {
	return func(in ssa.Instruction) bool {
		for _, p := range ps {
			if p(in) {
				return true
			}
		}
		return false
	}
}

// retOperand resolves the i-th result of a Return. In functions with defers go/ssa spills
// results: `*res = v; rundefers; t = *res; return t` — the value stored last in the same
// block is the returned one.
func retOperand(ret *ssa.Return, i int) ssa.Value {
	v := ret.Results[i]
	u, ok := v.(*ssa.UnOp)
	if !ok || u.Op != token.MUL {
		return v
	}
	al, ok := u.X.(*ssa.Alloc)
	if !ok {
		return v
	}
	b := ret.Block()
	var last ssa.Value
	for _, in := range b.Instrs {
		if in == ssa.Instruction(u) {
			break
		}
		if st, ok := in.(*ssa.Store); ok && st.Addr == al {
			last = st.Val
		}
	}
	if last != nil {
		return last
	}
	return v
}

// returnedDirectly: some Return yields v itself as result i.
func returnedDirectly(f *ssa.Function, v ssa.Value, i int) bool {
	for _, in := range instrsWhere(f, isReturn) {
		ret := in.(*ssa.Return)
		if len(ret.Results) > i && retOperand(ret, i) == v {
			return true
		}
	}
	return false
}

// firstFn resolves the first of several spellings of an anchor (value vs pointer receiver).
func firstFn(r *Run, pkg string, names ...string) *ssa.Function {
	for _, n := range names {
		if f := r.P.Func(pkg, n); f != nil && len(f.Blocks) > 0 && f.Synthetic == "" {
			r.Counters["functions_analysed"]++
			return f
		}
	}
	panic(anchorErr{pkg + ":" + names[0]})
}

// trueEdgesOf: the edges taken when the boolean value v itself (as an If condition, through
// negations) is true.
func trueEdgesOf(f *ssa.Function, v ssa.Value) []edge {
	var out []edge
	for _, b := range f.Blocks {
		if len(b.Instrs) == 0 {
			continue
		}
		i, ok := b.Instrs[len(b.Instrs)-1].(*ssa.If)
		if !ok {
			continue
		}
		c, neg := i.Cond, false
		for {
			u, ok := c.(*ssa.UnOp)
			if !ok || u.Op != token.NOT {
				break
			}
			c, neg = u.X, !neg
		}
		if c == v {
			slot := 0
			if neg {
				slot = 1
			}
			out = append(out, edge{b, slot})
		}
	}
	return out
}

func retOperandSSA(ret *ssa.Return, i int) ssa.Value { return retOperand(ret, i) }

// originatesFromCall: v is (a phi over / a helper's return of) the result of a call whose callee
// name satisfies pred. Follows phis and the returns of transparent callees (bounded).
func originatesFromCall(v ssa.Value, pred func(string) bool, depth int) bool {
	seen := map[ssa.Value]bool{}
	var rec func(v ssa.Value, depth int) bool
	rec = func(v ssa.Value, depth int) bool {
		v = stripValue(v)
		if v == nil || seen[v] || depth > 4 {
			return false
		}
		seen[v] = true
		switch x := v.(type) {
		case *ssa.Extract:
			return rec(x.Tuple, depth)
		case *ssa.Phi:
			for _, e := range x.Edges {
				if rec(e, depth) {
					return true
				}
			}
		case *ssa.Call:
			if pred(calleeName(&x.Call)) {
				return true
			}
			if in, ok := v.(ssa.Instruction); ok {
				if g := transparentCallee(in.Parent(), in); g != nil {
					for _, ri := range instrsWhereOne(g, isReturn) {
						ret := ri.(*ssa.Return)
						for i := range ret.Results {
							if rec(retOperand(ret, i), depth+1) {
								return true
							}
						}
					}
				}
			}
		case *ssa.UnOp:
			if x.Op == token.MUL {
				if a := rootAlloc(x.X); a != nil {
					for _, st := range storesInto(a) {
						if rec(st.Val, depth) {
							return true
						}
					}
				}
			}
		}
		return false
	}
	return rec(v, depth)
}

// dom: a dominates b — only meaningful (and only true) inside one function.
func dom(a, b *ssa.BasicBlock) bool {
	return a != nil && b != nil && a.Parent() == b.Parent() && a.Dominates(b)
}

// trueOnlyBehind: the boolean function g can answer true only behind one of the `cut` edges —
// every Return whose result may be true is unreachable from g's entry once the cut edges are
// removed — or by returning a value for which isPred holds (the predicate itself, as in
// `return a || pred`). Constant-false results are ignored.
func trueOnlyBehind(g *ssa.Function, cut map[edge]bool, isPred func(ssa.Value) bool) bool {
	live := blocksReachable(g.Blocks[0], cut, nil)
	okAll := true
	var leaf func(v ssa.Value, pred, at *ssa.BasicBlock, seen map[*ssa.Phi]bool)
	leaf = func(v ssa.Value, pred, at *ssa.BasicBlock, seen map[*ssa.Phi]bool) {
		if ph, ok := v.(*ssa.Phi); ok {
			if seen[ph] {
				return
			}
			seen[ph] = true
			for i, e := range ph.Edges {
				leaf(e, ph.Block().Preds[i], ph.Block(), seen)
			}
			return
		}
		if b, ok := constBool(asConst(v)); ok && !b {
			return
		}
		if isPred != nil && isPred(stripValue(v)) {
			return
		}
		// may be true: the edge pred→at must be dead under the cut
		if pred == nil {
			if live[at] {
				okAll = false
			}
			return
		}
		slot := -1
		for i, sc := range pred.Succs {
			if sc == at {
				slot = i
			}
		}
		if live[pred] && slot >= 0 && !cut[edge{pred, slot}] {
			okAll = false
		}
	}
	n := 0
	for _, in := range instrsWhereOne(g, isReturn) {
		ret := in.(*ssa.Return)
		if len(ret.Results) != 1 {
			return false
		}
		n++
		leaf(retOperand(ret, 0), nil, ret.Block(), map[*ssa.Phi]bool{})
	}
	return n > 0 && okAll
}

// gateItem: one way a guarding condition shows up in the code — as the edge of a branch on it, or as a boolean
// value a helper hands back (the last operand of `return a && b` is not branched on inside the helper).
type gateItem struct {
	e *edge
	v ssa.Value
}

// returnLeaves: the values a boolean helper may answer — return operands, phi operands looked through; constants
// are left out.
func returnLeaves(g *ssa.Function) []ssa.Value {
	var out []ssa.Value
	seen := map[ssa.Value]bool{}
	var leaf func(v ssa.Value)
	leaf = func(v ssa.Value) {
		if v == nil || seen[v] {
			return
		}
		seen[v] = true
		if ph, ok := v.(*ssa.Phi); ok {
			for _, e := range ph.Edges {
				leaf(e)
			}
			return
		}
		if _, ok := v.(*ssa.Const); ok {
			return
		}
		out = append(out, v)
	}
	for _, in := range instrsWhereOne(g, isReturn) {
		if ret := in.(*ssa.Return); len(ret.Results) == 1 && g.Recover != ret.Block() {
			leaf(ret.Results[0])
		}
	}
	return out
}

// gateItemsIn: the gate items of f and its helpers for a condition given as a predicate on a decomposed
// condition; holds answers on which truth value of the un-negated relation the gate is open (ok=false: not this gate).
func gateItemsIn(f *ssa.Function, holds func(ci condInfo) (rel bool, ok bool)) []gateItem {
	var out []gateItem
	for _, br := range branchesIn(f) {
		if rel, ok := holds(br.Info); ok {
			e := edge{br.If.Block(), br.slotWhenRel(rel)}
			out = append(out, gateItem{e: &e})
		}
	}
	for _, g := range append([]*ssa.Function{f}, helpersOf(f)...) {
		if g == f || g.Signature.Results().Len() != 1 {
			continue
		}
		if b, ok := g.Signature.Results().At(0).Type().Underlying().(*types.Basic); !ok || b.Kind() != types.Bool {
			continue
		}
		for _, v := range returnLeaves(g) {
			ci := decompose(v)
			if rel, ok := holds(ci); ok && rel != ci.Neg { // the value itself is true exactly when the gate is open
				out = append(out, gateItem{v: v})
			}
		}
	}
	return out
}

// cutsFor: the cut-edge set that stands for "none of the gate items is open": the items' own edges, plus the true
// edges of branches (in f and its helpers) on calls of boolean helpers that can answer true only behind the items.
func cutsFor(f *ssa.Function, items []gateItem) map[edge]bool {
	cut := map[edge]bool{}
	vals := map[ssa.Value]bool{}
	for _, it := range items {
		if it.e != nil {
			cut[*it.e] = true
		}
		if it.v != nil {
			vals[it.v] = true
		}
	}
	for changed, round := true, 0; changed && round < 4; round++ {
		changed = false
		for _, br := range branchesIn(f) {
			c, ok := stripValue(br.Info.Root).(*ssa.Call)
			if !ok {
				continue
			}
			g := transparentCallee(br.If.Parent(), c)
			if g == nil || g.Signature.Results().Len() != 1 {
				continue
			}
			sl, ok := br.truthSlot(true)
			if !ok || cut[edge{br.If.Block(), sl}] {
				continue
			}
			// with the item values assumed false: does g still answer true somewhere?
			if trueOnlyBehindAssuming(g, cut, vals) {
				cut[edge{br.If.Block(), sl}] = true
				changed = true
			}
		}
	}
	return cut
}

// trueOnlyBehindAssuming: as trueOnlyBehind, where the values in falseVals are known to be false (they count as
// constant-false results) — and at least one of them or one cut edge lies in g, so that a helper that has nothing to
// do with the gate is not cut.
func trueOnlyBehindAssuming(g *ssa.Function, cut map[edge]bool, falseVals map[ssa.Value]bool) bool {
	concerned := false
	for e := range cut {
		if e.From.Parent() == g {
			concerned = true
		}
	}
	for v := range falseVals {
		if in, ok := v.(ssa.Instruction); ok && in.Parent() == g {
			concerned = true
		}
	}
	if !concerned {
		return false
	}
	return trueOnlyBehind(g, cut, func(x ssa.Value) bool {
		for v := range falseVals {
			if stripValue(v) == x {
				return true
			}
		}
		return false
	})
}

// boolHelperCall: c calls a transparent helper with a single boolean result.
func boolHelperCall(c callSite) *ssa.Function {
	if c.Value() == nil {
		return nil
	}
	g := transparentCallee(c.Fn, c.Instr)
	if g == nil || g.Signature.Results().Len() != 1 {
		return nil
	}
	if b, ok := g.Signature.Results().At(0).Type().Underlying().(*types.Basic); !ok || b.Kind() != types.Bool {
		return nil
	}
	return g
}

// paramFor: the parameter of g that receives argument value v at call c (nil if none).
func paramFor(g *ssa.Function, c callSite, v ssa.Value) *ssa.Parameter {
	for i, a := range c.Common.Args {
		if (a == v || keyLike(a, v)) && i < len(g.Params) {
			return g.Params[i]
		}
	}
	return nil
}

// flowsUnchanged: v is src itself, possibly handed on through local variables (also captured
// ones), phis or the parameter of a transparent helper — never transformed.
func flowsUnchanged(v, src ssa.Value) bool { return flowsUnchangedVia(v, src, nil) }

// flowsUnchangedOrCopied: as flowsUnchanged, and a private copy of the text (utils.CopyString, strings.Clone) is the same text.
func flowsUnchangedOrCopied(v, src ssa.Value) bool {
	return flowsUnchangedVia(v, src, func(c *ssa.Call) ssa.Value {
		nm := calleeName(&c.Call)
		if (strings.HasSuffix(nm, "utils/v2.CopyString") || nm == "strings.Clone") && len(c.Call.Args) == 1 {
			return c.Call.Args[0]
		}
		return nil
	})
}

// flowsUnchangedVia: through, when given, names the operand a call passes on unchanged (nil: the call is opaque).
func flowsUnchangedVia(v, src ssa.Value, through func(*ssa.Call) ssa.Value) bool {
	seen := map[ssa.Value]bool{}
	var rec func(v ssa.Value, depth int) bool
	rec = func(v ssa.Value, depth int) bool {
		v = stripValue(v)
		if v == src {
			return true
		}
		if v == nil || seen[v] || depth > 4 {
			return seen[v] // a cycle through a phi adds nothing new
		}
		seen[v] = true
		switch x := v.(type) {
		case *ssa.Phi:
			for _, e := range x.Edges {
				if !rec(e, depth) {
					return false
				}
			}
			return len(x.Edges) > 0
		case *ssa.UnOp:
			if x.Op != token.MUL {
				return false
			}
			var cell *ssa.Alloc
			if a, ok := x.X.(*ssa.Alloc); ok {
				cell = a
			} else if fv, ok := x.X.(*ssa.FreeVar); ok {
				if b, ok := bindingOf(fv).(*ssa.Alloc); ok {
					cell = b
				}
			}
			if cell == nil {
				return false
			}
			sts := storesInto(cell)
			for _, st := range sts {
				if !rec(st.Val, depth) {
					return false
				}
			}
			return len(sts) > 0
		case *ssa.Call:
			if through != nil {
				if arg := through(x); arg != nil {
					return rec(arg, depth)
				}
			}
			return false
		case *ssa.Parameter:
			g := x.Parent()
			if g == nil || !isTransparent(g, pkgOfFn(g)) {
				return false
			}
			callers := staticCallersOf(g)
			for i, gp := range g.Params {
				if gp != x {
					continue
				}
				for _, c := range callers {
					if i >= len(c.Call.Args) || !rec(c.Call.Args[i], depth+1) {
						return false
					}
				}
			}
			return len(callers) > 0
		}
		return false
	}
	return rec(v, 0)
}

// contentFrom: can bytes of src end up in v?  Follows the operands that carry content — the sliced
// operand (not the bounds), phi edges, concatenation, conversions, text arguments of calls and local
// variables — so that path[:n] with n computed from another string does not count as content of it.
func contentFrom(v, src ssa.Value) bool {
	seen := map[ssa.Value]bool{}
	var rec func(v ssa.Value, d int) bool
	rec = func(v ssa.Value, d int) bool {
		v = stripValue(v)
		if v == src {
			return true
		}
		if v == nil || seen[v] || d > 10 {
			return false
		}
		seen[v] = true
		switch x := v.(type) {
		case *ssa.Slice:
			return rec(x.X, d+1)
		case *ssa.Phi:
			for _, e := range x.Edges {
				if rec(e, d+1) {
					return true
				}
			}
		case *ssa.BinOp:
			if x.Op == token.ADD {
				return rec(x.X, d+1) || rec(x.Y, d+1)
			}
		case *ssa.Call:
			for _, a := range x.Call.Args {
				if isByteSeq(a.Type()) && rec(a, d+1) {
					return true
				}
			}
		case *ssa.Extract:
			return rec(x.Tuple, d+1)
		case *ssa.Parameter:
			// a helper's parameter: what its callers pass
			if g := x.Parent(); g != nil && g.Parent() == nil && g.Object() != nil && !g.Object().Exported() {
				for i, gp := range g.Params {
					if gp != x {
						continue
					}
					for _, c := range staticCallersOf(g) {
						if i < len(c.Call.Args) && rec(c.Call.Args[i], d+1) {
							return true
						}
					}
				}
			}
		case *ssa.UnOp:
			if x.Op == token.MUL {
				if a, ok := x.X.(*ssa.Alloc); ok {
					for _, st := range storesInto(a) {
						if rec(st.Val, d+1) {
							return true
						}
					}
				}
			}
		}
		return false
	}
	return rec(v, 0)
}

// valueIsField: v is a load of Owner.Field, or a parameter of an unexported helper that every static
// call site fills with such a load (a field handed to a helper that works on it).
func valueIsField(v ssa.Value, name string) bool {
	var rec func(v ssa.Value, d int) bool
	rec = func(v ssa.Value, d int) bool {
		v = stripValue(v)
		if loadOfField(v, name) {
			return true
		}
		p, ok := v.(*ssa.Parameter)
		if !ok || d > 2 {
			return false
		}
		g := p.Parent()
		if g == nil || g.Object() == nil || g.Object().Exported() {
			return false
		}
		idx := -1
		for i, q := range g.Params {
			if q == p {
				idx = i
			}
		}
		calls := staticCallersOf(g)
		if idx < 0 || len(calls) == 0 {
			return false
		}
		for _, c := range calls {
			if idx >= len(c.Call.Args) || !rec(c.Call.Args[idx], d+1) {
				return false
			}
		}
		return true
	}
	return rec(v, 0)
}
