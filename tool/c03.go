package main

import (
	"fmt"
	"go/ast"
	"go/constant"
	"go/token"
	"go/types"
	"sort"
	"strings"

	"golang.org/x/tools/go/ssa"
)

func init() {
	register(&propDef{
		ID: "C03",
		Explain: "Decided clauses: R1 registration-time, mount-time, RoutePatternMatch and request-time normalisation apply the same (config flag → transformation) set to the " +
			"pattern side resp. the path side; R2 the delimiter tables are consistent with each other and with the bytes the matcher treats specially; R3 every routeSegment field the " +
			"matcher reads has a writer in the parser, and the pooled routeParser is fully reset; R4 the constant that ends a parameter is searched as a whole (a first-byte search only under len == 1; Count and LastIndex use the same needle). " +
			"Not decided: completeness of the greedy right-to-left search for all fillings, " +
			"the one-character rule for adjacent parameters, percent-decoding semantics (value-level).",
		Assume: []string{"utils.ToLower/TrimRight and fasthttp.AppendUnquotedArg are the only normalising transformations (table)"},
		Run:    runC03,
	})
}

// normForm computes, for function f and operand role ("pattern"/"path"), the set of
// transformations applied together with the Config flags that guard them, e.g.
// "lower@!CaseSensitive", "trim@!StrictRouting", "unescape@UnescapePath", "rmescape".
// role is decided by roleOf(arg value) -> "pattern" | "path" | "".
func normForm(f *ssa.Function, roleOf func(v ssa.Value) string) map[string]map[string]ssa.Instruction {
	// the function itself plus the helpers only it uses (statements moved into a function of their own);
	// shared utilities such as getGroupPath trim for their own purposes and are not part of the normal form
	out := map[string]map[string]ssa.Instruction{"pattern": {}, "path": {}}
	private := map[*ssa.Function]bool{f: true}
	for _, g := range privateHelpersOf(f) {
		private[g] = true
	}
	all := []*ssa.Function{f}
	withHelpers(func() { all = append(all, helpersOf(f)...) })
	seen := map[*ssa.Function]bool{}
	for _, g := range all {
		if seen[g] {
			continue
		}
		seen[g] = true
		var part map[string]map[string]ssa.Instruction
		withoutHelpers(func() { part = normFormOne(g, roleOf) })
		for role, m := range part {
			for k, v := range m {
				// a helper shared with other functions contributes its configuration-guarded transformations only
				// (the normal form is a set of flag → transformation pairs; what a shared utility trims
				// unconditionally for its own purposes is not part of it)
				if !private[g] && !strings.Contains(k, "@") {
					continue
				}
				if _, ok := out[role][k]; !ok {
					out[role][k] = v
				}
			}
		}
	}
	return out
}

func normFormOne(f *ssa.Function, roleOf func(v ssa.Value) string) map[string]map[string]ssa.Instruction {
	out := map[string]map[string]ssa.Instruction{"pattern": {}, "path": {}}
	family := func(name string) string {
		switch {
		case strings.HasPrefix(name, "github.com/gofiber/utils/v2.ToLower"):
			return "lower"
		case strings.HasPrefix(name, "github.com/gofiber/utils/v2.TrimRight"):
			return "trim"
		case name == "github.com/valyala/fasthttp.AppendUnquotedArg":
			return "unescape"
		case name == fiberMod+".RemoveEscapeChar" || name == fiberMod+".RemoveEscapeCharBytes":
			return "rmescape"
		}
		return ""
	}
	cfgBranches := []struct {
		br    branch
		field string
	}{}
	for _, br := range branchesIn(f) {
		for _, fld := range []string{"CaseSensitive", "StrictRouting", "UnescapePath"} {
			if loadOfField(br.Info.Root, "Config."+fld) {
				cfgBranches = append(cfgBranches, struct {
					br    branch
					field string
				}{br, fld})
			}
		}
	}
	for _, c := range callsIn(f, false) {
		fam := family(c.Name)
		if fam == "" || len(c.Common.Args) == 0 {
			continue
		}
		// role from any argument
		role := ""
		for _, a := range c.Common.Args {
			rr := ""
			withHelpers(func() { rr = roleOf(a) }) // the operand may arrive through a helper's parameter
			if rr != "" {
				role = rr
				break
			}
		}
		if role == "" {
			continue
		}
		var guards []string
		for _, cb := range cfgBranches {
			for _, want := range []bool{true, false} {
				s, ok := cb.br.truthSlot(want)
				if !ok {
					continue
				}
				tgt := cb.br.If.Block().Succs[s]
				// the edge must be the only way into tgt for "dominates" to mean "guarded by"
				if len(tgt.Preds) == 1 && dom(tgt, c.Block()) {
					if want {
						guards = append(guards, cb.field)
					} else {
						guards = append(guards, "!"+cb.field)
					}
				}
			}
		}
		sort.Strings(guards)
		key := fam
		if len(guards) > 0 {
			key += "@" + strings.Join(guards, "&")
		}
		out[role][key] = c.Instr
	}
	return out
}

func formList(m map[string]ssa.Instruction) string {
	var ks []string
	for k := range m {
		ks = append(ks, k)
	}
	sort.Strings(ks)
	return "{" + strings.Join(ks, ", ") + "}"
}

// paramRole: value depends on a parameter with one of the given names.
func dependsOnParam(v ssa.Value, names ...string) bool {
	return dependsOn(v, func(x ssa.Value) bool {
		p, ok := x.(*ssa.Parameter)
		if !ok {
			return false
		}
		for _, n := range names {
			if p.Name() == n {
				return true
			}
		}
		return false
	}) != nil
}

func normForms(r *Run) (reg, pre, rpm, cdp map[string]map[string]ssa.Instruction) {
	reg = normForm(r.Fn("", "(*App).register"), func(v ssa.Value) string {
		if dependsOnParam(v, "pathRaw") {
			return "pattern"
		}
		return ""
	})
	pre = normForm(r.Fn("", "(*App).addPrefixToRoute"), func(v ssa.Value) string {
		if dependsOnParam(v, "prefix", "route") {
			return "pattern"
		}
		return ""
	})
	rpm = normForm(r.Fn("", "RoutePatternMatch"), func(v ssa.Value) string {
		pat := dependsOnParam(v, "pattern")
		pth := dependsOnParam(v, "path")
		switch {
		case pat && !pth:
			return "pattern"
		case pth && !pat:
			return "path"
		}
		return ""
	})
	cdp = normForm(r.Fn("", "(*DefaultCtx).configDependentPaths"), func(v ssa.Value) string {
		if dependsOn(v, func(x ssa.Value) bool {
			return loadOfField(x, "DefaultCtx.path") || loadOfField(x, "DefaultCtx.detectionPath") || loadOfField(x, "DefaultCtx.pathOriginal")
		}) != nil {
			return "path"
		}
		return ""
	})
	return
}

func sameForm(a, b map[string]ssa.Instruction, ignore ...string) (bool, string) {
	ign := map[string]bool{}
	for _, i := range ignore {
		ign[i] = true
	}
	var diff []string
	for k := range a {
		if _, ok := b[k]; !ok && !ign[k] {
			diff = append(diff, "-"+k)
		}
	}
	for k := range b {
		if _, ok := a[k]; !ok && !ign[k] {
			diff = append(diff, "+"+k)
		}
	}
	sort.Strings(diff)
	return len(diff) == 0, strings.Join(diff, " ")
}

func runC03(r *Run) {
	r.rule("R1", "normalisation agreement: pattern side register ≡ addPrefixToRoute ≡ RoutePatternMatch; path side RoutePatternMatch ≡ configDependentPaths (E5)", func() {
		reg, pre, rpm, cdp := normForms(r)
		want := []string{"lower@!CaseSensitive", "trim@!StrictRouting"}
		for _, w := range want {
			_, ok := reg["pattern"][w]
			r.check(ok, "register:pattern:"+w, r.fpos(r.Fn("", "(*App).register")), "register applies "+w+" to the pattern", "register no longer applies "+w+" to the pattern: "+formList(reg["pattern"]))
		}
		for _, w := range []string{"unescape@UnescapePath", "lower@!CaseSensitive", "trim@!StrictRouting"} {
			_, ok := cdp["path"][w]
			r.check(ok, "configDependentPaths:path:"+w, r.fpos(r.Fn("", "(*DefaultCtx).configDependentPaths")), "request path gets "+w, "request path no longer gets "+w+": "+formList(cdp["path"]))
		}
		ok, d := sameForm(reg["pattern"], pre["pattern"])
		r.check(ok, "addPrefixToRoute≡register:pattern", r.fpos(r.Fn("", "(*App).addPrefixToRoute")), "same pattern normalisation "+formList(pre["pattern"]),
			"mount-time pattern normalisation differs from registration: "+d)
		ok, d = sameForm(reg["pattern"], rpm["pattern"])
		r.check(ok, "RoutePatternMatch≡register:pattern", r.fpos(r.Fn("", "RoutePatternMatch")), "same pattern normalisation "+formList(rpm["pattern"]),
			"RoutePatternMatch normalises the pattern differently from registration: "+d)
		ok, d = sameForm(cdp["path"], rpm["path"])
		r.check(ok, "RoutePatternMatch≡configDependentPaths:path", r.fpos(r.Fn("", "RoutePatternMatch")), "same path normalisation "+formList(rpm["path"]),
			"RoutePatternMatch normalises the path differently from request dispatch (configDependentPaths "+formList(cdp["path"])+", RoutePatternMatch "+formList(rpm["path"])+"): "+d+
				" — e.g. RoutePatternMatch(\"/foo/\",\"/foo\") is false while an app with Get(\"/foo\") serves /foo/")
	})

	r.rule("R1b", "the path-side transformations are applied in the same order by RoutePatternMatch and request dispatch (E10)", func() {
		_, _, rpm, cdp := normForms(r)
		fam := func(k string) string {
			if i := strings.IndexByte(k, '@'); i >= 0 {
				return k[:i]
			}
			return k
		}
		order := func(m map[string]ssa.Instruction) map[[2]string]bool {
			out := map[[2]string]bool{}
			for ka, a := range m {
				for kb, b := range m {
					if ka != kb && precedes(a, b) {
						out[[2]string{fam(ka), fam(kb)}] = true
					}
				}
			}
			return out
		}
		oc, orp := order(cdp["path"]), order(rpm["path"])
		n := 0
		for pair := range oc {
			if _, both := orp[[2]string{pair[1], pair[0]}]; both || orp[pair] {
				n++
				r.check(orp[pair], "RoutePatternMatch:path-order:"+pair[0]+"<"+pair[1], r.fpos(r.Fn("", "RoutePatternMatch")), pair[0]+" precedes "+pair[1]+" on both sides",
					"request dispatch applies "+pair[0]+" before "+pair[1]+" to the path, RoutePatternMatch applies them the other way round: e.g. with UnescapePath and case folding, %41 is folded before it is decoded and /%41pi no longer matches /api")
			}
		}
		r.atLeast("ordered transformation pairs", n, 2)
	})

	r.rule("R2", "delimiter tables agree (E8)", func() {
		sets, pos := byteSetVars(r, "", []string{"routeDelimiter", "greedyParameters", "parameterStartChars", "parameterDelimiterChars", "parameterEndChars"})
		sub := func(a, b string) bool {
			for k := range sets[a] {
				if !sets[b][k] {
					return false
				}
			}
			return len(sets[a]) > 0
		}
		show := func(n string) string {
			var ks []string
			for k := range sets[n] {
				ks = append(ks, fmt.Sprintf("%q", rune(k)))
			}
			sort.Strings(ks)
			return n + "=" + strings.Join(ks, "")
		}
		r.check(sub("routeDelimiter", "parameterDelimiterChars"), "routeDelimiter⊂parameterDelimiterChars", pos["parameterDelimiterChars"], show("routeDelimiter")+" "+show("parameterDelimiterChars"),
			"a route delimiter is not a parameter delimiter: "+show("routeDelimiter")+" "+show("parameterDelimiterChars"))
		r.check(sub("parameterDelimiterChars", "parameterEndChars"), "parameterDelimiterChars⊂parameterEndChars", pos["parameterEndChars"], show("parameterEndChars"),
			"a parameter delimiter does not end a parameter name: "+show("parameterDelimiterChars")+" "+show("parameterEndChars"))
		// greedy = start \ {':'}
		okG := sub("greedyParameters", "parameterStartChars") && len(sets["parameterStartChars"]) == len(sets["greedyParameters"])+1 && sets["parameterStartChars"][':'] && !sets["greedyParameters"][':']
		r.check(okG, "greedyParameters=parameterStartChars∖{:}", pos["greedyParameters"], show("greedyParameters")+" "+show("parameterStartChars"),
			"greedy parameter set and parameter start set disagree: "+show("greedyParameters")+" "+show("parameterStartChars"))
		r.check(sets["routeDelimiter"]['/'] && sets["routeDelimiter"]['-'] && sets["routeDelimiter"]['.'], "routeDelimiter∋/-.", pos["routeDelimiter"], "documented delimiters / - . present",
			"a documented delimiter ('/', '-', '.') is missing from routeDelimiter: "+show("routeDelimiter"))
		r.check(sets["parameterEndChars"]['?'] && sets["parameterDelimiterChars"][':'] && sets["parameterDelimiterChars"]['\\'], "end-chars∋?:\\", pos["parameterEndChars"], "optional marker, parameter start and escape end a parameter name",
			"'?', ':' or the escape character no longer terminates a parameter name")
		// analyseParameterPart consults the same tables
		ap := r.Fn("", "(*routeParser).analyseParameterPart")
		uses := map[string]bool{}
		for _, b := range ap.Blocks {
			for _, in := range b.Instrs {
				if u, ok := in.(*ssa.UnOp); ok && u.Op == token.MUL {
					if gl, ok := u.X.(*ssa.Global); ok {
						uses[gl.Name()] = true
					}
				}
			}
		}
		r.check(uses["parameterEndChars"] && uses["parameterDelimiterChars"], "analyseParameterPart:uses-tables", r.fpos(ap), "parameter end search uses parameterEndChars / parameterDelimiterChars",
			"analyseParameterPart no longer consults the delimiter tables")
	})

	r.rule("R3", "every routeSegment field read by the matcher has a writer in the parser; pooled routeParser.reset clears every field (E4)", func() {
		readers := []string{"(*routeParser).getMatch", "findParamLen", "findParamLenForLastSegment", "findGreedyParamLen", "(*App).buildTree"}
		writers := []string{"(*routeParser).analyseConstantPart", "(*routeParser).analyseParameterPart", "addParameterMetaInfo", "(*routeParser).parseRoute"}
		written := map[string]bool{}
		for _, w := range writers {
			for _, fr := range fieldRefs(r.Fn("", w)) {
				if fr.Write && strings.HasPrefix(fr.Name, "routeSegment.") {
					written[fr.Name] = true
				}
			}
		}
		read := map[string]string{}
		for _, rd := range readers {
			f := r.Fn("", rd)
			for _, fr := range fieldRefs(f) {
				if !fr.Write && strings.HasPrefix(fr.Name, "routeSegment.") {
					if _, ok := read[fr.Name]; !ok {
						read[fr.Name] = rd + " " + r.pos(fr.Instr)
					}
				}
			}
		}
		r.atLeast("routeSegment fields read by the matcher", len(read), 9)
		for _, name := range sortedKeys(read) {
			r.check(written[name], "routeSegment-field:"+name, strings.Fields(read[name])[1], "read by "+strings.Fields(read[name])[0]+", written by the parser",
				name+" is read by the matcher ("+read[name]+") but no parser function writes it: it is always the zero value")
		}
		// reset
		_, st := r.P.Struct("", "routeParser")
		r.need(st != nil, "routeParser struct")
		rs := r.Fn("", "(*routeParser).reset")
		cleared := map[string]bool{}
		for _, fr := range fieldRefs(rs) {
			if fr.Write {
				cleared[fr.Name] = true
			}
		}
		for i := 0; i < st.NumFields(); i++ {
			n := "routeParser." + st.Field(i).Name()
			r.check(cleared[n], "routeParser.reset:"+n, r.fpos(rs), "cleared on reuse", n+" survives routerParserPool reuse (RoutePatternMatch would see segments/params of an earlier pattern)")
		}
		// the pooled parser is reset before parseRoute in RoutePatternMatch
		rpm := r.Fn("", "RoutePatternMatch")
		gets := callsMatching(rpm, false, nameIs("(*sync.Pool).Get"))
		resets := callsMatching(rpm, false, nameHasSuffix("routeParser).reset"))
		parses := callsMatching(rpm, false, nameHasSuffix("routeParser).parseRoute"))
		okOrder := len(gets) == 1 && len(resets) == 1 && len(parses) == 1
		if okOrder {
			_, hit := reach(pointAfter(gets[0].Instr), func(in ssa.Instruction) bool { return in == parses[0].Instr }, nil, func(in ssa.Instruction) bool { return in == resets[0].Instr })
			okOrder = hit == nil
		}
		r.check(okOrder, "RoutePatternMatch:reset-before-parse", r.fpos(rpm), "pool.Get → reset → parseRoute on every path", "a pooled routeParser can be parsed into without reset")
		// … and is parsed on every path before it is matched with: what a pooled parser holds is the pattern of an
		// earlier call, normalised under that call's configuration
		okParsed := len(gets) == 1 && len(parses) >= 1
		if okParsed {
			isMatch := func(in ssa.Instruction) bool { return isCallTo(in, nameHasSuffix("routeParser).getMatch")) }
			isParse := func(in ssa.Instruction) bool {
				for _, p := range parses {
					if in == p.Instr {
						return true
					}
				}
				return false
			}
			_, hit := reach(pointAfter(gets[0].Instr), isMatch, nil, isParse)
			okParsed = hit == nil
		}
		r.check(okParsed, "RoutePatternMatch:parse-before-match", r.fpos(rpm), "every path from pool.Get to getMatch parses the pattern", "RoutePatternMatch can match with what a pooled parser still holds from an earlier call (the pattern is not parsed on some path): the same pattern probed under two configurations answers for the first one")
	})

	r.rule("R4", "the constant that ends a parameter is searched as a whole: a single-byte search with ComparePart[0] is reachable only when len(ComparePart) == 1, and counting and locating use the same needle (E1/E5)", func() {
		const cp = "routeSegment.ComparePart"
		isWhole := func(v ssa.Value) bool { return valueIsField(v, cp) }
		isFirstByte := func(v ssa.Value) bool {
			ix, ok := stripValue(v).(*ssa.Index)
			return ok && valueIsField(ix.X, cp) && isConstInt(ix.Index, 0)
		}
		searchers := map[string]bool{"strings.Index": true, "strings.LastIndex": true, "strings.Count": true, "strings.IndexByte": true, "strings.LastIndexByte": true,
			"strings.HasPrefix": true, "strings.Contains": true, "bytes.IndexByte": true, "bytes.LastIndexByte": true}
		nWhole, nByte := 0, 0
		r.P.AllFuncs("", func(f *ssa.Function) {
			for _, c := range callsIn(f, false) {
				if !searchers[c.Name] || len(c.Common.Args) != 2 {
					continue
				}
				needle := c.Common.Args[1]
				switch {
				case isWhole(needle):
					nWhole++
				case isFirstByte(needle):
					nByte++
					cut := map[edge]bool{}
					for _, br := range branchesIn(f) {
						lenOfCP := lenOfField(stripValue(br.Info.Root), cp)
						if lc, ok := stripValue(br.Info.Root).(*ssa.Call); ok && calleeName(&lc.Call) == "builtin:len" && len(lc.Call.Args) == 1 && valueIsField(lc.Call.Args[0], cp) {
							lenOfCP = true
						}
						if lenOfCP {
							if sl, ok := br.eqIntSlot(1, true); ok {
								cut[edge{br.If.Block(), sl}] = true
							}
						}
					}
					_, hit := reach(entryOf(f), func(in ssa.Instruction) bool { return in == c.Instr }, cut, nil)
					r.check(len(cut) > 0 && hit == nil, short(f.String())+":byte-search-needs-one-byte-constant", r.pos(c.Instr), "the single-byte search is reachable only through len(ComparePart) == 1",
						"the end of a parameter is located by the first byte of the following constant although the constant can be longer: for `/*-v1` style patterns the value is cut at any `-`, the rest no longer lines up and a legal path does not match (or captures the wrong value)")
				}
			}
		})
		r.atLeast("whole-constant searches", nWhole, 3)
		r.atLeast("single-byte searches", nByte, 1)
		// the greedy search counts and locates with the same needle
		g := r.Fn("", "findGreedyParamLen")
		locs := 0
		for _, c := range callsIn(g, false) {
			if searchers[c.Name] {
				locs++
				r.check(isWhole(c.Common.Args[1]), "findGreedyParamLen:"+c.Name+":needle", r.pos(c.Instr), "the right-to-left search looks for the whole constant, like the Count that sent it here", "the right-to-left search does not look for the constant that strings.Count counted")
			}
		}
		r.atLeast("searches in findGreedyParamLen", locs, 1)
	})

	r.rule("R5", "PartCount counts occurrences the way the matcher does: the parser adds strings.Count(later constant, ComparePart), the matcher compares with strings.Count(path, ComparePart) (E5)", func() {
		f := r.Fn("", "addParameterMetaInfo")
		isCount := func(hay, needle string) func(v ssa.Value) bool {
			return func(v ssa.Value) bool {
				c, ok := v.(*ssa.Call)
				if !ok || calleeName(&c.Call) != "strings.Count" {
					return false
				}
				okHay := hay == "" || loadOfField(c.Call.Args[0], hay)
				return okHay && loadOfField(c.Call.Args[1], needle)
			}
		}
		n := 0
		for _, fr := range fieldRefs(f) {
			if !fr.Write || fr.Name != "routeSegment.PartCount" || fr.Val == nil {
				continue
			}
			if k, isC := constInt(asConst(fr.Val)); isC && k == 0 {
				continue
			}
			n++
			r.check(dependsOn(fr.Val, isCount("routeSegment.Const", "routeSegment.ComparePart")) != nil, fmt.Sprintf("addParameterMetaInfo:PartCount#%d:counts-occurrences", n), r.pos(fr.Instr),
				"PartCount accumulates strings.Count(Const, ComparePart)",
				"PartCount is not the number of occurrences of the delimiter in the later constants (e.g. one per constant that contains it): the right-to-left search strips too few delimiters, a greedy parameter swallows the next value and a legal path does not match")
		}
		r.atLeast("PartCount updates", n, 1)
		m := r.Fn("", "findParamLen")
		cm := 0
		for _, c := range callsMatching(m, false, nameIs("strings.Count")) {
			if loadOfField(c.Common.Args[1], "routeSegment.ComparePart") {
				cm++
			}
		}
		r.check(cm >= 1, "findParamLen:counts-occurrences", r.fpos(m), "the matcher counts occurrences of ComparePart in the rest of the path", "the matcher no longer counts occurrences of ComparePart")
	})

	r.rule("R9", "the parser sees the escapes: `\\:` and `\\*` are literals only while the backslash is still in front of them, so no pattern handed to parseRoute (register, addPrefixToRoute, RoutePatternMatch and their helpers) is derived from RemoveEscapeChar — that form is for the literal comparison (Route.path), not for parsing; a matcher built from it turns `/v1/:id\\:cancel` into two parameters while Route.Params and RoutePatternMatch still count one (E3: provenance of the parser's input)", func() {
		n := 0
		isUnescape := func(v ssa.Value) bool {
			c, ok := v.(*ssa.Call)
			return ok && strings.HasSuffix(calleeName(&c.Call), ".RemoveEscapeChar")
		}
		r.P.AllFuncs("", func(f *ssa.Function) {
			for _, c := range callsMatching(f, false, func(s string) bool {
				return strings.HasSuffix(s, "fiber/v3.parseRoute") || strings.HasSuffix(s, "routeParser).parseRoute")
			}) {
				args := c.Common.Args
				if len(args) == 0 {
					continue
				}
				pat := args[0]
				if strings.HasSuffix(c.Name, "routeParser).parseRoute") && len(args) > 1 {
					pat = args[1]
				}
				if _, isParam := stripValue(pat).(*ssa.Parameter); isParam {
					continue // a wrapper: judged at its callers
				}
				n++
				r.check(dependsOn(pat, isUnescape) == nil, short(f.String())+":parseRoute:pattern-with-its-escapes", r.pos(c.Instr), "the parsed pattern still carries its escapes",
					"a pattern is parsed after RemoveEscapeChar: escaped `:`/`*`/`+` become live parameters in the matcher while Route.Params (parsed from the raw pattern) and RoutePatternMatch treat them as literals — `/v1/:id\\:cancel` serves /v1/12:cancel with id = \"1\"")
			}
		})
		r.atLeast("parseRoute calls with a computed pattern", n, 3)
	})

	r.rule("R8", "the catch-all short cut is taken for the catch-all pattern only: Route.match accepts a route flagged star before any parsing, with the whole path as `*` — so register and addPrefixToRoute raise Route.star only on the normalised pattern being the text \"/*\"; a flag derived from the parsed segments (`second segment is greedy`) is also true for `/+`, which must not match `/` — dispatch and RoutePatternMatch would then disagree (E8: the flag is a comparison with that literal)", func() {
		n := 0
		for _, fn := range []string{"(*App).register", "(*App).addPrefixToRoute"} {
			f := r.Fn("", fn)
			for _, fr := range fieldRefs(f) {
				if !fr.Write || fr.Name != "Route.star" {
					continue
				}
				n++
				if b, isB := constBool(asConst(fr.Val)); isB && !b {
					r.ok(fn+":star:literal-/*", r.pos(fr.Instr), "the flag is cleared")
					continue
				}
				lit, _, ok := flagFromCompare(fr.Instr.Parent(), fr.Val)
				r.check(ok && lit == "/*", fn+":star:literal-/*", r.pos(fr.Instr), "Route.star is the comparison of the pattern with \"/*\"",
					"Route.star is not decided by comparing the pattern with the text \"/*\": a pattern such as `/+` (greedy, but needing at least one byte) can be flagged as catch-all — `/` is then served by the `/+` route with Params(\"+\") == \"\", while RoutePatternMatch(\"/\", \"/+\") says false")
			}
		}
		r.atLeast("stores to Route.star", n, 2)
	})

	r.rule("R7", "greedy parameters are numbered per kind, as Params reads them (`*` is `*1`, the second `+` is `+2`): in analyseParameterPart every number appended to a parameter name comes from exactly one of the parser's counters, and is appended only behind the test for that kind's marker (E5, writer and reader agree)", func() {
		f := r.Fn("", "(*routeParser).analyseParameterPart")
		kinds := []struct {
			field  string
			marker int64
		}{{"routeParser.wildCardCount", '*'}, {"routeParser.plusCount", '+'}}
		n := 0
		for _, c := range callsMatching(f, false, nameIs("strconv.Itoa")) {
			n++
			arg := c.Common.Args[0]
			var from []int
			for k, kd := range kinds {
				kd := kd
				if dependsOn(arg, func(v ssa.Value) bool { return loadOfField(v, kd.field) }) != nil {
					from = append(from, k)
				}
			}
			key := fmt.Sprintf("analyseParameterPart:number#%d:one-counter-of-its-kind", n)
			if len(from) != 1 {
				r.check(false, key, r.pos(c.Instr), "", fmt.Sprintf("the number appended to a greedy parameter's name is computed from %d of the parser's counters: with one `*` and one `+` in a pattern (/+/*) the names become +1 and *2, while Params(\"*\") reads *1 — the captured value is lost", len(from)))
				continue
			}
			kd := kinds[from[0]]
			// behind the marker test of that kind
			cut := map[edge]bool{}
			for _, b := range f.Blocks {
				for _, in := range b.Instrs {
					bo, ok := in.(*ssa.BinOp)
					if !ok || bo.Op != token.EQL || !isConstInt(bo.Y, kd.marker) {
						continue
					}
					if _, isIdx := stripValue(bo.X).(*ssa.Index); !isIdx {
						continue
					}
					for _, e := range trueEdgesOf(f, bo) {
						cut[e] = true
					}
				}
			}
			_, hit := reach(entryOf(f), func(in ssa.Instruction) bool { return in == c.Instr }, cut, nil)
			r.check(len(cut) > 0 && hit == nil, key, r.pos(c.Instr), fmt.Sprintf("the number comes from %s and is appended only behind the `%c` test", kd.field, rune(kd.marker)),
				fmt.Sprintf("the number taken from %s is appended on a path that did not test for the `%c` marker: a parameter of the other kind is numbered with this kind's counter", kd.field, rune(kd.marker)))
		}
		r.atLeast("numbers appended to greedy parameter names", n, 1)
	})

	r.rule("R6", "Params returns the values as sent: what the matchers store into the value array is cut from the path as sent (or constant), never from the normalised detection path, which is case-folded and trimmed (E3)", func() {
		n := 0
		for _, name := range []string{"(*Route).match", "(*routeParser).getMatch"} {
			f := r.Fn("", name)
			var detection ssa.Value
			for _, p := range f.Params {
				if p.Name() == "detectionPath" {
					detection = p
				}
			}
			r.need(detection != nil, name+" takes the detection path")
			{
				for _, in := range instrsWhereOne(f, func(in ssa.Instruction) bool { _, ok := in.(*ssa.Store); return ok }) {
					st := in.(*ssa.Store)
					ia, ok := st.Addr.(*ssa.IndexAddr)
					if !ok {
						continue
					}
					if p, ok := stripValue(ia.X).(*ssa.Parameter); !ok || p.Name() != "params" {
						continue
					}
					n++
					r.check(!contentFrom(st.Val, detection), fmt.Sprintf("%s:value-store#%d:from-path-as-sent", name, n), r.pos(in), "the stored value does not derive from the detection path",
						"a parameter value is cut from the normalised detection path: with CaseSensitive off Params returns docs/readme.md for /Docs/README.md (and loses what non-strict routing trims)")
				}
			}
		}
		r.atLeast("stores into the value array", n, 2)
	})
}

// byteSetVars evaluates package-level `[]byte{...}` / `append([]byte{...}, other...)` initialisers.
func byteSetVars(r *Run, pkg string, names []string) (map[string]map[byte]bool, map[string]string) {
	pk := r.P.All[pkgPath(pkg)]
	r.need(pk != nil, "package "+pkg)
	sets := map[string]map[byte]bool{}
	pos := map[string]string{}
	inits := map[string]ast.Expr{}
	for _, file := range pk.Syntax {
		for _, d := range file.Decls {
			gd, ok := d.(*ast.GenDecl)
			if !ok || gd.Tok != token.VAR {
				continue
			}
			for _, sp := range gd.Specs {
				vs := sp.(*ast.ValueSpec)
				for i, n := range vs.Names {
					if i < len(vs.Values) {
						inits[n.Name] = vs.Values[i]
						pos[n.Name] = r.P.Pos(n.Pos())
					}
				}
			}
		}
	}
	var eval func(e ast.Expr, depth int) map[byte]bool
	eval = func(e ast.Expr, depth int) map[byte]bool {
		out := map[byte]bool{}
		if depth > 6 {
			return out
		}
		switch x := e.(type) {
		case *ast.CompositeLit:
			for _, el := range x.Elts {
				if tv, ok := pk.TypesInfo.Types[el]; ok && tv.Value != nil {
					if n, ok := constant.Int64Val(constant.ToInt(tv.Value)); ok {
						out[byte(n)] = true
					}
				}
			}
		case *ast.CallExpr:
			if id, ok := x.Fun.(*ast.Ident); ok && id.Name == "append" {
				for _, a := range x.Args {
					for k := range eval(a, depth+1) {
						out[k] = true
					}
				}
			}
		case *ast.Ident:
			if _, ok := pk.TypesInfo.Uses[x].(*types.Var); ok {
				if in, ok := inits[x.Name]; ok {
					return eval(in, depth+1)
				}
			}
		}
		return out
	}
	for _, n := range names {
		in, ok := inits[n]
		r.need(ok, "package variable "+n)
		sets[n] = eval(in, 0)
		r.need(len(sets[n]) > 0, "byte set "+n+" evaluates to a non-empty set")
	}
	return sets, pos
}
