package main

import (
	"fmt"
	"go/token"
	"go/types"
	"sort"

	"golang.org/x/tools/go/ssa"
)

// First-byte accesses: x[c] with a constant c on a byte sequence.  nonEmptyGuards lists the edges on
// which len(x) > c is known: len comparisons with constants, comparisons of x with "" and
// HasPrefix/HasSuffix with a literal long enough.
type constAccess struct {
	In   ssa.Instruction
	Base ssa.Value
	C    int64
}

func constIndexAccesses(f *ssa.Function) []constAccess {
	var out []constAccess
	for _, b := range f.Blocks {
		for _, in := range b.Instrs {
			var base, idx ssa.Value
			switch x := in.(type) {
			case *ssa.Lookup:
				base, idx = x.X, x.Index
			case *ssa.Index:
				base, idx = x.X, x.Index
			case *ssa.IndexAddr:
				base, idx = x.X, x.Index
			default:
				continue
			}
			if !isByteSeq(base.Type()) {
				continue
			}
			if c, ok := constInt(asConst(idx)); ok && c >= 0 {
				out = append(out, constAccess{in, base, c})
			}
		}
	}
	return out
}

// lenAtLeastEdges: edges of f on which len(base) >= n.
func lenAtLeastEdges(f *ssa.Function, base ssa.Value, n int64) []edge {
	var out []edge
	for _, g := range offsetGuards(f) {
		if !sameValue(g.Base, base) {
			continue
		}
		if k, ok := constInt(asConst(g.Var)); ok && k+g.Have >= n {
			out = append(out, g.Edge)
		}
	}
	for _, br := range branchesIn(f) {
		ci := br.Info
		// x != "" / x == ""
		if s, ok := constString(ci.Const); ok && sameValue(ci.Root, base) {
			switch {
			case ci.Op == token.NEQ && s == "" && n <= 1:
				out = append(out, edge{br.If.Block(), br.slotWhenRel(true)})
			case ci.Op == token.EQL && s == "" && n <= 1:
				out = append(out, edge{br.If.Block(), br.slotWhenRel(false)})
			case ci.Op == token.EQL && int64(len(s)) >= n:
				out = append(out, edge{br.If.Block(), br.slotWhenRel(true)})
			}
		}
		// len(x) == k / != k with constants
		if c, ok := stripValue(ci.Root).(*ssa.Call); ok && calleeName(&c.Call) == "builtin:len" && len(c.Call.Args) == 1 && sameValue(c.Call.Args[0], base) {
			if k, ok := constInt(ci.Const); ok {
				switch {
				case ci.Op == token.EQL && k >= n:
					out = append(out, edge{br.If.Block(), br.slotWhenRel(true)})
				case ci.Op == token.EQL && k == 0 && n <= 1:
					out = append(out, edge{br.If.Block(), br.slotWhenRel(false)})
				case ci.Op == token.NEQ && k == 0 && n <= 1:
					out = append(out, edge{br.If.Block(), br.slotWhenRel(true)})
				}
			}
		}
	}
	return out
}

// constIndexExempt: accesses whose bound is an invariant of the (single) caller, one named function each.
var constIndexExempt = map[string]string{
	"(*fiber.routeParser).analyseParameterPart": "registration time; parseRoute calls it with pattern[pos:] where pos is the index findNextParamPosition found a parameter character at, so pattern is non-empty",
}

type constIndexFinding struct {
	Fn  *ssa.Function
	Acc constAccess
}

// constIndexScan: for every x[c] the edges on which len(x) > c is known are removed; the access must
// then be unreachable from the entry.  A phi base is bounded through each operand: a constant operand
// long enough bounds it on its incoming edge, any other operand needs its own bounding edge.
func constIndexScan(fs []*ssa.Function) (guarded, exempt int, bad []constIndexFinding) {
	for _, f := range fs {
		if len(f.Blocks) == 0 {
			continue
		}
		for _, a := range constIndexAccesses(f) {
			if _, ok := constIndexExempt[short(f.String())]; ok {
				exempt++
				continue
			}
			cut := map[edge]bool{}
			bases := []ssa.Value{a.Base}
			if ph, ok := a.Base.(*ssa.Phi); ok {
				for k, e := range ph.Edges {
					if s, ok := constString(asConst(stripValue(e))); ok && int64(len(s)) > a.C {
						pred := ph.Block().Preds[k]
						for sl, su := range pred.Succs {
							if su == ph.Block() {
								cut[edge{pred, sl}] = true
							}
						}
						continue
					}
					bases = append(bases, e)
				}
			}
			for _, b := range bases {
				for _, e := range lenAtLeastEdges(f, b, a.C+1) {
					cut[e] = true
				}
			}
			if _, hit := reach(entryOf(f), func(in ssa.Instruction) bool { return in == a.In }, cut, nil); hit != nil {
				bad = append(bad, constIndexFinding{f, a})
			} else {
				guarded++
			}
		}
	}
	sort.Slice(bad, func(i, j int) bool { return bad[i].Acc.In.Pos() < bad[j].Acc.In.Pos() })
	return
}

func constIndexRule(r *Run) {
	var fs []*ssa.Function
	r.P.AllFuncs("*", func(f *ssa.Function) { fs = append(fs, f) })
	guarded, exempt, bad := constIndexScan(fs)
	r.count("constant-index accesses bounded on every path", guarded)
	r.count("exempt (caller invariant, listed by function)", exempt)
	r.atLeast("bounded constant-index accesses", guarded, 12)
	seen := map[string]bool{}
	for _, b := range bad {
		n := short(b.Fn.String())
		if seen[n] {
			continue
		}
		seen[n] = true
		r.bad(n+":constant-index-without-length-bound", r.pos(b.Acc.In), fmt.Sprintf("x[%d] is reachable on a path that establishes no lower bound for len(x): an empty (or %d-byte) value panics with index out of range", b.Acc.C, b.Acc.C))
	}
	if len(bad) == 0 {
		r.ok("module:constant-index-without-length-bound", "", fmt.Sprintf("%d constant-index accesses, each reachable only through an edge on which the length exceeds the index (%d exempt by caller invariant)", guarded, exempt))
	}
}

// interfaceComparisons: x == y / x != y where both operands are non-nil interface values.  The comparison
// panics at run time when the dynamic types are equal and not comparable (a map, slice or func behind the
// interface, or a struct holding one).
type ifaceCmp struct {
	Fn *ssa.Function
	In *ssa.BinOp
}

func interfaceComparisons(fs []*ssa.Function) []ifaceCmp {
	var out []ifaceCmp
	for _, f := range fs {
		for _, b := range f.Blocks {
			for _, in := range b.Instrs {
				bo, ok := in.(*ssa.BinOp)
				if !ok || (bo.Op != token.EQL && bo.Op != token.NEQ) {
					continue
				}
				if !types.IsInterface(bo.X.Type()) || !types.IsInterface(bo.Y.Type()) {
					continue
				}
				if constIsNil(asConst(bo.X)) || constIsNil(asConst(bo.Y)) {
					continue
				}
				out = append(out, ifaceCmp{f, bo})
			}
		}
	}
	return out
}

// ifaceCmpExempt: comparisons one of whose operands always holds a comparable dynamic type that the rule
// cannot see from the operand itself (a package-level value), one named function each.
var ifaceCmpExempt = map[string]string{
	"(*fiber.App).Test":               "compares with net/http.NoBody, whose dynamic type is the empty struct noBody",
	"middleware/logger.configDefault": "compares with ConfigDefault.Stream, which is os.Stdout (*os.File)",
}

func interfaceComparisonRule(r *Run) {
	var fs []*ssa.Function
	r.P.AllFuncs("*", func(f *ssa.Function) { fs = append(fs, f) })
	n, safe, exempt := 0, 0, 0
	for _, c := range interfaceComparisons(fs) {
		n++
		known := false
		for _, o := range []ssa.Value{c.In.X, c.In.Y} {
			if mi, ok := o.(*ssa.MakeInterface); ok && types.Comparable(mi.X.Type()) {
				known = true
			}
		}
		if c.In.X.Type().String() == "reflect.Type" {
			known = true // "Type values are comparable" (package reflect): always a pointer to the runtime type
		}
		name := short(c.Fn.String())
		switch {
		case known:
			safe++
		case ifaceCmpExempt[name] != "":
			exempt++
		default:
			r.bad(name+":interface-comparison-may-panic", r.pos(c.In), fmt.Sprintf("two values of type %s are compared with %s: when both hold the same uncomparable dynamic type (a map such as testing/fstest.MapFS, a slice, a struct holding one) the comparison panics in the request goroutine", c.In.X.Type(), c.In.Op))
		}
	}
	r.count("interface comparisons", n)
	r.count("with an operand of known comparable dynamic type", safe)
	r.count("exempt (listed by function)", exempt)
	if n == safe+exempt {
		r.ok("module:interface-comparison-may-panic", "", fmt.Sprintf("%d comparisons of two interface values: %d with an operand of known comparable type, %d listed", n, safe, exempt))
	}
}
