package main

import (
	"encoding/json"
	"fmt"
	"io"
	"io/fs"
	"os"
	"os/exec"
	"path/filepath"
	"sort"
	"strings"
	"sync"
)

// A variant is a small source rewrite of the current tree used to test the checker both
// ways: "break" variants must be reported (naming ExpectKey), "benign" variants must be silent.
type variant struct {
	ID        string `json:"id"`
	Property  string `json:"property"`
	Kind      string `json:"kind"` // break | benign
	File      string `json:"file"`
	Find      string `json:"find"`
	Replace   string `json:"replace"`
	ExpectKey string `json:"expect_key,omitempty"`
	Why       string `json:"why,omitempty"`
	// Optional second edit (two cooperating sites)
	File2    string `json:"file2,omitempty"`
	Find2    string `json:"find2,omitempty"`
	Replace2 string `json:"replace2,omitempty"`
}

func selftestDir() string {
	if d := os.Getenv("VERIF_SELFTEST_DIR"); d != "" {
		return d
	}
	return "/verif/selftest"
}

func loadVariants(prop string) ([]variant, error) {
	ents, err := os.ReadDir(selftestDir())
	if err != nil {
		if os.IsNotExist(err) {
			return nil, nil
		}
		return nil, err
	}
	var out []variant
	for _, e := range ents {
		if !strings.HasSuffix(e.Name(), ".json") {
			continue
		}
		b, err := os.ReadFile(filepath.Join(selftestDir(), e.Name()))
		if err != nil {
			return nil, err
		}
		var vs []variant
		if err := json.Unmarshal(b, &vs); err != nil {
			return nil, fmt.Errorf("%s: %w", e.Name(), err)
		}
		for _, v := range vs {
			if v.Property == prop {
				out = append(out, v)
			}
		}
	}
	sort.Slice(out, func(i, j int) bool { return out[i].ID < out[j].ID })
	return out, nil
}

func copyTree(src, dst string) error {
	return filepath.WalkDir(src, func(path string, d fs.DirEntry, err error) error {
		if err != nil {
			return err
		}
		rel, _ := filepath.Rel(src, path)
		if d.IsDir() {
			if d.Name() == ".git" || d.Name() == ".github" || d.Name() == "docs" {
				return filepath.SkipDir
			}
			return os.MkdirAll(filepath.Join(dst, rel), 0o755)
		}
		if !d.Type().IsRegular() {
			return nil
		}
		if strings.HasSuffix(path, "_test.go") {
			return nil
		}
		in, err := os.Open(path)
		if err != nil {
			return err
		}
		defer in.Close()
		out, err := os.Create(filepath.Join(dst, rel))
		if err != nil {
			return err
		}
		defer out.Close()
		_, err = io.Copy(out, in)
		return err
	})
}

func applyEdit(root, file, find, replace string) (bool, error) {
	p := filepath.Join(root, file)
	b, err := os.ReadFile(p)
	if err != nil {
		return false, nil // file gone: variant no longer applies
	}
	s := string(b)
	if strings.Count(s, find) != 1 {
		return false, nil
	}
	s = strings.Replace(s, find, replace, 1)
	return true, os.WriteFile(p, []byte(s), 0o644)
}

type variantResult struct {
	ID      string `json:"id"`
	Kind    string `json:"kind"`
	Outcome string `json:"outcome"` // detected | silent | skipped | MISSED | FALSE-ALARM | error
	Detail  string `json:"detail,omitempty"`
}

func runVariant(v variant, repo, self, knownPath string) variantResult {
	res := variantResult{ID: v.ID, Kind: v.Kind}
	tmp, err := os.MkdirTemp("", "fibercheck-st-")
	if err != nil {
		res.Outcome, res.Detail = "error", err.Error()
		return res
	}
	defer os.RemoveAll(tmp)
	work := filepath.Join(tmp, "repo")
	if err := copyTree(repo, work); err != nil {
		res.Outcome, res.Detail = "error", err.Error()
		return res
	}
	ok, err := applyEdit(work, v.File, v.Find, v.Replace)
	if err == nil && ok && v.File2 != "" {
		ok, err = applyEdit(work, v.File2, v.Find2, v.Replace2)
	}
	if err != nil {
		res.Outcome, res.Detail = "error", err.Error()
		return res
	}
	if !ok {
		res.Outcome, res.Detail = "skipped", "find text does not occur exactly once in the current tree"
		return res
	}
	cmd := exec.Command(self, "-repo", work, "-out", filepath.Join(tmp, "ev"), "-known", knownPath, "-tier", "quick", v.Property)
	cmd.Env = append(os.Environ(), "VERIF_SELFTEST_CHILD=1")
	outb, err := cmd.CombinedOutput()
	out := string(outb)
	code := 0
	if err != nil {
		if ee, ok := err.(*exec.ExitError); ok {
			code = ee.ExitCode()
		} else {
			res.Outcome, res.Detail = "error", err.Error()
			return res
		}
	}
	if strings.Contains(out, "load error:") {
		res.Outcome, res.Detail = "error", "variant does not type-check: "+firstLine(out)
		return res
	}
	named := false
	for _, ln := range strings.Split(out, "\n") {
		if strings.Contains(ln, "["+v.Property+" ") && (v.ExpectKey == "" || strings.Contains(ln, v.ExpectKey)) {
			named = true
		}
	}
	switch v.Kind {
	case "break":
		if code == 1 && named {
			res.Outcome = "detected"
		} else {
			res.Outcome = "MISSED"
			res.Detail = fmt.Sprintf("exit=%d named=%v", code, named)
		}
	case "benign":
		if code == 0 {
			res.Outcome = "silent"
		} else {
			res.Outcome = "FALSE-ALARM"
			res.Detail = firstViolation(out)
		}
	}
	return res
}

func firstLine(s string) string {
	if i := strings.IndexByte(s, '\n'); i >= 0 {
		return s[:i]
	}
	return s
}

func firstViolation(s string) string {
	for _, ln := range strings.Split(s, "\n") {
		if strings.Contains(ln, ": [C") {
			return ln
		}
	}
	return firstLine(s)
}

// runSelftest applies every registered variant of the property on a scratch copy (one
// fresh process per variant) and reports how the checker classified it.
func runSelftest(r *Run, repo string, _ []Finding) map[string]any {
	if os.Getenv("VERIF_SELFTEST_CHILD") != "" {
		return nil
	}
	vs, err := loadVariants(r.Prop)
	if err != nil {
		return map[string]any{"failed": 1, "error": err.Error()}
	}
	self, err := os.Executable()
	if err != nil {
		return map[string]any{"failed": 1, "error": err.Error()}
	}
	seeded := loadSeeded(r.Prop)
	results := make([]variantResult, len(vs))
	sem := make(chan struct{}, 6)
	var wg sync.WaitGroup
	for i, v := range vs {
		wg.Add(1)
		go func(i int, v variant) {
			defer wg.Done()
			sem <- struct{}{}
			defer func() { <-sem }()
			results[i] = runVariant(v, repo, self, "/verif/known_findings.json")
		}(i, v)
	}
	seedResults := make([]variantResult, len(seeded))
	for i, sd := range seeded {
		wg.Add(1)
		go func(i int, sd seededChange) {
			defer wg.Done()
			sem <- struct{}{}
			defer func() { <-sem }()
			seedResults[i] = runSeeded(sd, repo, self, "/verif/known_findings.json")
		}(i, sd)
	}
	benign := loadBenign(r.Prop)
	benignResults := make([]variantResult, len(benign))
	for i, bp := range benign {
		wg.Add(1)
		go func(i int, bp benignPatch) {
			defer wg.Done()
			sem <- struct{}{}
			defer func() { <-sem }()
			benignResults[i] = runBenign(bp, repo, self, "/verif/known_findings.json")
		}(i, bp)
	}
	wg.Wait()
	var detected, silent, skipped, failed int
	for _, x := range results {
		switch x.Outcome {
		case "detected":
			detected++
		case "silent":
			silent++
		case "skipped":
			skipped++
			fmt.Printf("selftest-skipped %s: %s\n", x.ID, x.Detail)
		default:
			failed++
			fmt.Printf("selftest %s %s: %s %s\n", x.ID, x.Kind, x.Outcome, x.Detail)
		}
	}
	seedDetected, seedMissed := 0, 0
	for _, x := range seedResults {
		switch x.Outcome {
		case "detected":
			seedDetected++
		case "undetected-documented":
			seedMissed++
		case "skipped":
			skipped++
			fmt.Printf("seeded-skipped %s: %s\n", x.ID, x.Detail)
		default:
			failed++
			fmt.Printf("seeded %s: %s %s\n", x.ID, x.Outcome, x.Detail)
		}
	}
	benignSilent := 0
	for _, x := range benignResults {
		switch x.Outcome {
		case "silent":
			benignSilent++
		case "skipped":
			skipped++
			fmt.Printf("refactor-skipped %s: %s\n", x.ID, x.Detail)
		default:
			failed++
			fmt.Printf("refactor %s: %s %s\n", x.ID, x.Outcome, x.Detail)
		}
	}
	extra := map[string]any{"refactors": len(benign), "refactors_silent_for_all_properties": benignSilent, "refactor_results": benignResults}
	return withExtra(map[string]any{"variants": len(vs), "breaking_detected": detected, "benign_silent": silent,
		"skipped": skipped, "failed": failed, "results": results,
		"seeded_changes": len(seeded), "seeded_detected": seedDetected, "seeded_undetected_documented": seedMissed, "seeded_results": seedResults}, extra)
}

func withExtra(m, extra map[string]any) map[string]any {
	for k, v := range extra {
		m[k] = v
	}
	return m
}

// benignPatch is a behaviour-preserving refactor written by a sub-agent (kept under
// /verif/benign/<id>/): applied to a scratch copy it must leave ALL twenty checks silent.
type benignPatch struct {
	ID       string `json:"id"`
	Property string `json:"property"`
	Dir      string `json:"-"`
}

func loadBenign(prop string) []benignPatch {
	root := "/verif/benign"
	ents, err := os.ReadDir(root)
	if err != nil {
		return nil
	}
	var out []benignPatch
	for _, e := range ents {
		b, err := os.ReadFile(filepath.Join(root, e.Name(), "meta.json"))
		if err != nil {
			continue
		}
		var bp benignPatch
		if json.Unmarshal(b, &bp) != nil || bp.Property != prop {
			continue
		}
		bp.Dir = filepath.Join(root, e.Name())
		out = append(out, bp)
	}
	sort.Slice(out, func(i, j int) bool { return out[i].ID < out[j].ID })
	return out
}

func runBenign(bp benignPatch, repo, self, knownPath string) variantResult {
	res := variantResult{ID: bp.ID, Kind: "refactor"}
	tmp, err := os.MkdirTemp("", "fibercheck-ref-")
	if err != nil {
		res.Outcome, res.Detail = "error", err.Error()
		return res
	}
	defer os.RemoveAll(tmp)
	work := filepath.Join(tmp, "repo")
	if err := copyTree(repo, work); err != nil {
		res.Outcome, res.Detail = "error", err.Error()
		return res
	}
	ap := exec.Command("git", "apply", filepath.Join(bp.Dir, "patch.diff"))
	ap.Dir = work
	if out, err := ap.CombinedOutput(); err != nil {
		res.Outcome, res.Detail = "skipped", "patch no longer applies to the current tree: "+firstLine(string(out))
		return res
	}
	cmd := exec.Command(self, "-repo", work, "-out", filepath.Join(tmp, "ev"), "-known", knownPath, "-tier", "quick", "all")
	cmd.Env = append(os.Environ(), "VERIF_SELFTEST_CHILD=1")
	outb, err := cmd.CombinedOutput()
	out := string(outb)
	code := 0
	if ee, ok := err.(*exec.ExitError); ok {
		code = ee.ExitCode()
	}
	if strings.Contains(out, "load error:") {
		res.Outcome, res.Detail = "error", firstLine(out)
		return res
	}
	if code == 0 {
		res.Outcome = "silent"
	} else {
		res.Outcome, res.Detail = "FALSE-ALARM", firstViolation(out)
	}
	return res
}

// seededChange is an independently written change (sub-agent) kept under /verif/seeded/<id>/.
type seededChange struct {
	ID        string `json:"id"`
	Property  string `json:"property"`
	Expect    string `json:"expect"` // detected | undetected
	ExpectKey string `json:"expect_key,omitempty"`
	Needs     string `json:"needs,omitempty"`
	Breaks    string `json:"breaks,omitempty"`
	Limit     string `json:"limit,omitempty"`
	// CheckProperty names the property whose check reports the change when that is a sibling
	// of the property the change breaks (empty: the same property).
	CheckProperty string `json:"check_property,omitempty"`
	Dir           string `json:"-"`
	runAs         string
	Ran           []string `json:"ran,omitempty"`
}

func loadSeeded(prop string) []seededChange {
	root := "/verif/seeded"
	ents, err := os.ReadDir(root)
	if err != nil {
		return nil
	}
	var out []seededChange
	for _, e := range ents {
		b, err := os.ReadFile(filepath.Join(root, e.Name(), "meta.json"))
		if err != nil {
			continue
		}
		var sc seededChange
		if json.Unmarshal(b, &sc) != nil {
			continue
		}
		if sc.CheckProperty == "" {
			sc.CheckProperty = sc.Property
		}
		if sc.Property != prop && sc.CheckProperty != prop {
			continue
		}
		sc.Dir = filepath.Join(root, e.Name())
		if sc.CheckProperty != prop {
			// the change breaks this property but is reported by a sibling property's check
			sc.Limit = "not reported by " + prop + "'s rules; reported by the " + sc.CheckProperty + " check (" + sc.ExpectKey + ")"
			sc.Expect, sc.ExpectKey = "undetected", ""
		}
		sc.runAs = prop
		out = append(out, sc)
	}
	sort.Slice(out, func(i, j int) bool { return out[i].ID < out[j].ID })
	return out
}

func runSeeded(sc seededChange, repo, self, knownPath string) variantResult {
	res := variantResult{ID: sc.ID, Kind: "seeded"}
	tmp, err := os.MkdirTemp("", "fibercheck-seed-")
	if err != nil {
		res.Outcome, res.Detail = "error", err.Error()
		return res
	}
	defer os.RemoveAll(tmp)
	work := filepath.Join(tmp, "repo")
	if err := copyTree(repo, work); err != nil {
		res.Outcome, res.Detail = "error", err.Error()
		return res
	}
	ap := exec.Command("git", "apply", filepath.Join(sc.Dir, "patch.diff"))
	ap.Dir = work
	if out, err := ap.CombinedOutput(); err != nil {
		res.Outcome, res.Detail = "skipped", "patch no longer applies to the current tree: "+firstLine(string(out))
		return res
	}
	cmd := exec.Command(self, "-repo", work, "-out", filepath.Join(tmp, "ev"), "-known", knownPath, "-tier", "quick", sc.runAs)
	cmd.Env = append(os.Environ(), "VERIF_SELFTEST_CHILD=1")
	outb, err := cmd.CombinedOutput()
	out := string(outb)
	code := 0
	if ee, ok := err.(*exec.ExitError); ok {
		code = ee.ExitCode()
	}
	if strings.Contains(out, "load error:") {
		res.Outcome, res.Detail = "error", firstLine(out)
		return res
	}
	named := false
	for _, ln := range strings.Split(out, "\n") {
		if strings.Contains(ln, "["+sc.runAs+" ") && (sc.ExpectKey == "" || strings.Contains(ln, sc.ExpectKey)) {
			named = true
		}
	}
	switch sc.Expect {
	case "detected":
		if code == 1 && named {
			res.Outcome = "detected"
		} else {
			res.Outcome, res.Detail = "MISSED", fmt.Sprintf("exit=%d named=%v", code, named)
		}
	default:
		if code == 0 {
			res.Outcome, res.Detail = "undetected-documented", sc.Limit
		} else {
			res.Outcome, res.Detail = "UNEXPECTED-ALARM", firstViolation(out)
		}
	}
	return res
}
