package main

import (
	"fmt"
	"go/token"
	"go/types"
	"strings"

	"golang.org/x/tools/go/ssa"
)

func init() {
	register(&propDef{
		ID: "C16",
		Explain: "Decided clauses: R1 on an unsafe method the final c.Next() is unreachable once any one of the gates is removed (origin/referer check passed, extractor succeeded, token non-empty, " +
			"cookie comparison or cookie extractor, token found in the store), and a single-use token is deleted before Next; R2 a failing session backend yields `nil` (reject) and the storage manager returns only what the backend returned; " +
			"R3 the operands matched against trusted origins are origin-shaped (lower-cased Origin header, scheme+\"://\"+host, normalizeOrigin) — never a full URL; " +
			"R4 on safe methods every path to Next creates/extends the token and updates the cookie, with a token that is storage-confirmed or freshly generated; R5 origin and referer checks agree on their actions; R6 a session fetched from the session store and changed (token set or deleted) is saved on every path to return. " +
			"Not decided: token lifetime over request histories, url.Parse semantics, session backend behaviour, the wildcard split arithmetic.",
		Assume: []string{"the switch on c.Method() is lowered to an == chain by go/ssa", "ErrorHandler results are returned (not ignored)"},
		Run:    runC16,
	})
}

const csrfPkg = "middleware/csrf"

func csrfHandler(r *Run) *ssa.Function {
	f := r.Fn(csrfPkg, "New")
	hs := handlerClosures(f)
	r.need(len(hs) == 1, "csrf.New returns one handler closure")
	return hs[0]
}

func runC16(r *Run) {
	g := r.P.Graph()
	isNextCall := func(in ssa.Instruction) bool {
		return isCallTo(in, func(s string) bool { return s == "("+fiberMod+".Ctx).Next" })
	}

	// shared: final Next, safe-method edges
	setup := func() (h *ssa.Function, final ssa.Instruction, safeCut map[edge]bool, methodBrs []branch) {
		h = csrfHandler(r)
		upd := callsMatching(h, false, nameHasSuffix("csrf.updateCSRFCookie"))
		r.need(len(upd) == 1, "handler calls updateCSRFCookie once")
		for _, in := range instrsWhere(h, isNextCall) {
			if dom(upd[0].Block(), in.Block()) {
				final = in
			}
		}
		r.need(final != nil, "a c.Next() dominated by updateCSRFCookie (the protected continuation)")
		safeCut = map[edge]bool{}
		safe := map[string]bool{"GET": true, "HEAD": true, "OPTIONS": true, "TRACE": true}
		for _, br := range branchesIn(h) {
			s, ok := constString(br.Info.Const)
			if !ok || br.Info.Op != token.EQL {
				continue
			}
			if c, ok := stripValue(br.Info.Root).(*ssa.Call); ok && strings.HasSuffix(calleeName(&c.Call), ".Ctx).Method") {
				methodBrs = append(methodBrs, br)
				if safe[s] {
					safeCut[edge{br.If.Block(), br.slotWhenRel(true)}] = true
				} else {
					r.bad("method-switch:unexpected-safe-case:"+s, r.pos(br.If), "method "+s+" is compared in the method switch; only GET/HEAD/OPTIONS/TRACE may bypass the token check")
				}
			}
		}
		r.need(len(safeCut) == 4, "the method switch has exactly the four safe cases")
		return
	}

	r.rule("R1", "unsafe methods: final c.Next() unreachable with the safe edges and any one gate removed (E1)", func() {
		h, final, safeCut, _ := setup()
		isFinal := func(in ssa.Instruction) bool { return in == final }
		gate := func(name string, edges []edge, why string) {
			cut := map[edge]bool{}
			for e := range safeCut {
				cut[e] = true
			}
			for _, e := range edges {
				cut[e] = true
			}
			path, hit := reach(entryOf(h), isFinal, cut, nil)
			r.check(len(edges) > 0 && hit == nil, "unsafe-gate:"+name, r.pos(final), "protected handler unreachable for unsafe methods with the `"+name+"` success edge removed",
				why+" — path: "+pathString(r.P, path))
		}
		// origin / referer
		var edges []edge
		isCheck := func(n string) bool {
			return strings.HasSuffix(n, "csrf.originMatchesHost") || strings.HasSuffix(n, "csrf.refererMatchesHost")
		}
		for _, br := range branchesIn(h) {
			root := stripValue(br.Info.Root)
			_, isPhi := root.(*ssa.Phi)
			_, isCall := root.(*ssa.Call)
			if !isPhi && !isCall {
				continue
			}
			// the error under test comes from the origin / referer check, directly or handed on by a helper
			fromCheck := originatesFromCall(root, isCheck, 0)
			if fromCheck {
				if s, ok := br.nilSlot(true); ok {
					edges = append(edges, edge{br.If.Block(), s})
				}
			}
		}
		gate("origin-or-referer-ok", edges, "an unsafe request reaches the handler although the origin/referer check returned an error")
		// extractor
		ex := callsMatching(h, false, nameIs("field:csrf.Config.Extractor"))
		r.need(len(ex) == 1, "handler calls cfg.Extractor once")
		var errEdges, tokEdges []edge
		var tokenVal ssa.Value
		for _, ref := range *ex[0].Value().Referrers() {
			if e, ok := ref.(*ssa.Extract); ok && e.Index == 0 {
				tokenVal = e
			}
		}
		r.need(tokenVal != nil, "extractor token result is used")
		for _, br := range branchesIn(h) {
			root := stripValue(br.Info.Root)
			if e, ok := root.(*ssa.Extract); ok && e.Tuple == ex[0].Value() {
				if e.Index == 1 {
					if s, ok := br.nilSlot(true); ok {
						errEdges = append(errEdges, edge{br.If.Block(), s})
					}
				}
				if e.Index == 0 {
					if str, ok := constString(br.Info.Const); ok && str == "" {
						if s, ok := br.slotFor(token.NEQ); ok {
							tokEdges = append(tokEdges, edge{br.If.Block(), s})
						}
					}
				}
			}
			// len(token) == 0 / != 0 / > 0 forms
			if lc, ok := root.(*ssa.Call); ok && calleeName(&lc.Call) == "builtin:len" && lc.Call.Args[0] == tokenVal {
				if k, ok := constInt(br.Info.Const); ok && k == 0 {
					switch br.Info.Op {
					case token.EQL:
						tokEdges = append(tokEdges, edge{br.If.Block(), br.slotWhenRel(false)})
					case token.NEQ, token.GTR:
						tokEdges = append(tokEdges, edge{br.If.Block(), br.slotWhenRel(true)})
					}
				}
			}
		}
		gate("extractor-no-error", errEdges, "an extractor error does not reject the request")
		gate("token-non-empty", tokEdges, "an empty token passes")
		// cookie comparison or cookie extractor
		edges = nil
		for _, c := range callsMatching(h, false, nameHasSuffix("csrf.isFromCookie", "csrf.compareStrings")) {
			for _, br := range ifsOnValue(h, c.Value()) {
				if s, ok := br.truthSlot(true); ok {
					edges = append(edges, edge{br.If.Block(), s})
				}
			}
		}
		gate("cookie-matches-or-cookie-extractor", edges, "the double-submit comparison with the CSRF cookie can be skipped")
		// storage
		edges = nil
		for _, c := range callsMatching(h, false, nameHasSuffix("csrf.getRawFromStorage")) {
			if c.Common.Args[1] != tokenVal {
				continue
			}
			for _, br := range ifsOnValue(h, c.Value()) {
				if s, ok := br.nilSlot(false); ok {
					edges = append(edges, edge{br.If.Block(), s})
				}
			}
		}
		gate("token-in-store", edges, "a token the server never issued (or that expired / was consumed) passes")
		// single use
		okSU := false
		for _, br := range branchesIn(h) {
			if loadOfField(br.Info.Root, "csrf.Config.SingleUseToken") {
				if s, ok := br.truthSlot(true); ok {
					_, hit := reachEdge(edge{br.If.Block(), s}, isFinal, nil, func(in ssa.Instruction) bool {
						return isCallTo(in, nameHasSuffix("csrf.deleteTokenFromStorage"))
					})
					okSU = hit == nil
				}
			}
		}
		r.check(okSU, "unsafe-gate:single-use-consumed", r.pos(final), "with SingleUseToken the token is deleted from the store before the handler runs", "a single-use token is not consumed before the handler runs (replayable)")
		// every ErrorHandler result is returned
		for i, c := range callsMatching(h, false, nameIs("field:csrf.Config.ErrorHandler")) {
			r.check(returnedDirectly(h, c.Value(), 0), fmt.Sprintf("unsafe-gate:error-handler-returns#%d", i), r.pos(c.Instr), "the rejection is returned", "the result of the error handler is not returned: the request continues after a rejection")
		}
	})

	r.rule("R2", "a failing token store rejects (E1/E3)", func() {
		f := r.Fn(csrfPkg, "(*sessionManager).getRaw")
		n := 0
		for _, c := range callsMatching(f, false, nameHasSuffix("session.Store).Get")) {
			for _, br := range branchesIn(f) {
				if e, ok := stripValue(br.Info.Root).(*ssa.Extract); ok && e.Tuple == c.Value() && e.Index == 1 {
					if s, ok := br.nilSlot(false); ok {
						n++
						_, hit := reachEdge(edge{br.If.Block(), s}, func(in ssa.Instruction) bool {
							ret, ok := in.(*ssa.Return)
							return ok && !constIsNil(asConst(retOperand(ret, 0)))
						}, nil, nil)
						r.check(hit == nil, "sessionManager.getRaw:store-error→nil", r.pos(br.If), "a session store error returns nil (token unknown ⇒ reject)", "a session store error can yield a non-nil token value")
					}
				}
			}
		}
		r.atLeast("session store error branches", n, 1)
		// a stored token is returned only if it is unexpired, its key equals the presented key and the raw values match
		retRaw := func(in ssa.Instruction) bool {
			ret, ok := in.(*ssa.Return)
			return ok && !constIsNil(asConst(retOperand(ret, 0)))
		}
		// the three gates as gate items: a branch edge, or the value a boolean helper hands back (`tokenUsable` answering
		// compareTokens(…) in its last arm)
		isKeyParam := func(v ssa.Value) bool {
			p, ok := stripValue(v).(*ssa.Parameter)
			return ok && p.Name() == "key" || valueIsParamNamed(v, "key")
		}
		isTokKey := func(v ssa.Value) bool { fv := fieldOfValue(stripValue(v)); return fv != nil && fv.Name() == "Key" }
		holds := map[string]func(ci condInfo) (bool, bool){
			"key-equal": func(ci condInfo) (bool, bool) {
				if ci.Other == nil || (ci.Op != token.NEQ && ci.Op != token.EQL) {
					return false, false
				}
				if (isKeyParam(ci.Root) && isTokKey(ci.Other)) || (isKeyParam(ci.Other) && isTokKey(ci.Root)) {
					return ci.Op == token.EQL, true
				}
				return false, false
			},
			"raw-equal": func(ci condInfo) (bool, bool) {
				if ci.Op != token.ILLEGAL {
					return false, false
				}
				if c, _ := producerCall(ci.Root); c != nil && strings.HasSuffix(calleeName(&c.Call), "csrf.compareTokens") {
					return true, true
				}
				return false, false
			},
			"not-expired": func(ci condInfo) (bool, bool) {
				if ci.Op != token.ILLEGAL {
					return false, false
				}
				if c, _ := producerCall(ci.Root); c != nil && calleeName(&c.Call) == "(time.Time).Before" {
					return false, true
				}
				return false, false
			},
		}
		for _, gname := range []string{"key-equal", "raw-equal", "not-expired"} {
			items := gateItemsIn(f, holds[gname])
			cut := cutsFor(f, items)
			_, hit := reach(entryOf(f), retRaw, cut, nil)
			r.check(len(items) > 0 && hit == nil, "sessionManager.getRaw:"+gname, r.fpos(f), "a token is confirmed only past the `"+gname+"` edge",
				"with the session backend a token can be confirmed without the `"+gname+"` condition holding: a forged, replayed or foreign token passes while the session holds any live token")
		}
		sm := r.Fn(csrfPkg, "(*storageManager).getRaw")
		okRet := true
		for _, in := range instrsWhere(sm, isReturn) {
			v := retOperand(in.(*ssa.Return), 0)
			leafOK := true
			var walk func(v ssa.Value, d int)
			walk = func(v ssa.Value, d int) {
				if d > 5 {
					leafOK = false
					return
				}
				switch x := v.(type) {
				case *ssa.Phi:
					for _, e := range x.Edges {
						walk(e, d+1)
					}
				case *ssa.Extract:
					if x.Index != 0 {
						leafOK = false
					}
				case *ssa.Const:
					if !constIsNil(x) {
						leafOK = false
					}
				default:
					leafOK = false
				}
			}
			walk(v, 0)
			okRet = okRet && leafOK
		}
		r.check(okRet, "storageManager.getRaw:returns-backend-value", r.fpos(sm), "returns exactly what the backend returned (nil when absent)", "storageManager.getRaw can return a value the backend did not return")
	})

	r.rule("R12", "a token lives as long as the configuration says: the lifetime storageManager.setRaw hands to Storage.Set / memory.Set is the lifetime it was given, unchanged — rounded or truncated to whole seconds a timeout below half a second becomes 0, which every storage reads as `never expires`, and the token is accepted indefinitely (E3: the argument flows through unchanged)", func() {
		f := r.Fn(csrfPkg, "(*storageManager).setRaw")
		var exp *ssa.Parameter
		for _, p := range f.Params {
			if strings.HasSuffix(p.Type().String(), "time.Duration") {
				exp = p
			}
		}
		r.need(exp != nil, "setRaw(key, raw, exp time.Duration)")
		n := 0
		for _, c := range callsIn(f, false) {
			if !strings.HasSuffix(c.Name, ".Set") {
				continue
			}
			args := c.Common.Args
			if len(args) == 0 || !strings.HasSuffix(args[len(args)-1].Type().String(), "time.Duration") {
				continue
			}
			n++
			r.check(flowsUnchanged(args[len(args)-1], exp), fmt.Sprintf("setRaw:Set#%d:lifetime-as-given", n), r.pos(c.Instr), "the lifetime is handed on as given",
				"the lifetime handed to the storage is not the one setRaw was given (it was rounded, truncated or replaced): an IdleTimeout of 400ms becomes 0 = `never expires`, an issued token is then accepted on unsafe requests for ever while its cookie shows the short lifetime")
		}
		r.atLeast("Set calls in storageManager.setRaw", n, 2)
	})

	r.rule("R3", "operands matched against trusted origins are origin-shaped (E3 backwards)", func() {
		var originShaped func(v ssa.Value) (bool, string)
		originShaped = func(v ssa.Value) (bool, string) {
			v = stripValue(v)
			if pa, ok := v.(*ssa.Parameter); ok {
				// the comparison lives in a helper of the package that is handed the value: judged at every call
				g := pa.Parent()
				if g != nil && g.Object() != nil && !g.Object().Exported() {
					idx := -1
					for i, q := range g.Params {
						if q == pa {
							idx = i
						}
					}
					calls := staticCallersOf(g)
					if idx >= 0 && len(calls) > 0 {
						why := ""
						for _, c := range calls {
							if idx >= len(c.Call.Args) {
								return false, "handed to " + g.Name() + " in a way the rule does not read"
							}
							ok, w := originShaped(c.Call.Args[idx])
							if !ok {
								return false, w + " (handed to " + g.Name() + " at " + r.pos(c) + ")"
							}
							why = w
						}
						return true, why + " (through " + g.Name() + ")"
					}
				}
			}
			if c, ok := v.(*ssa.Call); ok {
				n := calleeName(&c.Call)
				// a helper of the package that builds the origin (`originOfURL(u)`): judged by what it returns
				if g := c.Call.StaticCallee(); g != nil && g.Pkg != nil && g.Pkg == c.Parent().Pkg && len(g.Blocks) > 0 && !strings.HasSuffix(n, "csrf.normalizeOrigin") {
					rets := instrsWhereOne(g, isReturn)
					all := len(rets) > 0
					why := ""
					for _, ri := range rets {
						ok, w := originShaped(retOperand(ri.(*ssa.Return), 0))
						if !ok {
							all, why = false, w
						} else if why == "" {
							why = w
						}
					}
					if all {
						return true, why + " (built by " + g.Name() + ")"
					}
					return false, why
				}
				if n == "strings.ToLower" {
					if inner, ok := c.Call.Args[0].(*ssa.Call); ok && strings.HasSuffix(calleeName(&inner.Call), ".Ctx).Get") {
						if h, ok := constString(asConst(inner.Call.Args[0])); ok && h == "Origin" {
							return true, "lower-cased Origin header"
						}
						return false, "lower-cased request header that is not Origin (a full URL)"
					}
				}
				if strings.HasSuffix(n, "net/url.URL).String") {
					return false, "URL.String() — scheme, host AND path/query of the referring page"
				}
			}
			if e, ok := v.(*ssa.Extract); ok {
				if c, ok := e.Tuple.(*ssa.Call); ok && strings.HasSuffix(calleeName(&c.Call), "csrf.normalizeOrigin") && e.Index == 1 {
					return true, "normalizeOrigin result"
				}
			}
			if bo, ok := v.(*ssa.BinOp); ok && bo.Op == token.ADD {
				hasHost, clean := false, true
				var leaves func(x ssa.Value)
				leaves = func(x ssa.Value) {
					if b, ok := x.(*ssa.BinOp); ok && b.Op == token.ADD {
						leaves(b.X)
						leaves(b.Y)
						return
					}
					switch {
					case loadOfField(x, "url.URL.Host"):
						hasHost = true
					case loadOfField(x, "url.URL.Scheme"):
					case asConst(x) != nil:
						if s, _ := constString(asConst(x)); s != "://" {
							clean = false
						}
					default:
						clean = false
					}
				}
				leaves(bo)
				if hasHost && clean {
					return true, "scheme + \"://\" + host of the parsed URL"
				}
			}
			return false, "not derived from the Origin header, a parsed URL's scheme/host or normalizeOrigin"
		}
		n := 0
		for _, fn := range []string{"originMatchesHost", "refererMatchesHost"} {
			f := r.Fn(csrfPkg, fn)
			for _, c := range callsMatching(f, false, nameHasSuffix("csrf.subdomain).match")) {
				n++
				ok, why := originShaped(c.Common.Args[1])
				r.check(ok, fn+":subdomain.match-operand", r.pos(c.Instr), "operand is "+why,
					"the value matched against wildcard trusted origins is "+why+": with trusted https://*.example.com a Referer https://evil.com/x.example.com has the prefix https:// and the suffix .example.com and is accepted")
			}
			for _, b := range f.Blocks {
				for _, in := range b.Instrs {
					bo, ok := in.(*ssa.BinOp)
					if !ok || bo.Op != token.EQL {
						continue
					}
					isElem := func(v ssa.Value) bool {
						u, ok := v.(*ssa.UnOp)
						if !ok {
							return false
						}
						ia, ok := u.X.(*ssa.IndexAddr)
						if !ok {
							return false
						}
						p, ok := ia.X.(*ssa.Parameter)
						return ok && p.Name() == "trustedOrigins"
					}
					var other ssa.Value
					switch {
					case isElem(bo.X):
						other = bo.Y
					case isElem(bo.Y):
						other = bo.X
					default:
						continue
					}
					n++
					ok2, why := originShaped(other)
					r.check(ok2, fn+":trustedOrigins-compare-operand", r.pos(in), "operand is "+why, "the value compared with the exact trusted origins is "+why)
				}
			}
			// the same membership test written with slices.Contains / slices.Index
			for _, c := range callsIn(f, false) {
				if !strings.HasPrefix(c.Name, "slices.Contains") && !strings.HasPrefix(c.Name, "slices.Index") {
					continue
				}
				if p, ok := stripValue(c.Common.Args[0]).(*ssa.Parameter); !ok || p.Name() != "trustedOrigins" {
					continue
				}
				n++
				ok2, why := originShaped(c.Common.Args[1])
				r.check(ok2, fn+":trustedOrigins-compare-operand", r.pos(c.Instr), "operand is "+why, "the value compared with the exact trusted origins is "+why)
			}
		}
		r.atLeast("trusted-origin match sites", n, 4)
	})

	r.rule("R4", "safe methods leave a valid token: every path to Next creates/extends the token and updates the cookie; the token is storage-confirmed or fresh (E1/E3)", func() {
		h, final, _, methodBrs := setup()
		isFinal := func(in ssa.Instruction) bool { return in == final }
		create := callsMatching(h, false, nameHasSuffix("csrf.createOrExtendTokenInStorage"))
		upd := callsMatching(h, false, nameHasSuffix("csrf.updateCSRFCookie"))
		r.need(len(create) == 1 && len(upd) == 1, "one createOrExtendTokenInStorage and one updateCSRFCookie")
		for _, br := range methodBrs {
			start := pointOfEdge(edge{br.If.Block(), br.slotWhenRel(true)})
			m, _ := constString(br.Info.Const)
			_, hit := reach(start, isFinal, nil, func(in ssa.Instruction) bool { return in == create[0].Instr })
			_, hit2 := reach(start, isFinal, nil, func(in ssa.Instruction) bool { return in == upd[0].Instr })
			r.check(hit == nil && hit2 == nil, "safe:"+m+":token-issued-before-Next", r.pos(br.If), "every path from the "+m+" case to Next stores the token and sets the cookie", "a safe request can reach the handler without a valid token cookie being issued")
		}
		// same token value goes to storage and cookie
		r.check(create[0].Common.Args[1] == upd[0].Common.Args[2], "safe:same-token-to-store-and-cookie", r.pos(upd[0].Instr), "the cookie carries the token that was stored", "the cookie token differs from the stored token")
		// provenance of the token
		tok := create[0].Common.Args[1]
		okProv := true
		why := ""
		var leaves func(v ssa.Value, origin *ssa.BasicBlock, d int)
		seen := map[ssa.Value]bool{}
		leaves = func(v ssa.Value, origin *ssa.BasicBlock, d int) {
			if d > 8 {
				okProv, why = false, "phi nesting too deep"
				return
			}
			if p, ok := v.(*ssa.Phi); ok {
				if seen[p] {
					return
				}
				seen[p] = true
				for i, e := range p.Edges {
					leaves(e, p.Block().Preds[i], d+1)
				}
				return
			}
			if c := asConst(v); c != nil {
				if s, ok := constString(c); ok && s == "" {
					return // filtered by the `token == ""` test, see below
				}
			}
			if c, _ := producerCall(v); c != nil && calleeName(&c.Call) == "field:csrf.Config.KeyGenerator" {
				return
			}
			// must be the token argument of a getRawFromStorage call whose non-nil edge dominates origin
			for _, c := range callsMatching(h, false, nameHasSuffix("csrf.getRawFromStorage")) {
				if c.Common.Args[1] != v {
					continue
				}
				for _, br := range ifsOnValue(h, c.Value()) {
					if s, ok := br.nilSlot(false); ok && origin != nil && dom(br.If.Block().Succs[s], origin) {
						return
					}
				}
			}
			okProv, why = false, "token value "+v.Name()+" ("+r.P.Pos(v.Pos())+") is neither generated nor confirmed by the store on that path"
		}
		leaves(tok, nil, 0)
		// the empty token is replaced by a generated one
		kg := callsMatching(h, false, nameIs("field:csrf.Config.KeyGenerator"))
		emptyOK := false
		for _, br := range branchesIn(h) {
			if s, ok := constString(br.Info.Const); ok && s == "" && len(kg) == 1 {
				if _, isPhi := stripValue(br.Info.Root).(*ssa.Phi); isPhi {
					if sl, ok := br.slotFor(token.EQL); ok && dom(br.If.Block().Succs[sl], kg[0].Block()) {
						emptyOK = true
					}
				}
			}
		}
		r.check(okProv && emptyOK, "safe:token-provenance", r.pos(create[0].Instr), "the issued token is a KeyGenerator result or a client token the store confirmed; an empty token is replaced by a generated one", "an unconfirmed client-supplied token can be (re-)issued: "+why)
	})

	r.rule("R5", "sibling agreement originMatchesHost / refererMatchesHost (E5)", func() {
		alphabet := []string{"call:Parse", "call:Scheme", "call:Host", "call:match", "call:ToLower", "call:Get", "call:String", "read:url.URL.Scheme", "read:url.URL.Host"}
		a := restrict(g.actionSet(r.Fn(csrfPkg, "originMatchesHost"), nil), alphabet)
		b := restrict(g.actionSet(r.Fn(csrfPkg, "refererMatchesHost"), nil), alphabet)
		onlyA, onlyB := actionDiff(a, b)
		for _, x := range onlyA {
			r.bad("refererMatchesHost:missing:"+x, r.fpos(r.Fn(csrfPkg, "refererMatchesHost")), "originMatchesHost performs "+x+", refererMatchesHost does not")
		}
		for _, x := range onlyB {
			r.bad("originMatchesHost:missing:"+x, r.pos(b[x]), "refererMatchesHost performs "+x+", originMatchesHost does not: the referer is not reduced to an origin the same way the Origin header is")
		}
		if len(onlyA)+len(onlyB) == 0 {
			r.ok("originMatchesHost≡refererMatchesHost", r.fpos(r.Fn(csrfPkg, "originMatchesHost")), "equal action sets: "+actionList(a))
		}
	})

	r.rule("R6", "a session fetched from the store and changed is saved before the function returns (E1 pairing): otherwise issuing, consuming or deleting a token is not persisted", func() {
		n := 0
		r.P.AllFuncs(csrfPkg, func(f *ssa.Function) {
			for _, c := range callsIn(f, false) {
				if !strings.HasSuffix(c.Name, "session.Session).Set") && !strings.HasSuffix(c.Name, "session.Session).Delete") {
					continue
				}
				recv := c.Common.Args[0]
				fromStore := dependsOn(recv, func(v ssa.Value) bool {
					cc, ok := v.(*ssa.Call)
					return ok && strings.HasSuffix(calleeName(&cc.Call), "session.Store).Get")
				}) != nil
				if !fromStore {
					continue // a session owned by the session middleware is saved by that middleware
				}
				n++
				isSave := func(in ssa.Instruction) bool {
					ci, ok := in.(ssa.CallInstruction)
					if !ok {
						return false
					}
					if strings.HasSuffix(calleeName(ci.Common()), "session.Session).Save") && stripValue(ci.Common().Args[0]) == stripValue(recv) {
						return true
					}
					// a helper of the package that is handed the session and saves it on every path
					g := ci.Common().StaticCallee()
					if g == nil || g.Pkg != f.Pkg || len(g.Blocks) == 0 {
						return false
					}
					for i, a := range ci.Common().Args {
						if stripValue(a) != stripValue(recv) || i >= len(g.Params) {
							continue
						}
						p := g.Params[i]
						_, miss := reach(entryOf(g), isReturn, nil, func(gi ssa.Instruction) bool {
							gc, ok := gi.(ssa.CallInstruction)
							return ok && strings.HasSuffix(calleeName(gc.Common()), "session.Session).Save") && stripValue(gc.Common().Args[0]) == ssa.Value(p)
						})
						if miss == nil {
							return true
						}
					}
					return false
				}
				_, hit := reach(pointAfter(c.Instr), isReturn, nil, isSave)
				r.check(hit == nil, fmt.Sprintf("%s:%s-then-Save", short(f.String()), short(c.Name)), r.pos(c.Instr), "every path from the change to return saves that session",
					"a session taken from the store is changed and not saved on some path: the token that was issued / consumed / deleted stays as it was in the store — a deleted or used token is accepted again")
			}
		})
		r.atLeast("store-session mutations", n, 2)
	})

	r.rule("R13", "a token's lifetime ends: the storage manager's default backend (internal/memory) keeps expiry 0 for entries that never expire; in its Set the branch that leaves the expiry at 0 is taken on the lifetime argument itself being zero or not positive — not on its truncation to whole seconds, which is also 0 for every IdleTimeout below one second (configDefault accepts any positive duration) and would keep such a token valid for ever (E1: the value the guard compares; shared with C15-R11)", func() {
		neverExpiresOnlyForNoLifetimeRule(r, []string{"internal/memory"}, 1, "a csrf token issued with a sub-second IdleTimeout never expires in the bundled memory store: an unsafe request carrying a token that should be dead reaches the handler")
	})

	r.rule("R7", "function-valued Config fields the middleware calls are never nil (E1): set by configDefault on every path, also when no config is passed", func() {
		configFuncFieldsRule(r, csrfPkg, "csrf")
	})

	r.rule("R8", "trusted wildcard origins keep the label boundary: the wildcard's position is applied to the string it was found in (E5, shared with C19-R5)", func() {
		wildcardOffsetsOnTheirString(r, r.Fn(csrfPkg, "New"), "New:wildcard-position-on-the-same-string")
	})

	r.rule("R11", "a configured token lifetime is kept: in configDefault the default IdleTimeout replaces the configured one only behind a test for `not positive` (a comparison of the field with 0) — a threshold above zero replaces a legitimate short lifetime by the 30-minute default, and a token presented well after its configured lifetime is still accepted (E8)", func() {
		f := r.Fn(csrfPkg, "configDefault")
		n := 0
		for _, fr := range fieldRefs(f) {
			if !fr.Write || fr.Name != "csrf.Config.IdleTimeout" {
				continue
			}
			n++
			ok := false
			for _, br := range branchesIn(f) {
				if !loadOfField(br.Info.Root, "csrf.Config.IdleTimeout") {
					continue
				}
				k, isK := constInt(br.Info.Const)
				if !isK {
					continue
				}
				var slot int
				var okSlot bool
				switch br.Info.Op {
				case token.LEQ, token.EQL:
					slot, okSlot = br.slotWhenRel(true), k <= 0
				case token.LSS:
					slot, okSlot = br.slotWhenRel(true), k <= 1
				case token.GTR:
					slot, okSlot = br.slotWhenRel(false), k <= 0
				case token.GEQ:
					slot, okSlot = br.slotWhenRel(false), k <= 1
				}
				if okSlot && dom(br.If.Block().Succs[slot], fr.Instr.Block()) {
					ok = true
				}
			}
			r.check(ok, fmt.Sprintf("configDefault:IdleTimeout-default#%d:only-when-not-positive", n), r.pos(fr.Instr), "the default is stored only behind `IdleTimeout <= 0`",
				"the default IdleTimeout replaces a positive configured value (the guard compares with something above zero): Config{IdleTimeout: 400ms} silently becomes 30 minutes — a token is accepted long after the lifetime the operator set")
		}
		r.atLeast("IdleTimeout defaults in csrf configDefault", n, 1)
	})

	r.rule("R10", "an origin is accepted only by comparison: originMatchesHost / refererMatchesHost answer nil only behind a string equality (also slices.Contains), a wildcard match, or a same-package predicate that itself answers true only behind those (E1)", func() {
		var acceptEdges func(f *ssa.Function, depth int) map[edge]bool
		isStr := func(v ssa.Value) bool {
			b, ok := v.Type().Underlying().(*types.Basic)
			return ok && b.Info()&types.IsString != 0
		}
		var isAcceptCall func(c *ssa.Call, depth int) bool
		isAcceptCall = func(c *ssa.Call, depth int) bool {
			n := calleeName(&c.Call)
			if strings.HasSuffix(n, "csrf.subdomain).match") || strings.HasPrefix(n, "slices.Contains") || n == "strings.EqualFold" {
				return true
			}
			g := c.Call.StaticCallee()
			if g == nil || depth > 2 || len(g.Blocks) == 0 || g.Pkg == nil || c.Parent().Pkg != g.Pkg || g.Signature.Results().Len() != 1 {
				return false
			}
			if b, ok := g.Signature.Results().At(0).Type().Underlying().(*types.Basic); !ok || b.Kind() != types.Bool {
				return false
			}
			return trueOnlyBehind(g, acceptEdges(g, depth+1), func(v ssa.Value) bool {
				if bo, ok := v.(*ssa.BinOp); ok && bo.Op == token.EQL && isStr(bo.X) {
					return true
				}
				cc, ok := v.(*ssa.Call)
				return ok && isAcceptCall(cc, depth+1)
			})
		}
		acceptEdges = func(f *ssa.Function, depth int) map[edge]bool {
			cut := map[edge]bool{}
			for _, br := range branchesInOne(f) {
				if br.Info.Op == token.EQL || br.Info.Op == token.NEQ {
					if isStr(br.Info.Root) && !constIsNil(br.Info.Const) {
						if sl, ok := br.slotFor(token.EQL); ok {
							cut[edge{br.If.Block(), sl}] = true
						}
					}
				}
			}
			for _, b := range f.Blocks {
				for _, in := range b.Instrs {
					if c, ok := in.(*ssa.Call); ok && isAcceptCall(c, depth) {
						for _, e := range trueEdgesOf(f, c) {
							cut[e] = true
						}
					}
				}
			}
			return cut
		}
		for _, fn := range []string{"originMatchesHost", "refererMatchesHost"} {
			f := r.Fn(csrfPkg, fn)
			withoutHelpers(func() {
				cut := acceptEdges(f, 0)
				isNilRet := func(in ssa.Instruction) bool {
					ret, ok := in.(*ssa.Return)
					if !ok || ret.Parent() != f || len(ret.Results) != 1 {
						return false
					}
					v := stripValue(ret.Results[0])
					if u, ok := v.(*ssa.UnOp); ok && u.Op == token.MUL {
						if _, isGlobal := u.X.(*ssa.Global); isGlobal {
							return false // a package-level Err… value
						}
					}
					c := asConst(v)
					return c == nil || constIsNil(c) // anything else may be nil
				}
				path, hit := reach(entryOf(f), isNilRet, cut, nil)
				r.check(hit == nil, fn+":accepts-only-by-comparison", r.fpos(f), fmt.Sprintf("with the %d comparison edges removed no accepting return is reachable", len(cut)),
					"the check can accept without an exact comparison of scheme and host (or a trusted-origin match): a look-alike such as https://example.com.attacker.net passes a prefix test against https://example.com: "+pathString(r.P, path))
			})
		}
	})

	r.rule("R9", "consuming or deleting a token fails closed: an error of the token store on the delete path is handed up, and the handler does not run when a single-use token could not be consumed (E1, error discipline)", func() {
		isFallible := func(c callSite) bool {
			if c.Common.IsInvoke() && c.Common.Method.Name() == "Delete" && strings.HasSuffix(c.Common.Value.Type().String(), "fiber/v3.Storage") {
				return true
			}
			return strings.HasSuffix(c.Name, "session.Session).Save") || strings.HasSuffix(c.Name, "session.Store).Get")
		}
		errOf := func(c callSite) ssa.Value {
			v := c.Value()
			if v == nil {
				return nil
			}
			if tup, ok := v.Type().(*types.Tuple); ok {
				for _, ref := range *v.Referrers() {
					if ex, ok := ref.(*ssa.Extract); ok && ex.Index == tup.Len()-1 {
						return ex
					}
				}
				return nil
			}
			return v
		}
		n := 0
		for _, fn := range []string{"(*storageManager).delRaw", "(*sessionManager).delRaw", "deleteTokenFromStorage"} {
			f := r.Fn(csrfPkg, fn)
			res := f.Signature.Results()
			hasErr := res.Len() > 0 && res.At(res.Len()-1).Type().String() == "error"
			r.check(hasErr, fn+":reports-failure", r.fpos(f), "returns an error", fn+" has no error result: a failure of the token store while deleting cannot reach the handler, so a single-use token that could not be consumed is accepted and stays valid")
			if !hasErr {
				continue
			}
			for _, c := range callsIn(f, false) {
				if !isFallible(c) && !(strings.HasSuffix(c.Name, "Manager).delRaw")) {
					continue
				}
				ev := errOf(c)
				if ev == nil {
					r.bad(fmt.Sprintf("%s:%s:error-handed-up", fn, short(c.Name)), r.pos(c.Instr), "the error of "+short(c.Name)+" is discarded")
					continue
				}
				n++
				handed := false
				for _, ri := range instrsWhereOne(f, isReturn) {
					ret := ri.(*ssa.Return)
					if dependsOn(retOperand(ret, len(ret.Results)-1), func(v ssa.Value) bool { return v == ev }) != nil {
						handed = true
					}
				}
				r.check(handed, fmt.Sprintf("%s:%s:error-handed-up", fn, short(c.Name)), r.pos(c.Instr), "its error reaches a return of "+fn, "the error of "+short(c.Name)+" is dropped in "+fn)
				// … on every path: once the call has failed, the function cannot report success any more
				swallowed := ""
				for _, br := range ifsOnValue(f, ev) {
					sl, ok := br.nilSlot(false)
					if !ok {
						continue
					}
					isNilRet := func(in ssa.Instruction) bool {
						ret, ok := in.(*ssa.Return)
						return ok && ret.Parent() == f && len(ret.Results) > 0 && constIsNil(asConst(stripValue(ret.Results[len(ret.Results)-1])))
					}
					if path, hit := reachEdge(edge{br.If.Block(), sl}, isNilRet, nil, nil); hit != nil {
						swallowed = pathString(r.P, path)
					}
				}
				r.check(swallowed == "", fmt.Sprintf("%s:%s:failure-is-final", fn, short(c.Name)), r.pos(c.Instr), "from the `err != nil` edge no `return nil` is reachable",
					"after "+short(c.Name)+" failed "+fn+" can still report success (e.g. because a second look at the store — whose own error is discarded — finds nothing): during an outage a single-use token is accepted and stays valid, DeleteToken reports success for a live token: "+swallowed)
			}
		}
		r.atLeast("fallible calls on the delete path", n, 4)
		// the handler: a single-use token that could not be consumed does not admit the request
		h, final, safeCut, _ := setup()
		dels := callsMatching(h, false, nameHasSuffix("csrf.deleteTokenFromStorage"))
		r.need(len(dels) >= 1, "the handler consumes single-use tokens")
		for i, d := range dels {
			cut := map[edge]bool{}
			for e := range safeCut {
				cut[e] = true
			}
			for _, br := range ifsOnValue(h, d.Value()) {
				if sl, ok := br.nilSlot(true); ok {
					cut[edge{br.If.Block(), sl}] = true
				}
			}
			_, hit := reach(pointAfter(d.Instr), func(in ssa.Instruction) bool { return in == final }, cut, nil)
			r.check(d.Value() != nil && len(ifsOnValue(h, d.Value())) > 0 && hit == nil, fmt.Sprintf("handler:consume#%d:failure-rejects", i+1), r.pos(d.Instr), "with the `consumed` edge removed the protected handler is unreachable",
				"the protected handler is reachable although the single-use token could not be deleted from the store: the request is admitted and the token can be used again")
		}
	})
}
