package main

import (
	"fmt"
	"go/token"
	"go/types"
	"sort"
	"strings"

	"golang.org/x/tools/go/ssa"
)

func init() {
	register(&propDef{
		ID: "C07",
		Explain: "Decided clauses: R1 in both request entry points routing and flash parsing are unreachable for an unknown method, the guard itself does not evaluate an accessor that indexes with the −1 sentinel, and every App.method(methodInt) call is guarded against −1; " +
			"R2 no value a handler passes to a response helper reaches a fasthttp response-header setter that does not strip CR/LF, except through a cleaner (percent-quoting, strconv, MIME lookup, a structurally recognised CR/LF sanitiser); the setter table is re-derived from fasthttp's own bodies; " +
			"R3 no allocation in code reachable from flash parsing is sized by a decoded length without a dominating bound; R4 serverErrorHandler maps every fasthttp error class to a 4xx/5xx *Error with a 400 default; " +
			"R5 (thorough) explicit panics and unchecked type assertions reachable from the request entry points are limited to a reviewed allow-list; " +
			"R6 where a function bounds an offset access x[v+c…] by HasPrefix(x[v:], literal) or a len comparison, the access is reachable only through the bounding edge (an access evaluated ahead of its own guard is an out-of-range panic for an input that ends early). " +
			"Not decided (honest not-applicable for these clauses): index/slice bounds inside the hand-written header parsers beyond R6 (accesses for which the function states no bound are counted, not judged), loop termination, proportional allocation in general, strict-parser validity of the whole response.",
		Assume: []string{"fasthttp 1.60: only ResponseHeader.Set sanitises values (re-derived each run from its SSA bodies)", "user handlers pass arbitrary strings"},
		Run:    runC07,
	})
}

// crlfSinkArg: is argument idx of callee `name` a value position of a response-header
// setter that stores it verbatim? (receiver is index 0)
var crlfSinks = map[string][]int{
	"(*github.com/valyala/fasthttp.ResponseHeader).SetCanonical":            {1, 2},
	"(*github.com/valyala/fasthttp.ResponseHeader).SetContentType":          {1},
	"(*github.com/valyala/fasthttp.ResponseHeader).SetContentTypeBytes":     {1},
	"(*github.com/valyala/fasthttp.ResponseHeader).SetContentEncoding":      {1},
	"(*github.com/valyala/fasthttp.ResponseHeader).SetContentEncodingBytes": {1},
	"(*github.com/valyala/fasthttp.ResponseHeader).SetServer":               {1},
	"(*github.com/valyala/fasthttp.ResponseHeader).SetServerBytes":          {1},
	"(*github.com/valyala/fasthttp.ResponseHeader).SetCookie":               {1},
	"(*github.com/valyala/fasthttp.ResponseHeader).SetBytesK":               {1, 2},
	"(*github.com/valyala/fasthttp.ResponseHeader).SetBytesV":               {1, 2},
	"(*github.com/valyala/fasthttp.ResponseHeader).SetBytesKV":              {1, 2},
	"(*github.com/valyala/fasthttp.ResponseHeader).Add":                     {1, 2},
	"(*github.com/valyala/fasthttp.ResponseHeader).AddBytesK":               {1, 2},
	"(*github.com/valyala/fasthttp.ResponseHeader).AddBytesV":               {1, 2},
	"(*github.com/valyala/fasthttp.ResponseHeader).AddBytesKV":              {1, 2},
	"(*github.com/valyala/fasthttp.ResponseHeader).DelClientCookie":         {1},
	"(*github.com/valyala/fasthttp.ResponseHeader).DelClientCookieBytes":    {1},
	"(*github.com/valyala/fasthttp.ResponseHeader).SetStatusMessage":        {1},
	"(*github.com/valyala/fasthttp.ResponseHeader).SetProtocol":             {1},
}

var crlfSanitisingSetters = map[string]bool{
	"(*github.com/valyala/fasthttp.ResponseHeader).Set": true,
}

// isCRLFSanitizer recognises, structurally, a func(string) string (or []byte → []byte) whose
// result cannot contain CR or LF bytes of its argument: the unchanged argument is returned
// only past tests of both bytes, every other return comes from a buffer in which bytes
// compared with '\r' and '\n' are overwritten by a constant (or a strings.NewReplacer/Map form).
func isCRLFSanitizer(f *ssa.Function) bool {
	if f == nil || len(f.Blocks) == 0 || len(f.Params) != 1 || f.Signature.Results().Len() != 1 {
		return false
	}
	p := f.Params[0]
	// tests for both bytes on the argument
	var cutR, cutN []edge
	for _, c := range callsMatching(f, false, nameIs("strings.IndexByte", "bytes.IndexByte", "strings.ContainsRune", "strings.Contains", "strings.ContainsAny", "strings.IndexAny", "bytes.IndexAny", "bytes.ContainsAny")) {
		if c.Common.Args[0] != ssa.Value(p) {
			continue
		}
		// which bytes does the search look for, and on which edge are they known to be absent?
		var bytesSought []int64
		if k, ok := constInt(asConst(c.Common.Args[1])); ok {
			bytesSought = []int64{k}
		} else if str, ok := constString(asConst(stripValue(c.Common.Args[1]))); ok && (strings.HasSuffix(c.Name, "Any") || len(str) == 1) {
			for i := 0; i < len(str); i++ {
				bytesSought = append(bytesSought, int64(str[i]))
			}
		}
		if len(bytesSought) == 0 {
			continue
		}
		isBool := false
		if b, ok := c.Value().Type().Underlying().(*types.Basic); ok && b.Kind() == types.Bool {
			isBool = true
		}
		for _, br := range ifsOnValue(f, c.Value()) {
			s, ok := 0, false
			if isBool {
				s, ok = br.truthSlot(false)
			} else if s, ok = br.eqIntSlot(-1, true); !ok {
				// `i < 0` / `i >= 0`
				if k, isK := constInt(br.Info.Const); isK {
					switch {
					case (br.Info.Op == token.LSS && k == 0) || (br.Info.Op == token.LEQ && k == -1):
						s, ok = br.slotWhenRel(true), true
					case (br.Info.Op == token.GEQ && k == 0) || (br.Info.Op == token.GTR && k == -1):
						s, ok = br.slotWhenRel(false), true
					}
				}
			}
			if !ok {
				continue
			}
			for _, k := range bytesSought {
				if k == '\r' {
					cutR = append(cutR, edge{br.If.Block(), s})
				}
				if k == '\n' {
					cutN = append(cutN, edge{br.If.Block(), s})
				}
			}
		}
	}
	returnsParam := func(in ssa.Instruction) bool {
		ret, ok := in.(*ssa.Return)
		return ok && retOperand(ret, 0) == ssa.Value(p)
	}
	for _, cut := range [][]edge{cutR, cutN} {
		if len(cut) == 0 {
			return false
		}
		m := map[edge]bool{}
		for _, e := range cut {
			m[e] = true
		}
		if _, hit := reach(entryOf(f), returnsParam, m, nil); hit != nil {
			return false // the argument can be returned unchanged without this byte having been excluded
		}
	}
	// other returns: a rewritten copy — the function compares bytes with 13 and 10 and stores a constant
	has13, has10, storesConst := false, false, false
	var scope []*ssa.BasicBlock
	for _, g := range append([]*ssa.Function{f}, helpersOf(f)...) { // the byte test may live in a helper (`isLineBreak(b[i])`)
		scope = append(scope, g.Blocks...)
	}
	for _, b := range scope {
		for _, in := range b.Instrs {
			if bo, ok := in.(*ssa.BinOp); ok && (bo.Op == token.EQL || bo.Op == token.NEQ) {
				if k, ok := constInt(asConst(bo.Y)); ok {
					if k == 13 {
						has13 = true
					}
					if k == 10 {
						has10 = true
					}
				}
			}
			if st, ok := in.(*ssa.Store); ok {
				if _, isIdx := st.Addr.(*ssa.IndexAddr); isIdx && asConst(st.Val) != nil {
					storesConst = true
				}
			}
		}
	}
	nonParamReturn := false
	for _, in := range instrsWhere(f, isReturn) {
		if retOperand(in.(*ssa.Return), 0) != ssa.Value(p) {
			nonParamReturn = true
		}
	}
	if nonParamReturn && !(has13 && has10 && storesConst) {
		return false
	}
	return true
}

func runC07(r *Run) {
	g := r.P.Graph()

	r.rule("R1", "unknown-method guard precedes routing and flash parsing; the −1 sentinel never reaches App.method unguarded (E1/E3)", func() {
		for _, en := range []string{"(*App).defaultRequestHandler", "(*App).customRequestHandler"} {
			f := r.Fn("", en)
			cut := map[edge]bool{}
			var guard *branch
			for _, br := range branchesIn(f) {
				br := br
				if n := readAccessorName(g, br.Info.Root); n == "DefaultCtx.methodInt" {
					if s, ok := br.eqIntSlot(-1, false); ok {
						cut[edge{br.If.Block(), s}] = true
						guard = &br
					}
				}
			}
			if guard == nil {
				// a guard exists but evaluates something else: report what it evaluates
				what := "no comparison of the parsed method index with -1"
				for _, br := range branchesIn(f) {
					if k, ok := constInt(br.Info.Const); ok && k == -1 {
						if c, _ := producerCall(br.Info.Root); c != nil {
							what = "the guard evaluates " + short(calleeName(&c.Call)) + "(…) whose argument " + describeArg(c) + " is computed first"
						}
					}
				}
				r.bad(en+":method-guard", r.fpos(f), "the unknown-method guard does not test the context's method index directly: "+what+" — for a method outside RequestMethods this indexes RequestMethods[-1] and panics (fasthttp does not recover)")
				continue
			}
			isRouting := func(in ssa.Instruction) bool {
				return isCallTo(in, nameHasSuffix("App).next", "App).nextCustom", "Redirect).parseAndClearFlashMessages"))
			}
			_, hit := reach(entryOf(f), isRouting, cut, nil)
			r.check(hit == nil, en+":method-guard", r.pos(guard.If), "routing and flash parsing are unreachable with the `methodInt != -1` edge removed", "routing or flash parsing is reachable for an unknown method")
			// 501 on the sentinel edge
			s, _ := guard.eqIntSlot(-1, true)
			_, ret := reachEdge(edge{guard.If.Block(), s}, isReturn, nil, func(in ssa.Instruction) bool {
				ci, ok := in.(ssa.CallInstruction)
				if !ok || !strings.HasSuffix(calleeName(ci.Common()), ").SendStatus") {
					return false
				}
				a := ci.Common().Args
				return isConstInt(a[len(a)-1], 501)
			})
			r.check(ret == nil, en+":unknown-method→501", r.pos(guard.If), "an unknown method is answered with 501", "an unknown method is not answered with 501")
		}
		// App.method(x) with x = DefaultCtx.methodInt needs a guard against -1
		am := r.Fn("", "(*App).method")
		n := 0
		for _, c := range g.Callers[am] {
			arg := c.Common.Args[1]
			if readAccessorName(g, arg) != "DefaultCtx.methodInt" {
				continue
			}
			n++
			f := c.Fn
			cut := map[edge]bool{}
			for _, br := range branchesIn(f) {
				if readAccessorName(g, br.Info.Root) == "DefaultCtx.methodInt" {
					if k, ok := constInt(br.Info.Const); ok && (k == -1 || k == 0) {
						// any of: != -1, >= 0, < 0 … — cut the edge on which the index is valid
						switch {
						case k == -1:
							if s, ok := br.eqIntSlot(-1, false); ok {
								cut[edge{br.If.Block(), s}] = true
							}
						case br.Info.Op == token.GEQ:
							cut[edge{br.If.Block(), br.slotWhenRel(true)}] = true
						case br.Info.Op == token.LSS:
							cut[edge{br.If.Block(), br.slotWhenRel(false)}] = true
						}
					}
				}
			}
			_, hit := reach(entryOf(f), func(in ssa.Instruction) bool { return in == c.Instr }, cut, nil)
			r.check(len(cut) > 0 && hit == nil, fmt.Sprintf("%s:App.method-call#%d:sentinel-guarded", f.Name(), n), r.pos(c.Instr), "the call is unreachable with the `methodInt valid` edge removed",
				f.Name()+" calls App.method(c.methodInt) without testing the −1 sentinel: for a request with a method outside RequestMethods (ctx built by serverErrorHandler, or Route()'s fallback) this indexes RequestMethods[-1] and panics")
		}
		r.atLeast("App.method(c.methodInt) call sites", n, 1)
	})

	r.rule("R2", "header-injection freedom: handler-supplied values reach CR/LF-preserving response-header setters only through cleaners (E3)", func() {
		// re-derive the setter table from fasthttp's bodies
		fh := r.P.SSA.ImportedPackage("github.com/valyala/fasthttp")
		r.need(fh != nil, "fasthttp SSA package")
		rh, _ := fh.Members["ResponseHeader"].(*ssa.Type)
		r.need(rh != nil, "fasthttp.ResponseHeader")
		ms := r.P.SSA.MethodSets.MethodSet(types.NewPointer(rh.Type()))
		derived := 0
		for i := 0; i < ms.Len(); i++ {
			m := r.P.SSA.MethodValue(ms.At(i))
			if m == nil || len(m.Blocks) == 0 {
				continue
			}
			name := m.String()
			_, isSink := crlfSinks[name]
			isSan := crlfSanitisingSetters[name]
			if !isSink && !isSan {
				continue
			}
			derived++
			// sanitising iff a value parameter is passed to initHeaderKV (→ removeNewLines) before being stored
			san := false
			for _, c := range callsMatching(m, false, nameIs("github.com/valyala/fasthttp.initHeaderKV", "github.com/valyala/fasthttp.removeNewLines")) {
				for _, a := range c.Common.Args {
					if pa, ok := a.(*ssa.Parameter); ok && pa != m.Params[0] {
						san = true
					}
				}
			}
			if san != isSan {
				r.bad("fasthttp-setter-table:"+short(name), r.P.Pos(m.Pos()), fmt.Sprintf("table says sanitising=%v but fasthttp's body says %v: the sink table is stale for this fasthttp version", isSan, san))
			}
		}
		r.check(derived >= 12, "fasthttp-setter-table:derived", "?", fmt.Sprintf("%d setters of the table cross-checked against fasthttp's SSA bodies", derived), "fewer setters than expected could be cross-checked")

		sanitizers := map[*ssa.Function]bool{}
		var candidates []*ssa.Function
		r.P.AllFuncs("", func(f *ssa.Function) { candidates = append(candidates, f) })
		for _, f := range candidates { // judged outside the enumeration: the recogniser looks into helpers (region mode)
			if isCRLFSanitizer(f) {
				sanitizers[f] = true
			}
		}
		var sanNames []string
		for f := range sanitizers {
			sanNames = append(sanNames, f.Name())
		}
		sort.Strings(sanNames)
		r.Extra["crlf_sanitizers_recognised"] = sanNames
		cfg := taintCfg{
			cleaner: func(c *ssa.CallCommon, name string) bool {
				if sc := c.StaticCallee(); sc != nil && sanitizers[sc] {
					return true
				}
				switch {
				case strings.HasSuffix(name, "App).quoteString"), strings.HasPrefix(name, "strconv."), name == "github.com/gofiber/utils/v2.GetMIME",
					name == "github.com/valyala/fasthttp.AppendQuotedArg", strings.HasPrefix(name, "encoding/hex."), strings.HasPrefix(name, "(*encoding/base64.Encoding).Encode"),
					name == "net/url.QueryEscape", name == "net/url.PathEscape", strings.HasPrefix(name, "builtin:len"), strings.HasPrefix(name, "builtin:cap"),
					crlfSanitisingSetters[name]:
					return true
				}
				return false
			},
			sink: func(c *ssa.CallCommon, name string, idx int) bool {
				for _, i := range crlfSinks[name] {
					if i == idx {
						return true
					}
				}
				return false
			},
			ignoreCall: func(name string) bool {
				return strings.HasPrefix(name, "("+fiberMod+"/log.") || strings.HasPrefix(name, fiberMod+"/log.") || strings.HasPrefix(name, "fmt.Fprint")
			},
			trackField: func(field string) bool {
				return strings.HasPrefix(field, "Redirect.") || strings.HasPrefix(field, "redirectionMsg.") || strings.HasPrefix(field, "DefaultCtx.flash") || strings.HasPrefix(field, "Cookie.")
			},
		}
		te := newTaint(r.P, cfg)
		var sources []paramSource
		for _, typ := range []string{"DefaultCtx", "Redirect", "DefaultRes"} {
			tm, ok := r.P.Pkg("").Members[typ].(*ssa.Type)
			if !ok {
				continue
			}
			mset := r.P.SSA.MethodSets.MethodSet(types.NewPointer(tm.Type()))
			for i := 0; i < mset.Len(); i++ {
				m := r.P.SSA.MethodValue(mset.At(i))
				if m == nil || len(m.Blocks) == 0 || m.Object() == nil || !m.Object().Exported() || m.Synthetic != "" {
					continue
				}
				for pi := 1; pi < len(m.Params); pi++ {
					if _, isFunc := m.Params[pi].Type().Underlying().(*types.Signature); isFunc {
						continue
					}
					sources = append(sources, paramSource{m, pi})
				}
			}
		}
		r.atLeast("source parameters (exported response/ctx helpers)", len(sources), 60)
		te.run(sources)
		// obligations: every CR/LF-preserving setter call site in package fiber
		n := 0
		ord := map[string]int{}
		r.P.AllFuncs("", func(f *ssa.Function) {
			for _, c := range callsIn(f, false) {
				if _, ok := crlfSinks[c.Name]; !ok {
					continue
				}
				n++
				top := f
				for top.Parent() != nil {
					top = top.Parent()
				}
				k := top.Name() + ":" + c.Name[strings.LastIndex(c.Name, ".")+1:]
				ord[k]++
				key := fmt.Sprintf("%s#%d", k, ord[k])
				if h, hit := te.hits[c.Instr]; hit {
					r.bad(key, r.pos(c.Instr), "a handler-supplied value reaches "+short(c.Name)+" unsanitised (flow "+strings.TrimPrefix(h.Via, "→")+"): a value containing \\r\\n adds a header line or starts the body early")
				} else {
					r.ok(key, r.pos(c.Instr), "no handler-supplied value reaches this setter unsanitised")
				}
			}
		})
		r.atLeast("CR/LF-preserving setter call sites in package fiber", n, 12)
		r.Extra["tainted_fields"] = te.fieldList()
		// a decoder behind the cleaner: fasthttp's Cookie.SetPath percent-decodes what it is given, so sanitising the
		// argument is not enough — the cookie may only be written once the *decoded* path was found free of CR and LF
		np := 0
		r.P.AllFuncs("", func(f *ssa.Function) {
			setPaths := callsMatching(f, false, nameIs("(*github.com/valyala/fasthttp.Cookie).SetPath", "(*github.com/valyala/fasthttp.Cookie).SetPathBytes"))
			if len(setPaths) == 0 {
				return
			}
			writes := callsMatching(f, false, nameIs("(*github.com/valyala/fasthttp.ResponseHeader).SetCookie"))
			// a helper that only stores the path (`setCookiePath(fcookie, path)`): what must not be reached unchecked is
			// its return — the caller writes the cookie afterwards
			var exits []ssa.Instruction
			for _, w := range writes {
				exits = append(exits, w.Instr)
			}
			if len(writes) == 0 {
				for _, ri := range instrsWhereOne(f, isReturn) {
					exits = append(exits, ri)
				}
			}
			// edges on which the decoded path is known to hold no CR resp. no LF
			clean := map[byte]map[edge]bool{'\r': {}, '\n': {}}
			for _, c := range callsMatching(f, false, nameIs("bytes.IndexByte", "strings.IndexByte")) {
				k, isC := constInt(asConst(c.Common.Args[1]))
				if !isC || (k != '\r' && k != '\n') {
					continue
				}
				if dependsOn(c.Common.Args[0], func(v ssa.Value) bool {
					cc, ok := v.(*ssa.Call)
					return ok && calleeName(&cc.Call) == "(*github.com/valyala/fasthttp.Cookie).Path"
				}) == nil {
					continue
				}
				for _, br := range ifsOnValue(f, c.Value()) {
					// `idx >= 0` false edge / `idx == -1` true edge / `idx < 0` true edge
					switch br.Info.Op {
					case token.GEQ:
						clean[byte(k)][edge{br.If.Block(), br.slotWhenRel(false)}] = true
					case token.LSS:
						clean[byte(k)][edge{br.If.Block(), br.slotWhenRel(true)}] = true
					default:
						if sl, ok := br.eqIntSlot(-1, true); ok {
							clean[byte(k)][edge{br.If.Block(), sl}] = true
						}
					}
				}
			}
			// the same test for both bytes at once: bytes.ContainsAny / IndexAny(path, "\r\n")
			for _, c := range callsMatching(f, false, nameIs("bytes.ContainsAny", "strings.ContainsAny", "bytes.IndexAny", "strings.IndexAny")) {
				set, isS := constString(asConst(stripValue(c.Common.Args[1])))
				if !isS || dependsOn(c.Common.Args[0], func(v ssa.Value) bool {
					cc, ok := v.(*ssa.Call)
					return ok && calleeName(&cc.Call) == "(*github.com/valyala/fasthttp.Cookie).Path"
				}) == nil {
					continue
				}
				// the bytes the code waits to disappear are bytes the sanitiser removes (CR and LF): a loop that re-sanitises
				// until a byte is gone that sanitizeHeaderValue leaves alone never ends
				for i := 0; i < len(set); i++ {
					if set[i] != '\r' && set[i] != '\n' {
						r.bad(fmt.Sprintf("%s:decoded-path-test:only-bytes-the-sanitiser-removes", f.Name()), r.pos(c.Instr), fmt.Sprintf("the decoded cookie path is re-sanitised until it holds none of %q, but the sanitiser replaces CR and LF only: a Path with byte %#x (raw or percent-encoded) keeps the handler in that loop for ever — the request never returns and its worker is never released", set, set[i]))
						break
					}
				}
				for _, br := range ifsOnValue(f, c.Value()) {
					var e *edge
					if strings.HasSuffix(c.Name, "ContainsAny") {
						if sl, ok := br.truthSlot(false); ok {
							e = &edge{br.If.Block(), sl}
						}
					} else if sl, ok := br.eqIntSlot(-1, true); ok {
						e = &edge{br.If.Block(), sl}
					} else if br.Info.Op == token.GEQ {
						e = &edge{br.If.Block(), br.slotWhenRel(false)}
					} else if br.Info.Op == token.LSS {
						e = &edge{br.If.Block(), br.slotWhenRel(true)}
					}
					if e == nil {
						continue
					}
					for _, ch := range []byte{'\r', '\n'} {
						if strings.IndexByte(set, ch) >= 0 {
							clean[ch][*e] = true
						}
					}
				}
			}
			for _, sp := range setPaths {
				np++
				okP := true
				for _, ch := range []byte{'\r', '\n'} {
					if len(clean[ch]) == 0 {
						okP = false
						continue
					}
					for _, w := range exits {
						if _, hit := reach(pointAfter(sp.Instr), func(in ssa.Instruction) bool { return in == w }, clean[ch], nil); hit != nil {
							okP = false
						}
					}
				}
				r.check(okP, fmt.Sprintf("%s:Cookie.SetPath#%d:decoded-path-checked", f.Name(), np), r.pos(sp.Instr), "the cookie is written only after the decoded path was found free of CR and LF",
					"fasthttp percent-decodes the path handed to Cookie.SetPath, and the cookie is written without looking at the decoded path: a Path such as /a%0d%0aX-Inj:%20y passes the sanitiser and comes out of the decoder as a line break — the value adds a header line")
			}
		})
		r.atLeast("Cookie.SetPath call sites", np, 1)
	})

	r.rule("R3", "no allocation sized by a decoded length without a dominating bound, in code reachable from flash parsing (E9)", func() { boundedFlashDecode(r) })

	r.rule("R4", "serverErrorHandler: total error mapping with a 400 default (E8/E1)", func() {
		f := r.Fn("", "(*App).serverErrorHandler")
		eh := callsMatching(f, false, nameHasSuffix("App).ErrorHandler"))
		r.need(len(eh) == 1, "serverErrorHandler calls ErrorHandler")
		errArg := eh[0].Common.Args[2]
		// the mapped cases: the edges of the merge, or — when the mapping lives in a helper — what the helper returns
		var leaves []ssa.Value
		var collect func(v ssa.Value, d int)
		seenLeaf := map[ssa.Value]bool{}
		collect = func(v ssa.Value, d int) {
			v = stripValue(v)
			if seenLeaf[v] || d > 4 {
				return
			}
			seenLeaf[v] = true
			switch x := v.(type) {
			case *ssa.Phi:
				for _, e := range x.Edges {
					collect(e, d+1)
				}
				return
			case *ssa.Call:
				if g := transparentCallee(x.Parent(), x); g != nil {
					for _, ri := range instrsWhereOne(g, isReturn) {
						collect(retOperand(ri.(*ssa.Return), 0), d+1)
					}
					return
				}
			}
			leaves = append(leaves, v)
		}
		collect(errArg, 0)
		r.need(len(leaves) >= 2, "the error passed on is a merge of the mapped cases")
		okAll := true
		has400 := false
		var codes []string
		for _, e := range leaves {
			switch x := e.(type) {
			case *ssa.UnOp: // load of a package-level *Error variable
				gl, isG := x.X.(*ssa.Global)
				if !isG || !strings.HasPrefix(gl.Name(), "Err") {
					okAll = false
				} else {
					codes = append(codes, gl.Name())
				}
			case *ssa.Call:
				if calleeName(&x.Call) == fiberMod+".NewError" {
					if k, ok := constInt(asConst(x.Call.Args[0])); ok {
						codes = append(codes, fmt.Sprint(k))
						if k == 400 {
							has400 = true
						}
						if k < 400 || k > 599 {
							okAll = false
						}
					}
				} else {
					okAll = false
				}
			default:
				okAll = false
			}
		}
		sort.Strings(codes)
		r.check(okAll && has400 && len(leaves) >= 6, "serverErrorHandler:mapping", r.pos(eh[0].Instr), "every branch yields a framework *Error; default is 400: "+strings.Join(codes, ","), "a fasthttp error class is passed on unmapped, or the default is not 400: "+strings.Join(codes, ","))
	})

	r.rule("R7", "serverErrorHandler classifies by error identity, never by the message (the message of a parse error quotes the request); where a message test exists, every path to it has first evaluated every errors.As / errors.Is test (E1)", func() {
		f := r.Fn("", "(*App).serverErrorHandler")
		var textual []callSite
		for _, c := range callsMatching(f, false, nameIs("strings.Contains", "strings.HasPrefix", "strings.HasSuffix", "strings.EqualFold")) {
			if dependsOn(c.Common.Args[0], func(v ssa.Value) bool {
				cc, ok := v.(*ssa.Call)
				return ok && cc.Call.IsInvoke() && cc.Call.Method.Name() == "Error"
			}) != nil {
				textual = append(textual, c)
			}
		}
		// the message of a fasthttp parse error quotes the request ("… contents: \"GET /timeout HTTP/1.1…\""): whatever is
		// searched for in it can be put there by the client, which then picks the status of its own malformed request
		r.check(len(textual) == 0, "serverErrorHandler:typed-before-textual:no-message-test", r.fpos(f), "the error is classified by identity only, its message is not searched",
			"the status of a server error is decided by searching the error's message: fasthttp quotes the request bytes in its parse errors, so GET /timeout with a malformed header is answered 408 Request Timeout instead of 400")
		if len(textual) == 0 {
			return
		}
		typed := callsMatching(f, false, nameIs("errors.As", "errors.Is"))
		r.atLeast("typed error tests", len(typed), 4)
		for i, t := range typed {
			t := t
			okT := true
			for _, tx := range textual {
				// every path to the message test has evaluated this typed test
				if _, hit := reach(entryOf(f), func(in ssa.Instruction) bool { return in == tx.Instr }, nil, func(in ssa.Instruction) bool { return in == t.Instr }); hit != nil {
					okT = false
				}
			}
			r.check(okT, fmt.Sprintf("serverErrorHandler:typed-before-textual#%d", i+1), r.pos(t.Instr), "every path to the message test has evaluated this typed test first",
				"the message of the error is searched for `timeout` before this typed test has been evaluated: fasthttp quotes request bytes in its parse and buffer errors, so an oversized or malformed request that merely contains the word is answered 408 instead of the mapped 431/4xx")
		}
	})

	r.rule("R8", "a pattern with more parameters than the context can hold never reaches the matcher: registration, mounting and RoutePatternMatch compare the parameter count with the capacity of the value array first (E1)", func() {
		// capacity of DefaultCtx.values
		_, st := r.P.Struct("", "DefaultCtx")
		r.need(st != nil, "DefaultCtx")
		capN := int64(-1)
		for i := 0; i < st.NumFields(); i++ {
			if st.Field(i).Name() == "values" {
				if arr, ok := st.Field(i).Type().Underlying().(*types.Array); ok {
					capN = arr.Len()
				}
			}
		}
		r.need(capN > 0, "DefaultCtx.values is an array")
		isCapCheck := func(in ssa.Instruction) bool {
			iff, ok := in.(*ssa.If)
			if !ok {
				return false
			}
			ci := decompose(iff.Cond)
			k, isC := constInt(ci.Const)
			if !isC || (k != capN && k != capN+1) {
				return false
			}
			c, isCall := stripValue(ci.Root).(*ssa.Call)
			if !isCall || calleeName(&c.Call) != "builtin:len" {
				return false
			}
			sl, isSlice := c.Call.Args[0].Type().Underlying().(*types.Slice)
			if !isSlice {
				return false
			}
			b, isStr := sl.Elem().Underlying().(*types.Basic)
			return isStr && b.Info()&types.IsString != 0
		}
		for _, spec := range []struct {
			fn     string
			escape func(in ssa.Instruction) bool
			what   string
		}{
			{"(*App).register", func(in ssa.Instruction) bool {
				return isCallTo(in, nameHasSuffix("App).addRoute"))
			}, "the route is added"},
			{"(*App).addPrefixToRoute", isReturn, "the re-prefixed route is handed back"},
			{"RoutePatternMatch", func(in ssa.Instruction) bool { return isCallTo(in, nameHasSuffix("routeParser).getMatch")) }, "the matcher runs"},
		} {
			f := r.Fn("", spec.fn)
			_, hit := reach(entryOf(f), spec.escape, nil, isCapCheck)
			r.check(hit == nil, spec.fn+":parameter-count-checked", r.fpos(f), fmt.Sprintf("every path compares the number of parameters with %d before %s", capN, spec.what),
				fmt.Sprintf("%s before the number of parameters was compared with the capacity of the value array (%d): a pattern with more parameters is accepted, and the first matching request writes past the array — index out of range in the request goroutine, which takes the server down", spec.what, capN))
		}
	})

	r.rule("R11", "methodInt answers a position in the configured method list: a constant position is answered only where no list was configured (`len(configured.RequestMethods) == 0`); with a configured list the name is looked up in it, so a method the list lacks is −1 and gets 501 (E1)", func() {
		f := r.Fn("", "(*App).methodInt")
		cut := map[edge]bool{}
		for _, br := range branchesIn(f) {
			lc, ok := stripValue(br.Info.Root).(*ssa.Call)
			if !ok || calleeName(&lc.Call) != "builtin:len" || len(lc.Call.Args) != 1 {
				continue
			}
			if fv := fieldOfValue(stripValue(lc.Call.Args[0])); fv == nil || fv.Name() != "RequestMethods" {
				continue
			}
			if k, isInt := constInt(br.Info.Const); isInt && k == 0 {
				switch br.Info.Op {
				case token.EQL, token.LEQ:
					cut[edge{br.If.Block(), br.slotWhenRel(true)}] = true
				case token.NEQ, token.GTR:
					cut[edge{br.If.Block(), br.slotWhenRel(false)}] = true
				}
			}
		}
		// (no such test at all: every constant position below is answered whatever the configuration — reported as that)
		r.count("`no list configured` edges in methodInt", len(cut))
		constPos := func(in ssa.Instruction) bool {
			ret, ok := in.(*ssa.Return)
			if !ok || ret.Parent() != f || len(ret.Results) != 1 {
				return false
			}
			k, isC := constInt(asConst(stripValue(ret.Results[0])))
			return isC && k >= 0
		}
		path, hit := reach(entryOf(f), constPos, cut, nil)
		r.check(hit == nil, "methodInt:constant-positions-only-for-the-default-list", r.fpos(f), "with the `no list configured` edge removed no constant position is returned",
			"methodInt answers the default list's position for a standard method also when another list is configured: with RequestMethods {GET, HEAD} a POST gets index 2 instead of −1 — no 501, and the tree lookup indexes past the configured methods (panic), with {GET, HEAD, PURGE} it runs the PURGE handler: "+pathString(r.P, path))
	})

	r.rule("R10", "two interface values are compared with == only where one operand is known to hold a comparable dynamic type: otherwise equal uncomparable dynamic types (maps, slices) panic at run time (every function of the module; E3)", func() { interfaceComparisonRule(r) })
	r.rule("R9", "a constant-index access x[c] on a byte sequence is reachable only through an edge on which len(x) > c (every function of the module; E1)", func() { constIndexRule(r) })
	r.rule("R13", "a view that points back into the context is bound to the context that hands it out: for every field of DefaultCtx whose type carries a *DefaultCtx back-pointer (the Req()/Res() views, Bind, Redirect), some method of DefaultCtx stores it on its own receiver — a view bound only where the context is constructed points at the original when the context is embedded by value in a custom context, the documented way to build one, and every call through it dereferences a context that never saw a request (E4, who-may-write)", func() {
		ctxNamed, st := r.P.Struct("", "DefaultCtx")
		r.need(ctxNamed != nil && st != nil, "type DefaultCtx is a struct")
		ctxObj := ctxNamed.Obj()
		views := map[string]bool{}
		for i := 0; i < st.NumFields(); i++ {
			fld := st.Field(i)
			pt, ok := fld.Type().(*types.Pointer)
			if !ok {
				continue
			}
			vs, ok := pt.Elem().Underlying().(*types.Struct)
			if !ok {
				continue
			}
			for j := 0; j < vs.NumFields(); j++ {
				if bp, ok := vs.Field(j).Type().(*types.Pointer); ok && types.Identical(bp.Elem(), ctxObj.Type()) {
					views["DefaultCtx."+fld.Name()] = true
				}
			}
		}
		r.atLeast("view fields with a back-pointer", len(views), 2)
		byReceiver, elsewhere := map[string]string{}, map[string]string{}
		r.P.AllFuncs("", func(f *ssa.Function) {
			for _, fr := range fieldRefsOne(f) {
				if !fr.Write || !views[fr.Name] || fr.Val == nil || constIsNil(asConst(fr.Val)) {
					continue
				}
				onReceiver := false
				// a plain helper that is handed the context by one of its methods (`rebindCtxViews(c)` called from Reset)
				if fr.Addr != nil {
					for i, prm := range f.Params {
						if stripValue(fr.Addr.X) != ssa.Value(prm) || (i == 0 && f.Signature.Recv() != nil) {
							continue
						}
						for _, call := range staticCallersOf(f) {
							caller := call.Parent()
							if caller != nil && caller.Signature.Recv() != nil && len(caller.Params) > 0 && i < len(call.Call.Args) && stripValue(call.Call.Args[i]) == ssa.Value(caller.Params[0]) {
								if pt, ok := caller.Params[0].Type().(*types.Pointer); ok && types.Identical(pt.Elem(), ctxObj.Type()) {
									onReceiver = true
								}
							}
						}
					}
				}
				if f.Signature.Recv() != nil && len(f.Params) > 0 && fr.Addr != nil {
					if base := stripValue(fr.Addr.X); base == ssa.Value(f.Params[0]) {
						onReceiver = true
					} else if ld, ok := base.(*ssa.UnOp); ok && ld.Op == token.MUL {
						// the receiver spilled into a cell (it is captured or its address is taken)
						if al, ok := ld.X.(*ssa.Alloc); ok {
							for _, s2 := range storesInto(al) {
								if s2.Val == ssa.Value(f.Params[0]) {
									onReceiver = true
								}
							}
						}
					}
				}
				if onReceiver {
					byReceiver[fr.Name] = r.pos(fr.Instr)
				} else {
					elsewhere[fr.Name] = r.pos(fr.Instr)
				}
			}
		})
		for _, v := range sortedKeys(views) {
			if _, any := elsewhere[v]; !any && byReceiver[v] == "" {
				continue // never assigned a view at all
			}
			r.check(byReceiver[v] != "", v+":bound-by-its-context", byReceiver[v]+elsewhere[v], "a method of DefaultCtx binds the view to its receiver",
				"the view "+v+" is bound only where the context is constructed ("+elsewhere[v]+"): `&CustomCtx{DefaultCtx: *fiber.NewDefaultCtx(app)}` copies the context, the view keeps pointing at the original, whose request is nil — c.Req().Get(…) / c.Res().Set(…) in a handler is a nil dereference, and fasthttp does not recover")
		}
	})
	r.rule("R12", "a cut at a position taken from elsewhere is bounded on the value that is cut: where a function compares such a position with the length of some sequence ahead of the cut, it is the length of the sequence it cuts (contradiction rule over every function of the module)", func() {
		sliceBoundOnItsOwnValueRule(r, "*")
	})
	r.rule("R15", "methods are compared as sent: methodInt classifies every incoming request, and `get` is not GET (RFC 9110 §9.1: case-sensitive) — nothing in methodInt or the closures it hands to a search folds letter case (EqualFold, ToLower, ToUpper); with folding a request `get /` under a custom RequestMethods list is dispatched to the GET handler instead of being answered 501 (E1: who may call a fold)", func() {
		f := r.Fn("", "(*App).methodInt")
		bad := ""
		n := 0
		for _, g := range append([]*ssa.Function{f}, anonFuncsDeep(f)...) {
			for _, c := range callsIn(g, false) {
				n++
				if strings.Contains(c.Name, "EqualFold") || strings.Contains(c.Name, "ToLower") || strings.Contains(c.Name, "ToUpper") {
					bad = c.Name + " at " + r.pos(c.Instr)
				}
			}
		}
		r.check(bad == "", "methodInt:no-case-folding", r.fpos(f), fmt.Sprintf("no letter-case folding among the %d calls of methodInt", n),
			"methodInt folds letter case ("+bad+"): a method that differs from a configured one only in case (`get`, `pOsT`, `purge`) is classified as that method and its handler runs — the property asks for 501 Not Implemented for methods the app does not know")
	})

	r.rule("R14", "a position found in a tail of a text is a position in that tail: wherever the result of strings/bytes Index… over s[low:] (merged with other positions, shifted by constants or lengths) is used to index or cut s itself, low has been added back — otherwise a scan over the occurrences can step backwards and never end (every function of the module; the never-hangs clause for the header-value scanners, E4)", func() {
		positionInSuffixIsRebasedRule(r, "*")
	})
	r.rule("R6", "offset accesses are not evaluated ahead of the guard that bounds them (contradiction rule over every function of the module)", func() { offsetGuardRule(r) })

	if r.Tier == "thorough" {
		r.rule("R5", "reachable explicit panics / unchecked assertions from the request entry points are allow-listed (call graph)", func() {
			allow := map[string]string{
				"(*App).defaultRequestHandler": "pool type assertion (cannot fail: the pool only holds contexts)",
				"(*App).customRequestHandler":  "pool type assertion",
				"(*App).AcquireCtx":            "pool type assertion",
				"AcquireRedirect":              "pool type assertion",
				"(*DefaultCtx).Port":           "documented: RemoteAddr is a TCP address on fasthttp servers",
				"assertValueType":              "guarded by the enclosing type switch",
				"GetFromThePool":               "pool type assertion (binder)",
				"(*App).register":              "start-up only (reachable through RebuildTree-style APIs called by handlers on purpose)",
			}
			seen := map[*ssa.Function]bool{}
			var stack []*ssa.Function
			for _, en := range []string{"(*App).defaultRequestHandler", "(*App).customRequestHandler", "(*App).serverErrorHandler"} {
				stack = append(stack, r.Fn("", en))
			}
			var order []*ssa.Function
			for len(stack) > 0 {
				f := stack[len(stack)-1]
				stack = stack[:len(stack)-1]
				if f == nil || seen[f] || f.Pkg == nil || f.Pkg.Pkg.Path() != fiberMod || len(f.Blocks) == 0 {
					continue
				}
				seen[f] = true
				order = append(order, f)
				for _, c := range callsIn(f, true) {
					if sc := c.Common.StaticCallee(); sc != nil {
						stack = append(stack, sc)
					} else if c.Common.IsInvoke() && isCtxIface(c.Common.Value.Type()) {
						// Ctx interface methods resolve to *DefaultCtx
						if m := r.P.Func("", "(*DefaultCtx)."+c.Common.Method.Name()); m != nil {
							stack = append(stack, m)
						}
					}
				}
			}
			r.count("functions reachable from the entry points (package fiber)", len(order))
			n := 0
			for _, f := range order {
				for _, b := range f.Blocks {
					for _, in := range b.Instrs {
						if _, ok := in.(*ssa.Panic); ok && in.Pos().IsValid() {
							n++
							name := f.RelString(f.Pkg.Pkg)
							why, ok := allow[name]
							if !ok {
								why, ok = allow[f.Name()]
							}
							r.check(ok, "panic:"+name, r.pos(in), "allow-listed: "+why, "explicit panic reachable from a request entry point in "+name+" (not in the reviewed allow-list)")
						}
					}
				}
			}
			r.atLeast("reachable explicit panics", n, 3)
		})
	}
}

func describeArg(c *ssa.Call) string {
	for _, a := range c.Call.Args {
		if inner, ok := a.(*ssa.Call); ok {
			return short(calleeName(&inner.Call)) + "()"
		}
	}
	return "?"
}

// boundedFlashDecode is the E9 rule shared by C07-R3 and C12-R3.
func boundedFlashDecode(r *Run) {
	start := r.Fn("", "(*Redirect).parseAndClearFlashMessages")
	seen := map[*ssa.Function]bool{}
	var order []*ssa.Function
	var walk func(f *ssa.Function)
	walk = func(f *ssa.Function) {
		if f == nil || seen[f] || !inModule(f) {
			return
		}
		seen[f] = true
		order = append(order, f)
		for _, c := range callsIn(f, true) {
			walk(c.Common.StaticCallee())
		}
	}
	walk(start)
	r.count("functions reachable from flash parsing", len(order))
	n := 0
	for _, f := range order {
		isLen := func(v ssa.Value) bool {
			c, idx := producerCall(v)
			if c == nil {
				return false
			}
			nm := calleeName(&c.Call)
			return idx == 0 && (strings.HasSuffix(nm, "msgp.ReadArrayHeaderBytes") || strings.HasSuffix(nm, "msgp.ReadMapHeaderBytes") || strings.HasSuffix(nm, "msgp.Reader).ReadArrayHeader") || strings.HasSuffix(nm, "msgp.Reader).ReadMapHeader"))
		}
		bounded := func(at ssa.Instruction, l ssa.Value) bool {
			// a branch comparing (a conversion of) l with a constant or with len(x), whose small edge dominates `at`
			for _, br := range branchesIn(f) {
				if br.Info.Other == nil && br.Info.Const == nil {
					continue
				}
				a, b := br.Info.Root, br.Info.Other
				la := dependsOn(a, func(v ssa.Value) bool { return v == l }) != nil
				lb := b != nil && dependsOn(b, func(v ssa.Value) bool { return v == l }) != nil
				if !la && !lb {
					continue
				}
				if br.Info.Const != nil {
					if k, ok := constInt(br.Info.Const); !ok || k <= 0 {
						continue // comparisons with 0 bound nothing
					}
				} else {
					other := b
					if lb {
						other = a
					}
					if c, ok := stripValue(other).(*ssa.Call); !ok || (calleeName(&c.Call) != "builtin:len" && calleeName(&c.Call) != "builtin:cap") {
						continue
					}
				}
				op := br.Info.Op
				if lb && !la {
					op = flipOp(op)
				}
				var small int
				switch op {
				case token.GTR, token.GEQ:
					small = br.slotWhenRel(false)
				case token.LSS, token.LEQ:
					small = br.slotWhenRel(true)
				default:
					continue
				}
				tgt := br.If.Block().Succs[small]
				if dom(tgt, at.Block()) {
					return true
				}
			}
			return false
		}
		for _, b := range f.Blocks {
			for _, in := range b.Instrs {
				var size ssa.Value
				what := ""
				switch x := in.(type) {
				case *ssa.MakeSlice:
					size, what = x.Len, "make([]T, n)"
				case *ssa.MakeMap:
					size, what = x.Reserve, "make(map, n)"
				case *ssa.Slice:
					if x.High != nil {
						size, what = x.High, "reslice [:n]"
					}
				}
				if size == nil {
					continue
				}
				l := dependsOn(size, isLen)
				if l == nil {
					continue
				}
				n++
				r.check(bounded(in, l), f.Name()+":"+what, r.pos(in), "the decoded length is bounded before it sizes the allocation",
					f.Name()+" sizes "+what+" with a length decoded from the cookie without any upper bound: a 5-byte cookie announcing 2^32-1 messages makes the server allocate gigabytes")
			}
		}
	}
	if n == 0 {
		r.ok("flash-decode:no-length-sized-allocation", r.fpos(start), fmt.Sprintf("no allocation sized by a decoded length in the %d functions reachable from flash parsing", len(order)))
	}
	// loops that append per announced element must be bounded as well
	for _, f := range order {
		for _, br := range branchesIn(f) {
			if br.Info.Other == nil {
				continue
			}
			var l ssa.Value
			for _, v := range []ssa.Value{br.Info.Root, br.Info.Other} {
				if c, idx := producerCall(v); c != nil && idx == 0 && strings.HasSuffix(calleeName(&c.Call), "msgp.ReadArrayHeaderBytes") {
					l = v
				}
			}
			if l == nil {
				continue
			}
			loop := loopOf(br.If.Block())
			hasAppend := false
			for b := range loop {
				for _, in := range b.Instrs {
					if isCallTo(in, nameIs("builtin:append")) {
						hasAppend = true
					}
				}
			}
			if !hasAppend {
				continue
			}
			okB := false
			for _, b2 := range branchesIn(f) {
				if b2.If == br.If || b2.Info.Other == nil {
					continue
				}
				if dependsOn(b2.Info.Root, func(v ssa.Value) bool { return v == l }) != nil || dependsOn(b2.Info.Other, func(v ssa.Value) bool { return v == l }) != nil {
					for s := 0; s < 2; s++ {
						if dom(b2.If.Block().Succs[s], br.If.Block()) && !loop[b2.If.Block()] {
							okB = true
						}
					}
				}
			}
			r.check(okB, f.Name()+":append-loop-bound", r.pos(br.If), "the element count driving the append loop is compared with the input size before the loop", "an append loop runs up to a decoded element count that is never compared with the input size")
		}
	}
}
