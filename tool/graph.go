package main

import (
	"go/token"
	"go/types"
	"strings"

	"golang.org/x/tools/go/ssa"
)

// Graph holds module-wide summaries computed once per process.
type Graph struct {
	P       *Prog
	Funcs   []*ssa.Function
	Callers map[*ssa.Function][]callSite // static callers + CHA over module method names for invokes
	acc     map[string]accessor          // method name -> trivial accessor summary for (*DefaultCtx)
	wr      map[*ssa.Function]map[string]bool
}

type accessor struct {
	Field string // Owner.Field
	Write bool
}

var graphCache = map[*Prog]*Graph{}

func (p *Prog) Graph() *Graph {
	if g, ok := graphCache[p]; ok {
		return g
	}
	g := &Graph{P: p, Callers: map[*ssa.Function][]callSite{}, wr: map[*ssa.Function]map[string]bool{}}
	p.AllFuncs("*", func(f *ssa.Function) { g.Funcs = append(g.Funcs, f) })
	// method index by name for CHA resolution of invokes
	byName := map[string][]*ssa.Function{}
	for _, f := range g.Funcs {
		if f.Signature.Recv() != nil {
			byName[f.Name()] = append(byName[f.Name()], f)
		}
	}
	saved := regionMode
	regionMode = false // callers are attributed to the function that contains the call
	defer func() { regionMode = saved }()
	for _, f := range g.Funcs {
		for _, c := range callsIn(f, false) {
			if sc := c.Common.StaticCallee(); sc != nil {
				g.Callers[sc] = append(g.Callers[sc], c)
				continue
			}
			if c.Common.IsInvoke() {
				for _, m := range byName[c.Common.Method.Name()] {
					if types.Implements(m.Signature.Recv().Type(), c.Common.Value.Type().Underlying().(*types.Interface)) {
						g.Callers[m] = append(g.Callers[m], c)
					}
				}
			}
		}
	}
	graphCache[p] = g
	return g
}

// trivialAccessor: f is `return recv.F` or `recv.F = param` (one block).
func trivialAccessor(f *ssa.Function) (accessor, bool) {
	if f == nil || len(f.Blocks) != 1 || f.Signature.Recv() == nil {
		return accessor{}, false
	}
	var fa *ssa.FieldAddr
	n := 0
	for _, in := range f.Blocks[0].Instrs {
		switch x := in.(type) {
		case *ssa.FieldAddr:
			if p, ok := x.X.(*ssa.Parameter); !ok || p != f.Params[0] {
				return accessor{}, false
			}
			fa = x
			n++
		case *ssa.UnOp, *ssa.Store, *ssa.Return:
		case *ssa.DebugRef:
		default:
			return accessor{}, false
		}
	}
	if fa == nil || n != 1 {
		return accessor{}, false
	}
	fv := fieldVar(fa.X.Type(), fa.Field)
	if fv == nil {
		return accessor{}, false
	}
	name := fieldOwner(fv) + "." + fv.Name()
	for _, in := range f.Blocks[0].Instrs {
		if st, ok := in.(*ssa.Store); ok && st.Addr == fa {
			return accessor{name, true}, true
		}
	}
	ret := f.Blocks[0].Instrs[len(f.Blocks[0].Instrs)-1].(*ssa.Return)
	if len(ret.Results) == 1 {
		if ret.Results[0] == ssa.Value(fa) {
			return accessor{name, false}, true // returns address of the field
		}
		if u, ok := ret.Results[0].(*ssa.UnOp); ok && u.Op == token.MUL && u.X == fa {
			return accessor{name, false}, true
		}
	}
	return accessor{}, false
}

// ctxAccessor resolves a method name of the CustomCtx/Ctx interfaces to the trivial
// accessor implemented by *DefaultCtx (nil if the implementation is not trivial).
func (g *Graph) ctxAccessor(method string) (accessor, bool) {
	if g.acc == nil {
		g.acc = map[string]accessor{}
		_, _ = g.P.Struct("", "DefaultCtx")
		sp := g.P.Pkg("")
		if tm, ok := sp.Members["DefaultCtx"].(*ssa.Type); ok {
			ms := g.P.SSA.MethodSets.MethodSet(types.NewPointer(tm.Type()))
			for i := 0; i < ms.Len(); i++ {
				f := g.P.SSA.MethodValue(ms.At(i))
				if a, ok := trivialAccessor(f); ok {
					g.acc[f.Name()] = a
				}
			}
		}
	}
	a, ok := g.acc[method]
	return a, ok
}

// WrittenFields: Owner.Field names stored by f or (transitively) its static module callees
// and closures; invokes on ctx interfaces are resolved through trivial setters.
func (g *Graph) WrittenFields(f *ssa.Function) map[string]bool {
	if w, ok := g.wr[f]; ok {
		return w
	}
	w := map[string]bool{}
	g.wr[f] = w // cycle guard
	for _, fr := range fieldRefs(f) {
		if fr.Write {
			w[fr.Name] = true
		}
	}
	for _, c := range callsIn(f, false) {
		if sc := c.Common.StaticCallee(); sc != nil && sc.Pkg != nil && strings.HasPrefix(sc.Pkg.Pkg.Path(), fiberMod) && len(sc.Blocks) > 0 {
			for k := range g.WrittenFields(sc) {
				w[k] = true
			}
		} else if c.Common.IsInvoke() {
			if a, ok := g.ctxAccessor(c.Common.Method.Name()); ok && a.Write && isCtxIface(c.Common.Value.Type()) {
				w[a.Field] = true
			}
		}
	}
	for _, a := range f.AnonFuncs {
		for k := range g.WrittenFields(a) {
			w[k] = true
		}
	}
	return w
}

func isCtxIface(t types.Type) bool {
	s := types.TypeString(t, nil)
	return s == fiberMod+".CustomCtx" || s == fiberMod+".Ctx"
}

// writesField: instruction stores Owner.Field directly, or calls something that does (summary).
func (g *Graph) instrWrites(in ssa.Instruction, field string) bool {
	switch x := in.(type) {
	case *ssa.Store:
		if fa, ok := x.Addr.(*ssa.FieldAddr); ok {
			fv := fieldVar(fa.X.Type(), fa.Field)
			return fv != nil && fieldOwner(fv)+"."+fv.Name() == field
		}
	case ssa.CallInstruction:
		cc := x.Common()
		if sc := cc.StaticCallee(); sc != nil && len(sc.Blocks) > 0 {
			return g.WrittenFields(sc)[field]
		}
		if cc.IsInvoke() && isCtxIface(cc.Value.Type()) {
			if a, ok := g.ctxAccessor(cc.Method.Name()); ok && a.Write && a.Field == field {
				return true
			}
		}
	}
	return false
}
