package main

import (
	"fmt"
	"go/token"
	"go/types"
	"strings"

	"golang.org/x/tools/go/ssa"
)

func init() {
	register(&propDef{
		ID: "C18",
		Explain: "Decided clauses: R1 precedence by ordering: client-level user agent/referer/cookies are written before request-level ones through last-wins setters, jar → client → request for cookies, headers and query parameters use additive setters at both levels, request path parameters are substituted before client ones, the request timeout is tested first; " +
			"R2 the jar's path filter tests the cookie path as a prefix of the request path; R3 every function that loads a host's cookie slice and changes it stores it back on all paths; R4 an element found by searching a slice is not appended to that slice again; " +
			"R5 all keys used to index the host map come from the same normalisation (port stripped or not, uniformly); R6 the host map is only accessed under the jar mutex; R7 in execFunc the response and the error channel are released only after the goroutine's completion was received or the completion flag was won; " +
			"R8 pooled Request/Response/File objects are completely reset. Not decided: byte-level fidelity of every value (fasthttp serialiser), retry/redirect behaviour, timing, the schedules themselves.",
		Assume: []string{"fasthttp setters documented as replacing (SetUserAgent, SetReferer, SetCookie) are last-wins; Add* are additive"},
		Run:    runC18,
	})
}

const cliPkg = "client"

// poolReset reports which fields of pkg.typ are re-initialised by the given functions:
// direct stores, x.f.Reset()/Release() calls, or drain loops (which contain a store).
func poolReset(r *Run, pkg, typ string, fns []string) (map[string]bool, *types.Struct, *ssa.Function) {
	_, st := r.P.Struct(pkg, typ)
	r.need(st != nil, pkg+"."+typ)
	wr := map[string]bool{}
	var first *ssa.Function
	for _, fn := range fns {
		f := r.Fn(pkg, fn)
		if first == nil {
			first = f
		}
		for _, fr := range fieldRefs(f) {
			if fr.Write {
				wr[fr.Name] = true
			}
		}
		for _, c := range callsMatching(f, false, nameHasSuffix(").Reset", ").Release", ").reset")) {
			if len(c.Common.Args) == 0 {
				continue
			}
			// x.f.Reset() — possibly through an embedded/promoted receiver: any field of the pooled type the receiver is loaded from
			dependsOn(c.Common.Args[0], func(v ssa.Value) bool {
				if fv := fieldOfValue(v); fv != nil {
					wr[fieldOwner(fv)+"."+fv.Name()] = true
				}
				return false
			})
		}
	}
	return wr, st, first
}

// precedes: on every execution that performs both, a happens before b — b is reachable from a
// and a is not reachable from b (conditional writes are fine: `if x != "" { set(x) }`).
func precedes(a, b ssa.Instruction) bool {
	_, fwd := reach(pointAfter(a), func(in ssa.Instruction) bool { return in == b }, nil, nil)
	_, back := reach(pointAfter(b), func(in ssa.Instruction) bool { return in == a }, nil, nil)
	return fwd != nil && back == nil
}

func runC18(r *Run) {
	g := r.P.Graph()

	r.rule("R1", "precedence by ordering and setter semantics (E10)", func() {
		f := r.Fn(cliPkg, "parserRequestHeader")
		// value-level pairs through last-wins setters
		for _, spec := range []struct{ setter, cfield, rfield string }{
			{"fasthttp.RequestHeader).SetUserAgent", "client.Client.userAgent", "client.Request.userAgent"},
			{"fasthttp.RequestHeader).SetReferer", "client.Client.referer", "client.Request.referer"},
		} {
			var cs, rs ssa.Instruction
			for _, c := range callsMatching(f, false, nameHasSuffix(spec.setter)) {
				arg := c.Common.Args[len(c.Common.Args)-1]
				if loadOfField(arg, spec.cfield) {
					cs = c.Instr
				}
				if loadOfField(arg, spec.rfield) {
					rs = c.Instr
				}
			}
			name := spec.setter[strings.LastIndex(spec.setter, ".")+1:]
			// the same precedence written as a selection: one setter call whose argument is the request-level
			// value when that is non-empty and the client-level value only otherwise
			if cs == nil || rs == nil {
				if selectsRequestFirst(f, spec.setter, spec.cfield, spec.rfield) {
					r.ok("parserRequestHeader:"+name+":client-before-request", r.fpos(f), "one setter call; its argument is the client-level value only on paths where the request-level value is empty")
					continue
				}
			}
			r.check(cs != nil && rs != nil && precedes(cs, rs), "parserRequestHeader:"+name+":client-before-request", r.fpos(f), "client value is written first, request value last (last wins)",
				"request-level "+name+" does not override the client-level one (missing or written first)")
		}
		// cookies: jar → client → request; headers additive
		visit := func(field string) ssa.Instruction {
			for _, c := range callsIn(f, false) {
				if !strings.HasSuffix(c.Name, ").VisitAll") || len(c.Common.Args) == 0 {
					continue
				}
				if dependsOn(c.Common.Args[0], func(v ssa.Value) bool { return loadOfField(v, field) }) != nil {
					return c.Instr
				}
			}
			return nil
		}
		closureOf := func(in ssa.Instruction) *ssa.Function {
			if in == nil {
				return nil
			}
			for _, a := range in.(ssa.CallInstruction).Common().Args {
				if mc, ok := a.(*ssa.MakeClosure); ok {
					return mc.Fn.(*ssa.Function)
				}
			}
			return nil
		}
		cc, rc := visit("client.Client.cookies"), visit("client.Request.cookies")
		jar := callsMatching(f, false, nameHasSuffix("client.CookieJar).dumpCookiesToReq"))
		okCk := cc != nil && rc != nil && len(jar) == 1 && precedes(jar[0].Instr, cc) && precedes(cc, rc)
		r.check(okCk, "parserRequestHeader:cookies:jar→client→request", r.fpos(f), "jar cookies, then client cookies, then request cookies (last wins)", "cookie precedence jar < client < request is not established by the write order")
		for _, v := range []ssa.Instruction{cc, rc} {
			cl := closureOf(v)
			ok := cl != nil && len(callsMatching(cl, false, nameHasSuffix("fasthttp.RequestHeader).SetCookie"))) == 1
			r.check(ok, "parserRequestHeader:cookies:last-wins-setter:"+lvl(v == cc), posOf(r, v), "cookies are written with the replacing setter", "cookies are not written with RequestHeader.SetCookie")
		}
		ch, rh := visit("client.Client.header"), visit("client.Request.header")
		for _, v := range []ssa.Instruction{ch, rh} {
			cl := closureOf(v)
			ok := cl != nil && len(callsMatching(cl, false, nameHasSuffix("fasthttp.RequestHeader).AddBytesKV", "fasthttp.RequestHeader).Add"))) == 1
			r.check(ok, "parserRequestHeader:headers:additive-setter:"+lvl(v == ch), posOf(r, v), "headers of both levels are sent in addition (Add*)", "headers are merged with a replacing setter: one level's headers are lost")
		}
		u := r.Fn(cliPkg, "parserRequestURL")
		visitU := func(field string) ssa.Instruction {
			for _, c := range callsIn(u, false) {
				if strings.HasSuffix(c.Name, ").VisitAll") && len(c.Common.Args) > 0 && dependsOn(c.Common.Args[0], func(v ssa.Value) bool { return loadOfField(v, field) }) != nil {
					return c.Instr
				}
			}
			return nil
		}
		rp, cp := visitU("client.Request.path"), visitU("client.Client.path")
		okPath := rp != nil && cp != nil && precedes(rp, cp)
		how := "request path parameters are substituted first (first wins)"
		if (rp == nil && cp == nil) || (rp != nil && rp == cp) {
			// both levels merged into one map before the substitution: the request level is written last (last wins)
			mergeOf := func(field string) ssa.Instruction {
				{
					for _, in := range instrsWhere(u, func(in ssa.Instruction) bool { _, ok := in.(*ssa.MapUpdate); return ok }) {
						mu, ok := in.(*ssa.MapUpdate)
						if !ok {
							continue
						}
						if dependsOn(mu.Value, func(v ssa.Value) bool {
							ex, ok := v.(*ssa.Extract)
							if !ok {
								return false
							}
							nx, ok := ex.Tuple.(*ssa.Next)
							if !ok {
								return false
							}
							rg, ok := nx.Iter.(*ssa.Range)
							return ok && dependsOn(rg.X, func(x ssa.Value) bool { return loadOfField(x, field) }) != nil
						}) != nil {
							return in
						}
					}
				}
				return nil
			}
			mc, mr := mergeOf("client.Client.path"), mergeOf("client.Request.path")
			if mc != nil && mr != nil {
				sameMap := mc.(*ssa.MapUpdate).Map == mr.(*ssa.MapUpdate).Map
				okPath = sameMap && precedes(mc, mr)
				how = "both levels are merged into one map, the request level written last (last wins)"
			} else {
				// the same merge written with maps.Copy(dst, level)
				copyOf := func(field string) (ssa.Instruction, ssa.Value) {
					for _, c := range callsIn(u, false) {
						if strings.HasPrefix(c.Name, "maps.Copy") && len(c.Common.Args) == 2 && dependsOn(c.Common.Args[1], func(v ssa.Value) bool { return loadOfField(v, field) }) != nil {
							return c.Instr, stripValue(c.Common.Args[0])
						}
					}
					return nil, nil
				}
				cc2, cdst := copyOf("client.Client.path")
				rc2, rdst := copyOf("client.Request.path")
				if cc2 != nil && rc2 != nil {
					okPath = cdst == rdst && precedes(cc2, rc2)
					how = "both levels are copied into one map, the request level last (last wins)"
				}
			}
		}
		r.check(okPath, "parserRequestURL:path-params:request-before-client", r.fpos(u), how, "client-level path parameters are substituted before request-level ones")
		cq, rq := visitU("client.Client.params"), visitU("client.Request.params")
		okQ := cq != nil && rq != nil
		for _, v := range []ssa.Instruction{cq, rq} {
			if v == nil {
				continue
			}
			for _, a := range v.(ssa.CallInstruction).Common().Args {
				if mc, ok := a.(*ssa.MakeClosure); ok {
					if len(callsMatching(mc.Fn.(*ssa.Function), false, nameHasSuffix("fasthttp.Args).AddBytesKV"))) != 1 {
						okQ = false
					}
				}
			}
		}
		r.check(okQ, "parserRequestURL:query:additive", r.fpos(u), "query parameters of both levels are added", "query parameters are not merged additively from both levels")
		t := r.Fn(cliPkg, "(*core).timeout")
		var rt, ct *ssa.If
		for _, br := range branchesIn(t) {
			if loadOfField(br.Info.Root, "client.Request.timeout") {
				rt = br.If
			}
			if loadOfField(br.Info.Root, "client.Client.timeout") {
				ct = br.If
			}
		}
		r.check(rt != nil && ct != nil && dom(rt.Block(), ct.Block()) && rt.Block() != ct.Block(), "core.timeout:request-first", r.fpos(t), "the request timeout is tested before the client timeout", "the client-level timeout takes precedence over the request-level one")
	})

	r.rule("R2", "jar path scoping: the cookie path must be a prefix of the request path (E3)", func() {
		f := r.Fn(cliPkg, "(*CookieJar).getByHostAndPath")
		hp := callsMatching(f, false, nameIs("bytes.HasPrefix"))
		r.need(len(hp) == 1, "getByHostAndPath filters with one bytes.HasPrefix")
		isCookiePath := func(v ssa.Value) bool {
			c, _ := producerCall(v)
			return c != nil && strings.HasSuffix(calleeName(&c.Call), "fasthttp.Cookie).Path")
		}
		isReqPath := func(v ssa.Value) bool {
			p, ok := v.(*ssa.Parameter)
			return ok && p.Name() == "path"
		}
		a0, a1 := hp[0].Common.Args[0], hp[0].Common.Args[1]
		r.check(isReqPath(a0) && isCookiePath(a1), "getByHostAndPath:HasPrefix(requestPath,cookiePath)", r.pos(hp[0].Instr), "HasPrefix(request path, cookie path)",
			"the path filter is HasPrefix(cookie path, request path): a cookie with Path=/admin is returned for / and /ad but not for /admin/x")
	})

	r.rule("R3", "load–modify–store on the host map (E10)", func() {
		n := 0
		r.P.AllFuncs(cliPkg, func(f *ssa.Function) {
			if f.Signature.Recv() == nil || !strings.Contains(f.Signature.Recv().Type().String(), "CookieJar") {
				return
			}
			var loads []ssa.Value
			for _, in := range instrsWhere(f, func(in ssa.Instruction) bool {
				lk, ok := in.(*ssa.Lookup)
				return ok && loadOfField(lk.X, "client.CookieJar.hostCookies")
			}) {
				loads = append(loads, in.(ssa.Value))
			}
			if len(loads) == 0 {
				return
			}
			fromLoad := func(v ssa.Value) bool {
				return dependsOn(v, func(x ssa.Value) bool {
					for _, l := range loads {
						if x == l {
							return true
						}
						if e, ok := x.(*ssa.Extract); ok && e.Tuple == l {
							return true
						}
					}
					return false
				}) != nil
			}
			isStoreBack := func(in ssa.Instruction) bool {
				mu, ok := in.(*ssa.MapUpdate)
				return ok && loadOfField(mu.Map, "client.CookieJar.hostCookies")
			}
			funcs := append([]*ssa.Function{f}, anonFuncsDeep(f)...)
			// a change written as a shortening re-slice: x = x[:len(x)-k] (after the last element was moved elsewhere)
			for _, b := range f.Blocks {
				for _, in := range b.Instrs {
					sl, ok := in.(*ssa.Slice)
					if !ok || sl.High == nil || sl.Low != nil || !fromLoad(sl.X) {
						continue
					}
					bo, ok := sl.High.(*ssa.BinOp)
					if !ok || bo.Op != token.SUB {
						continue
					}
					if k, isInt := constInt(asConst(bo.Y)); !isInt || k < 1 {
						continue
					}
					if lc, ok := bo.X.(*ssa.Call); !ok || calleeName(&lc.Call) != "builtin:len" {
						continue
					}
					n++
					_, hit := reach(pointAfter(in), isReturn, nil, isStoreBack)
					r.check(hit == nil, f.Name()+":store-back-after-change", r.pos(in), "every path from the slice change to return stores the slice back into hostCookies",
						f.Name()+" shortens the host's cookie slice but does not store the result back: the jar keeps its old length, so a purged (pool-released) cookie object stays referenced and later shows up with another host's content")
				}
			}
			for _, fn := range funcs {
				for _, c := range callsMatching(fn, false, func(n string) bool { return n == "builtin:append" || strings.HasPrefix(n, "slices.Delete") }) {
					if !fromLoad(c.Common.Args[0]) && cellName(c.Common.Args[0]) == "" {
						continue
					}
					if fn != f {
						// modification inside a visitor closure: the enclosing function must store back after the visit
						n++
						stores := instrsWhere(f, isStoreBack)
						r.check(len(stores) > 0, f.Name()+":store-back-after-visitor", r.pos(c.Instr), "the slice changed inside the visitor is stored back by the enclosing function", f.Name()+" changes the host's cookie slice in a visitor but never stores it back")
						continue
					}
					n++
					_, hit := reach(pointAfter(c.Instr), isReturn, nil, isStoreBack)
					r.check(hit == nil, f.Name()+":store-back-after-change", r.pos(c.Instr), "every path from the slice change to return stores the slice back into hostCookies",
						f.Name()+" removes/appends elements of the host's cookie slice but does not store the result back: the jar keeps its old length, so a purged (pool-released) cookie object stays referenced and later shows up with another host's content")
				}
			}
		})
		r.atLeast("slice changes of a loaded host entry", n, 3)
	})

	r.rule("R4", "an element found by searching a slice is not appended to that slice again (E3/E1)", func() {
		f := r.Fn(cliPkg, "(*CookieJar).parseCookiesFromResp")
		n := 0
		for _, fn := range append([]*ssa.Function{f}, anonFuncsDeep(f)...) {
			for _, s := range callsMatching(fn, false, nameHasSuffix("client.searchCookieByKeyAndPath")) {
				for _, ap := range callsMatching(fn, false, nameIs("builtin:append")) {
					// appended element(s): the variadic slice built from an array holding the element
					elemDep := false
					for _, a := range ap.Common.Args[1:] {
						if dependsOn(a, func(v ssa.Value) bool { return v == s.Value() }) != nil {
							elemDep = true
						}
						if sl, ok := a.(*ssa.Slice); ok {
							if al, ok := sl.X.(*ssa.Alloc); ok {
								for _, st := range storesInto(al) {
									if dependsOn(st.Val, func(v ssa.Value) bool { return v == s.Value() }) != nil {
										elemDep = true
									}
								}
							}
						}
					}
					if !elemDep {
						continue
					}
					n++
					okNo := false
					for _, br := range ifsOnValue(fn, s.Value()) {
						if sl, ok := br.nilSlot(false); ok {
							_, hit := reachEdge(edge{br.If.Block(), sl}, func(in ssa.Instruction) bool { return in == ap.Instr }, nil, nil)
							okNo = hit == nil
						}
					}
					r.check(okNo, f.Name()+":found-element-not-reappended", r.pos(ap.Instr), "from the found edge the append is unreachable", "a cookie found in the jar is appended to the same slice again: every response that repeats a cookie duplicates it in the jar")
				}
			}
		}
		r.atLeast("search+append pairs", n, 1)
		// a cookie found in the jar (still referenced by the host's slice) is never released to the pool here
		nr := 0
		for _, fn := range append([]*ssa.Function{f}, anonFuncsDeep(f)...) {
			for _, s := range callsMatching(fn, false, nameHasSuffix("client.searchCookieByKeyAndPath")) {
				for _, rel := range callsMatching(fn, false, nameHasSuffix("fasthttp.ReleaseCookie")) {
					if dependsOn(rel.Common.Args[0], func(v ssa.Value) bool { return v == s.Value() }) == nil {
						continue
					}
					nr++
					okNo := false
					for _, br := range ifsOnValue(fn, s.Value()) {
						if sl, ok := br.nilSlot(false); ok {
							_, hit := reachEdge(edge{br.If.Block(), sl}, func(in ssa.Instruction) bool { return in == rel.Instr }, nil, nil)
							okNo = hit == nil
						}
					}
					r.check(okNo, f.Name()+":found-element-not-released", r.pos(rel.Instr), "from the found edge ReleaseCookie is unreachable (only cookies created here are released)",
						"a cookie found in the jar can be released to fasthttp's pool while the host's slice still references it: the next AcquireCookie anywhere reuses the object, so this host's slot becomes another host's cookie")
				}
			}
		}
		r.atLeast("search+release pairs", nr, 1)
	})

	r.rule("R5", "host-key normaliser agreement (E5)", func() {
		// does value v derive from net.SplitHostPort (directly or through a module helper that calls it)?
		// … or through a helper that separates the port itself: it cuts its argument at a ':' it searched for
		// (whether that cut is right for IPv6 literals is R12's question, not this rule's)
		cutsAtColon := func(fn *ssa.Function) bool {
			for _, b := range fn.Blocks {
				for _, in := range b.Instrs {
					sl, ok := in.(*ssa.Slice)
					if !ok || !isByteSeq(sl.X.Type()) {
						continue
					}
					for _, bound := range []ssa.Value{sl.Low, sl.High} {
						if bound != nil && dependsOn(bound, func(x ssa.Value) bool {
							c, ok := x.(*ssa.Call)
							if !ok || len(c.Call.Args) != 2 {
								return false
							}
							n := calleeName(&c.Call)
							if !strings.Contains(n, "Index") || !(strings.HasPrefix(n, "bytes.") || strings.HasPrefix(n, "strings.")) {
								return false
							}
							k, isInt := constInt(asConst(stripValue(c.Call.Args[1])))
							return (isInt && k == ':') || literalIs(c.Call.Args[1], ":")
						}) != nil {
							return true
						}
					}
				}
			}
			return false
		}
		callsSplit := func(fn *ssa.Function) bool {
			return fn != nil && len(fn.Blocks) > 0 && (len(callsMatching(fn, false, nameIs("net.SplitHostPort"))) > 0 || cutsAtColon(fn))
		}
		var normalised func(fn *ssa.Function, v ssa.Value, depth int) (bool, bool)
		normalised = func(fn *ssa.Function, v ssa.Value, depth int) (norm bool, decided bool) {
			if dependsOn(v, func(x ssa.Value) bool {
				c, ok := x.(*ssa.Call)
				if !ok {
					return false
				}
				if calleeName(&c.Call) == "net.SplitHostPort" {
					return true
				}
				return callsSplit(c.Call.StaticCallee())
			}) != nil {
				return true, true
			}
			// parameter: look at callers
			p := dependsOn(v, func(x ssa.Value) bool { _, ok := x.(*ssa.Parameter); return ok })
			if p != nil && depth > 0 {
				idx := -1
				for i, q := range fn.Params {
					if q == p {
						idx = i
					}
				}
				callers := g.Callers[fn]
				if idx >= 0 && len(callers) > 0 {
					all, any := true, false
					for _, c := range callers {
						nn, _ := normalised(c.Fn, c.Common.Args[idx], depth-1)
						all = all && nn
						any = any || nn
					}
					if all {
						return true, true
					}
					if !any {
						return false, true
					}
					return false, false
				}
			}
			return false, true
		}
		type site struct {
			fn   *ssa.Function
			in   ssa.Instruction
			norm bool
			kind string
		}
		var sites []site
		r.P.AllFuncs(cliPkg, func(f *ssa.Function) {
			for _, b := range f.Blocks {
				for _, in := range b.Instrs {
					var key ssa.Value
					kind := ""
					switch x := in.(type) {
					case *ssa.Lookup:
						if loadOfField(x.X, "client.CookieJar.hostCookies") {
							key, kind = x.Index, "read"
						}
					case *ssa.MapUpdate:
						if loadOfField(x.Map, "client.CookieJar.hostCookies") {
							key, kind = x.Key, "write"
						}
					}
					if key == nil {
						continue
					}
					nn, _ := normalised(f, key, 2)
					sites = append(sites, site{f, in, nn, kind})
				}
			}
		})
		r.atLeast("host map index sites", len(sites), 5)
		anyNorm := false
		for _, s := range sites {
			anyNorm = anyNorm || s.norm
		}
		ord := map[string]int{}
		for _, s := range sites {
			ord[s.fn.Name()+s.kind]++
			r.check(s.norm == anyNorm, fmt.Sprintf("hostCookies-key:%s:%s#%d", s.fn.Name(), s.kind, ord[s.fn.Name()+s.kind]), r.pos(s.in),
				fmt.Sprintf("key normalisation (port stripped=%v) agrees with the other sites", s.norm),
				fmt.Sprintf("%s indexes hostCookies with a key whose port is %s while other sites do the opposite: cookies stored for host:port are never found by lookups (which strip the port)", s.fn.Name(), map[bool]string{true: "stripped", false: "kept"}[s.norm]))
		}
	})

	r.rule("R19", "no map order reaches the wire: the request is a deterministic function of the configuration, so wherever the client package walks a Go map (Cookie, PathParam, …) it does not, inside that walk, call a visitor it was handed or write into the fasthttp request — the keys are collected and put in a fixed order first; a direct `for k, v := range m { f(k, v) }` makes the order of the cookies in the Cookie header line differ from one request to the next (E7 map order)", func() {
		nLoops, nBad := 0, 0
		r.P.AllFuncs("client", func(f *ssa.Function) {
			if p := f.Parent(); p != nil && strings.Contains(p.Signature.Results().String(), "iter.Seq") {
				return // an iterator handed to the caller (Cookies(), PathParams(), …): read access, not what is sent
			}
			for _, b := range f.Blocks {
				for _, in := range b.Instrs {
					nx, ok := in.(*ssa.Next)
					if !ok || nx.IsString {
						continue
					}
					rg, ok := nx.Iter.(*ssa.Range)
					if !ok {
						continue
					}
					if _, isMap := rg.X.Type().Underlying().(*types.Map); !isMap {
						continue
					}
					nLoops++
					// the loop body: blocks dominated by the successor taken while the iterator has elements
					var body *ssa.BasicBlock
					if iff, ok := b.Instrs[len(b.Instrs)-1].(*ssa.If); ok {
						_ = iff
						body = b.Succs[0]
					}
					if body == nil {
						continue
					}
					for _, bb := range f.Blocks {
						if bb != body && !dom(body, bb) {
							continue
						}
						for _, bi := range bb.Instrs {
							ci, ok := bi.(ssa.CallInstruction)
							if !ok {
								continue
							}
							cc := ci.Common()
							cn := calleeName(cc)
							callback := false
							switch cc.Value.(type) {
							case *ssa.Parameter, *ssa.FreeVar:
								callback = !cc.IsInvoke()
							}
							wire := strings.Contains(cn, "fasthttp.RequestHeader).") || strings.Contains(cn, "fasthttp.Request).") || strings.Contains(cn, "fasthttp.Args).") || strings.Contains(cn, "fasthttp.URI).")
							if callback || wire {
								nBad++
								what := "calls the visitor it was handed"
								if wire {
									what = "writes into the request (" + cn[strings.LastIndex(cn, ".")+1:] + ")"
								}
								r.bad(short(f.String())+":map-walk:fixed-order", r.pos(bi), "inside a walk over a Go map the function "+what+": the order of the pairs on the wire follows the map's iteration order, which Go randomises — eight request cookies give a different Cookie header line on almost every request")
							}
						}
					}
				}
			}
		})
		r.atLeast("walks over a Go map in the client package", nLoops, 2)
		if nBad == 0 {
			r.ok("map-walks:fixed-order", "", fmt.Sprintf("%d walks over a Go map; none calls a visitor or writes the request inside the walk", nLoops))
		}
	})

	r.rule("R18", "cookie names are compared byte for byte: `sid` and `SID` are two cookies (RFC 6265 §5.3 compares names exactly); nowhere in the jar is the name of a stored cookie (fasthttp.Cookie.Key) compared under case folding — a folded comparison makes the second name overwrite the first in place, the jar then returns one cookie where the server set two (E5: no fold on a Key())", func() {
		nExact, bad := 0, ""
		r.P.AllFuncs("client", func(f *ssa.Function) {
			for _, c := range callsIn(f, false) {
				onKey := false
				for _, a := range c.Common.Args {
					if dependsOn(a, func(v ssa.Value) bool {
						cc, ok := v.(*ssa.Call)
						return ok && strings.HasSuffix(calleeName(&cc.Call), "fasthttp.Cookie).Key")
					}) != nil {
						onKey = true
					}
				}
				if !onKey {
					continue
				}
				switch {
				case strings.Contains(c.Name, "EqualFold"), strings.Contains(c.Name, "ToLower"), strings.Contains(c.Name, "ToUpper"):
					bad = c.Name + " in " + short(f.String()) + " at " + r.pos(c.Instr)
				case c.Name == "bytes.Equal":
					nExact++
				}
			}
		})
		r.count("exact comparisons of a stored cookie name", nExact)
		r.check(bad == "", "jar:cookie-names-compared-exactly", "", fmt.Sprintf("%d exact comparisons of Cookie.Key(), no folded one", nExact),
			"a stored cookie's name is compared under case folding ("+bad+"): storing `SID` finds `sid` and overwrites it, key included — `sid=1` vanishes from the jar and the client sends one cookie where the server set two")
	})

	r.rule("R17", "a configured file name arrives: while a request is prepared, a File's name is written only where it was empty — parserRequestBodyFile (and whatever it calls) assigns File.name only behind the test name == \"\"; a name derived from the path replaces none that SetFileName / AddFileWithReader configured (E1 guard on the overwritten value)", func() {
		f := r.Fn("client", "parserRequestBodyFile")
		n := 0
		var emptyEdges []edge
		for _, br := range branchesIn(f) {
			if fv := fieldOfValue(stripValue(br.Info.Root)); fv != nil && fv.Name() == "name" && br.Info.Const != nil {
				if str, ok := constString(br.Info.Const); ok && str == "" {
					if sl, ok := br.slotFor(token.EQL); ok {
						emptyEdges = append(emptyEdges, edge{br.If.Block(), sl})
					}
				}
			}
		}
		for _, fr := range fieldRefs(f) {
			if !fr.Write || !strings.HasSuffix(fr.Name, "File.name") {
				continue
			}
			n++
			guarded := false
			for _, e := range emptyEdges {
				if e.To() == fr.Instr.Block() || dom(e.To(), fr.Instr.Block()) {
					// the edge's target must be entered only through that edge
					if len(e.To().Preds) == 1 {
						guarded = true
					}
				}
			}
			r.check(guarded, fmt.Sprintf("parserRequestBodyFile:name-store#%d:only-when-empty", n), r.pos(fr.Instr), "the name is derived only for a file that has none",
				"a file's configured name is overwritten while the request is prepared (the store is not behind name == \"\"): SetFilePath(\"/tmp/upload-8f3a.tmp\") with SetFileName(\"report.txt\") arrives at the server as upload-8f3a.tmp")
		}
		r.atLeast("stores to File.name while preparing the body", n, 1)
	})

	r.rule("R16", "a request whose Send failed is still the caller's: nothing the client runs while executing a request — (*core).execute, execFunc, the hooks, and what they call, ReleaseResponse included — reaches ReleaseRequest or (*Request).Reset; the only one who gives a Request back is its owner (Response.Close, ReleaseRequest called by the user) — a request released on the error path comes back from Send reset to the defaults (client, headers, params, cookies, timeout gone) and is shared through the pool with the next AcquireRequest, a retry then sends something else than what was configured (E2 who-may-call over the call graph)", func() {
		var roots []*ssa.Function
		for _, n := range []string{"(*core).execute", "(*core).execFunc", "(*core).preHooks", "(*core).afterHooks", "ReleaseResponse"} {
			if f := r.FnOpt("client", n); f != nil {
				roots = append(roots, f)
			}
		}
		r.need(len(roots) >= 3, "the client's execution entry points")
		chain := reachesCall(roots, func(n string) bool {
			return strings.HasSuffix(n, "/client.ReleaseRequest") || strings.HasSuffix(n, "client.Request).Reset")
		}, func(g *ssa.Function) bool { return g.Pkg != nil && strings.HasSuffix(g.Pkg.Pkg.Path(), "/client") })
		r.check(chain == nil, "execute:never-releases-the-caller's-request", r.fpos(roots[0]), fmt.Sprintf("none of %d entry points reaches ReleaseRequest or Request.Reset", len(roots)),
			"executing a request can release or reset the caller's Request ("+strings.Join(chain, " → ")+"): after a failed or timed-out Send the request has lost its client, headers, params, cookies and timeout, and the pool hands the same object to the next AcquireRequest")
		// the owner's path exists: Close gives both back
		cl := r.Fn("client", "(*Response).Close")
		r.check(len(callsMatching(cl, false, nameHasSuffix("/client.ReleaseRequest"))) >= 1, "Response.Close:releases-the-request", r.fpos(cl), "Close releases the attached request", "Response.Close no longer releases the attached request (the documented owner-side release)")
	})

	r.rule("R12", "the port is separated from a host by a port-aware split: the client package cuts a host at a ':' only through net.SplitHostPort or in a function that looks at the closing bracket of an IPv6 literal (E1, belief rule)", func() {
		hostColonCutRule(r, cliPkg, 1, "so [2001:db8::1] and [2001:db8::2] share the jar key [2001:db8: and each receives the other's cookies")
	})

	r.rule("R15", "the jar stores and looks up under the same spelling of the host: every key of CookieJar.hostCookies — written or looked up — is derived the same way, through net.SplitHostPort (which also takes the brackets off an IPv6 literal) or on every side without it; a hand-written split on one side files `[::1]:8080` under `[::1]` while the lookup asks for `::1` (E5, writer and reader agree)", func() {
		type site struct {
			pos  string
			kind string
		}
		var sites []site
		var keys []ssa.Value
		viaSplit := func(key ssa.Value) bool {
			return dependsOn(key, func(v ssa.Value) bool {
				c, ok := v.(*ssa.Call)
				return ok && calleeName(&c.Call) == "net.SplitHostPort"
			}) != nil
		}
		r.P.AllFuncs(cliPkg, func(f *ssa.Function) {
			for _, b := range f.Blocks {
				for _, in := range b.Instrs {
					var m, key ssa.Value
					switch x := in.(type) {
					case *ssa.MapUpdate:
						m, key = x.Map, x.Key
					case *ssa.Lookup:
						m, key = x.X, x.Index
					default:
						continue
					}
					if !loadOfField(m, "client.CookieJar.hostCookies") {
						continue
					}
					sites = append(sites, site{r.pos(in), ""})
					keys = append(keys, key)
				}
			}
		})
		// (classified outside the enumeration: following a key through helpers needs the region mode)
		for i := range sites {
			sites[i].kind = "as handed in / a hand-written cut"
			if viaSplit(keys[i]) {
				sites[i].kind = "net.SplitHostPort"
			}
		}
		r.atLeast("reads and writes of the jar's host map", len(sites), 4)
		kinds := map[string][]string{}
		for _, s := range sites {
			kinds[s.kind] = append(kinds[s.kind], s.pos)
		}
		var desc []string
		for _, k := range sortedKeys(kinds) {
			desc = append(desc, k+": "+strings.Join(kinds[k], ", "))
		}
		r.check(len(kinds) == 1, "CookieJar:one-spelling-of-the-host-key", "", "all keys of the host map are derived the same way ("+strings.Join(desc, "; ")+")",
			"the jar's host keys are derived in different ways ("+strings.Join(desc, "; ")+"): a cookie received from http://[::1]:8080/ is filed under another key than the one the next request to that URL looks up — the session cookie is not sent back")
	})

	r.rule("R14", "a User-Agent or Referer configured as a header arrives: in parserRequestHeader the default user agent is written before the configured headers are merged (so they replace it), and the user agent / referer of a level is written only when that level set one — an unconditional write after the merge replaces what SetHeader(\"User-Agent\", …) configured (E10 order, E1 guard)", func() {
		f := r.Fn(cliPkg, "parserRequestHeader")
		var merges []ssa.Instruction
		for _, field := range []string{"client.Client.header", "client.Request.header"} {
			for _, c := range callsIn(f, false) {
				if strings.HasSuffix(c.Name, ").VisitAll") && len(c.Common.Args) > 0 && dependsOn(c.Common.Args[0], func(v ssa.Value) bool { return loadOfField(v, field) }) != nil {
					merges = append(merges, c.Instr)
				}
			}
		}
		r.need(len(merges) == 2, "parserRequestHeader merges the client's and the request's headers")
		n := 0
		for _, c := range callsIn(f, false) {
			isUA := strings.HasSuffix(c.Name, "RequestHeader).SetUserAgent") || strings.HasSuffix(c.Name, "RequestHeader).SetUserAgentBytes")
			isRef := strings.HasSuffix(c.Name, "RequestHeader).SetReferer") || strings.HasSuffix(c.Name, "RequestHeader).SetRefererBytes")
			if !isUA && !isRef {
				continue
			}
			n++
			what := "User-Agent"
			if isRef {
				what = "Referer"
			}
			val := c.Common.Args[len(c.Common.Args)-1]
			key := fmt.Sprintf("parserRequestHeader:%s#%d:does-not-replace-a-configured-header", what, n)
			isDefault := asConst(stripValue(val)) != nil
			if ld, isLd := stripValue(val).(*ssa.UnOp); isLd && ld.Op == token.MUL {
				_, isDefault = ld.X.(*ssa.Global) // a package-level default (`defaultUserAgent`)
			}
			if isDefault {
				ok := true
				for _, m := range merges {
					if !precedes(c.Instr, m) {
						ok = false
					}
				}
				r.check(ok, key, r.pos(c.Instr), "the constant (default) value is written before the configured headers are merged",
					"the default "+what+" is written after the configured headers were merged: `SetHeader(\""+what+"\", \"custom/1\")` on a request or client arrives as the default")
				continue
			}
			// a level's own value: written only when that level configured one
			guarded := false
			lenOfVal := func(x ssa.Value) bool {
				lc, ok := x.(*ssa.Call)
				if !ok || len(lc.Call.Args) != 1 {
					return false
				}
				bi, ok := lc.Call.Value.(*ssa.Builtin)
				return ok && bi.Name() == "len" && sameValue(lc.Call.Args[0], val)
			}
			for _, br := range branchesIn(f) {
				if !sameValue(br.Info.Root, val) && !lenOfVal(br.Info.Root) {
					continue
				}
				var slot int
				var okSlot bool
				if str, isStr := constString(br.Info.Const); isStr && str == "" {
					slot, okSlot = br.slotFor(token.NEQ)
				} else if k, isK := constInt(br.Info.Const); isK && k == 0 && lenOfVal(br.Info.Root) {
					switch br.Info.Op {
					case token.NEQ, token.GTR:
						slot, okSlot = br.slotWhenRel(true), true
					case token.EQL:
						slot, okSlot = br.slotWhenRel(false), true
					}
				}
				if okSlot && dom(br.If.Block().Succs[slot], c.Block()) {
					guarded = true
				}
			}
			r.check(guarded, key, r.pos(c.Instr), "written only behind a test that the level configured a value",
				"the "+what+" of a level is written whether or not that level configured one: an empty value erases what `SetHeader(\""+what+"\", …)` configured — the header does not arrive")
		}
		r.atLeast("User-Agent / Referer writes in parserRequestHeader", n, 2)
	})

	r.rule("R13", "the request URL is cut into path, query and fragment at the first `?` / `#` only: a cut that splits at every separator and keeps two pieces drops what follows a second one (E3)", func() {
		u := r.Fn(cliPkg, "parserRequestURL")
		n := 0
		for _, c := range callsIn(u, false) {
			switch c.Name {
			case "strings.Split", "strings.SplitN", "strings.Cut", "strings.Index", "strings.IndexByte", "strings.SplitAfterN":
			default:
				continue
			}
			sep, ok := resolveLiteral(r, c.Common.Args[1], 0)
			if !ok {
				if k, isInt := constInt(asConst(stripValue(c.Common.Args[1]))); isInt {
					sep, ok = string(rune(k)), true
				}
			}
			if !ok || (sep != "?" && sep != "#") {
				continue
			}
			n++
			first := c.Name != "strings.Split"
			if c.Name == "strings.SplitN" || c.Name == "strings.SplitAfterN" {
				k, isInt := constInt(asConst(c.Common.Args[2]))
				first = isInt && k == 2
			}
			r.check(first, fmt.Sprintf("parserRequestURL:cut-at-%q#%d:first-only", sep, n), r.pos(c.Instr), "the URL is cut at the first separator",
				fmt.Sprintf("the URL is split at every %q and only the first two pieces are used: in /p?a=b?c&d=e the query sent is a=b — `c&d=e` configured on the request never arrives", sep))
		}
		r.atLeast("cuts of the URL at ? / #", n, 2)
	})

	r.rule("R9", "keys stored into the host map are private copies (E3): a map assignment replaces the stored key string", func() {
		var fresh func(v ssa.Value, d int) bool
		fresh = func(v ssa.Value, d int) bool {
			if d > 6 {
				return false
			}
			switch x := v.(type) {
			case *ssa.Convert:
				_, fromSlice := x.X.Type().Underlying().(*types.Slice)
				return fromSlice // string(b) copies
			case *ssa.Call:
				n := calleeName(&x.Call)
				return strings.HasSuffix(n, "utils/v2.CopyString") || n == "strings.Clone" || strings.HasPrefix(n, "fmt.Sprint") || strings.HasPrefix(n, "strconv.")
			case *ssa.BinOp:
				return x.Op == token.ADD // concatenation allocates
			case *ssa.Const:
				return true
			case *ssa.Phi:
				for _, e := range x.Edges {
					if !fresh(e, d+1) {
						return false
					}
				}
				return true
			}
			return false
		}
		n := 0
		ord := map[string]int{}
		r.P.AllFuncs(cliPkg, func(f *ssa.Function) {
			for _, in := range instrsWhere(f, func(in ssa.Instruction) bool {
				mu, ok := in.(*ssa.MapUpdate)
				return ok && loadOfField(mu.Map, "client.CookieJar.hostCookies")
			}) {
				mu := in.(*ssa.MapUpdate)
				n++
				ord[f.Name()]++
				r.check(fresh(mu.Key, 0), fmt.Sprintf("hostCookies-store-key:%s#%d", f.Name(), ord[f.Name()]), r.pos(in), "the key is a private copy (string(b) / CopyString)",
					f.Name()+" assigns hostCookies[k] with a key that may be a view of the caller's buffer (utils.UnsafeString): Go replaces the stored key on assignment, so when the buffer is reused (pooled requests) the entry's key changes in place — cookies stored for a.example are no longer found, or surface under another host")
			}
		})
		r.atLeast("host map stores", n, 3)
	})

	r.rule("R6", "jar state only under its mutex (E2)", func() {
		n := 0
		ord6 := map[string]int{}
		exemptFn := map[string]string{"Release": "owner's own release of a pooled jar (no concurrent users by contract)"}
		r.P.AllFuncs(cliPkg, func(f *ssa.Function) {
			top := f
			for top.Parent() != nil {
				top = top.Parent()
			}
			if top.Signature.Recv() == nil || !strings.Contains(top.Signature.Recv().Type().String(), "CookieJar") {
				return
			}
			var ls *lockResult
			for _, fr := range fieldRefs(f) {
				if fr.Name != "client.CookieJar.hostCookies" {
					continue
				}
				// bare nil comparison of the map is exempt (no behavioural witness)
				if !fr.Write && fr.Val != nil {
					onlyNil := true
					for _, ref := range *fr.Val.Referrers() {
						bo, ok := ref.(*ssa.BinOp)
						if !ok || !(bo.Op == token.EQL || bo.Op == token.NEQ) || !(constIsNil(asConst(bo.X)) || constIsNil(asConst(bo.Y))) {
							onlyNil = false
						}
					}
					if onlyNil {
						continue
					}
				}
				n++
				kk := top.Name() + map[bool]string{true: "write", false: "read"}[fr.Write]
				ord6[kk]++
				key := fmt.Sprintf("%s:hostCookies-%s#%d", top.Name(), map[bool]string{true: "write", false: "read"}[fr.Write], ord6[kk])
				if why, ok := exemptFn[top.Name()]; ok {
					r.ok(key, r.pos(fr.Instr), "exempt: "+why)
					continue
				}
				var held bool
				if f == top {
					if ls == nil {
						ls = locksets(f, lockState{}, nil)
					}
					held = ls.Before[fr.Instr].holds("param:cj.mu")
				} else {
					// closure (visitor) runs synchronously inside its parent's critical section: check the creation site
					tl := locksets(top, lockState{}, nil)
					for _, b := range top.Blocks {
						for _, in := range b.Instrs {
							if mc, ok := in.(*ssa.MakeClosure); ok && mc.Fn == f {
								held = tl.Before[in].holds("param:cj.mu")
							}
						}
					}
				}
				r.check(held, key, r.pos(fr.Instr), "cj.mu held", "the host map is accessed without the jar mutex")
			}
		})
		r.atLeast("host map accesses", n, 6)
	})

	r.rule("R7", "response ownership in execFunc (E11): release only after the completion was received or the hand-off flag was won", func() {
		f := r.Fn(cliPkg, "(*core).execFunc")
		var sel *ssa.Select
		for _, in := range instrsWhere(f, func(in ssa.Instruction) bool { _, ok := in.(*ssa.Select); return ok }) {
			sel = in.(*ssa.Select)
		}
		r.need(sel != nil && len(sel.States) == 2, "execFunc selects on two channels")
		// the goroutine takes the flag with CAS before it touches resp / errCh
		var gor *ssa.Function
		for _, in := range instrsWhere(f, func(in ssa.Instruction) bool { _, ok := in.(*ssa.Go); return ok }) {
			if mc, ok := in.(*ssa.Go).Call.Value.(*ssa.MakeClosure); ok {
				gor = mc.Fn.(*ssa.Function)
			}
		}
		r.need(gor != nil, "execFunc spawns a goroutine closure")
		cas := callsMatching(gor, false, nameIs("sync/atomic.CompareAndSwapInt32"))
		r.need(len(cas) == 1, "the goroutine takes the completion flag with one CAS")
		cutG := map[edge]bool{}
		for _, br := range ifsOnValue(gor, cas[0].Value()) {
			if s, ok := br.truthSlot(true); ok {
				cutG[edge{br.If.Block(), s}] = true
			}
		}
		touches := func(in ssa.Instruction) bool {
			if s, ok := in.(*ssa.Send); ok {
				return cellName(s.Chan) == "errCh"
			}
			if ci, ok := in.(ssa.CallInstruction); ok && strings.HasSuffix(calleeName(ci.Common()), "fasthttp.Response).CopyTo") {
				return true
			}
			return false
		}
		_, hit := reach(entryOf(gor), touches, cutG, nil)
		r.check(len(cutG) > 0 && hit == nil, "execFunc$goroutine:touches-shared-only-after-CAS", r.fpos(gor), "the goroutine writes resp / sends on errCh only after winning the flag", "the goroutine can write the shared response or channel without owning the completion flag")
		// spawner side: on the non-receive arm, release needs CAS-won or a receive
		var otherArm []edge
		for _, br := range branchesIn(f) {
			if e, ok := stripValue(br.Info.Root).(*ssa.Extract); ok && e.Tuple == sel && e.Index == 0 {
				// index == k: find which state is the errCh receive
				k, okK := constInt(br.Info.Const)
				if !okK {
					continue
				}
				isRecvErr := int(k) < len(sel.States) && cellName(sel.States[int(k)].Chan) == "errCh"
				s, ok2 := br.slotFor(token.EQL)
				if !ok2 {
					continue
				}
				if isRecvErr {
					otherArm = append(otherArm, edge{br.If.Block(), 1 - s})
				} else {
					otherArm = append(otherArm, edge{br.If.Block(), s})
				}
			}
		}
		r.need(len(otherArm) >= 1, "select arms are distinguished by index")
		isRelease := func(in ssa.Instruction) bool {
			return isCallTo(in, nameHasSuffix("client.ReleaseResponse")) || isReturn(in) // return runs the deferred releaseErrChan
		}
		cut := map[edge]bool{}
		for _, c := range callsMatching(f, false, nameIs("sync/atomic.CompareAndSwapInt32")) {
			for _, br := range ifsOnValue(f, c.Value()) {
				if s, ok := br.truthSlot(true); ok {
					cut[edge{br.If.Block(), s}] = true
				}
			}
		}
		isRecv := func(in ssa.Instruction) bool {
			u, ok := in.(*ssa.UnOp)
			return ok && u.Op == token.ARROW && cellName(u.X) == "errCh"
		}
		okOwn := true
		wit := ""
		for _, e := range otherArm {
			// only the arm that is not the errCh receive
			path, hit := reachEdge(e, isRelease, cut, isRecv)
			if hit != nil {
				// is this really the ctx.Done arm? (the receive arm reaches releases legitimately: it already received)
				okOwn = false
				wit = pathString(r.P, path) + " → " + r.pos(hit)
			}
		}
		// the receive arm is fine by construction; filter: keep only arms from which the select's errCh value is not used
		r.check(okOwn, "execFunc:release-needs-receive-or-flag", r.pos(sel), "on the cancellation arm resp/errCh are released only after winning the flag (CAS) or receiving the goroutine's completion",
			"on the ctx.Done() arm the response and the error channel are released although the goroutine may already own them (it won the flag and is about to copy into resp and send on errCh): a recycled Response/channel then receives another request's data — "+wit)
	})

	r.rule("R8", "pooled Request / Response / File are completely reset (E4a)", func() {
		for _, spec := range []struct {
			typ   string
			fns   []string
			allow map[string]string
			min   int
		}{
			{"Request", []string{"(*Request).Reset"}, nil, 18},
			{"Response", []string{"(*Response).Reset"}, nil, 4},
			{"File", []string{"(*File).Reset"}, nil, 4},
		} {
			wr, st, f := poolReset(r, cliPkg, spec.typ, spec.fns)
			r.atLeast(spec.typ+" fields", st.NumFields(), spec.min)
			for i := 0; i < st.NumFields(); i++ {
				n := "client." + spec.typ + "." + st.Field(i).Name()
				if why, ok := spec.allow[n]; ok {
					r.ok("pool-reset:"+n, r.fpos(f), "allow-listed: "+why)
					continue
				}
				r.check(wr[n], "pool-reset:"+n, r.fpos(f), "reset on release", n+" survives ReleaseRequest/Acquire: the next owner of the pooled object silently inherits it (e.g. an acquired Request keeps sending through the previous owner's Client)")
			}
		}
		for _, rel := range []string{"ReleaseRequest", "ReleaseResponse", "ReleaseFile"} {
			f := r.Fn(cliPkg, rel)
			rs := callsMatching(f, false, nameHasSuffix(").Reset"))
			ps := callsMatching(f, false, nameIs("(*sync.Pool).Put"))
			r.check(len(rs) == 1 && len(ps) == 1 && precedes(rs[0].Instr, ps[0].Instr), rel+":reset-before-put", r.fpos(f), "Reset precedes Put", "an object can be put back into the pool without being reset")
		}
	})

	r.rule("R10", "removing the current element of a forward index loop steps the index back, so the element that moved into the slot is examined too (E10)", func() {
		n := 0
		r.P.AllFuncs(cliPkg, func(f *ssa.Function) {
			type removal struct {
				at  ssa.Instruction
				idx ssa.Value
			}
			var rems []removal
			// removal by overwriting: slot i receives another element of the same slice (swap with the last one)
			for _, b := range f.Blocks {
				for _, in := range b.Instrs {
					st, ok := in.(*ssa.Store)
					if !ok {
						continue
					}
					dst, ok := st.Addr.(*ssa.IndexAddr)
					if !ok {
						continue
					}
					ld, ok := st.Val.(*ssa.UnOp)
					if !ok || ld.Op != token.MUL {
						continue
					}
					src, ok := ld.X.(*ssa.IndexAddr)
					if !ok || !sameValue(src.X, dst.X) || sameValue(src.Index, dst.Index) {
						continue
					}
					if _, isSlice := dst.X.Type().Underlying().(*types.Slice); !isSlice {
						continue
					}
					rems = append(rems, removal{in, dst.Index})
				}
			}
			for _, c := range callsIn(f, false) {
				var idx ssa.Value
				switch {
				case c.Name == "builtin:append" && len(c.Common.Args) == 2:
					a, ok1 := c.Common.Args[0].(*ssa.Slice)
					b, ok2 := c.Common.Args[1].(*ssa.Slice)
					if !ok1 || !ok2 || a.High == nil || b.Low == nil || a.Low != nil || b.High != nil || !sameValue(a.X, b.X) {
						continue
					}
					v, k := splitOffset(b.Low)
					if k != 1 || v != a.High {
						continue
					}
					idx = a.High
				case strings.HasPrefix(c.Name, "slices.Delete") && len(c.Common.Args) == 3:
					v, k := splitOffset(c.Common.Args[2])
					if k != 1 || v != c.Common.Args[1] {
						continue
					}
					idx = c.Common.Args[1]
				default:
					continue
				}
				rems = append(rems, removal{c.Instr, idx})
			}
			for _, rm := range rems {
				idx := rm.idx
				c := struct {
					Instr ssa.Instruction
				}{rm.at}
				ph, ok := idx.(*ssa.Phi)
				if !ok {
					continue // not a loop index (e.g. an index found by a search, followed by return/break)
				}
				// forward loop: some edge of the phi is (…)+1
				var back ssa.Value
				for _, e := range ph.Edges {
					if bo, ok := e.(*ssa.BinOp); ok && bo.Op == token.ADD && isConstInt(bo.Y, 1) {
						back = bo.X
					}
				}
				if back == nil {
					continue
				}
				// does the loop continue after the removal? (a removal followed by return/break needs no step back)
				if _, hit := reach(pointAfter(c.Instr), func(in ssa.Instruction) bool { return in.Block() == ph.Block() }, nil, nil); hit == nil {
					continue
				}
				n++
				stepsBack := dependsOn(back, func(v ssa.Value) bool {
					bo, ok := v.(*ssa.BinOp)
					return ok && bo.Op == token.SUB && bo.X == ssa.Value(ph) && isConstInt(bo.Y, 1) && (dom(c.Instr.Block(), bo.Block()) || bo.Block() == c.Instr.Block())
				}) != nil
				r.check(stepsBack, fmt.Sprintf("%s:remove-at-index#%d:steps-back", short(f.String()), n), r.pos(c.Instr), "after the removal the index is decremented before the loop increments it",
					"the element at index i is removed and the loop goes on to i+1: the element that moved into slot i is never examined — of two adjacent expired cookies the second stays in the jar and keeps being sent")
			}
		})
		r.atLeast("in-loop removals", n, 1)
	})

	r.rule("R11", "the request URL is a function of the configuration, not of map order: path parameters are substituted one after the other (order matters when one name prefixes another), so their visitor does not call back from inside a map iteration (E7)", func() {
		u := r.Fn(cliPkg, "parserRequestURL")
		// the substitution is order-dependent: each step rewrites the result of the previous one
		orderDependent := false
		for _, a := range anonFuncsDeep(u) {
			for _, c := range callsMatching(a, false, nameIs("strings.ReplaceAll", "strings.Replace")) {
				if cellName(c.Common.Args[0]) != "" || dependsOn(c.Common.Args[0], func(v ssa.Value) bool { _, ok := v.(*ssa.FreeVar); return ok }) != nil {
					orderDependent = true
				}
			}
		}
		// a value is substituted once: rewriting the result of the previous step again lets a value that contains
		// `:name` of a later parameter be replaced a second time — the parameters are replaced in one simultaneous pass
		usesReplacer := len(callsMatching(u, true, nameIs("strings.NewReplacer"))) > 0
		r.check(!orderDependent, "parserRequestURL:simultaneous-substitution", r.fpos(u), "the path parameters are replaced in one pass over the URL (no step rewrites the result of another)",
			"each path parameter is substituted into the result of the previous substitution: with {name: \":id\", id: \"7\"} the URL /u/:name is sent as /u/7, not /u/:id — a configured value does not arrive as configured")
		if !orderDependent && !usesReplacer {
			r.ok("PathParam.VisitAll:ordered", r.fpos(u), "path parameters are not substituted by successive rewriting")
			return
		}
		v := firstFn(r, cliPkg, "(PathParam).VisitAll", "(*PathParam).VisitAll")
		bad := ""
		for _, mr := range mapRangesIn(v) {
			for _, c := range callsIn(v, false) {
				if _, isParam := c.Common.Value.(*ssa.Parameter); isParam && mr.Loop[c.Block()] {
					bad = r.pos(c.Instr)
				}
			}
		}
		// … and the order they are put into is total on distinct keys: the comparator looks at the keys themselves,
		// not only at a quantity several keys share (their length) — ties would keep the map's order
		total, sorts := false, 0
		isStr := func(v ssa.Value) bool {
			b, ok := v.Type().Underlying().(*types.Basic)
			return ok && b.Info()&types.IsString != 0
		}
		comparesStrings := func(g *ssa.Function) bool {
			for _, b := range g.Blocks {
				for _, in := range b.Instrs {
					switch x := in.(type) {
					case *ssa.BinOp:
						if (x.Op == token.LSS || x.Op == token.GTR || x.Op == token.LEQ || x.Op == token.GEQ) && isStr(x.X) {
							return true
						}
					case *ssa.Call:
						n := calleeName(&x.Call)
						if n == "strings.Compare" || (strings.HasPrefix(n, "cmp.Compare") && len(x.Call.Args) == 2 && isStr(x.Call.Args[0])) {
							return true
						}
					}
				}
			}
			return false
		}
		for _, c := range callsIn(v, false) {
			switch {
			case c.Name == "sort.Strings", strings.HasPrefix(c.Name, "slices.Sort["), c.Name == "slices.Sort":
				sorts++
				total = true
			case c.Name == "sort.Slice", c.Name == "sort.SliceStable", strings.HasPrefix(c.Name, "slices.SortFunc"), strings.HasPrefix(c.Name, "slices.SortStableFunc"):
				sorts++
				for _, a := range c.Common.Args {
					if mc, ok := a.(*ssa.MakeClosure); ok && comparesStrings(mc.Fn.(*ssa.Function)) {
						total = true
					}
					if fn, ok := a.(*ssa.Function); ok && comparesStrings(fn) {
						total = true
					}
				}
			}
		}
		r.check(sorts > 0 && total, "PathParam.VisitAll:total-order", r.fpos(v), "the keys are sorted with a comparator that compares the keys themselves",
			"the path parameters are visited in an order that leaves keys of equal length in map order: with {ns: \"acme:id\", id: \"7\"} on /api/:ns/items/:id the URL is /api/acme:id/items/7 or /api/acme7/items/7 from one call to the next")
		// … over the parameters of both levels at once: two passes, each ordered on its own, let a short name of the
		// first pass pre-empt a longer name of the second
		passes := 0
		for _, c := range callsIn(u, false) {
			if !strings.HasSuffix(c.Name, "PathParam).VisitAll") {
				continue
			}
			for _, a := range c.Common.Args {
				if mc, ok := a.(*ssa.MakeClosure); ok && (len(callsMatching(mc.Fn.(*ssa.Function), false, nameIs("strings.ReplaceAll", "strings.Replace"))) > 0 || (usesReplacer && len(callsMatching(mc.Fn.(*ssa.Function), false, nameIs("builtin:append"))) > 0)) {
					passes++
				}
			}
		}
		r.check(passes == 1, "parserRequestURL:one-ordered-pass", r.fpos(u), "the path parameters of the client and of the request are substituted in one ordered pass",
			fmt.Sprintf("path parameters are substituted in %d passes (request level, then client level), each ordered longest-name-first on its own: a request-level :id is replaced before the client-level :idx is looked at — client {idx: 2} + request {id: 1} on /u/:idx sends /u/1x", passes))
		r.check(bad == "", "PathParam.VisitAll:ordered", r.fpos(v), "the callback is not invoked from inside a map iteration (keys are collected and ordered first)",
			"path parameters are handed to the substitution in map-iteration order ("+bad+"): with the names id and idx, /u/:idx becomes /u/2 or /u/1x from one call to the next — the request is not a deterministic function of the configuration")
	})
}

func lvl(client bool) string {
	if client {
		return "client"
	}
	return "request"
}

// selectsRequestFirst: f calls the setter once with a phi that carries the request-level field on
// some edge and the client-level field only on edges that cannot be taken while the request-level
// field is non-empty.
func selectsRequestFirst(f *ssa.Function, setter, cfield, rfield string) bool {
	var calls []callSite
	for _, c := range callsMatching(f, false, nameHasSuffix(setter)) {
		// (a write of the package default — a constant or a package-level variable — is not a level's value)
		v := stripValue(c.Common.Args[len(c.Common.Args)-1])
		if asConst(v) != nil {
			continue
		}
		if ld, ok := v.(*ssa.UnOp); ok && ld.Op == token.MUL {
			if _, isG := ld.X.(*ssa.Global); isG {
				continue
			}
		}
		calls = append(calls, c)
	}
	if len(calls) != 1 {
		return false
	}
	arg := calls[0].Common.Args[len(calls[0].Common.Args)-1]
	// edges on which rfield is known to be empty
	cut := map[edge]bool{}
	for _, br := range branchesIn(f) {
		if !loadOfField(br.Info.Root, rfield) {
			continue
		}
		if str, ok := constString(br.Info.Const); ok && str == "" {
			if sl, ok := br.slotFor(token.EQL); ok {
				cut[edge{br.If.Block(), sl}] = true
			}
		}
	}
	if len(cut) == 0 {
		return false
	}
	live := blocksReachable(f.Blocks[0], cut, nil)
	sawReq, okClient := false, true
	seen := map[*ssa.Phi]bool{}
	var walk func(v ssa.Value, pred, at *ssa.BasicBlock)
	walk = func(v ssa.Value, pred, at *ssa.BasicBlock) {
		if ph, ok := v.(*ssa.Phi); ok {
			if seen[ph] {
				return
			}
			seen[ph] = true
			for i, e := range ph.Edges {
				walk(e, ph.Block().Preds[i], ph.Block())
			}
			return
		}
		if loadOfField(v, rfield) {
			sawReq = true
			return
		}
		if loadOfField(v, cfield) {
			if pred == nil {
				okClient = false
				return
			}
			// can the edge pred→at be taken while rfield is non-empty?
			slot := -1
			for i, sc := range pred.Succs {
				if sc == at {
					slot = i
				}
			}
			if live[pred] && slot >= 0 && !cut[edge{pred, slot}] {
				okClient = false
			}
		}
	}
	walk(arg, nil, nil)
	return sawReq && okClient
}

// hostColonCutRule: in pkg a host is cut at a ':' only through net.SplitHostPort or in a function that looks at the
// bracket of an IPv6 literal.
func hostColonCutRule(r *Run, pkg string, minAware int, consequence string) {
	isColon := func(v ssa.Value) bool {
		c := asConst(stripValue(v))
		if c == nil {
			return false
		}
		if k, ok := constInt(c); ok && k == ':' {
			return true
		}
		s, ok := constString(c)
		return ok && s == ":"
	}
	isColonSearch := func(x ssa.Value) bool {
		c, ok := x.(*ssa.Call)
		if !ok || len(c.Call.Args) != 2 {
			return false
		}
		switch calleeName(&c.Call) {
		case "bytes.IndexByte", "bytes.LastIndexByte", "strings.IndexByte", "strings.LastIndexByte", "bytes.Index", "bytes.LastIndex", "strings.Index", "strings.LastIndex":
			return isColon(c.Call.Args[1]) || literalIs(c.Call.Args[1], ":")
		}
		return false
	}
	aware, cuts := 0, 0
	r.P.AllFuncs(pkg, func(f *ssa.Function) {
		aware += len(callsMatching(f, false, nameIs("net.SplitHostPort")))
		looksAtBracket := false
		for _, b := range f.Blocks {
			for _, in := range b.Instrs {
				if bo, ok := in.(*ssa.BinOp); ok && (bo.Op == token.EQL || bo.Op == token.NEQ) {
					for _, o := range []ssa.Value{bo.X, bo.Y} {
						if k, ok := constInt(asConst(stripValue(o))); ok && (k == ']' || k == '[') {
							looksAtBracket = true
						}
					}
				}
				if c, ok := in.(*ssa.Call); ok {
					for _, a := range c.Call.Args {
						if k, ok := constInt(asConst(stripValue(a))); ok && k == ']' {
							looksAtBracket = true
						}
						if literalIs(a, "]") {
							looksAtBracket = true
						}
					}
				}
			}
		}
		for _, b := range f.Blocks {
			for _, in := range b.Instrs {
				sl, ok := in.(*ssa.Slice)
				if !ok || !isByteSeq(sl.X.Type()) {
					continue
				}
				for _, bound := range []ssa.Value{sl.Low, sl.High} {
					if bound == nil || dependsOn(bound, isColonSearch) == nil {
						continue
					}
					cuts++
					if looksAtBracket {
						aware++
					}
					r.check(looksAtBracket, fmt.Sprintf("%s:colon-cut#%d:bracket-aware", short(f.String()), cuts), r.pos(in), "the function that cuts at a ':' also looks at the bracket of an IPv6 literal",
						"a host is cut at a ':' found by a plain search: for an IPv6 literal without a port the cut lands inside the address, "+consequence)
				}
			}
		}
	})
	r.count("plain colon cuts", cuts)
	r.atLeast("port-aware host splits in the package", aware, minAware)
	if cuts == 0 {
		r.ok("no-plain-colon-cut", "", fmt.Sprintf("no host is cut at a ':' located by a plain search; %d port-aware splits", aware))
	}
}
