package main

import (
	"fmt"
	"go/constant"
	"go/token"
	"go/types"
	"sort"
	"strings"

	"golang.org/x/tools/go/ssa"
)

// ---------- callee naming -------------------------------------------------------------

// calleeName gives a stable, type-resolved name for the target of a call:
//
//	static function/method   -> ssa.Function.String(), e.g. "(*github.com/x/y.T).M", "github.com/x/y.F"
//	interface method (invoke)-> "(<iface type>).M"
//	closure created in place -> name of the anonymous function
//	function value in field  -> "field:<Struct>.<Field>"
//	builtin                  -> "builtin:<name>"
//	anything else            -> "dynamic"
func calleeName(c *ssa.CallCommon) string {
	if c.IsInvoke() {
		return "(" + types.TypeString(c.Value.Type(), nil) + ")." + c.Method.Name()
	}
	switch v := c.Value.(type) {
	case *ssa.Function:
		return v.String()
	case *ssa.Builtin:
		return "builtin:" + v.Name()
	case *ssa.MakeClosure:
		return v.Fn.(*ssa.Function).String()
	}
	if fv := fieldOfValue(c.Value); fv != nil {
		return "field:" + fieldOwner(fv) + "." + fv.Name()
	}
	if n := cellName(c.Value); n != "" {
		return "var:" + n
	}
	return "dynamic"
}

// shortCallee strips module/package qualifiers for display.
func short(s string) string {
	s = strings.ReplaceAll(s, fiberMod+"/", "")
	s = strings.ReplaceAll(s, fiberMod+".", "fiber.")
	s = strings.ReplaceAll(s, "github.com/valyala/", "")
	s = strings.ReplaceAll(s, "github.com/gofiber/utils/v2.", "utils.")
	return s
}

// fieldOfValue: if v is (a load of) a struct field, return the field var.
func fieldOfValue(v ssa.Value) *types.Var {
	switch x := v.(type) {
	case *ssa.UnOp:
		if x.Op == token.MUL {
			if fa, ok := x.X.(*ssa.FieldAddr); ok {
				return fieldVar(fa.X.Type(), fa.Field)
			}
		}
	case *ssa.Field:
		return fieldVar(x.X.Type(), x.Field)
	case *ssa.FieldAddr:
		return fieldVar(x.X.Type(), x.Field)
	}
	return nil
}

func fieldVar(t types.Type, idx int) *types.Var {
	if p, ok := t.Underlying().(*types.Pointer); ok {
		t = p.Elem()
	}
	st, ok := t.Underlying().(*types.Struct)
	if !ok || idx >= st.NumFields() {
		return nil
	}
	return st.Field(idx)
}

// fieldOwner: name of the struct type declaring field f (best effort via scope lookup).
var fieldOwners = map[*types.Var]string{}

func fieldOwner(f *types.Var) string {
	if s, ok := fieldOwners[f]; ok {
		return s
	}
	name := "?"
	if f.Pkg() != nil {
		sc := f.Pkg().Scope()
		for _, n := range sc.Names() {
			tn, ok := sc.Lookup(n).(*types.TypeName)
			if !ok {
				continue
			}
			st, ok := tn.Type().Underlying().(*types.Struct)
			if !ok {
				continue
			}
			for i := 0; i < st.NumFields(); i++ {
				if st.Field(i) == f {
					name = n
					// fields of types outside the root package are qualified by their package name
					if f.Pkg().Path() != fiberMod {
						name = f.Pkg().Name() + "." + n
					}
				}
			}
		}
	}
	fieldOwners[f] = name
	return name
}

// fieldRef describes a field access instruction.
type fieldRef struct {
	Var   *types.Var
	Name  string // Owner.Field
	Instr ssa.Instruction
	Write bool
	Val   ssa.Value // stored value for writes; loaded value for reads (may be nil for address-only uses)
	Addr  *ssa.FieldAddr
}

// fieldRefs lists field reads and writes in f and in the unexported same-package helpers it
// calls (see helpersOf); not in closures.
func fieldRefs(f *ssa.Function) []fieldRef {
	out := fieldRefsOne(f)
	for _, h := range helpersOf(f) {
		out = append(out, fieldRefsOne(h)...)
	}
	return out
}

func fieldRefsOne(f *ssa.Function) []fieldRef {
	var out []fieldRef
	for _, b := range f.Blocks {
		for _, in := range b.Instrs {
			switch x := in.(type) {
			case *ssa.FieldAddr:
				fv := fieldVar(x.X.Type(), x.Field)
				if fv == nil {
					continue
				}
				name := fieldOwner(fv) + "." + fv.Name()
				used := false
				for _, r := range *x.Referrers() {
					switch u := r.(type) {
					case *ssa.Store:
						if u.Addr == x {
							out = append(out, fieldRef{fv, name, u, true, u.Val, x})
							used = true
						} else {
							out = append(out, fieldRef{fv, name, u, false, nil, x}) // address escapes
							used = true
						}
					case *ssa.UnOp:
						if u.Op == token.MUL {
							out = append(out, fieldRef{fv, name, u, false, u, x})
							used = true
						}
					default:
						// address taken / passed on (method call on field, sub-field, index...)
						if ri, ok := r.(ssa.Instruction); ok {
							out = append(out, fieldRef{fv, name, ri, false, nil, x})
							used = true
						}
					}
				}
				_ = used
			case *ssa.Field:
				fv := fieldVar(x.X.Type(), x.Field)
				if fv != nil {
					out = append(out, fieldRef{fv, fieldOwner(fv) + "." + fv.Name(), x, false, x, nil})
				}
			}
		}
	}
	return out
}

// ---------- instruction walking ---------------------------------------------------------

type callSite struct {
	Instr  ssa.CallInstruction
	Common *ssa.CallCommon
	Name   string
	Fn     *ssa.Function // enclosing
}

func (c callSite) Block() *ssa.BasicBlock { return c.Instr.Block() }

// Value returns the call's result value (nil for defer/go).
func (c callSite) Value() ssa.Value {
	if v, ok := c.Instr.(*ssa.Call); ok {
		return v
	}
	return nil
}

// callsIn lists call sites in f (optionally recursing into closures defined in f).
func callsIn(f *ssa.Function, withClosures bool) []callSite {
	var out []callSite
	var rec func(g *ssa.Function)
	rec = func(g *ssa.Function) {
		for _, b := range g.Blocks {
			for _, in := range b.Instrs {
				if ci, ok := in.(ssa.CallInstruction); ok {
					cc := ci.Common()
					out = append(out, callSite{ci, cc, calleeName(cc), g})
				}
			}
		}
		if withClosures {
			for _, a := range g.AnonFuncs {
				rec(a)
			}
		}
	}
	rec(f)
	for _, h := range helpersOf(f) {
		rec(h)
	}
	return out
}

// helpersOf lists the transparent non-literal callees of f, transitively (bounded): unexported
// functions and methods of f's package that f (or such a helper) calls statically. Rules treat
// their bodies as part of f, so that extracting statements into a helper changes no verdict.
// Function literals are included only when they are called in place (`func() { … }()`); others are
// reached with withClosures / AnonFuncs by the rules that want them.
var helperMemo = map[*ssa.Function][]*ssa.Function{}

// regionMode: when true, fieldRefs / callsIn / branchesIn of a function include its helpers.
// It is on for rules anchored at named functions ("does this happen in F, wherever the statements
// live") and off while a rule enumerates all functions of a package (Prog.AllFuncs), because such
// rules attribute a construct to the one function that contains it and reason about callers
// separately; withoutHelpers switches it off explicitly.
var regionMode = true

func withHelpers(body func()) {
	saved := regionMode
	regionMode = true
	defer func() { regionMode = saved }()
	body()
}

func withoutHelpers(body func()) {
	saved := regionMode
	regionMode = false
	defer func() { regionMode = saved }()
	body()
}

func helpersOf(f *ssa.Function) []*ssa.Function {
	if !regionMode || f == nil {
		return nil
	}
	if hs, ok := helperMemo[f]; ok {
		return hs
	}
	helperMemo[f] = nil // recursion guard
	pkg := pkgOfFn(f)
	seen := map[*ssa.Function]bool{f: true}
	var out []*ssa.Function
	var visit func(g *ssa.Function, depth int)
	visit = func(g *ssa.Function, depth int) {
		if depth > 3 {
			return
		}
		scan := func(x *ssa.Function) {
			for _, b := range x.Blocks {
				for _, in := range b.Instrs {
					ci, ok := in.(ssa.CallInstruction)
					if !ok {
						continue
					}
					sc := ci.Common().StaticCallee()
					if sc == nil {
						sc = closureVarCallee(ci.Common()) // `freeSlot := func(…){…}` called through its variable
					}
					// (a function literal called in place is a static callee too and belongs to the region)
					if sc == nil || seen[sc] || len(sc.Blocks) == 0 || !isTransparent(sc, pkg) {
						continue
					}
					seen[sc] = true
					out = append(out, sc)
					visit(sc, depth+1)
				}
			}
		}
		scan(g)
		for _, a := range anonFuncsDeep(g) {
			scan(a)
		}
	}
	visit(f, 0)
	helperMemo[f] = out
	return out
}

// privateHelpersOf: the helpers of f that nothing outside f (and these helpers) calls — statements
// that were moved out of f into a function of their own. Shared utilities are not included.
func privateHelpersOf(f *ssa.Function) []*ssa.Function {
	saved := regionMode
	regionMode = true
	hs := helpersOf(f)
	regionMode = saved
	in := map[*ssa.Function]bool{f: true}
	for _, a := range anonFuncsDeep(f) {
		in[a] = true
	}
	var out []*ssa.Function
	changed := true
	for changed {
		changed = false
		for _, h := range hs {
			if in[h] {
				continue
			}
			callers := staticCallersOf(h)
			ok := len(callers) > 0
			for _, c := range callers {
				p := c.Parent()
				for p != nil && p.Parent() != nil && !in[p] {
					p = p.Parent()
				}
				if !in[p] {
					ok = false
				}
			}
			if ok {
				in[h] = true
				for _, a := range anonFuncsDeep(h) {
					in[a] = true
				}
				out = append(out, h)
				changed = true
			}
		}
	}
	return out
}

func callsMatching(f *ssa.Function, withClosures bool, pred func(name string) bool) []callSite {
	var out []callSite
	for _, c := range callsIn(f, withClosures) {
		if pred(c.Name) {
			out = append(out, c)
		}
	}
	return out
}

func nameIs(names ...string) func(string) bool {
	return func(s string) bool {
		for _, n := range names {
			if s == n {
				return true
			}
		}
		return false
	}
}

func nameHasSuffix(sufs ...string) func(string) bool {
	return func(s string) bool {
		for _, n := range sufs {
			if strings.HasSuffix(s, n) {
				return true
			}
		}
		return false
	}
}

// ---------- CFG reachability with cut edges -------------------------------------------

// edge is a CFG edge: block index -> successor slot.
type edge struct {
	From *ssa.BasicBlock
	Slot int
}

func (e edge) To() *ssa.BasicBlock { return e.From.Succs[e.Slot] }

type point struct {
	Block *ssa.BasicBlock
	Idx   int // instruction index inside Block at which execution starts
}

func entryOf(f *ssa.Function) point { return point{f.Blocks[0], 0} }

func pointAfter(in ssa.Instruction) point {
	b := in.Block()
	for i, x := range b.Instrs {
		if x == in {
			return point{b, i + 1}
		}
	}
	panic("instruction not in its block")
}

func pointAt(in ssa.Instruction) point {
	p := pointAfter(in)
	p.Idx--
	return p
}

func idxIn(in ssa.Instruction) int { return pointAt(in).Idx }

// reach searches a path from start to the first instruction satisfying target, never
// crossing a cut edge and never continuing past an instruction for which stop is true
// (stop instructions are barriers: e.g. a store that re-establishes an invariant).
// It returns the list of blocks on a witness path and the target instruction, or nil.
//
// Minimal path feasibility: when one boolean SSA value is tested by several branches of the
// function (go/ssa does this for `a || (b && c)` chains over local flags), a path may not
// take contradicting outcomes for it; the assumption is dropped when the path re-enters the
// block defining the value (a new loop iteration recomputes it). No other path condition is
// tracked — this is graph reachability, not symbolic execution.
func reach(start point, target func(ssa.Instruction) bool, cut map[edge]bool, stop func(ssa.Instruction) bool) ([]*ssa.BasicBlock, ssa.Instruction) {
	return reachK(start, nil, target, cut, stop)
}

// ---- transparent callees --------------------------------------------------------------
//
// A path query does not stop at the boundary of the function it starts in: a call to a
// *transparent* callee — a function literal, or an unexported function/method of the same
// package, with a body — is looked into, so that moving a few statements into a helper (or an
// immediately invoked closure with a deferred unlock) does not change any verdict:
//
//   * if the target is reachable inside the callee (before a stop), it is reachable;
//   * if no Return of the callee is reachable without crossing a stop (or a cut edge), the
//     caller's path ends there (the callee passes the stop on all its paths);
//   * otherwise the path continues after the call.
//
// Return instructions of callees never count as targets (rules mean the anchor's returns).
// Summaries are memoised per top-level query; recursion is cut (treated as opaque).

type reachQuery struct {
	target func(ssa.Instruction) bool
	cut    map[edge]bool
	stop   func(ssa.Instruction) bool
	memo   map[*ssa.Function]*calleeSummary
	active map[*ssa.Function]bool
	depth  int
}

type calleeSummary struct {
	hit    ssa.Instruction
	passes bool
	// results[i]: what every Return reachable under the query's cuts/stops yields for result i:
	// factTrue/factFalse for constant booleans, factNil for the nil constant, factNonNil for values
	// that are visibly not nil (errors.New / fmt.Errorf results, package-level Err… variables,
	// address-of), factUnknown otherwise or when returns disagree.
	results []resFact
}

type resFact int

const (
	factUnknown resFact = iota
	factTrue
	factFalse
	factNil
	factNonNil
)

func classifyResult(v ssa.Value) resFact {
	v = stripValue(v)
	if c, ok := v.(*ssa.Const); ok {
		if b, ok := constBool(c); ok {
			if b {
				return factTrue
			}
			return factFalse
		}
		if c.Value == nil {
			switch c.Type().Underlying().(type) {
			case *types.Interface, *types.Pointer, *types.Slice, *types.Map, *types.Signature, *types.Chan:
				return factNil
			}
		}
		return factUnknown
	}
	switch x := v.(type) {
	case *ssa.UnOp:
		if x.Op == token.MUL {
			if g, ok := x.X.(*ssa.Global); ok && strings.HasPrefix(g.Name(), "Err") {
				return factNonNil
			}
		}
	case *ssa.Call:
		switch calleeName(&x.Call) {
		case "errors.New", "fmt.Errorf":
			return factNonNil
		}
	case *ssa.Alloc, *ssa.MakeMap, *ssa.MakeSlice, *ssa.MakeClosure, *ssa.Function:
		return factNonNil
	case *ssa.MakeInterface:
		return factNonNil
	}
	return factUnknown
}

var curReachQuery *reachQuery

// noDescend switches the callee descent off (used by rules that reason about one body only).
var noDescend = false

func transparentCallee(caller *ssa.Function, in ssa.Instruction) *ssa.Function {
	c, ok := in.(*ssa.Call)
	if !ok {
		return nil
	}
	var g *ssa.Function
	if sc := c.Call.StaticCallee(); sc != nil {
		g = sc
	} else if mc, ok := c.Call.Value.(*ssa.MakeClosure); ok {
		g, _ = mc.Fn.(*ssa.Function)
	} else {
		g = closureVarCallee(&c.Call)
	}
	if g == nil || len(g.Blocks) == 0 {
		return nil
	}
	if !isTransparent(g, pkgOfFn(caller)) {
		return nil
	}
	return g
}

func pkgOfFn(f *ssa.Function) *ssa.Package {
	for f != nil {
		if f.Pkg != nil {
			return f.Pkg
		}
		if f.Parent() != nil {
			f = f.Parent()
			continue
		}
		if o := f.Origin(); o != nil && o != f {
			f = o
			continue
		}
		return nil
	}
	return nil
}

func isTransparent(g *ssa.Function, pkg *ssa.Package) bool {
	if pkg == nil || pkgOfFn(g) != pkg {
		return false
	}
	if g.Parent() != nil {
		return true // function literal
	}
	n := g.Name()
	if n == "" || n == "init" {
		return false
	}
	r := rune(n[0])
	return r == '_' || (r >= 'a' && r <= 'z')
}

func summarizeCallee(g *ssa.Function) *calleeSummary {
	q := curReachQuery
	if s, ok := q.memo[g]; ok {
		return s
	}
	if q.active[g] || q.depth >= 4 {
		return &calleeSummary{passes: true}
	}
	q.active[g] = true
	q.depth++
	sum := &calleeSummary{}
	inner := func(in ssa.Instruction) bool {
		if _, isRet := in.(*ssa.Return); isRet {
			return false
		}
		return q.target(in)
	}
	_, sum.hit = reachFrame(entryOf(g), nil, inner, q.cut, q.stop, true)
	ownReturn := func(in ssa.Instruction) bool {
		_, isRet := in.(*ssa.Return)
		return isRet && in.Parent() == g
	}
	_, ret := reachFrame(entryOf(g), nil, ownReturn, q.cut, q.stop, false)
	sum.passes = ret != nil
	if sum.passes {
		// every Return reachable under the cuts: explore exhaustively with a recording predicate
		var rets []*ssa.Return
		record := func(in ssa.Instruction) bool {
			if r, ok := in.(*ssa.Return); ok && in.Parent() == g {
				rets = append(rets, r)
			}
			return false
		}
		reachFrame(entryOf(g), nil, record, q.cut, q.stop, false)
		nres := g.Signature.Results().Len()
		sum.results = make([]resFact, nres)
		for i := 0; i < nres; i++ {
			fact, first := factUnknown, true
			for _, r := range rets {
				if i >= len(r.Results) {
					fact = factUnknown
					break
				}
				f := classifyResult(retOperandSSA(r, i))
				if first {
					fact, first = f, false
				} else if f != fact {
					fact = factUnknown
				}
			}
			sum.results[i] = fact
		}
	}
	q.depth--
	delete(q.active, g)
	q.memo[g] = sum
	return sum
}

// reachEdge starts on a CFG edge: constants flowing into the target block's phis along that
// edge are known from the start.
func reachEdge(e edge, target func(ssa.Instruction) bool, cut map[edge]bool, stop func(ssa.Instruction) bool) ([]*ssa.BasicBlock, ssa.Instruction) {
	known := map[*ssa.Phi]*ssa.Const{}
	to := e.To()
	for i, p := range to.Preds {
		if p != e.From {
			continue
		}
		for _, in := range to.Instrs {
			phi, ok := in.(*ssa.Phi)
			if !ok {
				break
			}
			if c, ok := phi.Edges[i].(*ssa.Const); ok {
				known[phi] = c
			}
		}
	}
	return reachK(point{to, 0}, known, target, cut, stop)
}

func reachK(start point, initKnown map[*ssa.Phi]*ssa.Const, target func(ssa.Instruction) bool, cut map[edge]bool, stop func(ssa.Instruction) bool) ([]*ssa.BasicBlock, ssa.Instruction) {
	if curReachQuery != nil || noDescend {
		// a nested top-level query (a predicate that itself calls reach): evaluate it on its own
		saved := curReachQuery
		curReachQuery = nil
		if !noDescend {
			curReachQuery = &reachQuery{target: target, cut: cut, stop: stop, memo: map[*ssa.Function]*calleeSummary{}, active: map[*ssa.Function]bool{}}
		}
		defer func() { curReachQuery = saved }()
		return reachFrame(start, initKnown, target, cut, stop, true)
	}
	curReachQuery = &reachQuery{target: target, cut: cut, stop: stop, memo: map[*ssa.Function]*calleeSummary{}, active: map[*ssa.Function]bool{}}
	defer func() { curReachQuery = nil }()
	return reachFrame(start, initKnown, target, cut, stop, true)
}

// reachFrame explores one function body. wantHit: hits inside transparent callees count as hits
// of this frame (false for the "does the callee return?" query, which only needs `passes`).
func reachFrame(start point, initKnown map[*ssa.Phi]*ssa.Const, target func(ssa.Instruction) bool, cut map[edge]bool, stop func(ssa.Instruction) bool, wantHit bool) ([]*ssa.BasicBlock, ssa.Instruction) {
	fn := start.Block.Parent()
	// values tested more than once
	tested := map[ssa.Value]int{}
	for _, b := range fn.Blocks {
		if len(b.Instrs) == 0 {
			continue
		}
		if i, ok := b.Instrs[len(b.Instrs)-1].(*ssa.If); ok {
			ci := decompose(i.Cond)
			if ci.Op == token.ILLEGAL {
				tested[ci.Root]++
			}
		}
	}
	type state struct {
		b   *ssa.BasicBlock
		key string
	}
	type node struct {
		st     state
		from   int
		assume map[ssa.Value]bool
		known  map[*ssa.Phi]*ssa.Const // phi values whose incoming edge on this path was a constant
		prev   *node
	}
	keyOf := func(m map[ssa.Value]bool, k map[*ssa.Phi]*ssa.Const) string {
		if len(m) == 0 && len(k) == 0 {
			return ""
		}
		var parts []string
		for v, t := range m {
			parts = append(parts, fmt.Sprintf("%s=%v", v.Name(), t))
		}
		for v, c := range k {
			parts = append(parts, fmt.Sprintf("%s:=%s", v.Name(), c.String()))
		}
		sort.Strings(parts)
		return strings.Join(parts, ",")
	}
	// phis that are compared with a constant somewhere (only those are worth tracking)
	cmpPhis := map[*ssa.Phi]bool{}
	for _, b := range fn.Blocks {
		if len(b.Instrs) == 0 {
			continue
		}
		if i, ok := b.Instrs[len(b.Instrs)-1].(*ssa.If); ok {
			ci := decompose(i.Cond)
			if p, ok := ci.Root.(*ssa.Phi); ok && (ci.Const != nil || ci.Op == token.ILLEGAL) {
				cmpPhis[p] = true
			}
		}
	}
	// facts learnt about call results while scanning a block (bool truth / non-nil-ness)
	var learnt map[ssa.Value]bool
	scan := func(b *ssa.BasicBlock, from int) (ssa.Instruction, bool) {
		learnt = nil
		for i := from; i < len(b.Instrs); i++ {
			in := b.Instrs[i]
			if target(in) {
				return in, false
			}
			if stop != nil && stop(in) {
				return nil, true
			}
			if curReachQuery != nil {
				if g := transparentCallee(fn, in); g != nil {
					sum := summarizeCallee(g)
					if wantHit && sum.hit != nil {
						return sum.hit, false
					}
					if !sum.passes {
						return nil, true
					}
					call := in.(*ssa.Call)
					for ri, f := range sum.results {
						if f == factUnknown {
							continue
						}
						var v ssa.Value
						if len(sum.results) == 1 {
							v = call
						} else if refs := call.Referrers(); refs != nil {
							for _, r := range *refs {
								if ex, ok := r.(*ssa.Extract); ok && ex.Index == ri {
									v = ex
								}
							}
						}
						if v == nil {
							continue
						}
						if learnt == nil {
							learnt = map[ssa.Value]bool{}
						}
						learnt[v] = f == factTrue || f == factNonNil
					}
				}
			}
		}
		return nil, false
	}
	mkpath := func(n *node) []*ssa.BasicBlock {
		var p []*ssa.BasicBlock
		for x := n; x != nil; x = x.prev {
			p = append([]*ssa.BasicBlock{x.st.b}, p...)
		}
		return p
	}
	visited := map[state]bool{}
	k0 := map[*ssa.Phi]*ssa.Const{}
	for p, c := range initKnown {
		k0[p] = c
	}
	queue := []*node{{st: state{start.Block, ""}, from: start.Idx, assume: map[ssa.Value]bool{}, known: k0}}
	first := true
	for len(queue) > 0 {
		n := queue[0]
		queue = queue[1:]
		if !first {
			if visited[n.st] {
				continue
			}
			visited[n.st] = true
		}
		first = false
		if hit, stopped := scan(n.st.b, n.from); hit != nil {
			return mkpath(n), hit
		} else if stopped {
			continue
		}
		if len(learnt) > 0 {
			as := map[ssa.Value]bool{}
			for k, v := range n.assume {
				as[k] = v
			}
			for k, v := range learnt {
				as[k] = v
			}
			n.assume = as
		}
		var ci condInfo
		hasIf := false
		factForced := -1
		if len(n.st.b.Instrs) > 0 {
			if i, ok := n.st.b.Instrs[len(n.st.b.Instrs)-1].(*ssa.If); ok {
				ci = decompose(i.Cond)
				hasIf = ci.Op == token.ILLEGAL && tested[ci.Root] > 1
				// a fact about a call result decides `v`, `!v`, `v == nil`, `v != nil`, `v == true` …
				if known, ok := n.assume[stripValue(ci.Root)]; ok && !hasIf {
					rel, decided := false, false
					switch {
					case ci.Op == token.ILLEGAL:
						rel, decided = known, true
					case ci.Const != nil && constIsNil(ci.Const) && (ci.Op == token.EQL || ci.Op == token.NEQ):
						rel, decided = (ci.Op == token.NEQ) == known, true // known = non-nil
					case ci.Const != nil && (ci.Op == token.EQL || ci.Op == token.NEQ):
						if b, isB := constBool(ci.Const); isB {
							rel, decided = (known == b) == (ci.Op == token.EQL), true
						}
					}
					if decided {
						if rel != ci.Neg {
							factForced = 0
						} else {
							factForced = 1
						}
					}
				}
			}
		}
		// constant knowledge about a phi decides a comparison of that phi with a constant
		forced := -1
		if len(n.st.b.Instrs) > 0 {
			if i, ok := n.st.b.Instrs[len(n.st.b.Instrs)-1].(*ssa.If); ok {
				ci2 := decompose(i.Cond)
				if p, ok := ci2.Root.(*ssa.Phi); ok {
					if kc, ok := n.known[p]; ok {
						if truth, decided := evalConstCond(kc, ci2); decided {
							if truth {
								forced = 0
							} else {
								forced = 1
							}
						}
					}
				}
			}
		}
		for slot, succ := range n.st.b.Succs {
			if cut[edge{n.st.b, slot}] {
				continue
			}
			if forced >= 0 && slot != forced {
				continue // infeasible: the phi holds a known constant on this path
			}
			if factForced >= 0 && slot != factForced {
				continue // infeasible: the callee's reachable returns fix this result
			}
			as := n.assume
			if hasIf {
				val := (slot == 0) != ci.Neg // value of Root on this edge
				if prev, ok := as[ci.Root]; ok && prev != val {
					continue // contradicts an earlier test of the same value
				}
				as = map[ssa.Value]bool{}
				for k, v := range n.assume {
					as[k] = v
				}
				as[ci.Root] = val
			}
			// entering succ recomputes the values it defines
			drop := false
			for v := range as {
				if in, ok := v.(ssa.Instruction); ok && in.Block() == succ {
					drop = true
				}
			}
			if drop {
				as2 := map[ssa.Value]bool{}
				for v, t := range as {
					if in, ok := v.(ssa.Instruction); ok && in.Block() == succ {
						continue
					}
					as2[v] = t
				}
				as = as2
			}
			// phi knowledge for succ: incoming constants along this edge; knowledge about phis of
			// other blocks survives until their block is re-entered
			kn := map[*ssa.Phi]*ssa.Const{}
			for p, c := range n.known {
				if p.Block() != succ {
					kn[p] = c
				}
			}
			predIdx := -1
			for i, p := range succ.Preds {
				if p == n.st.b {
					predIdx = i
				}
			}
			if predIdx >= 0 {
				for _, in := range succ.Instrs {
					p, ok := in.(*ssa.Phi)
					if !ok {
						break
					}
					if !cmpPhis[p] {
						continue
					}
					switch e := p.Edges[predIdx].(type) {
					case *ssa.Const:
						kn[p] = e
					case *ssa.Phi:
						if c, ok := n.known[e]; ok {
							kn[p] = c
						}
					}
				}
			}
			st := state{succ, keyOf(as, kn)}
			if visited[st] {
				continue
			}
			queue = append(queue, &node{st: st, from: 0, assume: as, known: kn, prev: n})
		}
	}
	return nil, nil
}

func pathString(p *Prog, path []*ssa.BasicBlock) string {
	var parts []string
	for _, b := range path {
		pos := "?"
		for _, in := range b.Instrs {
			if in.Pos().IsValid() {
				pos = p.Pos(in.Pos())
				if i := strings.LastIndexByte(pos, ':'); i >= 0 {
					pos = "L" + pos[i+1:]
				}
				break
			}
		}
		parts = append(parts, fmt.Sprintf("b%d(%s)", b.Index, pos))
	}
	if len(parts) > 14 {
		parts = append(append(parts[:6:6], "..."), parts[len(parts)-6:]...)
	}
	return strings.Join(parts, "→")
}

// isReturn / isPanic / isExit helpers
func isReturn(in ssa.Instruction) bool { _, ok := in.(*ssa.Return); return ok }

// ---------- condition decomposition ---------------------------------------------------

// condInfo describes `root OP konst` (or bare truthiness of root), possibly negated.
type condInfo struct {
	Root  ssa.Value
	Op    token.Token // token.ILLEGAL for bare truthiness
	Const *ssa.Const  // may be nil (comparison of two non-constants: Other set)
	Other ssa.Value   // second operand when not constant
	Neg   bool        // overall negation applied
	Swap  bool        // operands were swapped (const was on the left)
}

func decompose(v ssa.Value) condInfo {
	neg := false
	for {
		u, ok := v.(*ssa.UnOp)
		if ok && u.Op == token.NOT {
			neg = !neg
			v = u.X
			continue
		}
		break
	}
	if b, ok := v.(*ssa.BinOp); ok {
		switch b.Op {
		case token.EQL, token.NEQ, token.LSS, token.LEQ, token.GTR, token.GEQ:
			if c, ok := b.Y.(*ssa.Const); ok {
				return condInfo{Root: b.X, Op: b.Op, Const: c, Neg: neg}
			}
			if c, ok := b.X.(*ssa.Const); ok {
				return condInfo{Root: b.Y, Op: flipOp(b.Op), Const: c, Neg: neg, Swap: true}
			}
			return condInfo{Root: b.X, Op: b.Op, Other: b.Y, Neg: neg}
		}
	}
	return condInfo{Root: v, Neg: neg}
}

func flipOp(op token.Token) token.Token {
	switch op {
	case token.LSS:
		return token.GTR
	case token.GTR:
		return token.LSS
	case token.LEQ:
		return token.GEQ
	case token.GEQ:
		return token.LEQ
	}
	return op
}

func negOp(op token.Token) token.Token {
	switch op {
	case token.EQL:
		return token.NEQ
	case token.NEQ:
		return token.EQL
	case token.LSS:
		return token.GEQ
	case token.GEQ:
		return token.LSS
	case token.GTR:
		return token.LEQ
	case token.LEQ:
		return token.GTR
	}
	return op
}

// stripValue peels conversions, extracts, type changes so that two syntactically
// different uses of one producer compare equal.
func stripValue(v ssa.Value) ssa.Value {
	for {
		switch x := v.(type) {
		case *ssa.ChangeType:
			v = x.X
		case *ssa.Convert:
			v = x.X
		case *ssa.ChangeInterface:
			v = x.X
		case *ssa.MakeInterface:
			v = x.X
		default:
			return v
		}
	}
}

// valueFromCall: does v (through extract/convert/phi-free peeling) come from call c?
func producerCall(v ssa.Value) (*ssa.Call, int) {
	v = stripValue(v)
	switch x := v.(type) {
	case *ssa.Call:
		return x, -1
	case *ssa.Extract:
		if c, ok := x.Tuple.(*ssa.Call); ok {
			return c, x.Index
		}
	}
	return nil, -1
}

// branch describes an If instruction classified against a root value predicate.
type branch struct {
	If   *ssa.If
	Info condInfo
}

// branchesIn lists all conditional branches of f with decomposed conditions.
func branchesIn(f *ssa.Function) []branch {
	out := branchesInOne(f)
	for _, h := range helpersOf(f) {
		out = append(out, branchesInOne(h)...)
	}
	return out
}

func branchesInOne(f *ssa.Function) []branch {
	var out []branch
	for _, b := range f.Blocks {
		if len(b.Instrs) == 0 {
			continue
		}
		if i, ok := b.Instrs[len(b.Instrs)-1].(*ssa.If); ok {
			out = append(out, branch{i, decompose(i.Cond)})
		}
	}
	return out
}

// edgeWhen returns the successor slot taken when the (un-negated) relation
// `Root Op Const` evaluates to `truth`.
func (br branch) slotWhenRel(truth bool) int {
	// cond value = rel XOR Neg ; succ0 when cond true
	condTrue := truth != br.Info.Neg
	if condTrue {
		return 0
	}
	return 1
}

// slotWhen: successor slot on which `Root <op> Const` holds, where the caller states the
// relation it is interested in (e.g. token.EQL with nil). If the branch tests the negated
// operator the slot is flipped accordingly. ok=false if the branch does not test an
// equivalent relation.
func (br branch) slotFor(op token.Token) (int, bool) {
	if br.Info.Op == op {
		return br.slotWhenRel(true), true
	}
	if br.Info.Op == negOp(op) {
		return br.slotWhenRel(false), true
	}
	return 0, false
}

func constIsNil(c *ssa.Const) bool { return c != nil && c.Value == nil }

func constInt(c *ssa.Const) (int64, bool) {
	if c == nil || c.Value == nil || c.Value.Kind() != constant.Int {
		return 0, false
	}
	return c.Int64(), true
}

func constString(c *ssa.Const) (string, bool) {
	if c == nil || c.Value == nil || c.Value.Kind() != constant.String {
		return "", false
	}
	return constant.StringVal(c.Value), true
}

func constBool(c *ssa.Const) (bool, bool) {
	if c == nil || c.Value == nil || c.Value.Kind() != constant.Bool {
		return false, false
	}
	return constant.BoolVal(c.Value), true
}

// ---------- backward data dependence -------------------------------------------------

// dependsOn reports whether v is data-dependent (through operands and phis, loads of
// local Allocs via their stores, within one function) on any value satisfying pred.
// It returns the first satisfying value.
func dependsOn(v ssa.Value, pred func(ssa.Value) bool) ssa.Value {
	seen := map[ssa.Value]bool{}
	var rec func(v ssa.Value, depth int) ssa.Value
	rec = func(v ssa.Value, depth int) ssa.Value {
		if v == nil || seen[v] {
			return nil
		}
		seen[v] = true
		if pred(v) {
			return v
		}
		// the address of a local aggregate (the array behind a slice literal or packed variadic arguments): what is
		// stored into it
		if sl, ok := v.(*ssa.Slice); ok {
			a, isAlloc := sl.X.(*ssa.Alloc)
			if isAlloc {
				if pt, ok := a.Type().Underlying().(*types.Pointer); ok {
					_, isAlloc = pt.Elem().Underlying().(*types.Array)
				}
			}
			for _, st := range func() []*ssa.Store {
				if isAlloc {
					return storesInto(a)
				}
				return nil
			}() {
				if hit := rec(st.Val, depth); hit != nil {
					return hit
				}
			}
		}
		// loads from local allocs: follow stores (also those made by closures sharing the cell)
		if u, ok := v.(*ssa.UnOp); ok && u.Op == token.MUL {
			if a := rootAlloc(u.X); a != nil {
				for _, st := range storesInto(a) {
					if hit := rec(st.Val, depth); hit != nil {
						return hit
					}
				}
			}
			// a captured variable read inside a closure: the cell lives in the enclosing function
			if fv, ok := u.X.(*ssa.FreeVar); ok {
				if a := bindingOf(fv); a != nil {
					if al := rootAlloc(a); al != nil {
						for _, st := range storesInto(al) {
							if hit := rec(st.Val, depth); hit != nil {
								return hit
							}
						}
					} else if hit := rec(a, depth); hit != nil {
						return hit
					}
				}
			}
		}
		if regionMode && depth < 3 {
			switch x := v.(type) {
			case *ssa.Extract:
				// one result of a helper: only what the helper returns in that position
				if call, ok := x.Tuple.(*ssa.Call); ok {
					if g := transparentCallee(call.Parent(), call); g != nil {
						for _, ri := range instrsWhereOne(g, isReturn) {
							ret := ri.(*ssa.Return)
							if x.Index < len(ret.Results) {
								if hit := rec(retOperand(ret, x.Index), depth+1); hit != nil {
									return hit
								}
							}
						}
						if pred(call) {
							return call
						}
						return nil
					}
				}
			case *ssa.Parameter:
				// a helper's parameter: what its callers pass
				if g := x.Parent(); g != nil && g.Parent() == nil && !depBoundary[g] && isTransparent(g, pkgOfFn(g)) {
					for i, gp := range g.Params {
						if gp != x {
							continue
						}
						for _, c := range staticCallersOf(g) {
							if i < len(c.Call.Args) {
								if hit := rec(c.Call.Args[i], depth+1); hit != nil {
									return hit
								}
							}
						}
					}
				}
			case *ssa.Call:
				if g := transparentCallee(x.Parent(), x); g != nil {
					for _, ri := range instrsWhereOne(g, isReturn) {
						ret := ri.(*ssa.Return)
						for i := range ret.Results {
							if hit := rec(retOperand(ret, i), depth+1); hit != nil {
								return hit
							}
						}
					}
				}
			}
		}
		in, ok := v.(ssa.Instruction)
		if !ok {
			return nil
		}
		for _, op := range in.Operands(nil) {
			if *op == nil {
				continue
			}
			if hit := rec(*op, depth); hit != nil {
				return hit
			}
		}
		return nil
	}
	return rec(v, 0)
}

// depBoundary: functions whose parameters dependsOn does not follow into their callers (a rule
// asking "is this computed inside F or the helpers it calls" sets F here for the duration).
var depBoundary = map[*ssa.Function]bool{}

func withinFunction(f *ssa.Function, body func()) {
	depBoundary[f] = true
	defer delete(depBoundary, f)
	body()
}

// bindingOf: the value bound to a closure's free variable where the closure is created.
// closureVarCallee: the function literal behind a call through a local variable that is assigned exactly once
// (`helper := func(…) {…}` … `helper(x)`, also from inside another closure that captured the variable).
func closureVarCallee(cc *ssa.CallCommon) *ssa.Function {
	if cc.IsInvoke() {
		return nil
	}
	ld, ok := cc.Value.(*ssa.UnOp)
	if !ok || ld.Op != token.MUL {
		return nil
	}
	var cell *ssa.Alloc
	switch x := ld.X.(type) {
	case *ssa.Alloc:
		cell = x
	case *ssa.FreeVar:
		for v := ssa.Value(x); v != nil; {
			fv, isFV := v.(*ssa.FreeVar)
			if !isFV {
				cell, _ = v.(*ssa.Alloc)
				break
			}
			v = bindingOf(fv)
		}
	}
	if cell == nil || cell.Referrers() == nil {
		return nil
	}
	var fn *ssa.Function
	stores := 0
	for _, ref := range *cell.Referrers() {
		st, ok := ref.(*ssa.Store)
		if !ok || st.Addr != ssa.Value(cell) {
			continue
		}
		stores++
		switch v := st.Val.(type) {
		case *ssa.MakeClosure:
			fn, _ = v.Fn.(*ssa.Function)
		case *ssa.Function:
			fn = v
		default:
			return nil
		}
	}
	if stores != 1 {
		return nil
	}
	return fn
}

func bindingOf(fv *ssa.FreeVar) ssa.Value {
	fn := fv.Parent()
	if fn == nil || fn.Parent() == nil {
		return nil
	}
	idx := -1
	for i, x := range fn.FreeVars {
		if x == fv {
			idx = i
		}
	}
	if idx < 0 {
		return nil
	}
	for _, b := range fn.Parent().Blocks {
		for _, in := range b.Instrs {
			if mc, ok := in.(*ssa.MakeClosure); ok && mc.Fn == ssa.Value(fn) && idx < len(mc.Bindings) {
				return mc.Bindings[idx]
			}
		}
	}
	return nil
}

// staticCallersOf: the static call sites of g in its own package (computed once per package).
var staticCallerIndex = map[*ssa.Package]map[*ssa.Function][]*ssa.Call{}

func staticCallersOf(g *ssa.Function) []*ssa.Call {
	pkg := pkgOfFn(g)
	if pkg == nil {
		return nil
	}
	idx, ok := staticCallerIndex[pkg]
	if !ok {
		idx = map[*ssa.Function][]*ssa.Call{}
		var scan func(f *ssa.Function)
		scan = func(f *ssa.Function) {
			for _, b := range f.Blocks {
				for _, in := range b.Instrs {
					if c, ok := in.(*ssa.Call); ok {
						if sc := c.Call.StaticCallee(); sc != nil {
							idx[sc] = append(idx[sc], c)
						}
					}
				}
			}
			for _, a := range f.AnonFuncs {
				scan(a)
			}
		}
		for _, m := range pkg.Members {
			switch x := m.(type) {
			case *ssa.Function:
				scan(x)
			case *ssa.Type:
				for _, t := range []types.Type{x.Type(), types.NewPointer(x.Type())} {
					ms := pkg.Prog.MethodSets.MethodSet(t)
					for i := 0; i < ms.Len(); i++ {
						if f := pkg.Prog.MethodValue(ms.At(i)); f != nil && f.Pkg == pkg {
							scan(f)
						}
					}
				}
			}
		}
		staticCallerIndex[pkg] = idx
	}
	return idx[g]
}

// isFieldLoad: v is a load of field named owner.field (through FieldAddr or Field).
func isFieldLoad(v ssa.Value, name string) bool {
	fv := fieldOfValue(v)
	if fv == nil {
		return false
	}
	if _, isAddr := v.(*ssa.FieldAddr); isAddr {
		return false
	}
	return fieldOwner(fv)+"."+fv.Name() == name
}

// anonFuncsDeep returns all closures (transitively) defined in f, in order.
func anonFuncsDeep(f *ssa.Function) []*ssa.Function {
	var out []*ssa.Function
	var rec func(g *ssa.Function)
	rec = func(g *ssa.Function) {
		for _, a := range g.AnonFuncs {
			out = append(out, a)
			rec(a)
		}
	}
	rec(f)
	return out
}

// sigString renders a function's signature without names.
func sigString(f *ssa.Function) string {
	return types.TypeString(f.Signature, func(p *types.Package) string { return p.Name() })
}

// handlerClosure finds the unique closure in f with signature func(fiber.Ctx) error.
func handlerClosures(f *ssa.Function) []*ssa.Function {
	var out []*ssa.Function
	for _, a := range anonFuncsDeep(f) {
		if isHandlerSig(a.Signature) {
			out = append(out, a)
		}
	}
	return out
}

func isHandlerSig(s *types.Signature) bool {
	if s.Params().Len() != 1 || s.Results().Len() != 1 {
		return false
	}
	if types.TypeString(s.Params().At(0).Type(), nil) != fiberMod+".Ctx" {
		return false
	}
	return types.TypeString(s.Results().At(0).Type(), nil) == "error"
}

func sortedKeys[V any](m map[string]V) []string {
	ks := make([]string, 0, len(m))
	for k := range m {
		ks = append(ks, k)
	}
	sort.Strings(ks)
	return ks
}

// freeVarName: if v is a load from a free variable / captured cell, return its name.
func cellName(v ssa.Value) string {
	switch x := v.(type) {
	case *ssa.FreeVar:
		return x.Name()
	case *ssa.UnOp:
		if x.Op == token.MUL {
			return cellName(x.X)
		}
	case *ssa.Alloc:
		return x.Comment
	case *ssa.Parameter:
		return x.Name()
	case *ssa.Global:
		return x.Name()
	}
	return ""
}

// rootAlloc walks FieldAddr/IndexAddr chains down to a local Alloc (nil if none).
func rootAlloc(v ssa.Value) *ssa.Alloc {
	for i := 0; i < 8; i++ {
		switch x := v.(type) {
		case *ssa.Alloc:
			return x
		case *ssa.FieldAddr:
			v = x.X
		case *ssa.IndexAddr:
			v = x.X
		default:
			return nil
		}
	}
	return nil
}

// storesInto lists stores whose address is the alloc or a field/element address inside it
// (field-insensitive over-approximation, used for "depends on" questions only).
func storesInto(a *ssa.Alloc) []*ssa.Store {
	var out []*ssa.Store
	seen := map[ssa.Value]bool{}
	var walk func(addr ssa.Value)
	walk = func(addr ssa.Value) {
		if seen[addr] {
			return
		}
		seen[addr] = true
		refs := addr.Referrers()
		if refs == nil {
			return
		}
		for _, r := range *refs {
			switch x := r.(type) {
			case *ssa.Store:
				if x.Addr == addr {
					out = append(out, x)
				}
			case *ssa.FieldAddr:
				if x.X == addr {
					walk(x)
				}
			case *ssa.IndexAddr:
				if x.X == addr {
					walk(x)
				}
			}
		}
	}
	walk(a)
	// stores made by function literals that capture the variable
	if refs := a.Referrers(); refs != nil {
		for _, r := range *refs {
			mc, ok := r.(*ssa.MakeClosure)
			if !ok {
				continue
			}
			fn, _ := mc.Fn.(*ssa.Function)
			if fn == nil {
				continue
			}
			for i, bnd := range mc.Bindings {
				if bnd == ssa.Value(a) && i < len(fn.FreeVars) {
					walk(fn.FreeVars[i])
				}
			}
		}
	}
	return out
}

// cellAccess: instruction loads or stores the captured/local variable cell `name`.
func cellAccess(in ssa.Instruction, name string) (isStore bool, val ssa.Value, ok bool) {
	switch x := in.(type) {
	case *ssa.Store:
		if isCell(x.Addr, name) {
			return true, x.Val, true
		}
	case *ssa.UnOp:
		if x.Op == token.MUL && isCell(x.X, name) {
			return false, x, true
		}
	}
	return false, nil, false
}

func isCell(v ssa.Value, name string) bool {
	switch x := v.(type) {
	case *ssa.FreeVar:
		return x.Name() == name
	case *ssa.Alloc:
		return x.Comment == name
	}
	return false
}

// evalConstCond evaluates `known OP const` (or bare truthiness) for a decomposed condition.
func evalConstCond(known *ssa.Const, ci condInfo) (truth bool, decided bool) {
	if ci.Op == token.ILLEGAL {
		b, ok := constBool(known)
		if !ok {
			return false, false
		}
		return b != ci.Neg, true
	}
	if ci.Const == nil || (ci.Op != token.EQL && ci.Op != token.NEQ) {
		return false, false
	}
	var eq bool
	switch {
	case known.Value == nil && ci.Const.Value == nil:
		eq = true
	case known.Value == nil || ci.Const.Value == nil:
		eq = false
	default:
		if known.Value.Kind() != ci.Const.Value.Kind() {
			return false, false
		}
		eq = constant.Compare(known.Value, token.EQL, ci.Const.Value)
	}
	rel := eq
	if ci.Op == token.NEQ {
		rel = !eq
	}
	return rel != ci.Neg, true
}
