package main

import (
	"go/token"
	"sort"
	"strings"

	"golang.org/x/tools/go/ssa"
)

// lockID names a mutex by access path: free variable / local / parameter / global + field path.
// Loads are transparent (captured variables are cells in go/ssa: `t = *mux; Lock(t)`).
func lockID(v ssa.Value) string {
	switch x := v.(type) {
	case *ssa.UnOp:
		if x.Op == token.MUL {
			return lockID(x.X)
		}
	case *ssa.FreeVar:
		return "free:" + x.Name()
	case *ssa.Alloc:
		return "local:" + x.Comment
	case *ssa.Parameter:
		return "param:" + x.Name()
	case *ssa.Global:
		return "global:" + x.Name()
	case *ssa.FieldAddr:
		fv := fieldVar(x.X.Type(), x.Field)
		n := "?"
		if fv != nil {
			n = fv.Name()
		}
		return lockID(x.X) + "." + n
	case *ssa.Field:
		fv := fieldVar(x.X.Type(), x.Field)
		n := "?"
		if fv != nil {
			n = fv.Name()
		}
		return lockID(x.X) + "." + n
	case *ssa.MakeInterface:
		return lockID(x.X)
	case *ssa.ChangeInterface:
		return lockID(x.X)
	case *ssa.Phi:
		// same identity on all edges?
		id := ""
		for _, e := range x.Edges {
			n := lockID(e)
			if id == "" {
				id = n
			} else if id != n {
				return "phi?"
			}
		}
		return id
	}
	return "?" + v.Name()
}

type lockOp struct {
	Acquire bool
	Read    bool
	ID      string
}

// classifyLockCall recognises sync.Mutex / sync.RWMutex operations and the idempotency Locker.
func classifyLockCall(cc *ssa.CallCommon) (lockOp, bool) {
	name := calleeName(cc)
	switch name {
	case "(*sync.Mutex).Lock", "(*sync.RWMutex).Lock":
		return lockOp{true, false, lockID(cc.Args[0])}, true
	case "(*sync.RWMutex).RLock":
		return lockOp{true, true, lockID(cc.Args[0])}, true
	case "(*sync.Mutex).Unlock", "(*sync.RWMutex).Unlock":
		return lockOp{false, false, lockID(cc.Args[0])}, true
	case "(*sync.RWMutex).RUnlock":
		return lockOp{false, true, lockID(cc.Args[0])}, true
	}
	return lockOp{}, false
}

type lockState map[string]bool // held lock ids ("R:" prefix for read locks)

func (s lockState) clone() lockState {
	o := lockState{}
	for k := range s {
		o[k] = true
	}
	return o
}

func (s lockState) String() string {
	var ks []string
	for k := range s {
		ks = append(ks, k)
	}
	sort.Strings(ks)
	return "{" + strings.Join(ks, ",") + "}"
}

func (s lockState) holds(id string) bool { return s[id] || s["R:"+id] }

type lockResult struct {
	Before   map[ssa.Instruction]lockState // must-held set before each instruction
	Deferred map[string]bool               // locks released by a deferred unlock
	Unpaired []ssa.Instruction             // returns at which a lock acquired here is still held
	Ops      int
}

// locksets runs the forward must-analysis on f. entry = locks assumed held on entry.
// summaries: callee name -> lock ops performed by a wrapper (acquire/release on all paths).
func locksets(f *ssa.Function, entry lockState, summaries map[string][]lockOp) *lockResult {
	return locksetsDepth(f, entry, summaries, 0)
}

// locksetsDepth also analyses the transparent callees of f (function literals called in place,
// unexported helpers of the package) with the state held at the call, records the states of their
// instructions in Before, and continues after the call with the state all their returns agree on.
func locksetsDepth(f *ssa.Function, entry lockState, summaries map[string][]lockOp, depth int) *lockResult {
	res := &lockResult{Before: map[ssa.Instruction]lockState{}, Deferred: map[string]bool{}}
	in := map[*ssa.BasicBlock]lockState{}
	out := map[*ssa.BasicBlock]lockState{}
	apply := func(st lockState, instr ssa.Instruction, record bool) {
		ci, ok := instr.(ssa.CallInstruction)
		if !ok {
			if _, isRD := instr.(*ssa.RunDefers); isRD {
				for id := range res.Deferred {
					delete(st, id)
					delete(st, "R:"+id)
				}
			}
			return
		}
		ops := []lockOp{}
		if op, ok := classifyLockCall(ci.Common()); ok {
			ops = append(ops, op)
		} else if sm, ok := summaries[calleeName(ci.Common())]; ok {
			ops = append(ops, sm...)
		} else if g := transparentCallee(f, instr); g != nil && regionMode && depth < 3 {
			sub := locksetsDepth(g, st, summaries, depth+1)
			if record {
				res.Ops += sub.Ops
				for in, s2 := range sub.Before {
					if old, ok := res.Before[in]; ok {
						for k := range old {
							if !s2[k] {
								delete(old, k)
							}
						}
					} else {
						res.Before[in] = s2
					}
				}
				res.Unpaired = append(res.Unpaired, sub.Unpaired...)
			}
			// state after the call: what every return of the callee holds
			var exit lockState
			for in, s2 := range sub.Before {
				if _, isRet := in.(*ssa.Return); isRet && in.Parent() == g {
					if exit == nil {
						exit = s2.clone()
					} else {
						for k := range exit {
							if !s2[k] {
								delete(exit, k)
							}
						}
					}
				}
			}
			if exit != nil {
				for k := range st {
					delete(st, k)
				}
				for k := range exit {
					st[k] = true
				}
			}
			return
		}
		for _, op := range ops {
			if record {
				res.Ops++
			}
			if _, isDefer := instr.(*ssa.Defer); isDefer {
				if !op.Acquire {
					res.Deferred[op.ID] = true
				}
				continue
			}
			key := op.ID
			if op.Read {
				key = "R:" + op.ID
			}
			if op.Acquire {
				st[key] = true
			} else {
				delete(st, key)
			}
		}
	}
	// iterate
	for _, b := range f.Blocks {
		in[b] = nil
	}
	in[f.Blocks[0]] = entry.clone()
	changed := true
	for iter := 0; changed && iter < 100; iter++ {
		changed = false
		for _, b := range f.Blocks {
			var st lockState
			if b == f.Blocks[0] {
				st = entry.clone()
			} else {
				first := true
				for _, p := range b.Preds {
					po, ok := out[p]
					if !ok {
						continue // not yet computed: top
					}
					if first {
						st = po.clone()
						first = false
					} else {
						for k := range st {
							if !po[k] {
								delete(st, k)
							}
						}
					}
				}
				if first {
					continue // unreachable so far
				}
			}
			in[b] = st.clone()
			for _, instr := range b.Instrs {
				apply(st, instr, false)
			}
			if old, ok := out[b]; !ok || old.String() != st.String() {
				out[b] = st
				changed = true
			}
		}
	}
	for _, b := range f.Blocks {
		st := in[b]
		if st == nil {
			continue
		}
		st = st.clone()
		for _, instr := range b.Instrs {
			res.Before[instr] = st.clone()
			apply(st, instr, true)
			if _, ok := instr.(*ssa.Return); ok {
				for k := range res.Before[instr] {
					id := strings.TrimPrefix(k, "R:")
					if !entry[k] && !res.Deferred[id] {
						res.Unpaired = append(res.Unpaired, instr)
					}
				}
			}
		}
	}
	return res
}
