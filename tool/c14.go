package main

import (
	"fmt"
	"go/token"
	"go/types"
	"strings"

	"golang.org/x/tools/go/ssa"
)

func init() {
	register(&propDef{
		ID: "C14",
		Explain: "Decided clauses: R1 every access to the shared cache state (manager.get/set/getRaw/setRaw/del, deleteKey, heap.put/remove/removeFirst, storedBytes) in the handler has the middleware mutex in its must-held set, " +
			"locks are paired, c.Next() never runs under it; R2 a response is stored only past the gates: not no-store, method configured, cacheable status, Next(c) false, body within MaxBytes; " +
			"R3 a hit is served only with an entry present, exp != 0, not expired, not no-cache, and the invalidator forces expiry; R4 heap.put / remove* are paired with the storedBytes adjustment by the same size; " +
			"R5 every response-carrying field of the entry is written on store and read on hit; R6 slots of the expiry heap are only permuted (never overwritten with a foreign value), appended only by pushInternal, and put takes its handle from a recycled slot or maxidx. Not decided: wall-clock freshness (coarse timestamp), external storage semantics, the heap order invariant of container/heap, deadlock freedom beyond R1.",
		Assume: []string{"sync.RWMutex provides mutual exclusion", "cache state is only reachable through the closure's captured manager/heap/storedBytes"},
		Run:    runC14,
	})
}

const cachePkg = "middleware/cache"

func cacheHandler(r *Run) (*ssa.Function, *ssa.Function) {
	f := r.Fn(cachePkg, "New")
	var h *ssa.Function
	for _, a := range handlerClosures(f) {
		if len(a.Blocks) > 5 {
			h = a
		}
	}
	r.need(h != nil, "cache.New returns a handler closure")
	return f, h
}

func runC14(r *Run) {
	isShared := func(c callSite) bool {
		n := c.Name
		return strings.HasSuffix(n, "cache.manager).get") || strings.HasSuffix(n, "cache.manager).set") || strings.HasSuffix(n, "cache.manager).getRaw") ||
			strings.HasSuffix(n, "cache.manager).setRaw") || strings.HasSuffix(n, "cache.manager).del") || n == "var:deleteKey" ||
			strings.HasSuffix(n, "cache.indexedHeap).put") || strings.HasSuffix(n, "cache.indexedHeap).remove") || strings.HasSuffix(n, "cache.indexedHeap).removeFirst")
	}
	isNext := func(s string) bool { return s == "("+fiberMod+".Ctx).Next" }

	r.rule("R1", "shared cache state only under the lock; locks paired; Next not under the lock (E2)", func() {
		newFn, h := cacheHandler(r)
		ls := locksets(h, lockState{}, nil)
		r.count("lock operations", ls.Ops)
		n := 0
		ord := map[string]int{}
		for _, c := range callsIn(h, false) {
			if !isShared(c) {
				continue
			}
			n++
			ord[c.Name]++
			st := ls.Before[c.Instr]
			r.check(st.holds("free:mux"), fmt.Sprintf("handler:%s#%d:under-mux", short(c.Name), ord[c.Name]), r.pos(c.Instr), "mux held "+st.String(),
				"shared cache state is accessed outside the critical section (held "+st.String()+"): two requests can both fetch the same expired entry and remove its heap slot twice (panic / corrupted accounting)")
		}
		r.atLeast("guarded operations in the handler", n, 9)
		// storedBytes cell
		nb := 0
		for _, b := range h.Blocks {
			for _, in := range b.Instrs {
				if _, _, ok := cellAccess(in, "storedBytes"); ok {
					nb++
					st := ls.Before[in]
					r.check(st.holds("free:mux"), fmt.Sprintf("handler:storedBytes#%d:under-mux", nb), r.pos(in), "mux held", "storedBytes is read/written without the lock")
				}
			}
		}
		r.atLeast("storedBytes accesses", nb, 4)
		r.check(len(ls.Unpaired) == 0, "handler:locks-released-on-all-exits", r.fpos(h), "every return leaves no lock held (explicit or deferred unlock)", "a return is reachable with the cache mutex held")
		for i, c := range callsMatching(h, false, isNext) {
			st := ls.Before[c.Instr]
			r.check(len(st) == 0, fmt.Sprintf("handler:Next#%d:not-under-lock", i), r.pos(c.Instr), "origin handler runs without the cache lock", "c.Next() runs under the cache mutex "+st.String())
		}
		// deleteKey helper closure: all its call sites hold the lock (checked above as var:deleteKey); its body touches manager.del only
		var dk *ssa.Function
		for _, a := range newFn.AnonFuncs {
			if len(callsMatching(a, false, nameHasSuffix("cache.manager).del"))) > 0 && a != h {
				dk = a
			}
		}
		r.check(dk != nil, "deleteKey:helper", r.fpos(newFn), "deleteKey closure found; it is analysed with the lock required at its call sites", "deleteKey helper not found")
	})

	r.rule("R2", "store gates (E1): manager.set/setRaw reachable only past no-store, method, status, Next and MaxBytes gates", func() {
		_, h := cacheHandler(r)
		isStore := func(in ssa.Instruction) bool {
			return isCallTo(in, nameHasSuffix("cache.manager).set", "cache.manager).setRaw"))
		}
		stores := instrsWhere(h, isStore)
		r.atLeast("store sites", len(stores), 2)
		gate := func(name string, cut map[edge]bool, why string) {
			_, hit := reach(entryOf(h), isStore, cut, nil)
			r.check(len(cut) > 0 && hit == nil, "store-gate:"+name, r.fpos(h), "store unreachable with the "+name+" success edge removed", why)
		}
		// no-store
		cut := map[edge]bool{}
		for _, c := range callsMatching(h, false, nameHasSuffix("cache.hasRequestDirective")) {
			if s, ok := constString(asConst(c.Common.Args[1])); ok && s == "no-store" {
				for _, br := range ifsOnValue(h, c.Value()) {
					if sl, ok := br.truthSlot(false); ok {
						cut[edge{br.If.Block(), sl}] = true
					}
				}
			}
		}
		gate("not-no-store", cut, "a no-store request can be stored")
		// method
		cut = map[edge]bool{}
		for _, c := range callsIn(h, false) {
			if strings.HasPrefix(c.Name, "slices.Contains") && c.Value() != nil && dependsOn(c.Common.Args[0], func(v ssa.Value) bool { return loadOfField(v, "cache.Config.Methods") }) != nil {
				for _, br := range ifsOnValue(h, c.Value()) {
					if sl, ok := br.truthSlot(true); ok {
						cut[edge{br.If.Block(), sl}] = true
					}
				}
			}
		}
		gate("method-configured", cut, "responses to methods outside cfg.Methods can be stored")
		// cacheable status
		cut = map[edge]bool{}
		for _, br := range branchesIn(h) {
			if lk, ok := stripValue(br.Info.Root).(*ssa.Lookup); ok {
				if u, ok := lk.X.(*ssa.UnOp); ok {
					if gl, ok := u.X.(*ssa.Global); ok && gl.Name() == "cacheableStatusCodes" {
						if sl, ok := br.truthSlot(true); ok {
							cut[edge{br.If.Block(), sl}] = true
						}
					}
				}
			}
		}
		gate("cacheable-status", cut, "responses with non-cacheable status codes can be stored")
		// Next(c) true edge → store unreachable (negative form)
		neg := func(name string, starts []point, why string) {
			ok := len(starts) > 0
			for _, st := range starts {
				if _, hit := reach(st, isStore, nil, nil); hit != nil {
					ok = false
				}
			}
			r.check(ok, "store-gate:"+name, r.fpos(h), "store unreachable from the rejecting edge", why)
		}
		var starts []point
		for _, c := range callsMatching(h, false, nameIs("field:cache.Config.Next")) {
			for _, br := range ifsOnValue(h, c.Value()) {
				if sl, ok := br.truthSlot(true); ok {
					starts = append(starts, pointOfEdge(edge{br.If.Block(), sl}))
				}
			}
		}
		neg("Next-skips", starts, "a response is stored although cfg.Next(c) asked to skip the middleware")
		starts = nil
		for _, br := range branchesIn(h) {
			if br.Info.Other == nil {
				continue
			}
			a, b := br.Info.Root, br.Info.Other
			op := br.Info.Op
			if loadOfField(a, "cache.Config.MaxBytes") {
				a, b = b, a
				op = flipOp(op)
			}
			if !loadOfField(b, "cache.Config.MaxBytes") {
				continue
			}
			// a OP MaxBytes where a is the body size (len of response body), not the running sum
			if dependsOn(a, func(v ssa.Value) bool {
				ok, _, is := false, v, false
				_ = ok
				_, _, is = cellAccessV(v, "storedBytes")
				return is
			}) != nil {
				continue
			}
			if op == token.GTR {
				starts = append(starts, pointOfEdge(edge{br.If.Block(), br.slotWhenRel(true)}))
			} else if op == token.LEQ {
				starts = append(starts, pointOfEdge(edge{br.If.Block(), br.slotWhenRel(false)}))
			}
		}
		neg("body-within-MaxBytes", starts, "a body larger than MaxBytes can be stored (the eviction loop could never make room)")
	})

	r.rule("R3", "hit gates (E1): a cached response is served only for a present, live, unexpired entry and not for no-cache", func() {
		_, h := cacheHandler(r)
		isHit := func(in ssa.Instruction) bool {
			ci, ok := in.(ssa.CallInstruction)
			if !ok || !strings.HasSuffix(calleeName(ci.Common()), "fasthttp.Response).SetBodyRaw") {
				return false
			}
			return loadOfField(ci.Common().Args[1], "cache.item.body")
		}
		hits := instrsWhere(h, isHit)
		r.need(len(hits) == 1, "one hit site (SetBodyRaw(e.body))")
		gate := func(name string, cut map[edge]bool, why string) {
			_, hit := reach(entryOf(h), isHit, cut, nil)
			r.check(len(cut) > 0 && hit == nil, "hit-gate:"+name, r.pos(hits[0]), "hit unreachable with the "+name+" edge removed", why)
		}
		var getc []callSite
		for _, gc := range callsMatching(h, false, nameHasSuffix("cache.manager).get")) {
			// the lookup that the hit depends on: the hit is reachable from it
			if _, reachable := reach(pointAfter(gc.Instr), isHit, nil, nil); reachable != nil {
				getc = append(getc, gc)
			}
		}
		r.need(len(getc) == 1, "one manager.get in front of the hit")
		cut := map[edge]bool{}
		for _, br := range ifsOnValue(h, getc[0].Value()) {
			if s, ok := br.nilSlot(false); ok {
				cut[edge{br.If.Block(), s}] = true
			}
		}
		gate("entry-present", cut, "a hit can be served without an entry")
		cut = map[edge]bool{}
		for _, br := range branchesIn(h) {
			if loadOfField(br.Info.Root, "cache.item.exp") {
				if s, ok := br.eqIntSlot(0, false); ok {
					cut[edge{br.If.Block(), s}] = true
				}
			}
		}
		gate("exp-nonzero", cut, "an entry that was never stored (exp == 0) can be served")
		cut = map[edge]bool{}
		for _, br := range branchesIn(h) {
			if br.Info.Other == nil {
				continue
			}
			a, b := br.Info.Root, br.Info.Other
			op := br.Info.Op
			if loadOfField(a, "cache.item.exp") {
				a, b = b, a
				op = flipOp(op)
			}
			if !loadOfField(b, "cache.item.exp") {
				continue
			}
			// ts OP exp : fresh edge is ts < exp
			switch op {
			case token.GEQ:
				cut[edge{br.If.Block(), br.slotWhenRel(false)}] = true
			case token.LSS:
				cut[edge{br.If.Block(), br.slotWhenRel(true)}] = true
			}
		}
		// the expiry test is only evaluated for exp != 0; the exp == 0 edges lead to the second `exp != 0` test of
		// the else-branch (a separate load of the same field, go/ssa has no CSE) and are covered by the exp-nonzero gate
		for _, br := range branchesIn(h) {
			if loadOfField(br.Info.Root, "cache.item.exp") {
				if s, ok := br.eqIntSlot(0, true); ok {
					cut[edge{br.If.Block(), s}] = true
				}
			}
		}
		gate("not-expired", cut, "an expired entry can be served")
		cut = map[edge]bool{}
		for _, c := range callsMatching(h, false, nameHasSuffix("cache.hasRequestDirective")) {
			if s, ok := constString(asConst(c.Common.Args[1])); ok && s == "no-cache" {
				for _, br := range ifsOnValue(h, c.Value()) {
					if sl, ok := br.truthSlot(false); ok {
						cut[edge{br.If.Block(), sl}] = true
					}
				}
			}
		}
		gate("not-no-cache", cut, "a no-cache request can be answered from the cache")
		// invalidator forces expiry
		okInv := false
		for _, c := range callsMatching(h, false, nameIs("field:cache.Config.CacheInvalidator")) {
			for _, br := range ifsOnValue(h, c.Value()) {
				if sl, ok := br.truthSlot(true); ok {
					_, hit := reachEdge(edge{br.If.Block(), sl}, isHit, nil, func(in ssa.Instruction) bool {
						st, ok := in.(*ssa.Store)
						if !ok {
							return false
						}
						fa, ok := st.Addr.(*ssa.FieldAddr)
						if !ok {
							return false
						}
						fv := fieldVar(fa.X.Type(), fa.Field)
						bo, isSub := st.Val.(*ssa.BinOp)
						return fv != nil && fv.Name() == "exp" && isSub && bo.Op == token.SUB
					})
					// after the store the hit is still CFG-reachable; what is decided: no path from the invalidator-true edge reaches the hit without first rewriting exp to ts−k
					okInv = hit == nil
				}
			}
		}
		r.check(okInv, "hit-gate:invalidator-rewrites-exp", r.pos(hits[0]), "from the invalidator-true edge every path to the hit first sets exp = ts − k (expired)", "an invalidated entry can be served without its expiry being rewritten")
	})

	r.rule("R4", "accounting pairs (E10): heap.put ↔ storedBytes += size, heap.remove*/removeFirst ↔ storedBytes -= returned size, in the same block", func() {
		_, h := cacheHandler(r)
		n := 0
		for _, c := range callsIn(h, false) {
			isPut := strings.HasSuffix(c.Name, "cache.indexedHeap).put")
			isRem := strings.HasSuffix(c.Name, "cache.indexedHeap).remove") || strings.HasSuffix(c.Name, "cache.indexedHeap).removeFirst")
			if !isPut && !isRem {
				continue
			}
			n++
			ok := false
			b := c.Block()
			for i := idxIn(c.Instr) + 1; i < len(b.Instrs); i++ {
				isSt, val, is := cellAccess(b.Instrs[i], "storedBytes")
				if !is || !isSt {
					continue
				}
				bo, isBo := val.(*ssa.BinOp)
				if !isBo {
					continue
				}
				if isPut && bo.Op == token.ADD && bo.Y == c.Common.Args[3] {
					ok = true
				}
				if isRem && bo.Op == token.SUB {
					if ex, isEx := bo.Y.(*ssa.Extract); isEx && ex.Tuple == c.Value() && ex.Index == 1 {
						ok = true
					}
				}
			}
			r.check(ok, fmt.Sprintf("accounting:%s#%d", short(c.Name), n), r.pos(c.Instr), "followed by the matching storedBytes adjustment with the same size",
				"heap operation is not followed by the matching storedBytes adjustment: the byte budget drifts (cache exceeds MaxBytes or evicts forever)")
		}
		r.atLeast("heap operations", n, 3)
		// eviction precedes the put
		puts := callsMatching(h, false, nameHasSuffix("cache.indexedHeap).put"))
		rf := callsMatching(h, false, nameHasSuffix("cache.indexedHeap).removeFirst"))
		if len(puts) == 1 && len(rf) == 1 {
			_, hit := reach(pointAfter(puts[0].Instr), func(in ssa.Instruction) bool { return in == rf[0].Instr }, nil, nil)
			r.check(hit == nil, "accounting:evict-before-put", r.pos(puts[0].Instr), "eviction is not reachable after the put (room is made first)", "eviction can run after the new entry was put")
		}
	})

	r.rule("R5", "transparency fields (E4): each response-carrying field of item is written on store and read on hit", func() {
		_, h := cacheHandler(r)
		wr, rd := map[string]bool{}, map[string]bool{}
		for _, fr := range fieldRefs(h) {
			if fr.Write {
				wr[fr.Name] = true
			} else {
				rd[fr.Name] = true
			}
		}
		// the headers map is written inside the VisitAll closure
		for _, a := range anonFuncsDeep(h) {
			for _, fr := range fieldRefs(a) {
				if !fr.Write {
					wr[fr.Name+"(elem)"] = true
				}
			}
		}
		_, st := r.P.Struct(cachePkg, "item")
		r.need(st != nil, "cache.item")
		n := 0
		for i := 0; i < st.NumFields(); i++ {
			fn := st.Field(i).Name()
			if fn == "exp" || fn == "heapidx" {
				continue
			}
			n++
			name := "cache.item." + fn
			r.check(wr[name] && rd[name], "item-field:"+name, r.fpos(h), "written on store and read on hit",
				fmt.Sprintf("%s: written-on-store=%v read-on-hit=%v — a cached response would differ from the origin response in this component", name, wr[name], rd[name]))
		}
		r.atLeast("response-carrying fields", n, 5)
		// stored headers: a header field may occur several times (Link, Set-Cookie, Vary …); a store keyed by field
		// name with one value per name keeps only the last occurrence
		for i := 0; i < st.NumFields(); i++ {
			if st.Field(i).Name() != "headers" {
				continue
			}
			okMulti := true
			if m, isMap := st.Field(i).Type().Underlying().(*types.Map); isMap {
				if sl, isSlice := m.Elem().Underlying().(*types.Slice); isSlice {
					if b, isBasic := sl.Elem().Underlying().(*types.Basic); isBasic && b.Kind() == types.Byte {
						okMulti = false // map[name][]byte: one value per name
					}
				} else if _, isStr := m.Elem().Underlying().(*types.Basic); isStr {
					okMulti = false
				}
			}
			r.check(okMulti, "item-field:cache.item.headers:repeated-values", r.fpos(h), "the stored headers can hold several values per field name",
				"the stored headers are a map from field name to one value: a header field the origin sent more than once (two Link lines, several Set-Cookie) is stored with its last value only, and a hit is served with fewer header lines than the origin response had")
		}
	})
	r.rule("R6", "heap handles are only permuted: a slot of indexedHeap.entries is overwritten only with another slot's value, so the handle left behind a removed entry survives until put recycles it (E10)", func() {
		isEntrySlice := func(t types.Type) bool {
			sl, ok := t.Underlying().(*types.Slice)
			return ok && namedTypeName(sl.Elem()) == "heapEntry"
		}
		slotAddr := func(v ssa.Value) (*ssa.IndexAddr, bool) {
			switch x := v.(type) {
			case *ssa.IndexAddr:
				return x, isEntrySlice(x.X.Type())
			case *ssa.FieldAddr:
				if ia, ok := x.X.(*ssa.IndexAddr); ok && isEntrySlice(ia.X.Type()) {
					return ia, true
				}
			}
			return nil, false
		}
		n, appends := 0, 0
		r.P.AllFuncs(cachePkg, func(f *ssa.Function) {
			for _, b := range f.Blocks {
				for _, in := range b.Instrs {
					if c, ok := in.(*ssa.Call); ok && calleeName(&c.Call) == "builtin:append" && isEntrySlice(c.Type()) {
						appends++
						r.check(strings.HasSuffix(f.String(), "indexedHeap).pushInternal"), "entries-append:"+short(f.String()), r.pos(in), "the only append to the entries slice is pushInternal (handle chosen by put)",
							"entries are appended outside pushInternal: the handle ↔ position table is not updated")
					}
					st, ok := in.(*ssa.Store)
					if !ok {
						continue
					}
					_, isSlot := slotAddr(st.Addr)
					if !isSlot {
						continue
					}
					n++
					fromSlot := false
					isSlotLoad := func(v ssa.Value) bool {
						if ld, ok := v.(*ssa.UnOp); ok && ld.Op == token.MUL {
							if ia, ok := ld.X.(*ssa.IndexAddr); ok && isEntrySlice(ia.X.Type()) {
								return true
							}
						}
						return false
					}
					if isSlotLoad(st.Val) {
						fromSlot = true
					} else if ld, ok := st.Val.(*ssa.UnOp); ok && ld.Op == token.MUL {
						// the other slot's value kept in a local variable in between (`atI := h.entries[j]`); whether the index
						// table follows such a swap is R16's question
						if al, ok := ld.X.(*ssa.Alloc); ok {
							sts := storesInto(al)
							if len(sts) == 1 && sts[0].Addr == ssa.Value(al) && isSlotLoad(sts[0].Val) {
								fromSlot = true
							}
						}
					}
					_, whole := st.Addr.(*ssa.IndexAddr)
					r.check(fromSlot && whole, fmt.Sprintf("entries-slot-store:%s#%d", short(f.String()), n), r.pos(in), "a heap slot is overwritten with the value of another heap slot (swap)",
						"a heap slot is overwritten with a value that is not another slot's: the handle (idx) stored there is lost, and put — which recycles the handle of the slot just past the end — hands out a handle that a live entry still owns; a later expiry or invalidation then removes the wrong entry")
				}
			}
		})
		r.atLeast("slot stores (Swap)", n, 2)
		r.atLeast("appends", appends, 1)
		// put takes the recycled handle from a slot, or a fresh one from maxidx
		put := r.Fn(cachePkg, "(*indexedHeap).put")
		var idxArg ssa.Value
		for _, c := range callsMatching(put, false, nameHasSuffix("indexedHeap).pushInternal")) {
			// the entry is built in place: find the store to its idx field
			for _, fr := range fieldRefs(put) {
				if fr.Write && fr.Name == "cache.heapEntry.idx" {
					idxArg = fr.Val
				}
			}
			_ = c
		}
		r.need(idxArg != nil, "put builds a heapEntry with an idx")
		var leaves []ssa.Value
		seenPhi := map[*ssa.Phi]bool{}
		var walk func(v ssa.Value)
		walk = func(v ssa.Value) {
			if ph, ok := v.(*ssa.Phi); ok {
				if seenPhi[ph] {
					return
				}
				seenPhi[ph] = true
				for _, e := range ph.Edges {
					walk(e)
				}
				return
			}
			leaves = append(leaves, v)
		}
		walk(idxArg)
		fromSlotOrMax := len(leaves) > 0
		for _, leaf := range leaves {
			if c, ok := leaf.(*ssa.Const); ok {
				if k, ok := constInt(c); ok && k == 0 {
					continue // the zero initialisation that both arms overwrite
				}
			}
			if !handleSource(leaf, slotAddr) {
				fromSlotOrMax = false
			}
		}
		r.check(fromSlotOrMax, "put:handle-source", r.fpos(put), "the handle given to a new entry is a recycled slot handle or the next fresh one", "put hands out a handle that is neither recycled from a slot nor fresh")
	})

	r.rule("R7", "what the cache hands to an external Storage is not its own scratch memory (E3): a storage may keep the slice, so a reused buffer would rewrite stored entries", func() {
		storageSetFreshBytesRule(r, cachePkg, "cache", 2)
	})

	r.rule("R8", "function-valued Config fields the middleware calls are never nil (E1): set by configDefault on every path, also when no config is passed", func() {
		configFuncFieldsRule(r, cachePkg, "cache")
	})

	r.rule("R9", "a store replaces, it does not add: on the way to heap.put the key is looked up again, and a live entry gives its heap slot and bytes back first (E1/E10)", func() {
		_, h := cacheHandler(r)
		puts := callsMatching(h, false, nameHasSuffix("cache.indexedHeap).put"))
		r.need(len(puts) == 1, "one heap.put")
		isPut := func(in ssa.Instruction) bool { return in == puts[0].Instr }
		// lookups after the handler ran: put is reachable from them without running c.Next()
		var look []callSite
		for _, gc := range callsMatching(h, false, nameHasSuffix("cache.manager).get")) {
			if _, hit := reach(pointAfter(gc.Instr), isPut, nil, func(in ssa.Instruction) bool { return isCallTo(in, isNext) }); hit != nil {
				look = append(look, gc)
			}
		}
		if len(look) == 0 {
			r.bad("store:replaces-existing-entry", r.pos(puts[0].Instr), "the key is not looked up again before heap.put: an entry that is still cached (a no-cache refresh, a concurrent miss that stored first) keeps its heap slot, its bytes are counted twice and the orphan's eviction later deletes the live entry")
			return
		}
		okAll := true
		for _, g := range look {
			// edges on which no live entry exists
			cut := map[edge]bool{}
			for _, br := range ifsOnValue(h, g.Value()) {
				if sl, ok := br.nilSlot(true); ok {
					cut[edge{br.If.Block(), sl}] = true
				}
			}
			for _, br := range branchesIn(h) {
				if loadOfField(br.Info.Root, "cache.item.exp") && dependsOn(br.Info.Root, func(v ssa.Value) bool { return v == g.Value() }) != nil {
					if sl, ok := br.eqIntSlot(0, true); ok {
						cut[edge{br.If.Block(), sl}] = true
					}
				}
			}
			isRemove := func(in ssa.Instruction) bool { return isCallTo(in, nameHasSuffix("cache.indexedHeap).remove")) }
			if _, hit := reach(pointAfter(g.Instr), isPut, cut, isRemove); hit != nil || len(cut) == 0 {
				okAll = false
			}
		}
		r.check(okAll, "store:replaces-existing-entry", r.pos(puts[0].Instr), "with a live entry present every path to heap.put first removes its heap slot",
			"a live entry of the key keeps its heap slot when the key is stored again: its bytes are counted twice and the orphan's eviction later deletes the live entry")
	})

	r.rule("R10", "an absent entry stays absent: between fetching an item with manager.get and acquiring a new one, the handler writes item.exp only where the fetched exp != 0 was established (an external storage answers an unknown key with an empty item, never nil) (E1)", func() {
		_, h := cacheHandler(r)
		isExpStore := func(in ssa.Instruction) bool {
			st, ok := in.(*ssa.Store)
			if !ok {
				return false
			}
			fa, ok := st.Addr.(*ssa.FieldAddr)
			if !ok {
				return false
			}
			fv := fieldVar(fa.X.Type(), fa.Field)
			return fv != nil && fieldOwner(fv)+"."+fv.Name() == "cache.item.exp"
		}
		isAcquire := func(in ssa.Instruction) bool { return isCallTo(in, nameHasSuffix("cache.manager).acquire")) }
		present := map[edge]bool{}
		for _, br := range branchesIn(h) {
			if loadOfField(br.Info.Root, "cache.item.exp") {
				if sl, ok := br.eqIntSlot(0, false); ok {
					present[edge{br.If.Block(), sl}] = true
				}
			}
		}
		n := 0
		for _, gc := range callsMatching(h, false, nameHasSuffix("cache.manager).get")) {
			n++
			path, hit := reach(pointAfter(gc.Instr), isExpStore, present, isAcquire)
			r.check(hit == nil, fmt.Sprintf("handler:get#%d:exp-written-only-for-present-entry", n), r.pos(gc.Instr), "with the `exp != 0` edges removed no write of the fetched item's exp is reachable",
				"the expiry of a fetched item is overwritten although no entry may exist: with an external Storage the first request that triggers the CacheInvalidator for an uncached key makes the empty item look expired, heap.remove(0) runs on an empty heap and the request panics with the cache mutex held: "+pathString(r.P, path))
		}
		r.atLeast("manager.get call sites in the handler", n, 2)
	})

	r.rule("R11", "request directives are matched whatever their letter case (RFC 9111 §5.2: directive names are case-insensitive): what hasRequestDirective searches in went through a case fold (E3)", func() {
		f := r.Fn(cachePkg, "hasRequestDirective")
		n := 0
		for _, c := range callsIn(f, true) {
			switch c.Name {
			case "strings.Contains", "strings.Index", "strings.HasPrefix", "strings.HasSuffix", "bytes.Contains", "bytes.Index":
			default:
				continue
			}
			n++
			folded := dependsOn(c.Common.Args[0], func(v ssa.Value) bool {
				cc, ok := v.(*ssa.Call)
				if !ok {
					return false
				}
				nm := calleeName(&cc.Call)
				return nm == "strings.ToLower" || strings.HasPrefix(nm, "github.com/gofiber/utils/v2.ToLower") || nm == "bytes.ToLower"
			}) != nil
			r.check(folded, fmt.Sprintf("hasRequestDirective:search#%d:case-folded", n), r.pos(c.Instr), "the Cache-Control value is lower-cased before the directive is searched",
				"the directive is searched in the header as sent: `Cache-Control: No-Store` (or NO-CACHE) is not recognised, the response is stored and served from the cache")
		}
		folds := len(callsMatching(f, true, nameIs("strings.EqualFold")))
		// … or compared member by member (`for _, m := range strings.Split(v, ",") { if name == directive …`): then the
		// member is also freed of the blanks around it — the list is `a, b`, and the blank belongs to no name
		isDirective := func(v ssa.Value) bool {
			if fv, ok := v.(*ssa.FreeVar); ok { // read inside a predicate literal (`slices.ContainsFunc(lines, func(…) bool {…})`)
				v = bindingOf(fv)
			}
			p, ok := v.(*ssa.Parameter)
			return ok && p.Parent() == f && p.Name() == "directive"
		}
		isSplit := func(v ssa.Value) bool {
			c, ok := v.(*ssa.Call)
			if !ok {
				return false
			}
			switch calleeName(&c.Call) {
			case "strings.Split", "strings.SplitN", "strings.SplitSeq", "strings.FieldsFunc", "strings.Cut", "strings.IndexByte", "strings.Index", "bytes.Split", "bytes.Cut", "bytes.IndexByte":
				return len(c.Call.Args) >= 2 && (literalIs(c.Call.Args[1], ",") || isConstInt(c.Call.Args[1], ','))
			}
			return false
		}
		eqs := 0
		var cmps []ssa.Instruction
		for _, g := range append([]*ssa.Function{f}, anonFuncsDeep(f)...) {
			cmps = append(cmps, instrsWhere(g, func(in ssa.Instruction) bool {
				bo, ok := in.(*ssa.BinOp)
				return ok && (bo.Op == token.EQL || bo.Op == token.NEQ) && (dependsOn(bo.X, isDirective) != nil) != (dependsOn(bo.Y, isDirective) != nil) && isByteSeq(bo.X.Type())
			})...)
		}
		for _, in := range cmps {
			bo := in.(*ssa.BinOp)
			member := bo.X
			if dependsOn(bo.X, isDirective) != nil {
				member = bo.Y
			}
			if dependsOn(member, isSplit) == nil {
				continue
			}
			eqs++
			folded := dependsOn(member, func(v ssa.Value) bool {
				cc, ok := v.(*ssa.Call)
				if !ok {
					return false
				}
				nm := calleeName(&cc.Call)
				return nm == "strings.ToLower" || strings.HasPrefix(nm, "github.com/gofiber/utils/v2.ToLower") || nm == "bytes.ToLower"
			}) != nil
			r.check(folded, fmt.Sprintf("hasRequestDirective:member-compare#%d:case-folded", eqs), r.pos(in), "the list member is lower-cased before it is compared with the directive",
				"the directive is compared with the list member as sent: `Cache-Control: No-Store` is not recognised, the response is stored and served from the cache")
			trimmed := dependsOn(member, func(v ssa.Value) bool {
				cc, ok := v.(*ssa.Call)
				if !ok || len(cc.Call.Args) == 0 {
					return false
				}
				nm := calleeName(&cc.Call)
				isTrim := nm == "strings.TrimSpace" || nm == "strings.Trim" || nm == "strings.TrimLeft" || nm == "bytes.TrimSpace" || strings.HasPrefix(nm, "github.com/gofiber/utils/v2.Trim")
				return isTrim && dependsOn(cc.Call.Args[0], isSplit) != nil
			}) != nil
			r.check(trimmed, fmt.Sprintf("hasRequestDirective:member-compare#%d:member-trimmed", eqs), r.pos(in), "each member of the comma-separated list is trimmed before it is compared",
				"the members of the Cache-Control list are compared with the blank that follows the comma: `max-age=0, no-cache` and `private, no-store` are not recognised — a no-cache request is answered from the cache, a no-store response is stored")
		}
		r.atLeast("directive searches", n+folds+eqs, 1)
		// … on every Cache-Control field line of the request (several lines are one list): the text comes from an
		// accessor that hands out all values, not from Get/Peek, which answer the first line only
		single, all := 0, 0
		for _, c := range callsIn(f, true) {
			switch {
			case strings.HasSuffix(c.Name, ".Ctx).Get"), strings.HasSuffix(c.Name, "RequestHeader).Peek"):
				single++
			case strings.HasSuffix(c.Name, "RequestHeader).PeekAll"), strings.HasSuffix(c.Name, ".Ctx).GetReqHeaders"), strings.HasSuffix(c.Name, "RequestHeader).VisitAll"):
				all++
			}
		}
		r.check(all > 0 && single == 0, "hasRequestDirective:every-field-line", r.fpos(f), "the directive is searched in every Cache-Control line of the request",
			"only the first Cache-Control line of the request is looked at: `Cache-Control: max-age=0` followed by a second line `Cache-Control: no-cache` (or no-store) is served from the cache / stored")
	})

	r.rule("R16", "the index table follows the swap: removals go through indices[entry.idx] to the entry's position, so in Swap every write indices[k] = p uses as k the handle of the entry that lies at position p after the exchange — read from the slot after the exchange, or taken from the very value that was stored there; a table updated with the handles of the old occupants sends a later remove(heapidx) to another key's slot, whose bytes are subtracted instead: the cache then holds more than MaxBytes, or the heap indexes out of range (E5: the two writes of one permutation agree)", func() {
		f := r.Fn(cachePkg, "(indexedHeap).Swap")
		isEntries := func(v ssa.Value) bool {
			sl, ok := v.Type().Underlying().(*types.Slice)
			return ok && namedTypeName(sl.Elem()) == "heapEntry"
		}
		// what is stored into entries[p]: described by its source (a local variable, or a loaded value)
		type src struct {
			local *ssa.Alloc
			val   ssa.Value
		}
		srcOf := func(v ssa.Value) src {
			if ld, ok := v.(*ssa.UnOp); ok && ld.Op == token.MUL {
				if al, ok := ld.X.(*ssa.Alloc); ok {
					return src{local: al}
				}
			}
			return src{val: v}
		}
		slotVal := map[ssa.Value]src{}
		var lastSlotStore ssa.Instruction
		for _, b := range f.Blocks {
			for _, in := range b.Instrs {
				st, ok := in.(*ssa.Store)
				if !ok {
					continue
				}
				if ia, ok := st.Addr.(*ssa.IndexAddr); ok && isEntries(ia.X) {
					slotVal[ia.Index] = srcOf(st.Val)
					lastSlotStore = in
				}
			}
		}
		r.need(len(slotVal) == 2 && lastSlotStore != nil, "Swap stores into two slots of entries")
		n := 0
		for _, b := range f.Blocks {
			for _, in := range b.Instrs {
				st, ok := in.(*ssa.Store)
				if !ok {
					continue
				}
				ia, ok := st.Addr.(*ssa.IndexAddr)
				if !ok || isEntries(ia.X) {
					continue
				}
				if _, isIntSlice := ia.X.Type().Underlying().(*types.Slice); !isIntSlice {
					continue
				}
				n++
				pos := st.Val // the position written
				want, known := slotVal[pos]
				okKey := false
				// the key: the idx field of some entry
				switch k := stripValue(ia.Index).(type) {
				case *ssa.UnOp:
					if fa, ok := k.X.(*ssa.FieldAddr); ok {
						switch base := fa.X.(type) {
						case *ssa.IndexAddr:
							// read from the slot: must be slot `pos`, after the exchange
							okKey = isEntries(base.X) && base.Index == pos && b == lastSlotStore.Block() && idxIn(k) > idxIn(lastSlotStore)
						case *ssa.Alloc:
							okKey = known && want.local == base
						}
					}
				case *ssa.Field:
					okKey = known && want.local == nil && want.val == k.X
				}
				r.check(okKey, fmt.Sprintf("Swap:indices-write#%d:handle-of-the-new-occupant", n), r.pos(in), "the table is updated with the handle of the entry now at that position",
					"Swap records a position under the handle of an entry that does not lie there after the exchange (the old occupant's): indices[] goes stale — a later heap.remove(e.heapidx) removes another key's slot and subtracts that key's size; with MaxBytes = 10 the cache ends up holding 18 bytes, other histories index out of range")
			}
		}
		r.atLeast("writes into the index table in Swap", n, 2)
	})

	r.rule("R15", "every stored entry has its heap slot when MaxBytes is set: the take-out paths (expiry, invalidation, refresh, eviction) call heap.remove(e.heapidx) on the test MaxBytes > 0 alone, so the store path calls heap.put on that test alone as well — no further condition between the MaxBytes gate and put (an entry stored without a slot keeps heapidx 0: its removal takes out another key's slot and subtracts that key's bytes, the cache then holds more than MaxBytes, or the index is out of range) (E5: writer and readers under the same guard)", func() {
		_, h := cacheHandler(r)
		puts := callsMatching(h, false, nameHasSuffix("cache.indexedHeap).put"))
		r.need(len(puts) >= 1, "the handler stores entries in the heap")
		isMaxBytes := func(v ssa.Value) bool {
			return dependsOn(v, func(x ssa.Value) bool {
				if fa, ok := x.(*ssa.FieldAddr); ok {
					if fv := fieldOfValue(fa); fv != nil && fv.Name() == "MaxBytes" {
						return true
					}
				}
				return false
			}) != nil
		}
		for i, p := range puts {
			// walk up the dominator tree from the put to the MaxBytes gate: no other conditional on the way
			okGate, extra := false, ""
			fn := p.Instr.Parent()
			_ = fn
			for d := p.Block(); d != nil; d = d.Idom() {
				par := d.Idom()
				if par == nil {
					break
				}
				iff, isIf := par.Instrs[len(par.Instrs)-1].(*ssa.If)
				if !isIf {
					continue
				}
				onEdge := false
				for _, sc := range par.Succs {
					if (sc == d || dom(sc, p.Block())) && len(sc.Preds) == 1 {
						onEdge = true
					}
				}
				if !onEdge {
					continue // a join: the put does not depend on this branch
				}
				if isMaxBytes(iff.Cond) {
					okGate = true
					break
				}
				extra = r.pos(iff)
				break
			}
			r.check(okGate, fmt.Sprintf("handler:heap.put#%d:on-the-MaxBytes-gate-alone", i+1), r.pos(p.Instr), "heap.put depends on MaxBytes > 0 alone",
				"heap.put is skipped under a further condition ("+extra+") although the removals depend on MaxBytes > 0 alone: an entry stored without a heap slot (e.g. an empty body) is later removed through heapidx 0 — another key's slot is taken out and its size subtracted, the bytes held exceed MaxBytes, or the heap indexes out of range")
		}
	})

	r.rule("R14", "the separately stored body lives as long as its entry: the lifetime handed to manager.setRaw for the `_body` record is the value handed to the manager.set that follows it (both follow the ExpirationGenerator) — a body that expires first leaves a fresh entry that is served as a hit with an empty body (E5, sibling agreement)", func() {
		_, h := cacheHandler(r)
		n := 0
		for _, raw := range callsMatching(h, false, nameHasSuffix("cache.manager).setRaw")) {
			ttlRaw := raw.Common.Args[len(raw.Common.Args)-1]
			for _, set := range callsMatching(h, false, nameHasSuffix("cache.manager).set")) {
				if _, hit := reach(pointAfter(raw.Instr), func(in ssa.Instruction) bool { return in == set.Instr }, nil, nil); hit == nil {
					continue
				}
				n++
				ttlSet := set.Common.Args[len(set.Common.Args)-1]
				r.check(sameValue(ttlRaw, ttlSet), fmt.Sprintf("handler:setRaw#%d:same-lifetime-as-its-entry", n), r.pos(raw.Instr), "setRaw and the following set are given the same lifetime value",
					"the body record and its entry are stored with different lifetimes ("+r.pos(raw.Instr)+" vs "+r.pos(set.Instr)+"): with an ExpirationGenerator that answers more than Config.Expiration the storage drops `<key>_body` while the entry is still fresh — X-Cache: hit with the origin's status and headers and an empty body")
			}
		}
		r.atLeast("setRaw/set pairs in the handler", n, 1)
	})

	r.rule("R13", "an entry is complete when it is handed to the store: after manager.set(key, e, …) no field of an item is written any more in the handler — with an external Storage the entry is serialised by set, a heap index (or anything else) assigned afterwards never reaches the stored record (E10 ordering)", func() {
		_, h := cacheHandler(r)
		isItemWrite := func(in ssa.Instruction) bool {
			st, ok := in.(*ssa.Store)
			if !ok {
				return false
			}
			fa, ok := st.Addr.(*ssa.FieldAddr)
			if !ok {
				return false
			}
			fv := fieldVar(fa.X.Type(), fa.Field)
			return fv != nil && fieldOwner(fv) == "cache.item"
		}
		n := 0
		for _, c := range callsMatching(h, false, nameHasSuffix("cache.manager).set")) {
			n++
			// (giving the entry back to the pool wipes it: that is the end of the entry, not a late write)
			isRelease := func(in ssa.Instruction) bool { return isCallTo(in, nameHasSuffix("cache.manager).release")) }
			path, hit := reach(pointAfter(c.Instr), isItemWrite, nil, isRelease)
			r.check(hit == nil, fmt.Sprintf("handler:set#%d:entry-complete-when-stored", n), r.pos(c.Instr), "no write of an item field is reachable after the entry was handed to the store",
				"a field of the entry is written after manager.set: with an external Storage the stored record was serialised before — it keeps the old value (heap index 0 for every entry: a later removal by index takes another entry's slot and size; the byte accounting drifts and heap.Remove can index out of range): "+pathString(r.P, path))
		}
		r.atLeast("manager.set calls in the handler", n, 1)
	})

	r.rule("R12", "what the cache keeps of a response is copied out of it: the bytes stored in an item — body, content type, encoding, and both the names and the values of the stored headers — are copies, not views of the response's (or a header visitor's) buffers, which the next response written through the same context overwrites (E3)", func() {
		_, h := cacheHandler(r)
		isCopy := func(v ssa.Value) bool {
			for {
				if ct, ok := v.(*ssa.ChangeType); ok {
					v = ct.X
					continue
				}
				break
			}
			switch x := v.(type) {
			case *ssa.Const, *ssa.MakeMap, *ssa.MakeSlice:
				return true
			case *ssa.Convert:
				return isByteSeq(x.Type()) && isByteSeq(x.X.Type()) && !types.Identical(x.Type().Underlying(), x.X.Type().Underlying())
			case *ssa.Call:
				n := calleeName(&x.Call)
				return strings.HasSuffix(n, "utils/v2.CopyBytes") || strings.HasSuffix(n, "utils/v2.CopyString") || n == "strings.Clone" || n == "bytes.Clone" || strings.HasPrefix(n, "slices.Clone") ||
					strings.HasSuffix(n, "cache.manager).getRaw") || n == "strings.ToLower" || n == "strings.ToUpper"
			}
			return false
		}
		isView := func(v ssa.Value) bool {
			switch x := v.(type) {
			case *ssa.Parameter:
				return isByteSeq(x.Type()) // a visitor's key / value
			case *ssa.Call:
				n := calleeName(&x.Call)
				return strings.Contains(n, "valyala/fasthttp") || strings.HasSuffix(n, "utils/v2.UnsafeString") || strings.HasSuffix(n, "utils/v2.UnsafeBytes")
			}
			return false
		}
		n := 0
		judge := func(what string, v ssa.Value, at ssa.Instruction) {
			n++
			r.check(isCopy(v) || dependsOn(v, isView) == nil, fmt.Sprintf("store:%s#%d:copied", what, n), r.pos(at), "the stored bytes are a copy (or do not come from the response at all)",
				"the cache keeps a view of the response's memory in "+what+": with the in-memory store the next response written through the same context (a keep-alive connection) overwrites it, and a later hit is served with another response's header name / bytes")
		}
		fs := append([]*ssa.Function{h}, anonFuncsDeep(h)...)
		for _, g := range fs {
			withinFunction(g, func() {
				for _, b := range g.Blocks {
					for _, in := range b.Instrs {
						switch x := in.(type) {
						case *ssa.Store:
							fa, ok := x.Addr.(*ssa.FieldAddr)
							if !ok {
								continue
							}
							fv := fieldVar(fa.X.Type(), fa.Field)
							if fv == nil || fieldOwner(fv) != "cache.item" || !isByteSeq(fv.Type()) {
								continue
							}
							judge("cache.item."+fv.Name(), x.Val, in)
						case *ssa.MapUpdate:
							if fv := fieldOfValue(stripValue(x.Map)); fv != nil && fieldOwner(fv) == "cache.item" {
								judge("cache.item."+fv.Name()+"(name)", x.Key, in)
								judge("cache.item."+fv.Name()+"(value)", x.Value, in)
							}
						}
					}
				}
			})
		}
		r.atLeast("stores of response bytes into the item", n, 5)
	})
}

func handleSource(v ssa.Value, slotAddr func(ssa.Value) (*ssa.IndexAddr, bool)) bool {
	return dependsOn(v, func(v ssa.Value) bool {
		if fa, ok := v.(*ssa.FieldAddr); ok {
			if fv := fieldVar(fa.X.Type(), fa.Field); fv != nil {
				if fv.Name() == "maxidx" {
					return true
				}
				if fv.Name() == "idx" {
					_, ok := slotAddr(fa)
					return ok
				}
			}
		}
		return false
	}) != nil
}

func cellAccessV(v ssa.Value, name string) (bool, ssa.Value, bool) {
	in, ok := v.(ssa.Instruction)
	if !ok {
		return false, nil, false
	}
	return cellAccess(in, name)
}
