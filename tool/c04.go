package main

import (
	"fmt"
	"go/token"
	"go/types"
	"sort"
	"strings"

	"golang.org/x/tools/go/ssa"
)

func init() {
	register(&propDef{
		ID: "C04",
		Explain: "Decided clauses: R1 copyRoute copies every Route field (allow-list: group); R2 addPrefixToRoute re-computes every Route field whose value at registration depends on the path; " +
			"R3 mount-time pattern normalisation equals registration-time normalisation; R4 every composition point (Group.*, Registering.Route, Group.mount, addPrefixToRoute) joins prefixes through the one joiner getGroupPath; " +
			"R5 processSubAppsRoutes fills the new stack from exactly prefix-of-old, cloned sub routes, suffix-of-old in this order, replaces the stack afterwards, flattens sub-apps first and renumbers positions. " +
			"Not decided: behavioural equivalence of the two compositions for all trees and requests; slice-bound arithmetic of the splice.",
		Assume: []string{"sub-app route stacks are only read through route.group.app.stack"},
		Run:    runC04,
	})
}

func runC04(r *Run) {
	r.rule("R1", "copyRoute mentions every field of Route (E4b)", func() {
		_, st := r.P.Struct("", "Route")
		r.need(st != nil, "Route struct")
		f := r.Fn("", "(*App).copyRoute")
		wr := map[string]bool{}
		for _, fr := range fieldRefs(f) {
			if fr.Write {
				wr[fr.Name] = true
			}
		}
		allow := map[string]string{"Route.group": "cloned routes are re-homed under the parent app; group is only read for mount placeholders, which are never cloned into a parent"}
		r.atLeast("Route fields", st.NumFields(), 13)
		for i := 0; i < st.NumFields(); i++ {
			n := "Route." + st.Field(i).Name()
			if why, ok := allow[n]; ok {
				r.ok("copyRoute:"+n, r.fpos(f), "allow-listed: "+why)
				continue
			}
			r.check(wr[n], "copyRoute:"+n, r.fpos(f), "copied", n+" is not copied by copyRoute: routes of mounted sub-apps lose it")
		}
	})

	r.rule("R2", "addPrefixToRoute stores every Route field that register derives from the path (E4c)", func() {
		reg := r.Fn("", "(*App).register")
		derived := map[string]string{}
		for _, fr := range fieldRefs(reg) {
			if !fr.Write || !strings.HasPrefix(fr.Name, "Route.") || fr.Val == nil {
				continue
			}
			if dependsOnParam(fr.Val, "pathRaw") {
				derived[fr.Name] = r.pos(fr.Instr)
			} else if _, root, ok := flagFromCompare(reg, fr.Val); ok && dependsOnParam(root, "pathRaw") {
				// a flag set by control flow (`switch pathPretty { case "/": isRoot = true }`)
				derived[fr.Name] = r.pos(fr.Instr)
			}
		}
		r.atLeast("path-derived Route fields in register", len(derived), 6)
		pre := r.Fn("", "(*App).addPrefixToRoute")
		wr := map[string]bool{}
		for _, fr := range fieldRefs(pre) {
			if fr.Write {
				wr[fr.Name] = true
			}
		}
		// … on every path: a shortcut that hands the route back as it is (because nothing seems to have been prepended)
		// keeps what was derived under the sub-app's configuration
		for _, n := range sortedKeys(derived) {
			if !wr[n] {
				continue
			}
			n := n
			isStore := func(in ssa.Instruction) bool {
				st, ok := in.(*ssa.Store)
				if !ok {
					return false
				}
				fa, ok := st.Addr.(*ssa.FieldAddr)
				if !ok {
					return false
				}
				fv := fieldVar(fa.X.Type(), fa.Field)
				return fv != nil && fieldOwner(fv)+"."+fv.Name() == n
			}
			ownReturn := func(in ssa.Instruction) bool { _, ok := in.(*ssa.Return); return ok && in.Parent() == pre }
			path, hit := reach(entryOf(pre), ownReturn, nil, isStore)
			r.check(hit == nil, "addPrefixToRoute:"+n+":on-every-path", r.fpos(pre), "every return of addPrefixToRoute is preceded by the store",
				"addPrefixToRoute can hand the route back without recomputing "+n+": for a mount on \"/\" the clone keeps the pattern, parser and parameter names as derived under the sub-app's CaseSensitive / StrictRouting, while requests are prepared under the parent's: "+pathString(r.P, path))
		}
		// flags that register derives by comparing the normalised pattern with a literal (root: "/", star: "/*") are
		// derived the same way from the prefixed pattern — a constant forgets the case in which the mount leaves the
		// pattern as it was (a mount on "/")
		flagExempt := map[string]string{
			"Route.star": "a shortcut only: the pattern `/*` is parsed to a wildcard segment that captures the same text, Route.match answers the same with and without the flag",
		}
		nflags := 0
		for _, fr := range fieldRefs(reg) {
			if !fr.Write || !strings.HasPrefix(fr.Name, "Route.") || fr.Val == nil {
				continue
			}
			lit, cmpRoot, isLit := flagFromCompare(reg, fr.Val)
			if !isLit || !dependsOnParam(cmpRoot, "pathRaw") {
				continue
			}
			nflags++
			if why, ok := flagExempt[fr.Name]; ok {
				r.ok("addPrefixToRoute:"+fr.Name+":flag-exempt", r.pos(fr.Instr), "exempt: "+why)
				continue
			}
			okFlag := false
			for _, pr := range fieldRefs(pre) {
				if !pr.Write || pr.Name != fr.Name || pr.Val == nil {
					continue
				}
				// derived from the prefixed pattern — by data (`prettyPath == "/"`, `len(p) == 1 && p[0] == '/'`) or by a
				// comparison that steers the assignment; which comparison is the matcher's business (C01-R10, C05-R8)
				isPrefixed := func(x ssa.Value) bool {
					c, ok := x.(*ssa.Call)
					return ok && strings.HasSuffix(calleeName(&c.Call), "getGroupPath")
				}
				if dependsOn(pr.Val, isPrefixed) != nil {
					okFlag = true
				} else if _, root, ok := flagFromCompare(pre, pr.Val); ok && dependsOn(root, isPrefixed) != nil {
					okFlag = true
				}
			}
			r.check(okFlag, "addPrefixToRoute:"+fr.Name+":derived-from-the-prefixed-pattern", r.fpos(pre), fmt.Sprintf("the flag is derived from the prefixed, normalised pattern (at registration: a comparison with %q)", lit),
				fmt.Sprintf("%s is derived from the pattern at registration (== %q, %s) but set to a constant at mount: a sub-app's root-level Use mounted on \"/\" loses `matches everything` — GET // (empty detection path) skips a middleware that the same Use registered directly, or through Group(\"/\"), runs", fr.Name, lit, r.pos(fr.Instr)))
		}
		r.atLeast("pattern-comparison flags in register", nflags, 2)
		for _, n := range sortedKeys(derived) {
			r.check(wr[n], "addPrefixToRoute:"+n, r.fpos(pre), "recomputed for the prefixed path",
				n+" depends on the route path at registration ("+derived[n]+") but addPrefixToRoute does not recompute it for the prefixed path: under app.Use(\"/:tenant\", sub) the sub-app's routes keep their own parameter names while the matcher fills values for the prefixed pattern (Params(\"id\") returns the tenant; /plain answers 404)")
		}
	})

	r.rule("R2b", "the parsed forms are rebuilt from the same spelling of the path as at registration: the matcher from the normalised path, the parameter names from the path as written (E5)", func() {
		isNormaliser := func(v ssa.Value) bool {
			c, ok := v.(*ssa.Call)
			if !ok {
				return false
			}
			n := calleeName(&c.Call)
			return strings.HasPrefix(n, "github.com/gofiber/utils/v2.ToLower") // case folding is what separates the two spellings
		}
		// spelling of the argument of the parseRoute call a stored value comes from
		spelling := func(f *ssa.Function, field string) (string, string) {
			for _, fr := range fieldRefs(f) {
				if !fr.Write || fr.Name != field || fr.Val == nil {
					continue
				}
				// the value itself must not be copied from another, already parsed form
				if field == "Route.Params" {
					if d := dependsOn(fr.Val, func(v ssa.Value) bool { return loadOfField(v, "Route.routeParser") }); d != nil {
						return "copied from Route.routeParser", r.pos(fr.Instr)
					}
				}
				pc := dependsOn(fr.Val, func(v ssa.Value) bool {
					c, ok := v.(*ssa.Call)
					return ok && calleeName(&c.Call) == fiberMod+".parseRoute"
				})
				if pc == nil {
					return "not from parseRoute", r.pos(fr.Instr)
				}
				arg := pc.(*ssa.Call).Call.Args[0]
				norm := false
				withinFunction(f, func() { norm = dependsOn(arg, isNormaliser) != nil }) // normalised in this function or a helper it calls
				if norm {
					return "normalised", r.pos(fr.Instr)
				}
				return "as written", r.pos(fr.Instr)
			}
			return "missing", r.fpos(f)
		}
		reg, pre := r.Fn("", "(*App).register"), r.Fn("", "(*App).addPrefixToRoute")
		for _, field := range []string{"Route.routeParser", "Route.Params"} {
			a, _ := spelling(reg, field)
			b, pos := spelling(pre, field)
			want := map[string]string{"Route.routeParser": "normalised", "Route.Params": "as written"}[field]
			r.check(a == want && b == want, "addPrefixToRoute≡register:"+field+":spelling", pos, field+" is parsed from the path "+want+" in both",
				fmt.Sprintf("%s is parsed from the path %s at registration and %s at mount time (expected: %s): mounted routes keep upper-case constants in their matcher (they no longer match the lower-cased request path and are filed under the wrong bucket) or report lower-cased parameter names", field, a, b, want))
		}
	})

	r.rule("R2c", "re-parsing at mount time keeps the custom constraints the route was registered with (those of the sub-app), it does not fall back to the parent's alone (E3)", func() {
		pre := r.Fn("", "(*App).addPrefixToRoute")
		var routeP *ssa.Parameter
		for _, p := range pre.Params {
			if strings.HasSuffix(p.Type().String(), "fiber/v3.Route") {
				routeP = p
			}
		}
		r.need(routeP != nil, "addPrefixToRoute(prefix, route)")
		n := 0
		withinFunction(pre, func() {
			for _, c := range callsMatching(pre, false, nameIs(fiberMod+".parseRoute")) {
				n++
				cons := c.Common.Args[len(c.Common.Args)-1]
				fromRoute := dependsOn(cons, func(v ssa.Value) bool { return v == ssa.Value(routeP) }) != nil
				// on every way the list can be chosen: a fallback (`if len(parent's) == 0 { use the route's }`) drops
				// the route's constraints exactly when the parent has constraints of its own
				// (edges that are only taken when the route has no constraints of its own do not count)
				empty := map[edge]bool{}
				for _, br := range branchesIn(pre) {
					lc, ok := stripValue(br.Info.Root).(*ssa.Call)
					if !ok || calleeName(&lc.Call) != "builtin:len" || len(lc.Call.Args) != 1 {
						continue
					}
					if dependsOn(lc.Call.Args[0], func(x ssa.Value) bool { return x == ssa.Value(routeP) }) == nil {
						continue
					}
					if k, isInt := constInt(br.Info.Const); isInt && k == 0 {
						switch br.Info.Op {
						case token.GTR, token.NEQ:
							empty[edge{br.If.Block(), br.slotWhenRel(false)}] = true
						case token.EQL, token.LEQ:
							empty[edge{br.If.Block(), br.slotWhenRel(true)}] = true
						}
					}
				}
				live := blocksReachable(pre.Blocks[0], empty, nil)
				var allEdges func(v ssa.Value, d int) bool
				allEdges = func(v ssa.Value, d int) bool {
					if ph, ok := v.(*ssa.Phi); ok && d < 4 {
						n := 0
						for k, e := range ph.Edges {
							pred := ph.Block().Preds[k]
							dead := !live[pred]
							for sl, su := range pred.Succs {
								if su == ph.Block() && empty[edge{pred, sl}] {
									dead = true
								}
							}
							if dead {
								continue
							}
							n++
							if !allEdges(e, d+1) {
								return false
							}
						}
						return n > 0
					}
					if sl, ok := v.(*ssa.Slice); ok {
						return allEdges(sl.X, d+1)
					}
					return dependsOn(v, func(x ssa.Value) bool { return x == ssa.Value(routeP) }) != nil
				}
				fromRoute = fromRoute && allEdges(cons, 0)
				r.check(fromRoute, fmt.Sprintf("addPrefixToRoute:parseRoute#%d:route-constraints", n), r.pos(c.Instr), "the constraint list handed to the re-parse is derived from the route being re-prefixed",
					"the mounted pattern is re-parsed with the parent application's custom constraints only: a constraint registered on the sub-app is unknown there, unknown names mean `no constraint`, and the mounted route accepts every value although the same route on the sub-app itself rejects it")
			}
		})
		r.atLeast("parseRoute calls at mount time", n, 2)
		// … and is a list of its own: appending the route's constraints to app.customConstraints in place writes into
		// the parent's backing array, where the next mounted sub-app overwrites them
		na := 0
		aliased := ""
		for _, b := range pre.Blocks {
			for _, in := range b.Instrs {
				c, ok := in.(*ssa.Call)
				if !ok {
					continue
				}
				if bi, ok := c.Call.Value.(*ssa.Builtin); !ok || bi.Name() != "append" || len(c.Call.Args) == 0 {
					continue
				}
				na++
				if sharesBackingWith(c.Call.Args[0], func(v ssa.Value) bool { return loadOfField(v, "App.customConstraints") }) != nil {
					aliased = r.pos(in)
				}
			}
		}
		r.count("append calls in addPrefixToRoute", na)
		r.check(aliased == "", "addPrefixToRoute:constraint-list-of-its-own", r.fpos(pre), "no append on a slice that can share its backing array with App.customConstraints",
			"the route's constraints are appended to app.customConstraints in place ("+aliased+"): with spare capacity they land in the parent's backing array, the next mounted sub-app overwrites them, and the first sub-app's constraint is no longer found — nothing is enforced")
	})

	r.rule("R3", "mount-time normalisation ≡ registration-time normalisation (shared with C03-R1)", func() {
		reg, pre, _, _ := normForms(r)
		ok, d := sameForm(reg["pattern"], pre["pattern"])
		r.check(ok, "addPrefixToRoute≡register:pattern", r.fpos(r.Fn("", "(*App).addPrefixToRoute")), "same pattern normalisation "+formList(pre["pattern"]), "mount-time pattern normalisation differs from registration: "+d)
	})

	r.rule("R4", "prefix joins go through getGroupPath at every composition point (E5)", func() {
		withoutHelpers(func() { // attribution rule: each construct belongs to the one function that contains it
			isJoin := func(v ssa.Value) bool {
				c, ok := v.(*ssa.Call)
				return ok && calleeName(&c.Call) == fiberMod+".getGroupPath"
			}
			n := 0
			// register calls inside Group methods: path argument derives from getGroupPath
			for _, m := range []string{"(*Group).Add", "(*Group).Use", "(*Group).Group", "(*Group).mount"} {
				f := r.Fn("", m)
				for i, c := range callsMatching(f, false, nameHasSuffix("App).register")) {
					n++
					arg := c.Common.Args[2] // recv, methods, pathRaw
					r.check(dependsOn(arg, isJoin) != nil, fmt.Sprintf("%s:register#%d", m, i), r.pos(c.Instr), "registered path = getGroupPath(group prefix, path)",
						m+" registers a path that is not joined with the group prefix through getGroupPath")
				}
			}
			// stores that carry the prefix forward
			for _, spec := range []struct{ fn, field string }{
				{"(*Group).Group", "Group.Prefix"}, {"(*Group).Route", "Registering.path"}, {"(*Registering).Route", "Registering.path"},
				{"(*Group).mount", "Group.Prefix"}, {"(*App).addPrefixToRoute", "Route.Path"},
			} {
				f := r.Fn("", spec.fn)
				found := false
				for _, fr := range fieldRefs(f) {
					if fr.Write && fr.Name == spec.field {
						found = true
						n++
						r.check(dependsOn(fr.Val, isJoin) != nil, spec.fn+":"+spec.field, r.pos(fr.Instr), spec.field+" is built by getGroupPath",
							spec.fn+" builds "+spec.field+" without getGroupPath (a second, diverging prefix joiner)")
					}
				}
				if !found {
					r.bad(spec.fn+":"+spec.field, r.fpos(f), spec.fn+" no longer stores "+spec.field)
				}
			}
			r.atLeast("composition points", n, 8)
			// a list of prefixes: what is registered (or mounted) inside the loop over the list is the list's element
			isListElem := func(v ssa.Value) bool {
				u, ok := v.(*ssa.UnOp)
				if !ok || u.Op != token.MUL {
					return false
				}
				ia, ok := u.X.(*ssa.IndexAddr)
				if !ok {
					return false
				}
				sl, ok := ia.X.Type().Underlying().(*types.Slice)
				if !ok {
					return false
				}
				b, ok := sl.Elem().Underlying().(*types.Basic)
				return ok && b.Info()&types.IsString != 0
			}
			nl := 0
			for _, m := range []string{"(*Group).Use", "(*App).Use"} {
				f := r.Fn("", m)
				for _, c := range callsIn(f, false) {
					var arg ssa.Value
					switch {
					case strings.HasSuffix(c.Name, "App).register"):
						arg = c.Common.Args[2]
					case strings.HasSuffix(c.Name, "Group).mount"), strings.HasSuffix(c.Name, "App).mount"):
						arg = c.Common.Args[1]
					default:
						continue
					}
					nl++
					r.check(dependsOn(arg, isListElem) != nil, fmt.Sprintf("%s:%s#%d:registers-the-list-element", m, short(c.Name), nl), r.pos(c.Instr), "the prefix handed on is the element of the prefix list the loop is at",
						m+" registers something else than the element of the prefix list it iterates: Use([]string{\"/admin\", \"/internal\"}, guard) puts the guard on the group's root, once per element, instead of on the listed prefixes")
				}
			}
			r.atLeast("registrations in the prefix-list loops", nl, 4)
			// … for every element of the list: the mount of a sub-app does not end the loop over the prefixes
			nmnt := 0
			for _, m := range []string{"(*Group).Use", "(*App).Use"} {
				f := r.Fn("", m)
				for _, c := range callsIn(f, false) {
					if !strings.HasSuffix(c.Name, "Group).mount") && !strings.HasSuffix(c.Name, "App).mount") {
						continue
					}
					nmnt++
					_, again := reach(pointAfter(c.Instr), func(in ssa.Instruction) bool { return in == c.Instr }, nil, nil)
					r.check(again != nil, fmt.Sprintf("%s:mount#%d:every-listed-prefix", m, nmnt), r.pos(c.Instr), "after a mount the loop goes on to the next prefix of the list",
						m+" returns after mounting the sub-app on the first prefix of the list: Use([]string{\"/p\", \"/q\"}, sub) answers /p/… and 404s /q/…, while handlers registered with the same list (or groups spelled out) cover both")
				}
			}
			r.atLeast("mount calls in the prefix-list loops", nmnt, 2)
			// the re-prefixed pattern is built from the route's raw registered pattern (Route.Path), like a group registration
			// would see it — not from the sub-app's already normalised Route.path
			pre := r.Fn("", "(*App).addPrefixToRoute")
			joins := callsMatching(pre, false, nameIs(fiberMod+".getGroupPath"))
			okRaw := len(joins) == 1 && loadOfField(joins[0].Common.Args[1], "Route.Path")
			readsNormalised := false
			for _, fr := range fieldRefs(pre) {
				if !fr.Write && fr.Name == "Route.path" {
					readsNormalised = true
				}
			}
			r.check(okRaw && !readsNormalised, "addPrefixToRoute:joins-raw-pattern", r.fpos(pre), "getGroupPath(prefix, route.Path): the raw pattern is re-normalised with the parent's options",
				"addPrefixToRoute derives the mounted pattern from the sub-app's normalised Route.path instead of the raw Route.Path: the sub-app's own CaseSensitive/StrictRouting handling is baked into the mounted route, unlike a group registration under the parent")
			// … and the prefix it is joined with is the mount point as written (the placeholder's Route.Path), not the
			// placeholder's normalised path, which carries the case folding of the app that owns the placeholder
			ps := r.Fn("", "(*App).processSubAppsRoutes")
			np := 0
			withHelpers(func() {
				for _, c := range callsMatching(ps, false, nameHasSuffix("App).addPrefixToRoute")) {
					np++
					pfx := c.Common.Args[1]
					raw := dependsOn(pfx, func(v ssa.Value) bool { return loadOfField(v, "Route.Path") }) != nil
					norm := dependsOn(pfx, func(v ssa.Value) bool { return loadOfField(v, "Route.path") }) != nil
					r.check(raw && !norm, fmt.Sprintf("processSubAppsRoutes:addPrefixToRoute#%d:prefix-as-written", np), r.pos(c.Instr), "the mount prefix handed on is the placeholder's Route.Path",
						"the routes of a mounted sub-app are prefixed with the mount placeholder's normalised path: a nested mount `one.Use(\"/Two\", two)` under a case-sensitive root answers /one/two/… although the equivalent groups answer /one/Two/… only")
				}
			})
			r.atLeast("addPrefixToRoute call sites at mount time", np, 1)
			// … by the app the routes are spliced into: the patterns are normalised and parsed with the parent's
			// CaseSensitive / StrictRouting / constraints, as a group registration under the parent would be
			withHelpers(func() {
				for i, c := range callsMatching(ps, false, nameHasSuffix("App).addPrefixToRoute")) {
					r.check(len(ps.Params) > 0 && flowsUnchanged(c.Common.Args[0], ps.Params[0]), fmt.Sprintf("processSubAppsRoutes:addPrefixToRoute#%d:by-the-parent", i+1), r.pos(c.Instr), "addPrefixToRoute is called on the app whose stack receives the routes",
						"the routes of a mounted sub-app are re-normalised by another app than the one they are spliced into: a strict or case-sensitive parent answers /api and /api/reports for a default sub-app's routes, unlike the equivalent group")
				}
			})
			// the joiner itself: a prefix that ends in '/' must lose it before the path is appended
			gp := r.Fn("", "getGroupPath")
			var prefixParam ssa.Value
			if len(gp.Params) == 2 {
				prefixParam = gp.Params[0]
			}
			r.need(prefixParam != nil, "getGroupPath(prefix, path)")
			nj, rawJoin := 0, ""
			for _, b := range gp.Blocks {
				for _, in := range b.Instrs {
					bo, ok := in.(*ssa.BinOp)
					if !ok || bo.Op != token.ADD {
						continue
					}
					nj++
					for _, leaf := range []ssa.Value{bo.X, bo.Y} {
						if stripValue(leaf) == prefixParam {
							rawJoin = r.pos(in)
						}
					}
				}
			}
			r.atLeast("concatenations in getGroupPath", nj, 1)
			r.check(rawJoin == "", "getGroupPath:prefix-trimmed-before-join", r.fpos(gp), "the prefix enters a concatenation only after its trailing slashes were cut",
				"getGroupPath appends to the prefix as written ("+rawJoin+"): Group(\"/api/\").Get(\"users\") registers /api//users and a guard mounted with Use(\"admin\") no longer covers /api/admin")
		})
	})

	r.rule("R5", "processSubAppsRoutes: splice order prefix|clones|suffix, stack replaced afterwards, sub-apps flattened first, positions renumbered (E3/E10)", func() {
		f := r.Fn("", "(*App).processSubAppsRoutes")
		copies := callsMatching(f, false, nameIs("builtin:copy"))
		if len(copies) == 0 {
			// the same splice written as three appends to an empty slice of the right capacity
			spliceByAppends(r, f)
			return
		}
		if len(copies) != 3 {
			r.bad("splice:three-copies", r.fpos(f), fmt.Sprintf("expected exactly 3 copy() calls building the new stack, found %d", len(copies)))
			return
		}
		// dst must be slices of one make()
		var base ssa.Value
		roles := make([]string, 3)
		okShape := true
		for i, c := range copies {
			// the destination: the new stack itself (`copy(newStack, …)`, the same as newStack[0:]) or a slice of it
			var dstBase, dstLow ssa.Value
			if dst, ok := c.Common.Args[0].(*ssa.Slice); ok {
				dstBase, dstLow = dst.X, dst.Low
			} else {
				dstBase = c.Common.Args[0]
			}
			if base == nil {
				base = dstBase
			} else if dstBase != base {
				okShape = false
			}
			src := c.Common.Args[1]
			switch s := src.(type) {
			case *ssa.Slice:
				fromStack := dependsOn(s.X, func(v ssa.Value) bool { return loadOfField(v, "App.stack") }) != nil
				switch {
				case fromStack && s.Low == nil && s.High != nil && dstLow == nil:
					roles[i] = "prefix"
				case fromStack && s.Low != nil && s.High == nil && dstLow != nil:
					roles[i] = "suffix"
				default:
					roles[i] = "?"
				}
			default:
				// the clones slice: a make([]*Route, len(sub stack)) filled from copyRoute/addPrefixToRoute
				isMake := dependsOn(src, func(v ssa.Value) bool { _, ok := v.(*ssa.MakeSlice); return ok }) != nil
				if _, direct := src.(*ssa.MakeSlice); (direct || isMake) && dstLow != nil {
					roles[i] = "clones"
				} else {
					roles[i] = "?"
				}
			}
		}
		r.check(okShape && strings.Join(roles, "|") == "prefix|clones|suffix", "splice:sources-and-order", r.pos(copies[0].Instr),
			"new stack = old[:i] | cloned sub routes | old[i+1:]", "splice sources/order are "+strings.Join(roles, "|")+", want prefix|clones|suffix")
		// the suffix skips exactly the placeholder: Low = i+1
		if sl, ok := copies[2].Common.Args[1].(*ssa.Slice); ok {
			bo, ok2 := sl.Low.(*ssa.BinOp)
			r.check(ok2 && bo.Op == token.ADD && isConstInt(bo.Y, 1), "splice:suffix-skips-placeholder", r.pos(copies[2].Instr), "suffix starts at i+1 (the mount placeholder is dropped)", "suffix does not start at i+1")
		}
		// store of the new stack happens after the three copies
		var stackStore ssa.Instruction
		for _, in := range instrsWhere(f, func(in ssa.Instruction) bool {
			st, ok := in.(*ssa.Store)
			if !ok {
				return false
			}
			ia, ok := st.Addr.(*ssa.IndexAddr)
			return ok && loadOfField(ia.X, "App.stack") && (st.Val == base || dependsOn(st.Val, func(v ssa.Value) bool { return v == base }) != nil)
		}) {
			stackStore = in
		}
		okStore := stackStore != nil
		if okStore {
			for _, c := range copies {
				if c.Instr.Parent() != stackStore.Parent() {
					// the new stack is built in a helper and handed back: the copies must precede the helper's returns
					for _, ri := range instrsWhereOne(c.Instr.Parent(), isReturn) {
						if !(c.Block() == ri.Block() && idxIn(c.Instr) < idxIn(ri) || c.Block() != ri.Block() && dom(c.Block(), ri.Block())) {
							okStore = false
						}
					}
					continue
				}
				if !(c.Block() == stackStore.Block() && idxIn(c.Instr) < idxIn(stackStore) || c.Block() != stackStore.Block() && dom(c.Block(), stackStore.Block())) {
					okStore = false
				}
			}
		}
		r.check(okStore, "splice:replace-after-fill", r.fpos(f), "app.stack[m] is replaced after all three copies", "the old stack is replaced before the new one is complete (or never)")
		// clones come from copyRoute + addPrefixToRoute
		cp := callsMatching(f, false, nameHasSuffix("App).copyRoute"))
		ap := callsMatching(f, false, nameHasSuffix("App).addPrefixToRoute"))
		okClone := len(cp) == 1 && len(ap) == 1 && len(ap[0].Common.Args) == 3 && ap[0].Common.Args[2] == cp[0].Value()
		r.check(okClone, "splice:clone-then-prefix", r.fpos(f), "each sub route is cloned, then the clone is re-prefixed", "sub routes are not cloned before being re-prefixed (the sub-app's own routes would be mutated)")
		// recursion first
		var recCall ssa.Instruction
		for _, a := range anonFuncsDeep(f) {
			for _, c := range callsMatching(a, false, nameHasSuffix("App).processSubAppsRoutes")) {
				recCall = c.Instr
			}
		}
		r.check(recCall != nil, "splice:flatten-subapps-first", r.fpos(f), "sub-apps with their own mounts are flattened (recursive call) before their stacks are read", "nested mounts are not flattened before splicing")
		// renumbering: every non-mount route gets pos from a running counter
		posOK := false
		for _, fr := range fieldRefs(f) {
			if fr.Write && fr.Name == "Route.pos" {
				if phi, ok := fr.Val.(*ssa.BinOp); ok && phi.Op == token.ADD && isConstInt(phi.Y, 1) {
					// guarded by !route.mount
					for _, br := range branchesIn(f) {
						if loadOfField(br.Info.Root, "Route.mount") {
							if s, ok := br.truthSlot(false); ok && dom(br.If.Block().Succs[s], fr.Instr.Block()) {
								posOK = true
							}
						}
					}
				}
			}
		}
		r.check(posOK, "splice:renumber-positions", r.fpos(f), "non-mount routes get consecutive positions from a running counter", "route positions are not renumbered after the splice (merged buckets would be sorted by stale positions)")
	})
}

// spliceByAppends: C04-R5 for `n := make([]*Route, 0, …); n = append(n, old[:i]...); n = append(n, clones...);
// n = append(n, old[i+1:]...)` — the same obligations as for the copy form: sources and order, the suffix skips exactly
// the placeholder, the stack is replaced by the finished slice, clones are made before they are re-prefixed.
func spliceByAppends(r *Run, f *ssa.Function) {
	type app struct {
		c     callSite
		depth int
	}
	var chain []app
	var depthOf func(v ssa.Value, d int) int
	depthOf = func(v ssa.Value, d int) int { // number of appends between v and a make([]…, 0, …); −1: no such origin
		if d > 6 {
			return -1
		}
		switch x := stripValue(v).(type) {
		case *ssa.MakeSlice:
			return 0
		case *ssa.Call:
			if b, ok := x.Call.Value.(*ssa.Builtin); ok && b.Name() == "append" && len(x.Call.Args) == 2 {
				if n := depthOf(x.Call.Args[0], d+1); n >= 0 {
					return n + 1
				}
			}
		}
		return -1
	}
	for _, c := range callsMatching(f, false, nameIs("builtin:append")) {
		if len(c.Common.Args) != 2 || !strings.HasSuffix(c.Common.Args[0].Type().String(), ".Route") {
			continue
		}
		if n := depthOf(c.Value(), 0); n >= 1 {
			chain = append(chain, app{c, n})
		}
	}
	sort.Slice(chain, func(i, j int) bool { return chain[i].depth < chain[j].depth })
	if len(chain) != 3 || chain[0].depth != 1 || chain[1].depth != 2 || chain[2].depth != 3 {
		r.bad("splice:three-copies", r.fpos(f), fmt.Sprintf("expected 3 copy() calls or a chain of 3 appends building the new stack, found %d appends in a chain", len(chain)))
		return
	}
	roles := make([]string, 3)
	for i, a := range chain {
		src := a.c.Common.Args[1]
		switch sl := src.(type) {
		case *ssa.Slice:
			fromStack := dependsOn(sl.X, func(v ssa.Value) bool { return loadOfField(v, "App.stack") }) != nil
			switch {
			case fromStack && sl.Low == nil && sl.High != nil:
				roles[i] = "prefix"
			case fromStack && sl.Low != nil && sl.High == nil:
				roles[i] = "suffix"
			default:
				roles[i] = "?"
			}
		default:
			if dependsOn(src, func(v ssa.Value) bool { _, ok := v.(*ssa.MakeSlice); return ok }) != nil {
				roles[i] = "clones"
			} else {
				roles[i] = "?"
			}
		}
	}
	r.check(strings.Join(roles, "|") == "prefix|clones|suffix", "splice:sources-and-order", r.pos(chain[0].c.Instr),
		"new stack = old[:i] | cloned sub routes | old[i+1:]", "splice sources/order are "+strings.Join(roles, "|")+", want prefix|clones|suffix")
	if sl, ok := chain[2].c.Common.Args[1].(*ssa.Slice); ok {
		bo, ok2 := sl.Low.(*ssa.BinOp)
		r.check(ok2 && bo.Op == token.ADD && isConstInt(bo.Y, 1), "splice:suffix-skips-placeholder", r.pos(chain[2].c.Instr), "suffix starts at i+1 (the mount placeholder is dropped)", "suffix does not start at i+1")
	}
	last := chain[2].c.Value()
	okStore := false
	for _, in := range instrsWhere(f, func(in ssa.Instruction) bool {
		st, ok := in.(*ssa.Store)
		if !ok {
			return false
		}
		ia, ok := st.Addr.(*ssa.IndexAddr)
		return ok && loadOfField(ia.X, "App.stack")
	}) {
		st := in.(*ssa.Store)
		okStore = st.Val == last || dependsOn(st.Val, func(v ssa.Value) bool { return v == last }) != nil
	}
	r.check(okStore, "splice:replace-after-fill", r.fpos(f), "app.stack[m] is replaced by the result of the last append", "the old stack is replaced before the new one is complete (or never)")
	cp := callsMatching(f, false, nameHasSuffix("App).copyRoute"))
	ap := callsMatching(f, false, nameHasSuffix("App).addPrefixToRoute"))
	okClone := len(cp) == 1 && len(ap) == 1 && len(ap[0].Common.Args) == 3 && ap[0].Common.Args[2] == cp[0].Value()
	r.check(okClone, "splice:clone-then-prefix", r.fpos(f), "each sub route is cloned, then the clone is re-prefixed", "sub routes are not cloned before being re-prefixed (the sub-app's own routes would be mutated)")
	var recCall ssa.Instruction
	for _, a := range anonFuncsDeep(f) {
		for _, c := range callsMatching(a, false, nameHasSuffix("App).processSubAppsRoutes")) {
			recCall = c.Instr
		}
	}
	r.check(recCall != nil, "splice:flatten-subapps-first", r.fpos(f), "sub-apps with their own mounts are flattened (recursive call) before their stacks are read", "nested mounts are not flattened before splicing")
	posOK := false
	for _, fr := range fieldRefs(f) {
		if fr.Write && fr.Name == "Route.pos" {
			if phi, ok := fr.Val.(*ssa.BinOp); ok && phi.Op == token.ADD && isConstInt(phi.Y, 1) {
				for _, br := range branchesIn(f) {
					if loadOfField(br.Info.Root, "Route.mount") {
						if s, ok := br.truthSlot(false); ok && dom(br.If.Block().Succs[s], fr.Instr.Block()) {
							posOK = true
						}
					}
				}
			}
		}
	}
	r.check(posOK, "splice:renumber-positions", r.fpos(f), "non-mount routes get consecutive positions from a running counter", "route positions are not renumbered after the splice (merged buckets would be sorted by stale positions)")
}

// flagFromCompare: v is a boolean decided by comparing a string with a literal — as data (`x == "/"`) or by control
// flow (a phi of constants whose true edge lies behind the equal edge of such a comparison, as after
// `switch x { case "/": flag = true }`). Answers the literal and the compared value.
func flagFromCompare(f *ssa.Function, v ssa.Value) (string, ssa.Value, bool) {
	v = stripValue(v)
	if bo, ok := v.(*ssa.BinOp); ok && bo.Op == token.EQL {
		if lit, ok := constString(asConst(bo.Y)); ok {
			return lit, bo.X, true
		}
		if lit, ok := constString(asConst(bo.X)); ok {
			return lit, bo.Y, true
		}
	}
	ph, ok := v.(*ssa.Phi)
	if !ok {
		return "", nil, false
	}
	for k, e := range ph.Edges {
		b, isB := constBool(asConst(e))
		if !isB {
			return "", nil, false
		}
		if !b {
			continue
		}
		pred := ph.Block().Preds[k]
		for _, br := range branchesInOne(f) {
			lit, isLit := constString(br.Info.Const)
			if !isLit {
				continue
			}
			sl, ok := br.slotFor(token.EQL)
			if !ok {
				continue
			}
			tgt := br.If.Block().Succs[sl]
			if (tgt == ph.Block() && br.If.Block() == pred) || tgt == pred || (len(tgt.Preds) == 1 && dom(tgt, pred)) {
				return lit, br.Info.Root, true
			}
		}
	}
	return "", nil, false
}
