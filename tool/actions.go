package main

import (
	"go/token"
	"sort"
	"strings"

	"golang.org/x/tools/go/ssa"
)

// actionSet abstracts a function to a set of actions with accessor indirection normalised:
//
//	read:Owner.Field  write:Owner.Field  branch:Owner.Field  branch:len(Owner.Field)
//	call:<func>       global:<name>
//
// Methods invoked on the Ctx/CustomCtx interfaces are mapped through the trivial accessor
// implemented by *DefaultCtx (getIndexRoute() ≡ read:DefaultCtx.indexRoute, …).
func (g *Graph) actionSet(f *ssa.Function, alias map[string]string) map[string]ssa.Instruction {
	acts := map[string]ssa.Instruction{}
	add := func(a string, in ssa.Instruction) {
		if al, ok := alias[a]; ok {
			a = al
		}
		if _, ok := acts[a]; !ok {
			acts[a] = in
		}
	}
	// value → abstract name of what it reads (field or accessor result)
	var readName func(v ssa.Value, depth int) string
	readName = func(v ssa.Value, depth int) string {
		if depth > 4 {
			return ""
		}
		v = stripValue(v)
		if fv := fieldOfValue(v); fv != nil {
			if _, isAddr := v.(*ssa.FieldAddr); !isAddr {
				return fieldOwner(fv) + "." + fv.Name()
			}
		}
		if c, ok := v.(*ssa.Call); ok {
			if b, ok := c.Call.Value.(*ssa.Builtin); ok && b.Name() == "len" {
				if n := readName(c.Call.Args[0], depth+1); n != "" {
					return "len(" + n + ")"
				}
				return ""
			}
			if c.Call.IsInvoke() && isCtxIface(c.Call.Value.Type()) {
				if a, ok := g.ctxAccessor(c.Call.Method.Name()); ok && !a.Write {
					return a.Field
				}
			}
			if sc := c.Call.StaticCallee(); sc != nil {
				if a, ok := trivialAccessor(sc); ok && !a.Write {
					return a.Field
				}
			}
		}
		return ""
	}
	for _, fr := range fieldRefs(f) {
		if fr.Write {
			add("write:"+fr.Name, fr.Instr)
		} else {
			add("read:"+fr.Name, fr.Instr)
		}
	}
	for _, c := range callsIn(f, false) {
		cc := c.Common
		if cc.IsInvoke() && isCtxIface(cc.Value.Type()) {
			if a, ok := g.ctxAccessor(cc.Method.Name()); ok {
				if a.Write {
					add("write:"+a.Field, c.Instr)
				} else {
					add("read:"+a.Field, c.Instr)
				}
				continue
			}
			add("call:"+cc.Method.Name(), c.Instr)
			continue
		}
		if sc := cc.StaticCallee(); sc != nil {
			if a, ok := trivialAccessor(sc); ok {
				if a.Write {
					add("write:"+a.Field, c.Instr)
				} else {
					add("read:"+a.Field, c.Instr)
				}
				continue
			}
			add("call:"+sc.Name(), c.Instr)
			continue
		}
		if fv := fieldOfValue(cc.Value); fv != nil {
			add("callfield:"+fieldOwner(fv)+"."+fv.Name(), c.Instr)
			continue
		}
		// calling an element of a slice field: route.Handlers[0](c)
		if u, ok := cc.Value.(*ssa.UnOp); ok && u.Op == token.MUL {
			if ia, ok := u.X.(*ssa.IndexAddr); ok {
				if n := readName(ia.X, 0); n != "" {
					add("callelem:"+n, c.Instr)
				}
			}
		}
	}
	for _, b := range f.Blocks {
		for _, in := range b.Instrs {
			if u, ok := in.(*ssa.UnOp); ok && u.Op == token.MUL {
				if gl, ok := u.X.(*ssa.Global); ok {
					add("global:"+gl.Name(), in)
				}
			}
		}
	}
	for _, br := range branchesIn(f) {
		if n := readName(br.Info.Root, 0); n != "" {
			add("branch:"+n, br.If)
		}
		if br.Info.Other != nil {
			if n := readName(br.Info.Other, 0); n != "" {
				add("branch:"+n, br.If)
			}
		}
	}
	return acts
}

func restrict(acts map[string]ssa.Instruction, alphabet []string) map[string]ssa.Instruction {
	out := map[string]ssa.Instruction{}
	for _, a := range alphabet {
		if in, ok := acts[a]; ok {
			out[a] = in
		}
	}
	return out
}

func actionDiff(a, b map[string]ssa.Instruction) (onlyA, onlyB []string) {
	for k := range a {
		if _, ok := b[k]; !ok {
			onlyA = append(onlyA, k)
		}
	}
	for k := range b {
		if _, ok := a[k]; !ok {
			onlyB = append(onlyB, k)
		}
	}
	sort.Strings(onlyA)
	sort.Strings(onlyB)
	return
}

func actionList(a map[string]ssa.Instruction) string {
	var ks []string
	for k := range a {
		ks = append(ks, k)
	}
	sort.Strings(ks)
	return strings.Join(ks, " ")
}
