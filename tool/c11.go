package main

import (
	"fmt"
	"go/ast"
	"go/constant"
	"go/token"
	"go/types"
	"sort"
	"strings"

	"golang.org/x/tools/go/ssa"
)

func init() {
	register(&propDef{
		ID: "C11",
		Explain: "Decided clauses (thin): R1 the tag every parse-based binder passes to the decoder pool is one of the tags the pool map is built from (otherwise a nil pool is dereferenced on every bind); " +
			"R2 Bind.Body consults custom binders first, dispatches every body MIME type a bundled binder exists for and ends in ErrUnprocessableEntity; R3 every Bind.* method passes the binder's error through returnErr, " +
			"which answers 400 exactly when automatic handling is on; R4 the client-side struct encoder handles every kind of the property's domain (ints, uints, floats, bool, string, slice/array); " +
			"R5 in the visitor-based binders no further assignment happens after the first formatBindData error and the error is returned before parse. " +
			"R6 assignBindData hands the decoder the value itself or comma-separated elements of it — nothing trimmed, folded or replaced. " +
			"Not decided (honest not-applicable): equality of decoded and encoded values, escaping, bracket notation, when comma splitting applies — cross-component value semantics through reflection and an external decoder; panic-freedom of the decoder.",
		Assume: []string{"gofiber/schema decoder and reflection are opaque"},
		Run:    runC11,
	})
}

func stringListVar(r *Run, pkg, name string) ([]string, string) {
	pk := r.P.All[pkgPath(pkg)]
	r.need(pk != nil, "package "+pkg)
	for _, file := range pk.Syntax {
		for _, d := range file.Decls {
			gd, ok := d.(*ast.GenDecl)
			if !ok || gd.Tok != token.VAR {
				continue
			}
			for _, sp := range gd.Specs {
				vs := sp.(*ast.ValueSpec)
				for i, n := range vs.Names {
					if n.Name != name || i >= len(vs.Values) {
						continue
					}
					cl, ok := vs.Values[i].(*ast.CompositeLit)
					if !ok {
						continue
					}
					var out []string
					for _, el := range cl.Elts {
						if tv, ok := pk.TypesInfo.Types[el]; ok && tv.Value != nil && tv.Value.Kind() == constant.String {
							out = append(out, constant.StringVal(tv.Value))
						}
					}
					return out, r.P.Pos(n.Pos())
				}
			}
		}
	}
	panic(anchorErr{pkg + ":" + name})
}

func runC11(r *Run) {
	r.rule("R1", "binder tag table (E8): Name() of every parse-based binder ∈ tags", func() {
		tags, pos := stringListVar(r, "binder", "tags")
		tagSet := map[string]bool{}
		for _, t := range tags {
			tagSet[t] = true
		}
		r.atLeast("tags", len(tags), 6)
		n := 0
		for _, b := range []string{"HeaderBinding", "RespHeaderBinding", "CookieBinding", "QueryBinding", "FormBinding", "URIBinding", "JSONBinding", "XMLBinding", "CBORBinding"} {
			f := r.P.Func("binder", "(*"+b+").Bind")
			if f == nil {
				continue
			}
			calls := callsMatching(f, true, nameHasSuffix("binder.parse"))
			if len(calls) == 0 {
				// also methods named bindMultipart etc.
				r.P.AllFuncs("binder", func(g *ssa.Function) {
					if g.Signature.Recv() != nil && strings.Contains(g.Signature.Recv().Type().String(), b) {
						calls = append(calls, callsMatching(g, true, nameHasSuffix("binder.parse"))...)
					}
				})
			}
			for i, c := range calls {
				n++
				tag := ""
				if s, ok := constString(asConst(c.Common.Args[0])); ok {
					tag = s
				} else if nc, _ := producerCall(c.Common.Args[0]); nc != nil {
					if callee := nc.Call.StaticCallee(); callee != nil && callee.Name() == "Name" {
						for _, in := range instrsWhere(callee, isReturn) {
							if s, ok := constString(asConst(retOperand(in.(*ssa.Return), 0))); ok {
								tag = s
							}
						}
					}
				}
				r.check(tag != "" && tagSet[tag], fmt.Sprintf("binder:%s:parse-tag#%d", b, i+1), r.pos(c.Instr), "tag "+fmt.Sprintf("%q", tag)+" ∈ tags "+fmt.Sprint(tags),
					fmt.Sprintf("binder.%s passes tag %q to parse, but the decoder pools are only created for %v (%s): decoderPoolMap[tag] is nil and every bind panics", b, tag, tags, pos))
			}
		}
		r.atLeast("parse call sites", n, 6)
		// both builders of the pool map range over the same list
		for _, fn := range []string{"SetParserDecoder", "init"} {
			f := r.P.Func("binder", fn)
			if f == nil {
				continue
			}
			readsTags := func(g *ssa.Function) bool {
				for _, h := range append([]*ssa.Function{g}, helpersOf(g)...) {
					for _, b := range h.Blocks {
						for _, in := range b.Instrs {
							for _, op := range in.Operands(nil) {
								if gl, ok := (*op).(*ssa.Global); ok && gl.Name() == "tags" {
									return true
								}
							}
						}
					}
				}
				return false
			}
			uses := readsTags(f)
			if fn == "init" {
				// the package initialiser contains the user-written init body
				if g := r.P.Func("binder", "init#1"); g != nil && readsTags(g) {
					uses = true
				}
			}
			r.check(uses, "binder:"+fn+":ranges-over-tags", pos, fn+" builds decoderPoolMap from tags", fn+" no longer builds the decoder pools from tags")
		}
	})

	r.rule("R2", "Bind.Body source dispatch (E8/E1)", func() {
		f := r.Fn("", "(*Bind).Body")
		want := map[string]string{
			"application/json": "JSON", "text/xml": "XML", "application/xml": "XML", "application/cbor": "CBOR",
			"application/x-www-form-urlencoded": "Form", "multipart/form-data": "Form",
		}
		got := map[string]bool{}
		var firstCase ssa.Instruction
		for _, br := range branchesIn(f) {
			s, ok := constString(br.Info.Const)
			if !ok || br.Info.Op != token.EQL {
				continue
			}
			meth, known := want[s]
			if !known {
				continue
			}
			if firstCase == nil || dom(br.If.Block(), firstCase.Block()) {
				firstCase = br.If
			}
			// the true edge leads to the matching Bind method
			tb := br.If.Block().Succs[br.slotWhenRel(true)]
			_, hit := reach(point{tb, 0}, func(in ssa.Instruction) bool { return isCallTo(in, nameHasSuffix("Bind)."+meth)) }, nil, nil)
			got[s] = hit != nil
		}
		var missing []string
		for s := range want {
			if !got[s] {
				missing = append(missing, s)
			}
		}
		sort.Strings(missing)
		r.check(len(missing) == 0, "Body:mime-dispatch", r.fpos(f), "every bundled body MIME type is dispatched to its binder", "Bind.Body does not dispatch "+strings.Join(missing, ", ")+" to its binder")
		// fallback
		okFallback := false
		for _, in := range instrsWhere(f, isReturn) {
			v := retOperand(in.(*ssa.Return), 0)
			if u, ok := v.(*ssa.UnOp); ok {
				if g, ok := u.X.(*ssa.Global); ok && g.Name() == "ErrUnprocessableEntity" {
					okFallback = true
				}
			}
			if mi, ok := v.(*ssa.MakeInterface); ok {
				if u, ok := mi.X.(*ssa.UnOp); ok {
					if g, ok := u.X.(*ssa.Global); ok && g.Name() == "ErrUnprocessableEntity" {
						okFallback = true
					}
				}
			}
		}
		r.check(okFallback, "Body:fallback-422", r.fpos(f), "an unknown content type yields ErrUnprocessableEntity", "an unknown content type does not yield ErrUnprocessableEntity")
		custom := callsMatching(f, false, nameHasSuffix("CustomBinder).MIMETypes"))
		if len(custom) == 1 && custom[0].Instr.Parent() != f {
			// the lookup among the custom binders in a helper: it happens where Body calls the helper
			var own []callSite
			withoutHelpers(func() { own = callsIn(f, false) })
			for _, oc := range own {
				if oc.Common.StaticCallee() == custom[0].Instr.Parent() {
					custom[0] = oc
				}
			}
		}
		r.check(len(custom) == 1 && firstCase != nil && custom[0].Instr.Parent() == firstCase.Parent() && precedes(custom[0].Instr, firstCase), "Body:custom-binders-first", r.fpos(f), "custom binders are consulted before the built-in switch", "custom binders are not consulted before the built-in content types")
	})

	r.rule("R3", "error funnel: binder errors go through returnErr; 400 exactly when auto handling is on (E1)", func() {
		tm, _ := r.P.Pkg("").Members["Bind"].(*ssa.Type)
		r.need(tm != nil, "fiber.Bind")
		ms := r.P.SSA.MethodSets.MethodSet(types.NewPointer(tm.Type()))
		n := 0
		for i := 0; i < ms.Len(); i++ {
			m := r.P.SSA.MethodValue(ms.At(i))
			if m == nil || len(m.Blocks) == 0 {
				continue
			}
			for _, c := range callsIn(m, false) {
				if !(strings.HasSuffix(c.Name, "Binding).Bind") || strings.HasSuffix(c.Name, "CustomBinder).Parse")) || c.Value() == nil {
					continue
				}
				n++
				wrapped := false
				for _, ref := range *c.Value().Referrers() {
					if ci, ok := ref.(ssa.CallInstruction); ok && strings.HasSuffix(calleeName(ci.Common()), "Bind).returnErr") {
						wrapped = true
					}
				}
				r.check(wrapped, "Bind."+m.Name()+":error-through-returnErr", r.pos(c.Instr), "the binder's error is passed to returnErr", "Bind."+m.Name()+" drops or bypasses the binder's error (no 400 with automatic handling, or the error is lost)")
			}
		}
		r.atLeast("binder Bind/Parse calls in Bind.*", n, 10)
		re := r.Fn("", "(*Bind).returnErr")
		isStatus := func(in ssa.Instruction) bool {
			ci, ok := in.(ssa.CallInstruction)
			if !ok || !strings.HasSuffix(calleeName(ci.Common()), ").Status") {
				return false
			}
			a := ci.Common().Args
			return isConstInt(a[len(a)-1], 400)
		}
		// cut: edges where err == nil, and where dontHandleErrs is true → Status(400) must be unreachable from those; and reachable only via err != nil && !dontHandleErrs
		var skip []edge
		for _, br := range branchesIn(re) {
			if p, ok := br.Info.Root.(*ssa.Parameter); ok && p.Name() == "err" {
				if s, ok := br.nilSlot(true); ok {
					skip = append(skip, edge{br.If.Block(), s})
				}
			}
			if loadOfField(br.Info.Root, "Bind.dontHandleErrs") {
				if s, ok := br.truthSlot(true); ok {
					skip = append(skip, edge{br.If.Block(), s})
				}
			}
		}
		okSkip := len(skip) == 2
		for _, e := range skip {
			if _, hit := reachEdge(e, isStatus, nil, nil); hit != nil {
				okSkip = false
			}
		}
		cut := map[edge]bool{}
		for _, e := range skip {
			cut[e] = true
		}
		_, ret := reach(entryOf(re), isReturn, cut, isStatus)
		r.check(okSkip && ret == nil, "returnErr:400-iff-auto-handling", r.fpos(re), "nil errors and manual handling pass through; otherwise status 400 is set on every path", "returnErr sets 400 for a nil error / in manual mode, or fails to set it in automatic mode")
	})

	r.rule("R4", "client struct encoder covers the kinds of the domain (E8)", func() {
		f := r.Fn(cliPkg, "SetValWithStruct")
		var cl *ssa.Function
		// the function that switches on the field's Kind: a closure of SetValWithStruct, or a helper of the package it calls
		cands := append(append([]*ssa.Function{}, anonFuncsDeep(f)...), helpersOf(f)...)
		for _, a := range cands {
			if len(callsMatching(a, false, nameIs("(reflect.Value).Kind"))) > 0 {
				cl = a
			}
		}
		r.need(cl != nil, "setVal closure switching on Kind")
		kinds := map[int64]bool{}
		for _, br := range branchesIn(cl) {
			if c, _ := producerCall(br.Info.Root); c != nil && calleeName(&c.Call) == "(reflect.Value).Kind" {
				if k, ok := constInt(br.Info.Const); ok && br.Info.Op == token.EQL {
					kinds[k] = true
				}
			}
		}
		need := map[string]int64{"Bool": 1, "Int": 2, "Int8": 3, "Int16": 4, "Int32": 5, "Int64": 6, "Uint": 7, "Uint8": 8, "Uint16": 9, "Uint32": 10, "Uint64": 11,
			"Float32": 13, "Float64": 14, "Array": 17, "Slice": 23, "String": 24}
		var missing []string
		for n, k := range need {
			if !kinds[k] {
				missing = append(missing, n)
			}
		}
		sort.Strings(missing)
		// accessor ↔ formatter pairing: what is read from the reflect.Value is what gets formatted
		pairs := map[string][]string{
			"(reflect.Value).Int":   {"strconv.Itoa", "strconv.FormatInt"},
			"(reflect.Value).Uint":  {"strconv.FormatUint"},
			"(reflect.Value).Float": {"strconv.FormatFloat"},
		}
		for acc, fmts := range pairs {
			for _, c := range callsMatching(cl, false, nameIs(acc)) {
				okPair := false
				var used string
				for _, ref := range *c.Value().Referrers() {
					// the accessor result (possibly through a same-signedness conversion) feeds one of the allowed formatters
					vals := []ssa.Value{c.Value()}
					if cv, ok := ref.(*ssa.Convert); ok {
						vals = append(vals, cv)
					}
					for _, v := range vals {
						if v.Referrers() == nil {
							continue
						}
						for _, r2 := range *v.Referrers() {
							if fc, ok := r2.(*ssa.Call); ok {
								used = calleeName(&fc.Call)
								for _, want := range fmts {
									if used == want {
										okPair = true
									}
								}
							}
						}
					}
				}
				r.check(okPair, "SetValWithStruct:"+acc+"↔formatter", r.pos(c.Instr), acc+" feeds "+strings.Join(fmts, "/"),
					"the value read with "+acc+" is formatted with "+used+": values outside the other type's range are sent wrong (e.g. uint64 above MaxInt64 as a negative number)")
			}
		}
		r.check(len(missing) == 0, "SetValWithStruct:kinds", r.fpos(cl), fmt.Sprintf("%d kinds handled, all 16 of the domain present", len(kinds)), "fields of kind "+strings.Join(missing, ", ")+" are silently not sent by the client")
	})

	r.rule("R4b", "the client encoder writes floats so that they read back exactly: strconv.FormatFloat with precision -1 (shortest round-trip form) (E8)", func() {
		n := 0
		r.P.AllFuncs("client", func(f *ssa.Function) {
			for _, c := range callsMatching(f, false, nameIs("strconv.FormatFloat", "strconv.AppendFloat")) {
				n++
				prec := c.Common.Args[len(c.Common.Args)-2]
				k, isC := constInt(asConst(prec))
				r.check(isC && (k == -1 || k >= 17), fmt.Sprintf("%s:FormatFloat#%d:round-trip-precision", short(f.String()), n), r.pos(c.Instr), "precision -1: the shortest text that parses back to the same float",
					"floats are sent with a fixed number of digits: a float64 that needs 16–17 significant digits (0.30000000000000004, math.Pi) arrives rounded, MaxFloat64 rounds up past the range and the server's bind fails")
				// the bit size states which float the text must read back to: 64 is exact for float64 and float32 values alike,
				// 32 rounds a float64 first; anything else must come from the value's own type
				bits := c.Common.Args[len(c.Common.Args)-1]
				bk, isBC := constInt(asConst(bits))
				fromType := dependsOn(bits, func(v ssa.Value) bool {
					cc, ok := v.(*ssa.Call)
					return ok && (strings.HasSuffix(calleeName(&cc.Call), "reflect.Type).Bits") || strings.HasSuffix(calleeName(&cc.Call), "reflect.Type).Size"))
				}) != nil
				src := c.Common.Args[0]
				if strings.HasSuffix(calleeName(c.Common), "AppendFloat") {
					src = c.Common.Args[1]
				}
				narrow := false // the value is a widened float32
				if cv, ok := src.(*ssa.Convert); ok {
					if b, ok := cv.X.Type().Underlying().(*types.Basic); ok && b.Kind() == types.Float32 {
						narrow = true
					}
				}
				r.check((isBC && (bk == 64 || narrow)) || (!isBC && fromType), fmt.Sprintf("%s:FormatFloat#%d:bit-size-covers-the-value", short(f.String()), n), r.pos(c.Instr), "the bit size is 64 (exact for every float the encoder sees) or taken from the value's type",
					"a float64 is formatted with bit size 32: it is rounded to float32 first (math.Pi arrives as 3.1415927, MaxFloat64 as +Inf) and no longer binds to an equal value")
			}
		})
		r.atLeast("float formatting sites in the client", n, 1)
	})

	r.rule("R7", "a struct applied to a request replaces what its keys held: in SetValWithStruct every exported field reaches the next field only through p.Del(name) — an empty slice clears the key too (E1)", func() {
		f := r.Fn("client", "SetValWithStruct")
		isDel := func(in ssa.Instruction) bool {
			ci, ok := in.(ssa.CallInstruction)
			return ok && ci.Common().IsInvoke() && ci.Common().Method.Name() == "Del"
		}
		// the step to the next field: i + 1 on the loop variable
		isStep := func(in ssa.Instruction) bool {
			bo, ok := in.(*ssa.BinOp)
			if !ok || bo.Op != token.ADD || !isConstInt(bo.Y, 1) {
				return false
			}
			_, isPhi := bo.X.(*ssa.Phi)
			return isPhi
		}
		n := 0
		for _, c := range callsMatching(f, false, nameHasSuffix("reflect.StructField).IsExported")) {
			for _, br := range ifsOnValue(f, c.Value()) {
				sl, ok := br.truthSlot(true)
				if !ok {
					continue
				}
				n++
				path, hit := reachEdge(edge{br.If.Block(), sl}, isStep, nil, isDel)
				r.check(hit == nil, fmt.Sprintf("SetValWithStruct:exported-field#%d:key-cleared", n), r.pos(br.If), "from the `exported` edge every path to the next field passes p.Del(name)",
					"a field of the struct can be skipped without its key being cleared (e.g. an empty slice): values stored under that key earlier — by a previous struct, by AddParam — are sent although the struct says there are none: "+pathString(r.P, path))
			}
		}
		r.atLeast("exported-field tests in SetValWithStruct", n, 1)
	})

	r.rule("R8", "a multipart request is bound from the multipart form or not at all: in FormBinding.Bind the media type is compared with `multipart/form-data`, and from the equal edge the url-encoded reading (PostArgs) is unreachable — a decision taken on a derived value (a boundary was found) lets `multipart/form-data` without a usable boundary fall through, bind nothing and report success (E1)", func() {
		f := r.Fn("binder", "(*FormBinding).Bind")
		var eq []edge
		for _, br := range branchesIn(f) {
			if lit, ok := constString(br.Info.Const); ok && lit == "multipart/form-data" {
				if sl, ok := br.slotFor(token.EQL); ok {
					eq = append(eq, edge{br.If.Block(), sl})
				}
			}
		}
		isPostArgs := func(in ssa.Instruction) bool { return isCallTo(in, nameHasSuffix("fasthttp.Request).PostArgs")) }
		r.need(len(instrsWhere(f, isPostArgs)) >= 1, "FormBinding.Bind reads the url-encoded arguments")
		ok := len(eq) >= 1
		for _, e := range eq {
			if _, hit := reachEdge(e, isPostArgs, nil, nil); hit != nil {
				ok = false
			}
		}
		// … and the url-encoded reading is reachable only around that comparison
		if ok {
			cut := map[edge]bool{}
			for _, br := range branchesIn(f) {
				if lit, isLit := constString(br.Info.Const); isLit && lit == "multipart/form-data" {
					if sl, ok2 := br.slotFor(token.NEQ); ok2 {
						cut[edge{br.If.Block(), sl}] = true
					}
				}
			}
			if _, hit := reach(entryOf(f), isPostArgs, cut, nil); hit != nil {
				ok = false
			}
		}
		r.check(ok, "FormBinding.Bind:multipart-by-media-type", r.fpos(f), "the url-encoded reading is reachable only through the `media type != multipart/form-data` edge",
			"FormBinding.Bind does not decide on the media type itself: `Content-Type: multipart/form-data` without a (usable) boundary is read as url-encoded, nothing is bound and no error is reported — the handler gets 200 with an untouched destination instead of 400")
	})

	r.rule("R13", "a struct applied twice replaces, under the key it writes: in SetValWithStruct the key handed to Del (which clears what an earlier application left) is the very value handed to the setter — tag or field name, whichever was chosen; with Del(field.Name) beside set(tag) a tagged slice field sent twice arrives as old + new elements (E5: one key, two uses)", func() {
		f := r.Fn("client", "SetValWithStruct")
		var dels []ssa.Value
		var sets []ssa.Value
		for _, c := range callsIn(f, false) {
			if c.Common.IsInvoke() && c.Common.Method.Name() == "Del" && len(c.Common.Args) == 1 {
				dels = append(dels, c.Common.Args[0])
			}
			// the setter: a local closure or a function of the package that is handed (…, name string, val reflect.Value)
			if g := staticCalleeOf(c.Common); g != nil && g.Pkg == f.Pkg && c.Instr.Parent() == f {
				var name ssa.Value
				for _, a := range c.Common.Args {
					if bt, ok := a.Type().Underlying().(*types.Basic); ok && bt.Info()&types.IsString != 0 {
						name = a
					}
					if strings.HasSuffix(a.Type().String(), "reflect.Value") && name != nil {
						sets = append(sets, name)
						break
					}
				}
			}
		}
		r.need(len(dels) >= 1 && len(sets) >= 1, "SetValWithStruct deletes a key and sets it through a setter that is handed (name, value)")
		okSame := true
		for _, d := range dels {
			found := false
			for _, s := range sets {
				if stripValue(d) == stripValue(s) {
					found = true
				}
			}
			if !found {
				okSame = false
			}
		}
		r.check(okSame, "SetValWithStruct:deleted-key-is-the-written-key", r.fpos(f), "Del and the setter are handed the same key value",
			"SetValWithStruct clears one key and writes another (the field's Go name beside its tag): for a field tagged `param:\"tags\"` the earlier values under `tags` stay — the same Request filled twice sends old + new elements, the server binds a slice the client never encoded")
	})

	r.rule("R14", "every configured query parameter is sent, the empty ones too: the visitors parserRequestURL hands to the client's and the request's parameter sets add each pair to the query on every path — an empty value is a value (`names=&names=x` binds {\"\", \"x\"}; an empty request-level parameter replaces a client-level one on the server side) (E1 must-pass-through in the visitor)", func() {
		f := r.Fn("client", "parserRequestURL")
		n := 0
		seen := map[*ssa.Function]bool{}
		for _, c := range callsIn(f, false) {
			if !strings.HasSuffix(c.Name, "fasthttp.Args).VisitAll") && !strings.HasSuffix(c.Name, ".VisitAll") {
				continue
			}
			var g *ssa.Function
			for _, a := range c.Common.Args {
				switch x := a.(type) {
				case *ssa.MakeClosure:
					g, _ = x.Fn.(*ssa.Function)
				case *ssa.Function:
					g = x
				}
			}
			if g == nil || len(g.Params) != 2 {
				continue
			}
			if _, isBytes := g.Params[0].Type().Underlying().(*types.Slice); !isBytes {
				continue // the path-parameter visitor (strings) is C18-R11's
			}
			n++
			if seen[g] {
				continue
			}
			seen[g] = true
			isAdd := func(in ssa.Instruction) bool {
				return isCallTo(in, func(s string) bool {
					return strings.Contains(s, "fasthttp.Args).Add") || strings.Contains(s, "fasthttp.Args).Set")
				})
			}
			path, hit := reach(entryOf(g), isReturn, nil, isAdd)
			r.check(hit == nil, "parserRequestURL:"+short(g.String())+":adds-every-pair", r.fpos(g), "the visitor adds the pair on every path",
				"a query-parameter visitor can return without adding the pair ("+pathString(r.P, path)+"): parameters with an empty value are dropped — []string{\"a\",\"\",\"b\"} arrives as {\"a\",\"b\"}, and an empty request-level value no longer overrides the client-level one")
		}
		r.atLeast("query-parameter visitors in parserRequestURL", n, 1)
	})

	r.rule("R12", "the default decoders zero what the client sent empty: the package initialiser builds the decoder pools from a ParserConfig in which ZeroEmpty and IgnoreUnknownKeys are set to true — without ZeroEmpty an empty value (`title=`, an empty element of a slice) leaves the destination as it was instead of binding the empty string the client encoded (E8: the defaults the round trip relies on)", func() {
		ini := r.P.Func("binder", "init#1")
		r.need(ini != nil, "binder has an init body")
		got := map[string]bool{}
		for _, g := range append([]*ssa.Function{ini}, anonFuncsDeep(ini)...) {
			for _, fr := range fieldRefsOne(g) {
				if !fr.Write || !strings.Contains(fr.Name, "ParserConfig.") {
					continue
				}
				if b, ok := constBool(asConst(fr.Val)); ok && b {
					got[fr.Name[strings.LastIndex(fr.Name, ".")+1:]] = true
				}
			}
		}
		for _, fld := range []string{"ZeroEmpty", "IgnoreUnknownKeys"} {
			r.check(got[fld], "init:default-ParserConfig:"+fld, r.fpos(ini), "the default configuration sets "+fld,
				"the package initialiser builds the default decoders without "+fld+" = true: with ZeroEmpty off an empty value no longer binds as the empty string (a slice {\"\", \"x\", \"\"} sent by the client comes back as {\"x\"}, `title=` leaves a preset field), with IgnoreUnknownKeys off every request carrying a key the struct does not know fails")
		}
	})

	r.rule("R11", "a panic of the reflective decoder is an error of the bind: gofiber/schema walks the destination with reflect and indexes slices with numbers taken from the keys (`posts[-1][title]=x` → reflect: slice index out of range); nothing between a binder and fasthttp recovers, so every call of (*schema.Decoder).Decode in the binder package runs under a deferred function, registered on every path ahead of the call, that calls recover() and stores into a variable of the enclosing function (the error it returns) (E1 must-pass-through + E2: the totality clause for what the dependency does with untrusted keys)", func() {
		n := 0
		r.P.AllFuncs("binder", func(f *ssa.Function) {
			for _, d := range callsMatching(f, false, nameHasSuffix("schema.Decoder).Decode")) {
				n++
				var guards []ssa.Instruction
				for _, b := range f.Blocks {
					for _, in := range b.Instrs {
						df, ok := in.(*ssa.Defer)
						if !ok {
							continue
						}
						g := staticCalleeOf(&df.Call)
						if g == nil {
							continue
						}
						recovers, stores := false, false
						for _, gb := range g.Blocks {
							for _, gi := range gb.Instrs {
								if c, ok := gi.(*ssa.Call); ok {
									if bi, ok := c.Call.Value.(*ssa.Builtin); ok && bi.Name() == "recover" {
										recovers = true
									}
								}
								if st, ok := gi.(*ssa.Store); ok {
									switch st.Addr.(type) {
									case *ssa.FreeVar, *ssa.Parameter:
										stores = true // the enclosing function's variable, captured or handed in by address
									}
								}
							}
						}
						if recovers && stores {
							guards = append(guards, in)
						}
					}
				}
				okGuard := false
				if len(guards) > 0 {
					_, hit := reach(entryOf(f), func(in ssa.Instruction) bool { return in == d.Instr }, nil, func(in ssa.Instruction) bool {
						for _, g := range guards {
							if g == in {
								return true
							}
						}
						return false
					})
					okGuard = hit == nil
				}
				r.check(okGuard, short(f.String())+":Decode:panic-becomes-an-error", r.pos(d.Instr), "Decode runs under a deferred recover that sets the function's error",
					"the reflective decoder is called without a deferred recover: a key with a negative slice index (`posts[-1][title]=x`, `posts.-1.title=x`) panics inside gofiber/schema (reflect: slice index out of range), fasthttp does not recover — one request ends the process instead of getting an error / 400")
			}
		})
		r.atLeast("Decode calls in the binder package", n, 1)
	})

	r.rule("R9", "a pooled decoder is configured where it is built: the schema decoders are shared through sync.Pool per binder tag, so the options that change what a decode yields (ZeroEmpty, IgnoreUnknownKeys, RegisterConverter, …) are set only in the function that creates the decoder (schema.NewDecoder); the only per-use setting is SetAliasTag, unconditionally ahead of Decode — an option flipped at one use stays with the decoder for the next form (E2 ownership of pooled state)", func() {
		nOpt, nUse := 0, 0
		r.P.AllFuncs("binder", func(f *ssa.Function) {
			builds := len(callsMatching(f, false, nameHasSuffix("schema.NewDecoder"))) > 0
			for _, c := range callsIn(f, false) {
				if !strings.Contains(c.Name, "schema.Decoder).") {
					continue
				}
				m := c.Name[strings.LastIndex(c.Name, ".")+1:]
				switch m {
				case "Decode":
					nUse++
				case "SetAliasTag":
					if builds {
						continue
					}
					// per-use: on every path to Decode
					okAll := true
					for _, d := range callsMatching(f, false, nameHasSuffix("schema.Decoder).Decode")) {
						if _, hit := reach(entryOf(f), func(in ssa.Instruction) bool { return in == d.Instr }, nil, func(in ssa.Instruction) bool { return in == c.Instr }); hit != nil {
							okAll = false
						}
					}
					r.check(okAll, short(f.String())+":SetAliasTag-before-every-Decode", r.pos(c.Instr), "the pooled decoder's tag is set on every path to Decode", "a pooled decoder can be used with the alias tag its previous user left")
				default:
					nOpt++
					r.check(builds, short(f.String())+":decoder-option-"+m+":set-where-built", r.pos(c.Instr), "set in the function that creates the decoder",
						"a decoding option ("+m+") is changed on a decoder taken from the pool: it stays changed for whoever takes that decoder next — after one multipart upload, forms lose their empty elements (`names=&names=x&names=` binds as [x]) and `title=` no longer zeroes a preset field")
				}
			}
		})
		r.atLeast("decoder option calls", nOpt, 2)
		r.atLeast("Decode calls", nUse, 1)
	})

	r.rule("R10", "a key that cannot be formatted is an error of the bind: the error formatBindData returns at every call site is kept — stored into the variable the binder returns or returned itself — not merely tested (a `:=` inside the visitor would drop it: `tags[=x` is skipped silently and Bind().Body() answers 200 instead of 400) (E1 error discipline)", func() {
		n := 0
		r.P.AllFuncs("binder", func(f *ssa.Function) {
			for _, c := range callsMatching(f, false, func(s string) bool { return strings.Contains(s, "binder.formatBindData") }) {
				v := c.Value()
				if v == nil {
					r.bad(short(f.String())+":formatBindData:error-kept", r.pos(c.Instr), "the result of formatBindData is discarded")
					n++
					continue
				}
				n++
				kept := false
				seen := map[ssa.Value]bool{}
				var walk func(x ssa.Value)
				walk = func(x ssa.Value) {
					if seen[x] || x.Referrers() == nil {
						return
					}
					seen[x] = true
					for _, u := range *x.Referrers() {
						switch y := u.(type) {
						case *ssa.Store:
							if y.Val == x {
								kept = true
							}
						case *ssa.Return:
							kept = true
						case *ssa.Phi:
							walk(y)
						case *ssa.MakeInterface:
							walk(y)
						case *ssa.ChangeInterface:
							walk(y)
						}
					}
				}
				walk(v)
				r.check(kept, short(f.String())+":formatBindData:error-kept", r.pos(c.Instr), "the error is stored or returned", "the error of formatBindData is only looked at, never stored or returned: a key with unmatched brackets is skipped silently and the bind reports success")
			}
		})
		r.atLeast("formatBindData call sites", n, 6)
	})

	r.rule("R5", "visitor error latch (E1)", func() {
		n := 0
		// the latch variable is the one the visitor stores formatBindData's error into, whatever its name
		loadOfCell := func(v ssa.Value, cell ssa.Value) bool {
			u, ok := stripValue(v).(*ssa.UnOp)
			return ok && u.Op == token.MUL && u.X == cell
		}
		for _, b := range []string{"HeaderBinding", "RespHeaderBinding", "CookieBinding", "QueryBinding", "FormBinding"} {
			f := r.P.Func("binder", "(*"+b+").Bind")
			if f == nil {
				continue
			}
			var outerCells []ssa.Value
			for _, a := range anonFuncsDeep(f) {
				fb := callsMatching(a, false, func(s string) bool { return strings.Contains(s, "binder.formatBindData") })
				if len(fb) == 0 {
					continue
				}
				n++
				var cell ssa.Value
				if v := fb[0].Value(); v != nil && v.Referrers() != nil {
					var find func(x ssa.Value, d int)
					find = func(x ssa.Value, d int) {
						if d > 3 || x.Referrers() == nil {
							return
						}
						for _, u := range *x.Referrers() {
							switch y := u.(type) {
							case *ssa.Store:
								if y.Val == x {
									cell = y.Addr
								}
							case *ssa.Phi:
								find(y, d+1)
							}
						}
					}
					find(v, 0)
				}
				if cell == nil {
					r.bad("binder:"+b+":visitor-latch", r.fpos(a), "binder."+b+"'s visitor does not keep the error of formatBindData in a variable: there is nothing to latch on")
					continue
				}
				if fv, ok := cell.(*ssa.FreeVar); ok {
					if bd := bindingOf(fv); bd != nil {
						outerCells = append(outerCells, bd)
					}
				}
				// latch: from the edge cell != nil no formatBindData call is reachable
				okLatch := false
				for _, br := range branchesIn(a) {
					if loadOfCell(br.Info.Root, cell) {
						if s, ok := br.nilSlot(false); ok {
							_, hit := reachEdge(edge{br.If.Block(), s}, func(in ssa.Instruction) bool { return in == fb[0].Instr }, nil, nil)
							if hit == nil && dom(br.If.Block(), fb[0].Block()) {
								okLatch = true
							}
						}
					}
				}
				r.check(okLatch, "binder:"+b+":visitor-latch", r.fpos(a), "after the first error the visitor stops assigning", "binder."+b+" keeps assigning after a formatBindData error (the first error can be overwritten by nil)")
			}
			// error returned before parse
			ps := callsMatching(f, false, nameHasSuffix("binder.parse"))
			okRet := len(ps) >= 1
			for _, br := range branchesIn(f) {
				isLatch := cellName(br.Info.Root) == "err"
				for _, oc := range outerCells {
					if loadOfCell(br.Info.Root, oc) {
						isLatch = true
					}
				}
				if isLatch {
					if s, ok := br.nilSlot(false); ok && len(ps) >= 1 {
						if _, hit := reachEdge(edge{br.If.Block(), s}, func(in ssa.Instruction) bool { return isCallTo(in, nameHasSuffix("binder.parse")) }, nil, nil); hit != nil {
							okRet = false
						}
					}
				}
			}
			r.check(okRet, "binder:"+b+":error-before-parse", r.fpos(f), "a visitor error is returned before parse", "binder."+b+" calls parse although formatting the data failed")
		}
		r.atLeast("visitor closures", n, 4)
	})

	r.rule("R6", "values reach the decoder verbatim: what assignBindData appends is the value itself or an element of strings.Split(value, \",\") — no trimming, folding or replacing on the way (E3 backwards)", func() {
		f := r.Fn("binder", "assignBindData")
		var valueP *ssa.Parameter
		for _, p := range f.Params {
			if p.Name() == "value" {
				valueP = p
			}
		}
		r.need(valueP != nil, "assignBindData(…, value string, …)")
		identity := map[string]bool{"strings.Clone": true, "github.com/gofiber/utils/v2.CopyString": true, "github.com/gofiber/utils/v2.UnsafeString": true}
		var why string
		var verbatim func(v ssa.Value, seen map[ssa.Value]bool) bool
		verbatim = func(v ssa.Value, seen map[ssa.Value]bool) bool {
			if seen[v] {
				return true
			}
			seen[v] = true
			switch x := v.(type) {
			case *ssa.Parameter:
				if x == valueP {
					return true
				}
				why = "parameter " + x.Name()
				return false
			case *ssa.Phi:
				for _, e := range x.Edges {
					if !verbatim(e, seen) {
						return false
					}
				}
				return true
			case *ssa.UnOp:
				if x.Op == token.MUL {
					if ia, ok := x.X.(*ssa.IndexAddr); ok {
						return verbatim(ia.X, seen)
					}
					if al := rootAlloc(x.X); al != nil {
						for _, st := range storesInto(al) {
							if !verbatim(st.Val, seen) {
								return false
							}
						}
						return true
					}
				}
			case *ssa.Index:
				return verbatim(x.X, seen)
			case *ssa.Extract:
				// range over a slice yields (index, element) through Next on the iterator only for maps/strings; slices use IndexAddr
				return verbatim(x.Tuple, seen)
			case *ssa.ChangeType:
				return verbatim(x.X, seen)
			case *ssa.Call:
				n := calleeName(&x.Call)
				if n == "strings.Split" || n == "strings.SplitN" {
					if sep, ok := constString(asConst(x.Call.Args[1])); ok && sep == "," {
						return verbatim(x.Call.Args[0], seen)
					}
					why = "split on something other than a comma"
					return false
				}
				if identity[n] {
					return verbatim(x.Call.Args[0], seen)
				}
				why = "passes through " + short(n)
				return false
			}
			why = fmt.Sprintf("passes through %T", v)
			return false
		}
		n := 0
		for _, c := range callsMatching(f, true, nameIs("builtin:append")) {
			if len(c.Common.Args) != 2 {
				continue
			}
			var vals []ssa.Value
			if sl, ok := c.Common.Args[1].(*ssa.Slice); ok {
				if al, ok := sl.X.(*ssa.Alloc); ok {
					for _, st := range storesInto(al) {
						vals = append(vals, st.Val)
					}
				}
			}
			if len(vals) == 0 {
				vals = append(vals, c.Common.Args[1])
			}
			for _, v := range vals {
				n++
				why = ""
				okV := verbatim(v, map[ssa.Value]bool{})
				r.check(okV, fmt.Sprintf("assignBindData:append#%d:verbatim", n), r.pos(c.Instr), "the appended string is the value or a comma-separated element of it",
					"a bound value is transformed on its way to the decoder ("+why+"): what Bind returns differs from what was sent, e.g. a slice element with a leading or trailing blank, or different letter case")
			}
		}
		r.atLeast("appends in assignBindData", n, 2)
	})
}
