package main

import (
	"fmt"
	"go/token"
	"sort"
	"strings"

	"golang.org/x/tools/go/ssa"
)

func init() {
	register(&propDef{
		ID: "C01",
		Explain: "Decided clauses (structural preconditions of index transparency and of dispatch agreement): R1 the writer (buildTree) and reader (configDependentPaths) " +
			"of the 3-byte bucket key use the same byte positions, shifts and length threshold; R2 the bucket key of a route is only taken from bytes every matching path has " +
			"(the optional-slash flag is tested before the key is computed); R3 non-zero buckets merge the global bucket and are sorted ascending by registration position; " +
			"R4 all four scanners fall back to bucket 0; R5 the default/custom scanner pairs perform the same dispatch actions (mount skip, empty-handler guard, matched flag, 404/405); " +
			"R6 405 / Allow only after a non-Use route of another method matched and only when nothing matched; R7 duplicate-path merging is guarded by equal Path, equal use, both not mount; " +
			"R8 whoever changes the bucket selector (treePathHash, methodInt) re-bases the scan cursor. Not decided: full equivalence of index and linear scan, matcher semantics, handler order inside user code.",
		Assume: []string{"route tables are built only through register/addRoute (who-may-write App.stack is not re-derived here)"},
		Run:    runC01,
	})
}

// keyShape extracts the 3-byte bucket key expression of f: the set of (byteIndex, shift) pairs
// of the top-level OR expression, the field the bytes are taken from, and the length threshold
// guarding it.
type keyShape struct {
	pairs     map[[2]int64]bool
	base      string
	threshold int64
	top       *ssa.BinOp
	guard     *ssa.If
	baseVal   ssa.Value
}

func (k keyShape) String() string {
	var ps []string
	for p := range k.pairs {
		ps = append(ps, fmt.Sprintf("byte[%d]<<%d", p[0], p[1]))
	}
	sort.Strings(ps)
	return fmt.Sprintf("%s | len(%s)>=%d", strings.Join(ps, "|"), k.base, k.threshold)
}

// findKeyShape looks in f and, failing that, in the helpers f calls (the key computation may live
// in a small function of its own); a helper's parameter is mapped back to the argument f passes.
func findKeyShape(f *ssa.Function) (keyShape, bool) {
	if ks, ok := findKeyShapeOne(f); ok {
		return ks, true
	}
	for _, g := range helpersOf(f) {
		ks, ok := findKeyShapeOne(g)
		if !ok {
			continue
		}
		if p, isParam := stripValue(ks.baseVal).(*ssa.Parameter); isParam {
			for _, c := range callsIn(f, true) {
				if c.Common.StaticCallee() != g {
					continue
				}
				for i, gp := range g.Params {
					if gp == p && i < len(c.Common.Args) {
						ks.base = baseName(c.Common.Args[i])
					}
				}
			}
		}
		return ks, true
	}
	return keyShape{}, false
}

func findKeyShapeOne(f *ssa.Function) (keyShape, bool) {
	ks := keyShape{pairs: map[[2]int64]bool{}, threshold: -1}
	var tops []*ssa.BinOp
	for _, b := range f.Blocks {
		for _, in := range b.Instrs {
			bo, ok := in.(*ssa.BinOp)
			if !ok || bo.Op != token.OR {
				continue
			}
			isOperand := false
			for _, ref := range *bo.Referrers() {
				if r2, ok := ref.(*ssa.BinOp); ok && r2.Op == token.OR {
					isOperand = true
				}
			}
			if !isOperand {
				tops = append(tops, bo)
			}
		}
	}
	if len(tops) != 1 {
		return ks, false
	}
	ks.top = tops[0]
	var leaf func(v ssa.Value, shift int64) bool
	leaf = func(v ssa.Value, shift int64) bool {
		v = stripValue(v)
		switch x := v.(type) {
		case *ssa.BinOp:
			switch x.Op {
			case token.OR:
				return leaf(x.X, shift) && leaf(x.Y, shift)
			case token.SHL:
				n, ok := constInt(asConst(x.Y))
				if !ok {
					return false
				}
				return leaf(x.X, shift+n)
			}
			return false
		case *ssa.Index: // string / array index
			i, ok := constInt(asConst(x.Index))
			if !ok {
				return false
			}
			ks.pairs[[2]int64{i, shift}] = true
			ks.base, ks.baseVal = baseName(x.X), x.X
			return true
		case *ssa.Lookup: // string index (older go/ssa)
			i, ok := constInt(asConst(x.Index))
			if !ok {
				return false
			}
			ks.pairs[[2]int64{i, shift}] = true
			ks.base, ks.baseVal = baseName(x.X), x.X
			return true
		case *ssa.UnOp: // load of &slice[i]
			if ia, ok := x.X.(*ssa.IndexAddr); ok && x.Op == token.MUL {
				i, ok := constInt(asConst(ia.Index))
				if !ok {
					return false
				}
				ks.pairs[[2]int64{i, shift}] = true
				ks.base, ks.baseVal = baseName(ia.X), ia.X
				return true
			}
		}
		return false
	}
	if !leaf(ks.top, 0) {
		return ks, false
	}
	// threshold: a branch `len(base) >= K` that dominates the key computation on its true edge
	for _, br := range branchesInOne(f) {
		c, ok := br.Info.Root.(*ssa.Call)
		if !ok {
			continue
		}
		if b, ok := c.Call.Value.(*ssa.Builtin); !ok || b.Name() != "len" || (baseName(c.Call.Args[0]) != ks.base && !sameValue(c.Call.Args[0], ks.baseVal)) {
			continue
		}
		k, ok := constInt(br.Info.Const)
		if !ok {
			continue
		}
		slot, ok2 := br.slotFor(token.GEQ)
		if !ok2 {
			if s2, ok3 := br.slotFor(token.GTR); ok3 { // len > k-1
				slot, k, ok2 = s2, k+1, true
			}
		}
		if !ok2 {
			continue
		}
		if dom(br.If.Block().Succs[slot], ks.top.Block()) && k > ks.threshold {
			ks.threshold = k
			ks.guard = br.If
		}
	}
	return ks, true
}

func baseName(v ssa.Value) string {
	v = stripValue(v)
	if fv := fieldOfValue(v); fv != nil {
		return fieldOwner(fv) + "." + fv.Name()
	}
	return "?"
}

func runC01(r *Run) {
	g := r.P.Graph()

	r.rule("R1", "bucket-key agreement between buildTree (writer) and configDependentPaths (reader) (E5/E8)", func() {
		w, okw := findKeyShape(r.Fn("", "(*App).buildTree"))
		rd, okr := findKeyShape(r.Fn("", "(*DefaultCtx).configDependentPaths"))
		r.need(okw, "buildTree computes a shift/or key from constant byte positions")
		r.need(okr, "configDependentPaths computes a shift/or key from constant byte positions")
		same := len(w.pairs) == len(rd.pairs) && len(w.pairs) >= 3
		for p := range w.pairs {
			if !rd.pairs[p] {
				same = false
			}
		}
		r.check(same, "bucket-key:positions+shifts", r.pos(w.top), "writer and reader use the same (byte, shift) pairs: "+w.String(),
			"writer and reader disagree on the bucket key: buildTree "+w.String()+" vs configDependentPaths "+rd.String()+" — requests are sent to a bucket that lacks their route")
		maxIdx := int64(-1)
		for p := range w.pairs {
			if p[0] > maxIdx {
				maxIdx = p[0]
			}
		}
		r.check(w.threshold == rd.threshold && w.threshold > maxIdx, "bucket-key:length-threshold", r.pos(w.top),
			fmt.Sprintf("both sides require len >= %d before indexing byte %d", w.threshold, maxIdx),
			fmt.Sprintf("length thresholds differ or do not cover the indexed bytes: writer len(%s)>=%d, reader len(%s)>=%d, max byte index %d", w.base, w.threshold, rd.base, rd.threshold, maxIdx))
		r.check(w.base == "routeSegment.Const" && rd.base == "DefaultCtx.detectionPath", "bucket-key:operands", r.pos(rd.top),
			"writer keys on the first constant segment, reader on the normalised detection path",
			"bucket key operands changed: writer "+w.base+", reader "+rd.base)
	})

	r.rule("R2", "a request-path predicate derived from routeSegment.Const must consult HasOptionalSlash: the bucket key is computed only after a test of it (E1, belief rule)", func() {
		f := r.Fn("", "(*App).buildTree")
		ks, ok := findKeyShape(f)
		r.need(ok, "buildTree key")
		cut := map[edge]bool{}
		n := 0
		for _, br := range branchesIn(f) {
			if loadOfField(br.Info.Root, "routeSegment.HasOptionalSlash") {
				cut[edge{br.If.Block(), 0}] = true
				cut[edge{br.If.Block(), 1}] = true
				n++
			}
		}
		path, hit := reach(entryOf(f), func(in ssa.Instruction) bool { return in == ssa.Instruction(ks.top) }, cut, nil)
		r.check(n > 0 && hit == nil, "buildTree:key-without-optional-slash-test", r.pos(ks.top),
			"every path to the key computation passes a test of HasOptionalSlash",
			"the bucket key is computed from the first 3 bytes of the constant segment without testing HasOptionalSlash: a pattern like /a/:id? (constant \"/a/\", optional slash) also matches the 2-byte path /a, which is looked up in bucket 0 and misses the route (404). path: "+pathString(r.P, path))
		// getMatch is the other consumer of Const as a path predicate: it must honour the flag too
		gm := r.Fn("", "(*routeParser).getMatch")
		has := false
		for _, br := range branchesIn(gm) {
			if loadOfField(br.Info.Root, "routeSegment.HasOptionalSlash") {
				has = true
			}
		}
		r.check(has, "getMatch:optional-slash-test", r.fpos(gm), "getMatch branches on HasOptionalSlash", "getMatch no longer tests HasOptionalSlash")
	})

	r.rule("R3", "buildTree: non-zero buckets merge bucket 0, every bucket is sorted strictly ascending by pos, map iteration writes only its own key (E3/E6/E7)", func() {
		f := r.Fn("", "(*App).buildTree")
		// merge: a MapUpdate whose value depends on a Lookup with constant key 0 of the same map
		merged := false
		var upd []*ssa.MapUpdate
		for _, in := range instrsWhere(f, func(in ssa.Instruction) bool { _, ok := in.(*ssa.MapUpdate); return ok }) {
			mu := in.(*ssa.MapUpdate)
			upd = append(upd, mu)
			if dependsOn(mu.Value, func(v ssa.Value) bool {
				lk, ok := v.(*ssa.Lookup)
				return ok && lk.X == mu.Map && isConstInt(lk.Index, 0)
			}) != nil {
				merged = true
				// the merge must pass through a de-duplication keeping order (uniqueRouteStack) — otherwise bucket 0 routes appear twice
				dedup := dependsOn(mu.Value, func(v ssa.Value) bool {
					c, ok := v.(*ssa.Call)
					return ok && calleeName(&c.Call) == fiberMod+".uniqueRouteStack"
				}) != nil
				r.check(dedup, "buildTree:merge-dedup", r.pos(mu), "merged bucket passes uniqueRouteStack", "merged bucket is not de-duplicated")
				// guarded by key != 0
				guarded := false
				for _, br := range branchesIn(f) {
					if s, ok := br.eqIntSlot(0, false); ok && dom(br.If.Block().Succs[s], mu.Block()) {
						guarded = true
					}
				}
				r.check(guarded, "buildTree:merge-guard", r.pos(mu), "merge happens for keys != 0", "merge is not restricted to non-zero buckets")
			}
		}
		r.check(merged, "buildTree:merge-global-bucket", r.fpos(f), "a bucket update depends on bucket 0 of the same map",
			"no bucket update merges bucket 0: global middleware and parameter routes are hidden from bucketed paths")
		// sort
		sorts := callsMatching(f, false, nameIs("sort.Slice", "sort.SliceStable", "slices.SortFunc", "slices.SortStableFunc"))
		if len(sorts) == 0 {
			r.bad("buildTree:sort", r.fpos(f), "buckets are not sorted after the merge: handlers would run out of registration order")
		}
		for _, s := range sorts {
			var cmp *ssa.Function
			for _, a := range s.Common.Args {
				if mc, ok := a.(*ssa.MakeClosure); ok {
					cmp = mc.Fn.(*ssa.Function)
				}
			}
			if cmp == nil {
				r.undecided("buildTree:sort-comparator", r.pos(s.Instr), "comparator is not a closure literal")
				continue
			}
			okCmp, why := comparatorIsAscendingOn(cmp, "Route.pos")
			r.check(okCmp, "buildTree:sort-comparator", r.pos(s.Instr), "comparator is `x[i].pos < x[j].pos` (strict, ascending; 3 sign cases)", "comparator is not strict ascending on pos: "+why)
		}
		// every path from the merge to the store into treeStack passes the sort: sort is in the same range body
		// map-iteration insensitivity: updates inside the range loop use the iteration key
		for _, mu := range upd {
			ex, ok := mu.Key.(*ssa.Extract)
			if !ok {
				continue // first loop: keyed by computed hash, not a map range
			}
			_, isNext := ex.Tuple.(*ssa.Next)
			r.check(isNext && ex.Index == 1, "buildTree:range-writes-own-key", r.pos(mu), "update inside the map range writes the iteration key only",
				"update inside the map range writes a key other than the iteration key (order dependent)")
		}
		// treeStack store
		stored := false
		for _, fr := range fieldRefs(f) {
			if fr.Name == "App.treeStack" {
				stored = true
			}
		}
		r.check(stored, "buildTree:publishes-treeStack", r.fpos(f), "treeStack is assigned from the built map", "treeStack is never assigned")
	})

	scanners := []struct{ fn string }{{"(*App).next"}, {"(*App).nextCustom"}, {"(*App).methodExist"}, {"(*App).methodExistCustom"}}

	r.rule("R4", "all scanners read treeStack[method][hash] and fall back to bucket 0 when the bucket is absent (E5)", func() {
		// every function that looks a bucket up with `tree, ok := treeStack[m][hash]` is a scanner — the four
		// named ones are the hand-confirmed minimum, others (e.g. the cursor re-base) are found by shape
		all := map[string]bool{}
		for _, s := range scanners {
			all[s.fn] = true
		}
		r.P.AllFuncs("", func(f *ssa.Function) {
			for _, in := range instrsWhereOne(f, func(in ssa.Instruction) bool { _, ok := in.(*ssa.Lookup); return ok }) {
				lk := in.(*ssa.Lookup)
				if lk.CommaOk && strings.HasPrefix(lk.X.Type().String(), "map[int][]*") && strings.HasSuffix(lk.X.Type().String(), ".Route") {
					all[strings.Replace(short(f.String()), "fiber.", "", 1)] = true
				}
			}
		})
		r.atLeast("bucket scanners", len(all), 5)
		for _, fn := range sortedKeys(all) {
			s := struct{ fn string }{fn}
			f := r.Fn("", s.fn)
			var commaok *ssa.Lookup
			var zero *ssa.Lookup
			for _, in := range instrsWhere(f, func(in ssa.Instruction) bool { _, ok := in.(*ssa.Lookup); return ok }) {
				lk := in.(*ssa.Lookup)
				if !strings.HasPrefix(lk.X.Type().String(), "map[int]") {
					continue
				}
				if lk.CommaOk {
					commaok = lk
				} else if isConstInt(lk.Index, 0) {
					zero = lk
				}
			}
			if commaok == nil || zero == nil {
				r.bad(s.fn+":bucket-fallback", r.fpos(f), "scanner lacks the `tree, ok := treeStack[m][hash]; if !ok { tree = treeStack[m][0] }` shape")
				continue
			}
			// zero lookup must be on the !ok edge
			onNotOk := false
			for _, br := range branchesIn(f) {
				if ex, ok := stripValue(br.Info.Root).(*ssa.Extract); ok && ex.Tuple == commaok && ex.Index == 1 {
					if s2, ok := br.truthSlot(false); ok && dom(br.If.Block().Succs[s2], zero.Block()) {
						onNotOk = true
					}
				}
			}
			if !onNotOk {
				// the same choice written the other way round: bucket 0 as the default, replaced on the ok edge
				onNotOk = bucketChoiceByLastWrite(f, commaok, zero)
			}
			r.check(onNotOk, s.fn+":bucket-fallback", r.pos(zero), "bucket 0 is used exactly when the hashed bucket is absent", "bucket-0 fallback is not on the !ok edge")
			// both lookups go into the map of the same method: treeStack[m][hash] and treeStack[m][0]
			mi, mz := bucketMapIndex(commaok.X), bucketMapIndex(zero.X)
			if mi == nil || mz == nil {
				if !sameExpr(commaok.X, zero.X) {
					r.bad(s.fn+":fallback-of-the-same-method", r.pos(zero), "the hashed bucket and bucket 0 are not taken from one per-method map (treeStack[m]): the shape is not the one the rule reads")
				} else {
					r.ok(s.fn+":fallback-of-the-same-method", r.pos(zero), "both lookups read one map value")
				}
				continue
			}
			r.check(sameExpr(mi, mz), s.fn+":fallback-of-the-same-method", r.pos(zero), "bucket 0 is taken from the same method's map as the hashed bucket",
				"the fallback bucket is taken from another method's map than the hashed one (treeStack[x][hash], then treeStack[y][0]): routes whose first segment is a parameter or wildcard are looked up under the wrong method — with a custom context `Post(\"/:id\")` then `GET /abc` answers 404 instead of 405, and Allow misses methods")
		}
	})

	alias := map[string]string{
		"call:Path":                     "read:DefaultCtx.path",
		"call:getDetectionPath":         "read:DefaultCtx.detectionPath",
		"call:methodExistCustom":        "call:methodExist",
		"write:DefaultCtx.indexRoute++": "write:DefaultCtx.indexRoute",
	}
	nextAlphabet := []string{
		"write:DefaultCtx.indexRoute", "read:DefaultCtx.indexRoute", "write:DefaultCtx.route", "write:DefaultCtx.matched", "write:DefaultCtx.indexHandler",
		"branch:DefaultCtx.matched", "branch:Route.use", "branch:Route.mount", "branch:len(Route.Handlers)", "callelem:Route.Handlers",
		"read:App.treeStack", "read:DefaultCtx.methodInt", "read:DefaultCtx.treePathHash", "read:DefaultCtx.detectionPath", "read:DefaultCtx.path", "read:DefaultCtx.values",
		"call:match", "call:methodExist", "call:NewError", "global:ErrMethodNotAllowed",
	}
	r.rule("R5", "sibling agreement of the default and custom-context scanners on the dispatch alphabet (E5)", func() {
		withoutHelpers(func() { // attribution rule: each construct belongs to the one function that contains it
			for _, pair := range [][2]string{{"(*App).next", "(*App).nextCustom"}, {"(*App).methodExist", "(*App).methodExistCustom"}} {
				// what a scanner does includes what the helpers do that only it calls (`tree := app.routesFor(m, hash)`)
				setOf := func(name string) map[string]ssa.Instruction {
					f := r.Fn("", name)
					acts := g.actionSet(f, alias)
					for _, hl := range privateHelpersOf(f) {
						if n := strings.Replace(short(hl.String()), "fiber.", "", 1); n == "(*App).next" || n == "(*App).nextCustom" || n == "(*App).methodExist" || n == "(*App).methodExistCustom" {
							continue // a scanner of its own: compared with its own sibling
						}
						for k, v := range g.actionSet(hl, alias) {
							if _, ok := acts[k]; !ok {
								acts[k] = v
							}
						}
					}
					return restrict(acts, nextAlphabet)
				}
				a := setOf(pair[0])
				b := setOf(pair[1])
				r.count("alphabet actions", len(a)+len(b))
				onlyA, onlyB := actionDiff(a, b)
				for _, x := range onlyA {
					r.bad(pair[1]+":missing:"+x, r.fpos(r.Fn("", pair[1])), fmt.Sprintf("%s performs %q, %s does not (at %s) — custom-context apps dispatch differently", pair[0], x, pair[1], r.pos(a[x])))
				}
				for _, x := range onlyB {
					r.bad(pair[0]+":missing:"+x, r.fpos(r.Fn("", pair[0])), fmt.Sprintf("%s performs %q, %s does not (at %s)", pair[1], x, pair[0], r.pos(b[x])))
				}
				if len(onlyA)+len(onlyB) == 0 {
					r.ok(pair[0]+"≡"+pair[1], r.fpos(r.Fn("", pair[0])), "equal action sets on the dispatch alphabet: "+actionList(a))
				}
			}
			// ordering facts inside each next*: match is called before route/matched are written; the handler runs after indexHandler=0
			for _, fn := range []string{"(*App).next", "(*App).nextCustom"} {
				f := r.Fn("", fn)
				m := callsMatching(f, false, nameHasSuffix(".Route).match"))
				r.need(len(m) == 1, fn+" calls Route.match once")
				brs := ifsOnValue(f, m[0].Value())
				r.need(len(brs) >= 1, fn+" branches on the match result")
				for _, br := range brs {
					slot, _ := br.truthSlot(false)
					_, hit := reachEdge(edge{br.If.Block(), slot}, func(in ssa.Instruction) bool {
						if g.instrWrites(in, "DefaultCtx.route") {
							return true
						}
						if ci, ok := in.(ssa.CallInstruction); ok {
							return strings.HasPrefix(calleeName(ci.Common()), "dynamic") || actionIsHandlerCall(ci)
						}
						return false
					}, map[edge]bool{}, func(in ssa.Instruction) bool { return in == m[0].Instr })
					r.check(hit == nil, fn+":no-match↛handler", r.pos(br.If), "from the no-match edge neither the route store nor a handler call is reachable before the next match attempt",
						"a handler or the route store is reachable after a failed match without a new match")
				}
			}
		})
	})

	r.rule("R6", "405 discipline: Allow is appended only after a match on a non-Use route of another method; 405 only when nothing matched (E1)", func() {
		for _, fn := range []string{"(*App).methodExist", "(*App).methodExistCustom"} {
			f := r.Fn("", fn)
			app := instrsWhere(f, func(in ssa.Instruction) bool {
				return isCallTo(in, func(s string) bool { return strings.HasSuffix(s, ").Append") })
			})
			r.need(len(app) >= 1, fn+" appends the Allow header")
			isAppend := func(in ssa.Instruction) bool { return in == app[0] }
			m := callsMatching(f, false, nameHasSuffix(".Route).match"))
			r.need(len(m) == 1, fn+" calls match once")
			// gate 1: match true
			cut := map[edge]bool{}
			for _, br := range ifsOnValue(f, m[0].Value()) {
				if s, ok := br.truthSlot(true); ok {
					cut[edge{br.If.Block(), s}] = true
				}
			}
			_, hit := reach(entryOf(f), isAppend, cut, nil)
			r.check(len(cut) > 0 && hit == nil, fn+":allow-needs-match", r.pos(app[0]), "Allow is unreachable with the match-true edge removed", "Allow can be appended without a successful match")
			// gate 2: non-use route
			cut = map[edge]bool{}
			for _, br := range branchesIn(f) {
				if loadOfField(br.Info.Root, "Route.use") {
					if s, ok := br.truthSlot(false); ok {
						cut[edge{br.If.Block(), s}] = true
					}
				}
			}
			_, hit = reach(entryOf(f), isAppend, cut, nil)
			r.check(len(cut) > 0 && hit == nil, fn+":allow-needs-endpoint", r.pos(app[0]), "Allow is unreachable with the `!route.use` edge removed", "a Use prefix can produce an Allow entry (every 404 under a middleware prefix would become 405)")
			// gate 3: other method
			cut = map[edge]bool{}
			for _, br := range branchesIn(f) {
				if br.Info.Op == token.EQL && br.Info.Other != nil {
					for _, v := range []ssa.Value{br.Info.Root, br.Info.Other} {
						if n := readAccessorName(g, v); n == "DefaultCtx.methodInt" {
							cut[edge{br.If.Block(), br.slotWhenRel(false)}] = true
						}
					}
				}
			}
			_, hit = reach(entryOf(f), isAppend, cut, nil)
			r.check(len(cut) > 0 && hit == nil, fn+":allow-skips-own-method", r.pos(app[0]), "Allow is unreachable with the `method != current` edge removed", "the request's own method can be listed in Allow")
		}
		for _, fn := range []string{"(*App).next", "(*App).nextCustom"} {
			f := r.Fn("", fn)
			loads := instrsWhere(f, func(in ssa.Instruction) bool {
				u, ok := in.(*ssa.UnOp)
				if !ok || u.Op != token.MUL {
					return false
				}
				gl, ok := u.X.(*ssa.Global)
				return ok && gl.Name() == "ErrMethodNotAllowed"
			})
			r.need(len(loads) >= 1, fn+" uses ErrMethodNotAllowed")
			is405 := func(in ssa.Instruction) bool { return in == loads[0] }
			cut := map[edge]bool{}
			for _, br := range branchesIn(f) {
				if readAccessorName(g, br.Info.Root) == "DefaultCtx.matched" {
					if s, ok := br.truthSlot(false); ok {
						cut[edge{br.If.Block(), s}] = true
					}
				}
			}
			// restrict to the branch that dominates the 405 (the earlier `!matched && !route.use` test is a different one)
			for e := range cut {
				if !dom(e.To(), loads[0].Block()) {
					delete(cut, e)
				}
			}
			_, hit := reach(entryOf(f), is405, cut, nil)
			r.check(len(cut) > 0 && hit == nil, fn+":405-needs-unmatched", r.pos(loads[0]), "405 is unreachable with the `!matched` edge removed", "405 can replace 404 although an endpoint had matched")
			me := callsMatching(f, false, nameHasSuffix("App).methodExist", "App).methodExistCustom"))
			r.need(len(me) == 1, fn+" calls methodExist*")
			cut = map[edge]bool{}
			for _, br := range ifsOnValue(f, me[0].Value()) {
				if s, ok := br.truthSlot(true); ok {
					cut[edge{br.If.Block(), s}] = true
				}
			}
			_, hit = reach(entryOf(f), is405, cut, nil)
			r.check(len(cut) > 0 && hit == nil, fn+":405-needs-other-method", r.pos(loads[0]), "405 is unreachable with the methodExist-true edge removed", "405 is produced without another method matching")
			// the `an endpoint matched` flag only ever goes up while the chain is scanned: a later middleware route that
			// matches must not take it back (the 405 fallback would then answer for a path an endpoint did handle)
			nset := 0
			for _, b := range f.Blocks {
				for _, in := range b.Instrs {
					var val ssa.Value
					if st, ok := in.(*ssa.Store); ok {
						if fa, ok := st.Addr.(*ssa.FieldAddr); ok {
							if fv := fieldVar(fa.X.Type(), fa.Field); fv != nil && fieldOwner(fv)+"."+fv.Name() == "DefaultCtx.matched" {
								val = st.Val
							}
						}
					}
					if ci, ok := in.(ssa.CallInstruction); ok && strings.HasSuffix(calleeName(ci.Common()), "Ctx).setMatched") {
						val = ci.Common().Args[len(ci.Common().Args)-1]
					}
					if val == nil {
						continue
					}
					nset++
					b, isC := constBool(asConst(val))
					r.check(isC && b, fmt.Sprintf("%s:matched-only-set#%d", fn, nset), r.pos(in), "the flag is set to the constant true",
						"the scanner assigns a computed value to the `endpoint matched` flag: a middleware route that matches after an endpoint clears it, and GET /res — handled by an endpoint that called Next — is answered 405 with the other methods' Allow list instead of 404")
				}
			}
			r.atLeast(fn+" writes of the matched flag", nset, 1)
		}
	})

	r.rule("R7", "addRoute appends handlers to the previous route only under equal Path, equal use and both not mount (E1, 4 gates)", func() {
		f := r.Fn("", "(*App).addRoute")
		var target ssa.Instruction
		for _, fr := range fieldRefs(f) {
			if fr.Write && fr.Name == "Route.Handlers" {
				target = fr.Instr
			}
		}
		r.need(target != nil, "addRoute stores Route.Handlers (merge branch)")
		isT := func(in ssa.Instruction) bool { return in == target }
		// a gate is a branch edge, or (inside a boolean helper the guard was moved into) the value the helper answers
		eqOf := func(field string) func(ci condInfo) (bool, bool) {
			return func(ci condInfo) (bool, bool) {
				if (ci.Op != token.EQL && ci.Op != token.NEQ) || ci.Other == nil {
					return false, false
				}
				if !loadOfField(ci.Root, field) || !loadOfField(ci.Other, field) {
					return false, false
				}
				return ci.Op == token.EQL, true
			}
		}
		gates := map[string][]gateItem{
			"equal-Path": gateItemsIn(f, eqOf("Route.Path")),
			"equal-use":  gateItemsIn(f, eqOf("Route.use")),
			"not-mount": gateItemsIn(f, func(ci condInfo) (bool, bool) {
				if ci.Op != token.ILLEGAL || !loadOfField(ci.Root, "Route.mount") {
					return false, false
				}
				return false, true
			}),
		}
		for _, gname := range []string{"equal-Path", "equal-use"} {
			_, hit := reach(entryOf(f), isT, cutsFor(f, gates[gname]), nil)
			r.check(len(gates[gname]) > 0 && hit == nil, "addRoute:merge-needs-"+gname, r.pos(target), "merge unreachable with the "+gname+" edge removed", "handlers can be merged into the previous route without "+gname)
		}
		// both mount tests are needed: removing either one alone must make the merge unreachable
		r.check(len(gates["not-mount"]) >= 2, "addRoute:merge-needs-both-not-mount", r.pos(target), "two mount tests guard the merge", "fewer than two `!mount` tests guard the merge")
		for i, it := range gates["not-mount"] {
			_, hit := reach(entryOf(f), isT, cutsFor(f, []gateItem{it}), nil)
			r.check(hit == nil, fmt.Sprintf("addRoute:merge-needs-not-mount#%d", i), r.pos(target), "merge unreachable with this `!mount` edge removed", "a mount placeholder can be merged with a neighbouring route")
		}
		// the other branch assigns pos from the global counter and appends to the stack
		posStore := false
		for _, fr := range fieldRefs(f) {
			if fr.Write && fr.Name == "Route.pos" {
				if c, _ := producerCall(fr.Val); c != nil && strings.HasSuffix(calleeName(&c.Call), "atomic.AddUint32") {
					posStore = true
				}
			}
		}
		r.check(posStore, "addRoute:pos-from-counter", r.fpos(f), "new routes get pos from the atomic routes counter", "route position is not taken from the global counter")
	})

	r.rule("R9", "handler slices shared by the per-method copies of one registration are never appended to in place (E11, aliasing)", func() {
		reg := r.Fn("", "(*App).register")
		// precondition (belief): register stores one handlers slice into several routes (inside its method loop)
		shared := false
		for _, fr := range fieldRefs(reg) {
			if fr.Write && fr.Name == "Route.Handlers" {
				if _, isParam := fr.Val.(*ssa.Parameter); isParam {
					shared = true
				}
			}
		}
		r.need(shared, "register stores its handlers parameter into Route.Handlers")
		n := 0
		r.P.AllFuncs("", func(f *ssa.Function) {
			for _, c := range callsMatching(f, false, nameIs("builtin:append")) {
				if !loadOfField(c.Common.Args[0], "Route.Handlers") {
					// append(x.Handlers[:n:n], ...) — a full slice expression caps the capacity: append must copy
					if sl, ok := c.Common.Args[0].(*ssa.Slice); ok && loadOfField(sl.X, "Route.Handlers") {
						n++
						r.check(sl.Max != nil, f.Name()+":append-to-Route.Handlers", r.pos(c.Instr), "the appended-to slice is capped (full slice expression): append copies",
							f.Name()+" appends to a re-slice of Route.Handlers without capping its capacity")
					}
					continue
				}
				n++
				r.bad(f.Name()+":append-to-Route.Handlers", r.pos(c.Instr), f.Name()+" appends to Route.Handlers in place, but the per-method copies of one registration (app.All / Use) share that slice's backing array: with app.All(\"/x\", h1..h5); app.Get(\"/x\", g); app.Post(\"/x\", p) the GET route runs p instead of g")
			}
		})
		r.atLeast("appends to Route.Handlers", n, 1)
	})

	r.rule("R10", "a root-level middleware route matches every request: in Route.match, from the `use` and `root` edges no answer other than true is reachable (a detection path can be empty: a path of slashes only, trimmed as trailing slashes) (E1)", func() {
		f := r.Fn("", "(*Route).match")
		var useTrue []edge
		for _, br := range branchesInOne(f) {
			if loadOfField(br.Info.Root, "Route.use") {
				if s, ok := br.truthSlot(true); ok {
					useTrue = append(useTrue, edge{br.If.Block(), s})
				}
			}
		}
		r.need(len(useTrue) >= 1, "Route.match branches on Route.use")
		notTrue := func(in ssa.Instruction) bool {
			ret, ok := in.(*ssa.Return)
			if !ok || ret.Parent() != f || len(ret.Results) != 1 {
				return false
			}
			b, isC := constBool(asConst(stripValue(ret.Results[0])))
			return !(isC && b)
		}
		n := 0
		for _, ue := range useTrue {
			for _, br := range branchesInOne(f) {
				if !loadOfField(br.Info.Root, "Route.root") || !dom(ue.To(), br.If.Block()) || len(ue.To().Preds) != 1 {
					continue
				}
				s, ok := br.truthSlot(true)
				if !ok {
					continue
				}
				n++
				path, hit := reachEdge(edge{br.If.Block(), s}, notTrue, nil, nil)
				r.check(hit == nil, fmt.Sprintf("match:use∧root#%d:matches-everything", n), r.pos(br.If), "from the use ∧ root edge only `return true` is reachable",
					"a middleware registered on the root can fail to match: GET // (detection path empty after the trailing slashes are trimmed) skips app.Use(auth) while /:id? still answers: "+pathString(r.P, path))
			}
		}
		r.atLeast("use ∧ root tests in Route.match", n, 1)
	})

	r.rule("R11", "position 0 is a position: rebaseIndexRoute leaves the cursor alone only while routing has not started — on the tests `route == nil`, `indexRoute < 0`, `methodInt < 0`; every comparison of the cursor with a constant in rebaseIndexRoute (and the helpers it asks) separates the negative values from the positions (`< 0`, `>= 0`, `<= -1`, `> -1`) — a test that also holds for 0 (`<= 0`) skips the translation exactly when the handler that rewrote the path is the first route of its bucket, and the scan continues at index 1 of a bucket whose index 0 may be an earlier-registered route of the new path (E1: the relation separates at the sign)", func() {
		f := r.Fn("", "(*DefaultCtx).rebaseIndexRoute")
		n := 0
		for _, g := range append([]*ssa.Function{f}, helpersOf(f)...) {
			for _, b := range g.Blocks {
				for _, in := range b.Instrs {
					bo, ok := in.(*ssa.BinOp)
					if !ok {
						continue
					}
					op := bo.Op
					var k int64
					var isK bool
					switch {
					case loadOfField(bo.X, "DefaultCtx.indexRoute"):
						k, isK = constInt(asConst(bo.Y))
					case loadOfField(bo.Y, "DefaultCtx.indexRoute"):
						k, isK = constInt(asConst(bo.X))
						op = flipOp(op)
					}
					if !isK {
						continue
					}
					switch op {
					case token.LSS, token.LEQ, token.GTR, token.GEQ, token.EQL, token.NEQ:
					default:
						continue
					}
					n++
					atSign := (op == token.LSS && k == 0) || (op == token.GEQ && k == 0) || (op == token.LEQ && k == -1) || (op == token.GTR && k == -1)
					r.check(atSign, "rebaseIndexRoute:cursor-tests-separate-at-the-sign", r.pos(in), "the cursor is compared at the boundary between `not started` (-1) and the positions (0…)",
						fmt.Sprintf("rebaseIndexRoute decides on `indexRoute %s %d`, which does not separate `routing has not started` (negative) from the positions: for a cursor of 0 — the handler that calls Path(override) is the first route of its bucket — the cursor is not translated and the scan goes on at index 1 of the new bucket: an endpoint registered earlier answers (\"early param\" instead of \"late x\") or the rewriting middleware runs twice", op, k))
				}
			}
		}
		r.atLeast("comparisons of the cursor with a constant in rebaseIndexRoute", n, 1)
	})

	r.rule("R8", "cursor/bucket coherence: every function that assigns treePathHash or methodInt re-bases indexRoute on the same path, or all its callers do (E4c, belief rule)", func() {
		withoutHelpers(func() { // attribution rule: each construct belongs to the one function that contains it
			selectors := []string{"DefaultCtx.treePathHash", "DefaultCtx.methodInt"}
			n := 0
			done := map[string]bool{}
			for _, f := range g.Funcs {
				if f.Pkg == nil || f.Pkg.Pkg.Path() != fiberMod {
					continue
				}
				for _, sel := range selectors {
					for _, fr := range fieldRefs(f) {
						if !fr.Write || fr.Name != sel {
							continue
						}
						n++
						failing, why := rebasedAround(g, f, fr.Instr, map[*ssa.Function]bool{})
						if len(failing) == 0 {
							key := f.RelString(f.Pkg.Pkg) + ":" + sel
							if !done[key] {
								done[key] = true
								r.ok(key, r.pos(fr.Instr), "indexRoute is re-based with this assignment: "+why)
							}
							continue
						}
						for _, top := range failing {
							key := top + ":" + sel
							if done[key] {
								continue
							}
							done[key] = true
							via := ""
							if top != f.RelString(f.Pkg.Pkg) {
								via = " (through " + f.Name() + ")"
							}
							r.bad(key, r.pos(fr.Instr), top+" assigns "+sel+via+", which selects another bucket/stack, but the scan cursor indexRoute keeps pointing into the old bucket: routes are skipped or run twice after a path/method override")
						}
					}
				}
			}
			r.atLeast("selector assignments", n, 3)
			// the re-based cursor: wherever indexRoute is assigned from a binary search over the bucket, the next index
			// examined (cursor+1, next() pre-increments) must be the first route registered AFTER the current one.
			// Sign-domain evaluation (E6): the search predicate over sign(tree[i].pos − current.pos) must be (F,F,T) and the
			// cursor must be the search result − 1. (F,T,T) with offset 0 equals this only when the current route is in the bucket.
			for _, f := range g.Funcs {
				if f.Pkg == nil || f.Pkg.Pkg.Path() != fiberMod {
					continue
				}
				for _, fr := range fieldRefs(f) {
					if !fr.Write || fr.Name != "DefaultCtx.indexRoute" || fr.Val == nil {
						continue
					}
					srch := dependsOn(fr.Val, func(v ssa.Value) bool {
						c, ok := v.(*ssa.Call)
						return ok && calleeName(&c.Call) == "sort.Search"
					})
					if srch == nil {
						// a cursor computed some other way (`slices.Index(tree, c.route)`): only constants, parameters and steps
						// from the cursor itself are anything else than a re-base
						if _, isC := fr.Val.(*ssa.Const); isC {
							continue
						}
						if _, isP := fr.Val.(*ssa.Parameter); isP {
							continue
						}
						if dependsOn(fr.Val, func(v ssa.Value) bool { return loadOfField(v, "DefaultCtx.indexRoute") }) != nil {
							continue
						}
						if dependsOn(fr.Val, func(v ssa.Value) bool { _, ok := v.(*ssa.Call); return ok }) != nil {
							r.bad(f.Name()+":rebase-lands-before-first-later-route", r.pos(fr.Instr), "the scan cursor is computed by something else than a search over the routes' positions: looking the current route itself up in the destination bucket answers −1 when it is not a member (a rewriter registered under a literal prefix), the scan restarts at the top and routes registered before the rewriter run as well")
						}
						continue
					}
					call := srch.(*ssa.Call)
					var pred *ssa.Function
					for _, a := range call.Call.Args {
						if mc, ok := a.(*ssa.MakeClosure); ok {
							pred = mc.Fn.(*ssa.Function)
						}
					}
					offset, okOff := int64(0), fr.Val == ssa.Value(call)
					if bo, ok := fr.Val.(*ssa.BinOp); ok && bo.X == ssa.Value(call) {
						if k, isC := constInt(asConst(bo.Y)); isC {
							switch bo.Op {
							case token.SUB:
								offset, okOff = -k, true
							case token.ADD:
								offset, okOff = k, true
							}
						}
					}
					key := f.Name() + ":rebase-lands-before-first-later-route"
					if pred == nil || !okOff {
						r.undecided(key, r.pos(fr.Instr), "cursor is derived from sort.Search in a form the rule does not understand")
						continue
					}
					// evaluate predicate on the three signs
					var rets []*ssa.Return
					for _, in := range instrsWhere(pred, isReturn) {
						rets = append(rets, in.(*ssa.Return))
					}
					okPred := false
					desc := "predicate is not a single comparison of tree[i].pos with the current position"
					if len(rets) == 1 {
						ci := decompose(retOperand(rets[0], 0))
						if ci.Other != nil {
							lhsIsElem := loadOfField(ci.Root, "Route.pos") && dependsOn(ci.Root, func(v ssa.Value) bool { _, ok := v.(*ssa.Parameter); return ok }) != nil
							rhsIsElem := loadOfField(ci.Other, "Route.pos") && dependsOn(ci.Other, func(v ssa.Value) bool { _, ok := v.(*ssa.Parameter); return ok }) != nil
							op := ci.Op
							if ci.Neg {
								op = negOp(op)
							}
							if rhsIsElem && !lhsIsElem {
								op = flipOp(op)
							}
							if lhsIsElem != rhsIsElem {
								ev := func(sign int) bool {
									switch op {
									case token.GTR:
										return sign > 0
									case token.GEQ:
										return sign >= 0
									case token.LSS:
										return sign < 0
									case token.LEQ:
										return sign <= 0
									case token.EQL:
										return sign == 0
									case token.NEQ:
										return sign != 0
									}
									return false
								}
								desc = fmt.Sprintf("predicate on signs (<,=,>) = (%v,%v,%v), cursor = result%+d", ev(-1), ev(0), ev(1), offset)
								okPred = !ev(-1) && !ev(0) && ev(1) && offset == -1
							}
						}
					}
					r.check(okPred, key, r.pos(fr.Instr), "search predicate is `pos > current` and the cursor is result−1: the next route examined is the first one registered later",
						"after a path override the cursor does not land directly before the first later-registered route of the new bucket ("+desc+"): when the rewriting route is not itself in the destination bucket the first later route is skipped")
				}
			}
		})
	})
}

// rebasedAround: the write `at` in f is accompanied by a write of indexRoute: one dominates it
// or every path from it to a return passes one. If not, an unexported helper defers the
// obligation to each of its callers (at the call site); an exported function (user-facing
// API) fails. Returns the functions that fail.
func rebasedAround(g *Graph, f *ssa.Function, at ssa.Instruction, seen map[*ssa.Function]bool) (failing []string, why string) {
	const cur = "DefaultCtx.indexRoute"
	if seen[f] {
		return nil, "recursive"
	}
	seen[f] = true
	for _, b := range f.Blocks {
		for _, in := range b.Instrs {
			if in != at && g.instrWrites(in, cur) {
				if b == at.Block() && idxIn(in) < idxIn(at) || (b != at.Block() && dom(b, at.Block())) {
					return nil, "cursor write dominates in " + f.Name()
				}
			}
		}
	}
	_, hit := reach(pointAfter(at), isReturn, nil, func(in ssa.Instruction) bool { return g.instrWrites(in, cur) })
	if hit == nil {
		return nil, "every path to return passes a cursor write in " + f.Name()
	}
	if f.Object() != nil && f.Object().Exported() {
		return []string{f.RelString(f.Pkg.Pkg)}, ""
	}
	callers := g.Callers[f]
	if len(callers) == 0 {
		return []string{f.RelString(f.Pkg.Pkg)}, ""
	}
	for _, c := range callers {
		fl, _ := rebasedAround(g, c.Fn, c.Instr, seen)
		failing = append(failing, fl...)
	}
	return failing, "callers: " + fmt.Sprint(len(callers))
}

func readAccessorName(g *Graph, v ssa.Value) string {
	v = stripValue(v)
	if fv := fieldOfValue(v); fv != nil {
		if _, isAddr := v.(*ssa.FieldAddr); !isAddr {
			return fieldOwner(fv) + "." + fv.Name()
		}
	}
	if c, ok := v.(*ssa.Call); ok {
		if c.Call.IsInvoke() && isCtxIface(c.Call.Value.Type()) {
			if a, ok := g.ctxAccessor(c.Call.Method.Name()); ok && !a.Write {
				return a.Field
			}
		}
		if sc := c.Call.StaticCallee(); sc != nil {
			if a, ok := trivialAccessor(sc); ok && !a.Write {
				return a.Field
			}
		}
	}
	return ""
}

func actionIsHandlerCall(ci ssa.CallInstruction) bool {
	cc := ci.Common()
	if cc.IsInvoke() || cc.StaticCallee() != nil {
		return false
	}
	if u, ok := cc.Value.(*ssa.UnOp); ok && u.Op == token.MUL {
		if ia, ok := u.X.(*ssa.IndexAddr); ok {
			return loadOfField(ia.X, "Route.Handlers")
		}
	}
	return false
}

// comparatorIsAscendingOn: closure `func(i, j int) bool { return x[i].F < x[j].F }`.
// Decided by enumerating the three sign cases of (key_i ? key_j) on the boolean structure:
// only a bare `<` between the i-side and j-side loads of F yields {<:true, =:false, >:false}.
func comparatorIsAscendingOn(cmp *ssa.Function, field string) (bool, string) {
	if len(cmp.Params) != 2 {
		return false, "not a 2-parameter comparator"
	}
	var rets []*ssa.Return
	for _, in := range instrsWhere(cmp, isReturn) {
		rets = append(rets, in.(*ssa.Return))
	}
	if len(rets) != 1 {
		return false, "comparator has several returns (not a single comparison)"
	}
	ci := decompose(retOperand(rets[0], 0))
	if ci.Other == nil || ci.Const != nil {
		return false, "result is not a comparison of two keys"
	}
	side := func(v ssa.Value) int { // 0 = indexed by first param, 1 = second, -1 unknown
		if !loadOfField(v, field) {
			return -1
		}
		hit := dependsOn(v, func(x ssa.Value) bool { _, ok := x.(*ssa.Parameter); return ok })
		if hit == nil {
			return -1
		}
		if hit == ssa.Value(cmp.Params[0]) {
			return 0
		}
		return 1
	}
	l, rr := side(ci.Root), side(ci.Other)
	if l < 0 || rr < 0 || l == rr {
		return false, "operands are not the " + field + " keys of element i and element j"
	}
	op := ci.Op
	if ci.Neg {
		op = negOp(op)
	}
	if l == 1 { // key_j OP key_i  ≡ key_i flip(OP) key_j
		op = flipOp(op)
	}
	// evaluate on sign vectors
	eval := func(sign int) bool { // sign of key_i - key_j
		switch op {
		case token.LSS:
			return sign < 0
		case token.LEQ:
			return sign <= 0
		case token.GTR:
			return sign > 0
		case token.GEQ:
			return sign >= 0
		case token.EQL:
			return sign == 0
		case token.NEQ:
			return sign != 0
		}
		return false
	}
	if eval(-1) && !eval(0) && !eval(1) {
		return true, ""
	}
	return false, fmt.Sprintf("relation on signs (<,=,>) = (%v,%v,%v), want (true,false,false)", eval(-1), eval(0), eval(1))
}

// bucketChoiceByLastWrite: the variable the scanner reads its bucket from holds the hashed bucket after the ok edge
// of `bucket, ok := m[hash]` and bucket 0 after the !ok edge, whichever way round the two assignments are written
// (`tree := m[0]; if b, ok := m[h]; ok { tree = b }`).  Decided on the variable's writes: a memory cell (the variable
// is captured by a closure) by the last store on each side, a register by the edges of its phi.
func bucketChoiceByLastWrite(f *ssa.Function, commaok, zero *ssa.Lookup) bool {
	var okEdge, notOkEdge *edge
	for _, br := range branchesIn(f) {
		if ex, ok := stripValue(br.Info.Root).(*ssa.Extract); ok && ex.Tuple == commaok && ex.Index == 1 {
			if s1, ok := br.truthSlot(true); ok {
				e1, e0 := edge{br.If.Block(), s1}, edge{br.If.Block(), 1 - s1}
				okEdge, notOkEdge = &e1, &e0
			}
		}
	}
	if okEdge == nil {
		return false
	}
	isHashed := func(v ssa.Value) bool {
		ex, ok := stripValue(v).(*ssa.Extract)
		return ok && ex.Tuple == commaok && ex.Index == 0
	}
	isZero := func(v ssa.Value) bool { return stripValue(v) == ssa.Value(zero) }
	ifBlock := okEdge.From
	// register form
	for _, b := range f.Blocks {
		for _, in := range b.Instrs {
			ph, ok := in.(*ssa.Phi)
			if !ok || len(ph.Edges) != 2 {
				continue
			}
			good := 0
			for k, ev := range ph.Edges {
				pred := b.Preds[k]
				side := func(e *edge) bool {
					return (pred == ifBlock && e.To() == b) || (e.To() != b && dom(e.To(), pred))
				}
				if isHashed(ev) && side(okEdge) && !side(notOkEdge) {
					good++
				}
				if isZero(ev) && side(notOkEdge) && !side(okEdge) {
					good++
				}
			}
			if good == 2 {
				return true
			}
		}
	}
	// cell form
	var cell ssa.Value
	var s0, s1 []*ssa.Store
	for _, b := range f.Blocks {
		for _, in := range b.Instrs {
			st, ok := in.(*ssa.Store)
			if !ok {
				continue
			}
			if isZero(st.Val) {
				s0 = append(s0, st)
				cell = st.Addr
			}
		}
	}
	if len(s0) != 1 || cell == nil {
		return false
	}
	others := 0
	for _, b := range f.Blocks {
		for _, in := range b.Instrs {
			if st, ok := in.(*ssa.Store); ok && st.Addr == cell && st != s0[0] {
				if isHashed(st.Val) {
					s1 = append(s1, st)
				} else {
					others++
				}
			}
		}
	}
	if len(s1) != 1 || others != 0 {
		return false
	}
	z, h := ssa.Instruction(s0[0]), ssa.Instruction(s1[0])
	before := func(x ssa.Instruction) bool { // x is executed on every path to the If, ahead of it
		return x.Block() == ifBlock || (dom(x.Block(), ifBlock) && x.Block() != ifBlock)
	}
	later := func(x, y ssa.Instruction) bool { // both before the If: x after y
		if x.Block() == y.Block() {
			for _, in := range x.Block().Instrs {
				if in == y {
					return true
				}
				if in == x {
					return false
				}
			}
		}
		return dom(y.Block(), x.Block())
	}
	holdsAfter := func(e *edge, want, other ssa.Instruction) bool {
		is := func(t ssa.Instruction) func(ssa.Instruction) bool {
			return func(in ssa.Instruction) bool { return in == t }
		}
		if _, hit := reachEdge(*e, is(other), nil, nil); hit != nil {
			return false // the other value is written on this side
		}
		if _, hit := reachEdge(*e, is(want), nil, nil); hit != nil {
			_, miss := reachEdge(*e, isReturn, nil, is(want))
			return miss == nil // written on every path of this side
		}
		// not written on this side: it is what the variable held at the branch
		if !before(want) {
			return false
		}
		return !before(other) || later(want, other)
	}
	return holdsAfter(okEdge, h, z) && holdsAfter(notOkEdge, z, h)
}

// bucketMapIndex returns the index expression m of a per-method map read treeStack[m] (nil when v is not such a read).
func bucketMapIndex(v ssa.Value) ssa.Value {
	switch x := stripValue(v).(type) {
	case *ssa.UnOp:
		if ia, ok := x.X.(*ssa.IndexAddr); ok {
			return ia.Index
		}
	case *ssa.Index:
		return x.Index
	}
	return nil
}

// sameExpr: the two values are the same expression — the same SSA value, re-loads of one address, or calls of the same
// argument-free method on the same receiver expression (c.getMethodInt() written twice).
func sameExpr(a, b ssa.Value) bool {
	a, b = stripValue(a), stripValue(b)
	if sameValue(a, b) {
		return true
	}
	ca, ok1 := a.(*ssa.Call)
	cb, ok2 := b.(*ssa.Call)
	if ok1 && ok2 && calleeName(&ca.Call) == calleeName(&cb.Call) && len(ca.Call.Args) == len(cb.Call.Args) {
		if ca.Call.IsInvoke() != cb.Call.IsInvoke() {
			return false
		}
		if ca.Call.IsInvoke() && !sameExpr(ca.Call.Value, cb.Call.Value) {
			return false
		}
		for i := range ca.Call.Args {
			if !sameExpr(ca.Call.Args[i], cb.Call.Args[i]) {
				return false
			}
		}
		return true
	}
	if ua, ok := a.(*ssa.UnOp); ok {
		if ub, ok := b.(*ssa.UnOp); ok && ua.Op == ub.Op {
			if fa, ok := ua.X.(*ssa.FieldAddr); ok {
				if fb, ok := ub.X.(*ssa.FieldAddr); ok {
					return fa.Field == fb.Field && sameExpr(fa.X, fb.X)
				}
			}
			if ia, ok := ua.X.(*ssa.IndexAddr); ok {
				if ib, ok := ub.X.(*ssa.IndexAddr); ok {
					return sameExpr(ia.X, ib.X) && sameExpr(ia.Index, ib.Index)
				}
			}
		}
	}
	return false
}
